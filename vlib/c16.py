"""C16 — alias elimination merges variable metadata soundly.

Generated Modelica alias chains/trees are compiled with the real casadi backend and run through
Model.simplify({"detect_aliases": True, ...}) once or twice (child process, vlib/impl/c16.py).
(a) oracle: an independent reference of the property text judges every remaining variable;
(b) correspondence: the Gallina model (Model/C16_merge.v) is evaluated inside coqc on every
    (pass, canonical variable) with the alias list in the implementation's own iteration order.
"""
import json
from fractions import Fraction as F

from . import core
from .core import cq_bool

THEOREMS = ["C16_bounds_intersection", "C16_bounds_formula", "C16_nominal", "C16_fixed",
            "C16_start_kept", "C16_start_taken", "C16_order_independent",
            "C16_repeat_pass_identity", "C16_example"]

INF = "inf"
NINF = "-inf"


# ---------------------------------------------------------------------------
# generator
# ---------------------------------------------------------------------------
def dy(rng, lo=-8, hi=8, den=4):
    return F(rng.randint(lo * den, hi * den), den)


def lit(q):
    """Modelica literal of a dyadic rational (exact in binary floating point)."""
    q = F(q)
    s = repr(float(abs(q)))
    assert F(float(abs(q))) == abs(q)
    return ("-" if q < 0 else "") + s


def fr(q):
    return None if q is None else "%d/%d" % (F(q).numerator, F(q).denominator)


SYL = ["a", "b", "c", "d", "e", "f", "g", "h", "k", "m", "n", "q", "r", "s", "t", "u", "v", "w", "x", "y", "z",
       "al", "be", "ga", "mu", "nu", "xi", "rho", "tau", "phi", "psi", "flo", "lev", "vol", "pr"]


def fresh_name(rng, used):
    while True:
        n = rng.choice(SYL) + rng.choice(["", "", "_"]) + rng.choice(["", str(rng.randint(0, 99))])
        if rng.random() < 0.2:
            n = n.upper() if rng.random() < 0.3 else n + rng.choice(SYL)
        if n not in used and n not in ("time", "der", "end", "in", "if", "or", "and", "not"):
            used.add(n)
            return n


def gen_attrs(rng, params, used):
    """Random declared attributes.  Each numeric attribute is (value, via_parameter_name|None)."""
    a = {"min": None, "max": None, "nominal": None, "fixed": None, "start": None, "via": {}}
    if rng.random() < 0.6:
        a["min"] = dy(rng, -8, 4)
    if rng.random() < 0.6:
        lo = a["min"] if a["min"] is not None and rng.random() < 0.85 else F(-8)
        a["max"] = lo + F(rng.randint(0, 32), 4)
    if rng.random() < 0.5:
        a["nominal"] = F(rng.randint(1, 64), 4) if rng.random() < 0.9 else dy(rng, -4, 0)
    r = rng.random()
    if r < 0.25:
        a["fixed"] = True
    elif r < 0.35:
        a["fixed"] = False
    if rng.random() < 0.45:
        a["start"] = dy(rng, -6, 6)
    for k, p in (("start", 0.25), ("min", 0.12), ("max", 0.12), ("nominal", 0.08)):
        if a[k] is not None and rng.random() < p:
            pn = fresh_name(rng, used)
            shape = rng.choice(["p", "p", "-p", "2*p"]) if k == "start" else "p"
            params.append((pn, {"p": a[k], "-p": -a[k], "2*p": a[k] / 2}[shape]))
            a["via"][k] = {"p": pn, "-p": "-" + pn, "2*p": "2 * " + pn}[shape]
    return a


POS_FORMS = ["{a} = {b}", "{b} = {a}", "{a} - {b} = 0", "0 = {b} - {a}"]
NEG_FORMS = ["{a} = -{b}", "-{a} = {b}", "{a} + {b} = 0", "0 = {a} + {b}"]
LATE_POS = ["{a} = {b} + {c}", "{a} - {b} = {c}"]
LATE_NEG = ["{a} = -{b} + {c}", "{a} + {b} = {c}"]


def gen_case(rng, idx):
    used = set()
    params = []
    mode = rng.random()
    two = mode >= 0.55
    late_mode = mode >= 0.70      # two passes, the second one discovers more aliases
    cname = fresh_name(rng, used) if late_mode else None
    decls, eqs, vars_ = [], [], {}
    edges = []                    # (a, b, sign, late): a = sign * b
    for comp in range(rng.randint(1, 3)):
        kind = rng.choice(["state", "state", "alg", "alg", "input", "input", "param"])
        n_more = rng.randint(1, 5)
        members = []
        for j in range(n_more + 1):
            nm = fresh_name(rng, used)
            k = kind if j == 0 else "alg"
            at = gen_attrs(rng, params, used)
            vars_[nm] = {"kind": k, "attrs": at}
            members.append(nm)
            if j > 0:
                b = rng.choice(members[:-1])
                neg = rng.random() < 0.5
                late = late_mode and rng.random() < 0.4
                edges.append((nm, b, -1 if neg else 1, late))
                # agreeing start values exercise the "equal start attribute" branch
                if rng.random() < 0.15 and vars_[b]["attrs"]["start"] is not None and not vars_[b]["attrs"]["via"].get("start"):
                    at["start"] = vars_[b]["attrs"]["start"] * (-1 if neg else 1)
                    at["via"].pop("start", None)
        if kind == "state":
            eqs.append("der(%s) = %s" % (members[0], rng.choice(["1", members[0], "-0.5 * " + members[-1]])))
        elif kind == "alg":
            eqs.append("%s * %s + sin(time) = 2" % (rng.choice(members), rng.choice(members)))
    for a, b, s, late in edges:
        if late:
            form = rng.choice(LATE_NEG if s < 0 else LATE_POS)
        else:
            form = rng.choice(NEG_FORMS if s < 0 else POS_FORMS)
        eqs.append(form.format(a=a, b=b, c=cname))
    rng.shuffle(eqs)
    lines = ["model M%d" % idx]
    for pn, pv in params:
        lines.append("  parameter Real %s = %s;" % (pn, lit(pv)))
    if cname:
        lines.append("  constant Real %s = 0;" % cname)
    order = list(vars_)
    rng.shuffle(order)
    for nm in order:
        v = vars_[nm]
        at = v["attrs"]
        mods = []
        keys = ["min", "max", "nominal", "fixed", "start"]
        rng.shuffle(keys)
        for k in keys:
            if at[k] is None:
                continue
            if k == "fixed":
                mods.append("fixed = %s" % ("true" if at[k] else "false"))
            else:
                mods.append("%s = %s" % (k, at["via"].get(k) or lit(at[k])))
        m = "(%s)" % ", ".join(mods) if mods else ""
        if v["kind"] == "input":
            lines.append("  input Real %s%s;" % (nm, m))
        elif v["kind"] == "param":
            lines.append("  parameter Real %s%s = %s;" % (nm, m, lit(dy(rng, -2, 2))))
        else:
            lines.append("  Real %s%s;" % (nm, m))
    lines.append("equation")
    lines += ["  %s;" % e for e in eqs]
    lines.append("end M%d;" % idx)
    p1 = {"detect_aliases": True}
    if rng.random() < 0.1:
        p1["expand_mx"] = True
    passes = [p1]
    if late_mode:
        passes.append({"detect_aliases": True, "replace_constant_values": True})
    elif two:
        passes.append({"detect_aliases": True})
    declared = {}
    for nm, v in vars_.items():
        at = v["attrs"]
        declared[nm] = {"kind": v["kind"], "min": fr(at["min"]), "max": fr(at["max"]),
                        "nominal": fr(at["nominal"]), "fixed": at["fixed"], "start": fr(at["start"]),
                        "start_via_param": bool(at["via"].get("start"))}
    return {"text": "\n".join(lines) + "\n", "cls": "M%d" % idx, "passes": passes,
            "declared": declared,
            "edges": [[a, b, s, late] for a, b, s, late in edges]}



# ---- array alias models: the elements are aliased one by one after _expand_vectors (same simplify call) ----
def gen_array_attrs(rng, n, params, used, p_start):
    """per-element attribute values + the Modelica modification text"""
    el = [{"min": None, "max": None, "nominal": None, "fixed": None, "start": None} for _ in range(n)]
    mods = []
    for k, p in (("min", 0.5), ("max", 0.5), ("nominal", 0.5), ("start", p_start)):
        if rng.random() >= p:
            continue
        each = rng.random() < 0.5
        vals = []
        for i in range(n):
            if each and i > 0:
                v = vals[0]
            elif k == "min":
                v = dy(rng, -8, 2)
            elif k == "max":
                v = dy(rng, -2, 8)
            elif k == "nominal":
                v = F(rng.randint(1, 64), 4)
            else:
                v = dy(rng, -6, 6)
                if v == 0 and rng.random() < 0.8:
                    v = F(rng.randint(1, 24), 4)
            vals.append(v)
        txt = []
        for i, v in enumerate(vals):
            if k == "start" and rng.random() < 0.2 and (not each or i == 0):
                pn = fresh_name(rng, used)
                params.append((pn, v))
                txt.append(pn)
            else:
                txt.append(lit(v))
        if each:
            mods.append("each %s = %s" % (k, txt[0]))
        else:
            mods.append("%s = {%s}" % (k, ", ".join(txt)))
        for i in range(n):
            el[i][k] = vals[i]
    r = rng.random()
    if r < 0.3:
        b = rng.random() < 0.75
        mods.append("each fixed = %s" % ("true" if b else "false"))
        for i in range(n):
            el[i]["fixed"] = b
    elif r < 0.45:
        bs = [rng.random() < 0.5 for _ in range(n)]
        mods.append("fixed = {%s}" % ", ".join("true" if b else "false" for b in bs))
        for i in range(n):
            el[i]["fixed"] = bs[i]
    rng.shuffle(mods)
    return el, ("(%s)" % ", ".join(mods) if mods else "")


def gen_array_case(rng, idx):
    used, params = set(), []
    mode = rng.random()
    late_mode = mode >= 0.70
    cname = fresh_name(rng, used) if late_mode else None
    lines_decl, eqs, declared, edges = [], [], {}, []
    for comp in range(rng.randint(1, 2)):
        n = rng.choice([2, 2, 3])
        kind = rng.choice(["state", "alg", "input", "input"])
        members = []
        for j in range(rng.randint(1, 3) + 1):
            nm = fresh_name(rng, used)
            k = kind if j == 0 else "alg"
            el, mod = gen_array_attrs(rng, n, params, used, 0.3 if j == 0 else 0.65)
            lines_decl.append("  %sReal %s[%d]%s;" % ("input " if k == "input" else "", nm, n, mod))
            for i in range(n):
                at = el[i]
                declared["%s[%d]" % (nm, i + 1)] = {
                    "kind": k, "min": fr(at["min"]), "max": fr(at["max"]), "nominal": fr(at["nominal"]),
                    "fixed": at["fixed"], "start": fr(at["start"]), "start_via_param": False}
            members.append(nm)
            if j == 0:
                continue
            b = rng.choice(members[:-1])
            late = late_mode and rng.random() < 0.4
            if late or rng.random() < 0.4:          # element-wise, each element with its own sign
                for i in range(1, n + 1):
                    sg = -1 if rng.random() < 0.5 else 1
                    forms = (LATE_NEG if sg < 0 else LATE_POS) if late else (NEG_FORMS if sg < 0 else POS_FORMS)
                    eqs.append(rng.choice(forms).format(a="%s[%d]" % (nm, i), b="%s[%d]" % (b, i), c=cname))
                    edges.append(["%s[%d]" % (nm, i), "%s[%d]" % (b, i), sg, late])
            else:                                   # whole-array equation
                sg = -1 if rng.random() < 0.5 else 1
                zeros = "{{%s}}" % ", ".join(["0.0"] * n)
                forms = (["{a} = -{b}", "-{a} = {b}", "{a} + {b} = " + zeros] if sg < 0
                         else ["{a} = {b}", "{b} = {a}", "{a} - {b} = " + zeros])
                eqs.append(rng.choice(forms).format(a=nm, b=b))
                for i in range(1, n + 1):
                    edges.append(["%s[%d]" % (nm, i), "%s[%d]" % (b, i), sg, False])
        if kind == "state":
            eqs.append("der(%s) = %s" % (members[0], rng.choice([members[0], "{%s}" % ", ".join(["1.0"] * n)])))
        elif kind == "alg":
            m = rng.choice(members)
            for i in range(1, n + 1):
                eqs.append("%s[%d] * %s[%d] + sin(time) = 2" % (m, i, m, i))
    rng.shuffle(eqs)
    rng.shuffle(lines_decl)
    lines = ["model A%d" % idx] + ["  parameter Real %s = %s;" % (pn, lit(pv)) for pn, pv in params]
    if cname:
        lines.append("  constant Real %s = 0;" % cname)
    lines += lines_decl + ["equation"] + ["  %s;" % e for e in eqs] + ["end A%d;" % idx]
    mx = rng.random() < 0.35
    passes = [{"expand_vectors": True, "expand_mx": mx, "detect_aliases": True}]
    # (_expand_vectors is not re-entrant: later passes must not ask for it again)
    if late_mode:
        passes.append({"detect_aliases": True, "replace_constant_values": True})
    elif mode >= 0.55:
        passes.append({"detect_aliases": True})
    return {"text": "\n".join(lines) + "\n", "cls": "A%d" % idx, "passes": passes,
            "pre_options": {"expand_vectors": True, "expand_mx": mx},
            "declared": declared, "edges": edges}


# ---------------------------------------------------------------------------
# independent reference of the property text (exact rationals)
# ---------------------------------------------------------------------------
def val(s):
    """'n/d' | 'inf' | '-inf' | 'nan' -> Fraction | float inf | None(nan)"""
    if s == INF:
        return float("inf")
    if s == NINF:
        return float("-inf")
    if s == "nan":
        return None
    n, d = s.split("/")
    return F(int(n), int(d))


def decl_attrs(d):
    """Declared attributes with Modelica/pymoca defaults made explicit."""
    return {"min": val(d["min"]) if d["min"] is not None else float("-inf"),
            "max": val(d["max"]) if d["max"] is not None else float("inf"),
            "nominal": val(d["nominal"]) if d["nominal"] is not None else F(0),
            "fixed": bool(d["fixed"]),
            "start": val(d["start"]) if d["start"] is not None else None}


def neg(x):
    return -x


def signed_classes(case, n_pass):
    """sign of every variable relative to its tree root, from the equations active after n_pass passes"""
    active_late = any(p.get("replace_constant_values") for p in case["passes"][:n_pass])
    rel = {}

    def find(x):
        s = 1
        while x in rel:
            x, t = rel[x]
            s *= t
        return x, s
    for a, b, s, late in case["edges"]:
        if late and not active_late:
            continue
        ra, sa = find(a)
        rb, sb = find(b)
        if ra != rb:
            rel[ra] = (rb, sa * s * sb)     # a = sa*ra ; b = sb*rb ; a = s*b  =>  ra = sa*s*sb * rb
    return find


def reference(canon_decl, members):
    """Property text: members = [(sign, declared attrs)] of all aliases of the canonical variable."""
    c = decl_attrs(canon_decl)
    lo, hi, nom, fx = c["min"], c["max"], c["nominal"], c["fixed"]
    starts = []
    for s, d in members:
        a = decl_attrs(d)
        amin, amax = (a["min"], a["max"]) if s > 0 else (neg(a["max"]), neg(a["min"]))
        lo = max(lo, amin)
        hi = min(hi, amax)
        nom = max(nom, a["nominal"])
        fx = fx or a["fixed"]
        if a["start"] is not None:
            starts.append(s * a["start"])
    if c["start"] is not None:
        ok_starts = [c["start"]]
    elif starts:
        ok_starts = starts
    else:
        ok_starts = [None]
    return {"min": lo, "max": hi, "nominal": nom, "fixed": fx, "starts": ok_starts}


def obs_attrs(v):
    return {"min": val(v["min"]), "max": val(v["max"]), "nominal": val(v["nominal"]),
            "fixed": val(v["fixed"]), "start": None if v["start"] is None else val(v["start"])}


def split_alias(a):
    return (-1, a[1:]) if a.startswith("-") else (1, a)


def judge(case, res):
    """Returns (tag, description) or None.  Independent of the Coq model."""
    if "passes" not in res:
        return ("exception", "simplify/generate failed: %s" % json.dumps(res)[:300])
    decl = case["declared"]
    # first the merge itself (the more telling message), then the precondition that the declared attributes
    # reached the Variables the merge starts from
    return _judge_merge(case, res, decl) or _judge_declared(case, res, decl)


def _judge_declared(case, res, decl):
    # the Variables must carry the declared attributes before simplify (precondition of the merge)
    pre = {v["name"]: v for v in res["pre"]}
    for nm, d in decl.items():
        if nm not in pre:
            return ("declared-lost", "declared variable %s missing from the generated model" % nm)
        o, w = obs_attrs(pre[nm]), decl_attrs(d)
        for k in ("min", "max", "nominal", "start"):
            if o[k] != w[k]:
                return ("declared-lost", "before simplify %s.%s = %s, declared %s" % (nm, k, o[k], w[k]))
        if bool(o["fixed"]) != w["fixed"]:
            return ("declared-lost", "before simplify %s.fixed = %s, declared %s" % (nm, o["fixed"], w["fixed"]))
    return None


def _judge_merge(case, res, decl):
    for k, snap in enumerate(res["passes"]):
        find = signed_classes(case, k + 1)
        by = {v["name"]: v for v in snap}
        seen, dup = {}, None
        for v in snap:
            if v["name"] not in decl:
                continue
            for a in v["aliases"]:
                s, nm = split_alias(a)
                if nm in seen and dup is None:
                    dup = "pass %d: %s listed as alias of both %s and %s" % (k + 1, nm, seen[nm], v["name"])
                seen.setdefault(nm, v["name"])
        for nm in decl:
            if nm in by and nm in seen:
                w = ("second-pass-negative-old-canonical"
                     if k > 0 and ("-" + nm) in by[seen[nm]]["aliases"] and
                     any(u["name"] == nm and u["aliases"] for u in res["passes"][k - 1])
                     else "class-structure")
                return (w, "pass %d: %s is listed as an alias of %s but was not eliminated (still a model variable "
                        "with its own metadata)" % (k + 1, nm, seen[nm]))
            if nm not in by and nm not in seen:
                return ("class-structure", "pass %d: %s vanished without being anybody's alias" % (k + 1, nm))
        if dup:
            return ("class-structure", dup)
        for v in snap:
            nm = v["name"]
            if nm not in decl:
                continue
            members = []
            rc, sc = find(nm)
            for a in v["aliases"]:
                s, an = split_alias(a)
                ra, sa = find(an)
                if ra != rc:
                    return ("class-structure", "pass %d: %s is listed as alias of %s but no equation chain relates them" % (k + 1, an, nm))
                if sa * sc != s:
                    return ("alias-sign", "pass %d: alias %s of %s has sign %+d, the equations give %+d" % (k + 1, an, nm, s, sa * sc))
                members.append((s, decl[an]))
            want = reference(decl[nm], members)
            got = obs_attrs(v)
            for key in ("min", "max", "nominal"):
                if got[key] is None or got[key] != want[key]:
                    return ("merge-" + key, "pass %d: canonical %s (%s) with aliases %s: %s = %s, property gives %s"
                            % (k + 1, nm, v["kind"], v["aliases"], key, got[key], want[key]))
            if got["fixed"] not in (F(0), F(1)) or bool(got["fixed"]) != want["fixed"]:
                return ("merge-fixed", "pass %d: canonical %s with aliases %s: fixed = %s, property gives %s"
                        % (k + 1, nm, v["aliases"], got["fixed"], want["fixed"]))
            if got["start"] not in want["starts"]:
                return ("merge-start", "pass %d: canonical %s with aliases %s: start = %s, property allows %s"
                        % (k + 1, nm, v["aliases"], got["start"], want["starts"]))
    return None


# ---------------------------------------------------------------------------
# Coq encoding (one Coq case per pass and canonical variable with aliases)
# ---------------------------------------------------------------------------
def cq_qc(q):
    q = F(q)
    return "(Q2Qc (Qmake (%d)%%Z %d%%positive))" % (q.numerator, q.denominator)


def cq_ext(x):
    if x == float("inf"):
        return "PosInf"
    if x == float("-inf"):
        return "NegInf"
    return "(Fin %s)" % cq_qc(x)


def cq_var(o):
    return "(Var %s %s %s %s %s)" % (cq_ext(o["min"]), cq_ext(o["max"]), cq_qc(o["nominal"]),
                                     cq_bool(bool(o["fixed"])),
                                     "None" if o["start"] is None else "(Some %s)" % cq_qc(o["start"]))


def encodable(o):
    return (o["min"] is not None and o["max"] is not None and isinstance(o["nominal"], F)
            and o["fixed"] in (F(0), F(1)) and (o["start"] is None or isinstance(o["start"], F)))


def encode(case, res):
    """-> list of (label, coq term) ; label = 'pass k canonical name'"""
    out = []
    if "passes" not in res:
        return out
    prev = {v["name"]: v for v in res["pre"]}
    first = dict(prev)
    for k, snap in enumerate(res["passes"]):
        old_canon = {v["name"] for v in prev.values() if v["aliases"]}
        old_member = set(old_canon)
        for v in prev.values():
            for a in v["aliases"]:
                old_member.add(split_alias(a)[1])
        for v in snap:
            if not v["aliases"] or v["name"] not in prev:
                continue
            c = obs_attrs(prev[v["name"]])
            o = obs_attrs(v)
            als, ok = [], encodable(c) and encodable(o)
            for a in v["aliases"]:
                s, nm = split_alias(a)
                src = prev.get(nm) or first.get(nm)
                if src is None:
                    ok = False
                    break
                av = obs_attrs(src)
                ok = ok and encodable(av)
                if not ok:
                    break
                als.append("(Alias %s %s %s %s)" % (cq_bool(s < 0), cq_bool(nm in old_member),
                                                  cq_bool(nm in old_canon), cq_var(av)))
            if ok:
                out.append(("pass %d %s" % (k + 1, v["name"]),
                            "(%s, [%s], %s)" % (cq_var(c), "; ".join(als), cq_var(o))))
            else:
                out.append(("pass %d %s" % (k + 1, v["name"]), None))
        prev = {v["name"]: v for v in snap}
    return out


PREAMBLE = ("From Coq Require Import QArith Qcanon List Bool.\nFrom PV Require Import Model.C16_merge.\n"
            "Import ListNotations.\n")


def run_children(ctx, cases, timeout, workers=3):
    """core.run_child on `workers` contiguous chunks in parallel (each chunk is its own crash-safe child)."""
    from concurrent.futures import ThreadPoolExecutor
    n = len(cases)
    if n < 12:
        return core.run_child(ctx, "c16", cases, timeout=timeout)
    step = (n + workers - 1) // workers
    chunks = [cases[i:i + step] for i in range(0, n, step)]
    with ThreadPoolExecutor(max_workers=workers) as ex:
        parts = list(ex.map(lambda ch: core.run_child(ctx, "c16", ch, timeout=timeout), chunks))
    return [r for part in parts for r in part]


def load_corpus():
    try:
        return json.load(open(core.VERIF + "/corpus/C16/cases.json"))
    except OSError:
        return []


def hand_cases():
    """The three repository test models' shapes + the two-pass merge of two classes."""
    def mk(text, passes, declared, edges):
        return {"text": text, "cls": "H", "passes": passes, "declared": declared, "edges": edges}
    d = lambda kind, mn=None, mx=None, nom=None, fx=None, st=None: {  # noqa: E731
        "kind": kind, "min": mn, "max": mx, "nominal": nom, "fixed": fx, "start": st, "start_via_param": False}
    out = []
    out.append(mk("model H\n Real x(min = 0, max = 3, nominal = 10);\n Real alias(min = -2, max = -1, nominal = 1);\n"
                  "equation\n der(x) = x;\n alias = -x;\nend H;\n", [{"detect_aliases": True}],
                  {"x": d("state", "0/1", "3/1", "10/1"), "alias": d("alg", "-2/1", "-1/1", "1/1")},
                  [["alias", "x", -1, False]]))
    out.append(mk("model H\n Real x(min = 0, max = 3, nominal = 10, start = 1.5);\n"
                  " Real alias_neg(min = -2, max = -1, nominal = 1, start = 1.5);\n Real alias_pos(start = 4);\n"
                  "equation\n der(x) = x;\n alias_neg = -x;\n alias_pos = x;\nend H;\n", [{"detect_aliases": True}],
                  {"x": d("state", "0/1", "3/1", "10/1", None, "3/2"),
                   "alias_neg": d("alg", "-2/1", "-1/1", "1/1", None, "3/2"), "alias_pos": d("alg", st="4/1")},
                  [["alias_neg", "x", -1, False], ["alias_pos", "x", 1, False]]))
    for sgn_txt, s in (("", 1), ("-", -1)):
        out.append(mk("model H\n constant Real c0 = 0;\n Real x(min = 0, max = 3);\n Real a0(min = -2, max = 2);\n"
                      " Real a1(min = -1, max = 5, nominal = 20, start = 7, fixed = true);\n"
                      "equation\n der(x) = x;\n a0 = a1;\n a1 = %sx + c0;\nend H;\n" % sgn_txt,
                      [{"detect_aliases": True}, {"detect_aliases": True, "replace_constant_values": True}],
                      {"x": d("state", "0/1", "3/1"), "a0": d("alg", "-2/1", "2/1"),
                       "a1": d("alg", "-1/1", "5/1", "20/1", True, "7/1")},
                      [["a0", "a1", 1, False], ["a1", "x", s, True]]))
    # parameter-dependent start expressions meeting each other (the comparison must not need a truth value)
    P = "model H\n parameter Real p1 = 1.5;\n parameter Real p2 = 2.5;\n"
    out.append(mk(P + " Real x(start = 2 * p1);\n Real a(start = p2);\nequation\n der(x) = x;\n a = x;\nend H;\n",
                  [{"detect_aliases": True}], {"x": d("state", st="3/1"), "a": d("alg", st="5/2")}, [["a", "x", 1, False]]))
    out.append(mk(P + " Real x(start = -p1);\n Real a(start = p1);\nequation\n der(x) = x;\n a = -x;\nend H;\n",
                  [{"detect_aliases": True}], {"x": d("state", st="-3/2"), "a": d("alg", st="3/2")}, [["a", "x", -1, False]]))
    out.append(mk(P + " Real x;\n Real a(start = p1);\n Real b(start = p2);\n Real c(start = p2);\n"
                  "equation\n der(x) = x;\n a = -x;\n b + x = 0;\n c = x;\nend H;\n",
                  [{"detect_aliases": True}], {"x": d("state"), "a": d("alg", st="3/2"), "b": d("alg", st="5/2"),
                                               "c": d("alg", st="5/2")},
                  [["a", "x", -1, False], ["b", "x", -1, False], ["c", "x", 1, False]]))
    va = ("model H\n input Real u[2](each min = 0.0);\n Real y[2](start = {3.0, 4.0}, each max = 9.0);\n"
          " Real x[2](each nominal = 2.0);\n Real a[2](start = {1.0, 2.0}, each fixed = true, each min = -5.0);\n"
          " Real w[2];\n Real b[2](each nominal = 7.0);\nequation\n y = u;\n der(x) = {1.0, 1.0};\n a = -x;\n"
          " der(w) = {2.0, 2.0};\n b = w;\nend H;\n")
    dv, ev_ = {}, []
    for i in (1, 2):
        dv["u[%d]" % i] = d("input", "0/1")
        dv["y[%d]" % i] = d("alg", None, "9/1", None, None, "%d/1" % (2 + i))
        dv["x[%d]" % i] = d("state", nom="2/1")
        dv["a[%d]" % i] = d("alg", "-5/1", None, None, True, "%d/1" % i)
        dv["w[%d]" % i] = d("state")
        dv["b[%d]" % i] = d("alg", nom="7/1")
        ev_ += [["y[%d]" % i, "u[%d]" % i, 1, False], ["a[%d]" % i, "x[%d]" % i, -1, False],
                ["b[%d]" % i, "w[%d]" % i, 1, False]]
    for mx in (False, True):
        c = mk(va, [{"expand_vectors": True, "expand_mx": mx, "detect_aliases": True}], dv, ev_)
        c["pre_options"] = {"expand_vectors": True, "expand_mx": mx}
        out.append(c)
    return out


def run(ctx):
    core.check_props(ctx, "C16.v", THEOREMS)
    fp, _ = core.fingerprint(core.REPO + "/src/pymoca/backends/casadi/model.py", {"Model.simplify", "Variable"})
    ctx.notes["source_fingerprint"] = {"model.py:Model.simplify+Variable": fp}
    n_rand = ctx.scaled(90, 2000)
    n_arr = ctx.scaled(35, 800)
    cases = load_corpus()
    n_corpus = len(cases)
    cases += hand_cases()
    n_hand = len(cases) - n_corpus
    for i in range(n_rand):
        cases.append(gen_case(ctx.rng, i))
    for i in range(n_arr):
        cases.append(gen_array_case(ctx.rng, i))
    results = run_children(ctx, cases, timeout=ctx.scaled(600, 3000))

    # (a) oracle
    dist = {"models": len(cases), "classes": 0, "aliases": 0, "negative_aliases": 0, "canon_kind": {},
            "class_size": {}, "two_pass_models": 0, "second_pass_new_aliases": 0,
            "second_pass_old_canonical_merged": 0, "second_pass_negative_old_canonical": 0,
            "start_kept_over_alias_start": 0, "start_taken_from_alias": 0, "start_default": 0,
            "fixed_by_alias": 0, "empty_intersection": 0, "infinite_bound_left": 0,
            "param_valued_attribute_models": 0, "not_eliminated_edges": 0, "impl_exceptions": 0}
    nontrivial = set()
    for c, r in zip(cases, results):
        verdict = judge(c, r)
        if verdict:
            tag, why = verdict
            core.report(ctx, tag, why, {"input": c, "observed": r})
        if "passes" not in r:
            dist["impl_exceptions"] += 1
            continue
        if len(c["passes"]) > 1:
            dist["two_pass_models"] += 1
        if c.get("pre_options"):
            dist["array_models"] = dist.get("array_models", 0) + 1
            dist["array_element_classes"] = dist.get("array_element_classes", 0) + \
                sum(1 for v in r["passes"][-1] if v["aliases"] and v["name"] in c["declared"])
            dist["array_canonical_takes_alias_start"] = dist.get("array_canonical_takes_alias_start", 0) + \
                sum(1 for v in r["passes"][-1] if v["aliases"] and v["name"] in c["declared"]
                    and c["declared"][v["name"]]["start"] is None and v["start"] is not None)
        if "parameter Real" in c["text"]:
            dist["param_valued_attribute_models"] += 1
        decl = c["declared"]
        prev = {v["name"]: v for v in r["pre"]}
        for k, snap in enumerate(r["passes"]):
            for v in snap:
                if not v["aliases"] or v["name"] not in decl:
                    continue
                fresh = [a for a in v["aliases"] if split_alias(a)[1] in prev]
                if k > 0:
                    was = set(prev[v["name"]]["aliases"]) if v["name"] in prev else set()
                    new = [a for a in v["aliases"] if a not in was]
                    dist["second_pass_new_aliases"] += len(new)
                    for a in new:
                        s, nm = split_alias(a)
                        if nm in prev and prev[nm]["aliases"]:
                            dist["second_pass_old_canonical_merged"] += 1
                            if s < 0:
                                dist["second_pass_negative_old_canonical"] += 1
                    if not new:
                        continue
                dist["classes"] += 1
                dist["aliases"] += len(v["aliases"])
                dist["negative_aliases"] += sum(1 for a in v["aliases"] if a.startswith("-"))
                dist["canon_kind"][v["kind"]] = dist["canon_kind"].get(v["kind"], 0) + 1
                sz = str(len(v["aliases"]) + 1)
                dist["class_size"][sz] = dist["class_size"].get(sz, 0) + 1
                own = decl[v["name"]]
                alias_starts = [a for a in v["aliases"] if decl.get(split_alias(a)[1], {}).get("start") is not None]
                if own["start"] is not None and alias_starts:
                    dist["start_kept_over_alias_start"] += 1
                elif own["start"] is None and alias_starts:
                    dist["start_taken_from_alias"] += 1
                elif own["start"] is None:
                    dist["start_default"] += 1
                if not own["fixed"] and val(v["fixed"]) == 1:
                    dist["fixed_by_alias"] += 1
                lo, hi = val(v["min"]), val(v["max"])
                if lo is not None and hi is not None and lo > hi:
                    dist["empty_intersection"] += 1
                if v["min"] == NINF or v["max"] == INF:
                    dist["infinite_bound_left"] += 1
                changed = any(v[key] != prev[v["name"]][key] for key in ("min", "max", "nominal", "fixed", "start")) \
                    if v["name"] in prev else False
                if changed and fresh:
                    nontrivial.add(json.dumps([own, sorted((a[0] == "-", json.dumps(decl[split_alias(a)[1]], sort_keys=True))
                                                           for a in v["aliases"])], sort_keys=True))
            prev = {v["name"]: v for v in snap}
        seenal = set()
        for v in r["passes"][-1]:
            seenal |= {split_alias(a)[1] for a in v["aliases"]}
        dist["not_eliminated_edges"] += sum(1 for a, b, s, late in c["edges"] if a not in seenal and b not in seenal)

    # (b) correspondence
    enc, owner = [], []
    unenc = []
    for i, (c, r) in enumerate(zip(cases, results)):
        for label, term in encode(c, r):
            if term is None:
                unenc.append((i, label))
            else:
                enc.append(term)
                owner.append((i, label))
    bad = core.coq_eval_cases(ctx, "merge", PREAMBLE, "var * list alias * var", enc, "check_case", shard=150)
    mism = None if bad is None else [owner[j] for j in bad]
    ok = bad is not None and not bad and not unenc and dist["impl_exceptions"] == 0
    ctx.oblige("correspondence:model-vs-Model.simplify(alias metadata merge)", ok,
               "mismatching (case, pass/canonical): %s; not encodable (nan / non-finite nominal or start): %s; "
               "implementation exceptions: %d" % ((mism or [])[:8], unenc[:5], dist["impl_exceptions"]))
    if not ok and not [v for v in ctx.violations if not v["no_input"]]:
        first = (mism or unenc or [(None, "")])[0]
        payload = {"correspondence": "Model/C16_merge.v check_case vs Model.simplify", "first_mismatch": first[1]}
        if first[0] is not None:
            payload["input"] = cases[first[0]]
            payload["observed"] = results[first[0]]
        core.violation(ctx, "correspondence-broken", payload, no_input=True)

    def still_fails(entry):
        rp = entry.get("replay")
        if not rp:
            return None
        res = core.run_child(ctx, "c16", [rp])[0]
        v = judge(rp, res)
        return bool(v and v[0] == entry.get("tag"))
    core.replay_known(ctx, still_fails)

    ctx.cov["evaluations"] = len(enc)
    ctx.cov["distinct_nontrivial"] = len(nontrivial)
    ctx.cov["rule"] = ("%d generated array alias models (Real arrays of size 2-3 aliased whole-array or element-wise, "
                       "expand_vectors + detect_aliases in the same simplify call, expand_mx on/off, optional second pass) and "
                       % n_arr) + ("%d generated Modelica models (1-3 alias trees each, 2-6 variables per tree, root kind state/alg/input/"
                       "parameter, both signs, 8 equation shapes, 1 or 2 simplify passes, second pass optionally discovering "
                       "new aliases through replace_constant_values), %d hand-written (repository test shapes, two-pass class "
                       "merge with either sign), %d corpus; one evaluation = one (pass, canonical variable with aliases) "
                       "compared with the Gallina model; non-trivial = the merge changed at least one attribute of the "
                       "canonical variable, distinct by (declared canonical attributes, multiset of (sign, declared alias "
                       "attributes))" % (n_rand, n_hand, n_corpus))
    samples = []
    for c, r in list(zip(cases, results))[n_corpus + n_hand:]:
        if "passes" in r:
            for v in r["passes"][-1]:
                if len(v["aliases"]) >= 2 and len(samples) < 3:
                    samples.append({"canonical": v["name"], "kind": v["kind"], "aliases": v["aliases"],
                                    "declared": {n: {k: x for k, x in c["declared"][n].items() if x is not None}
                                                 for n in [v["name"]] + [split_alias(a)[1] for a in v["aliases"]]},
                                    "observed": {k: v[k] for k in ("min", "max", "nominal", "fixed", "start")}})
    ctx.cov["samples"] = samples or ["(no class with two aliases generated)"]
    ctx.notes["input_distribution"] = dist
    ctx.assumptions += [
        "bounds, nominal and start are modelled as exact (extended) rationals; IEEE rounding of ca.fmax/fmin/negation is not "
        "modelled (generated values are dyadic, so the comparison is exact); NaN attributes are outside the model",
        "symbolic (MX, parameter-dependent) attributes are compared after evaluation at the declared parameter values; the "
        "string comparison of symbolic starts (model.py:1150-1153) only decides whether a warning is logged and is not modelled",
        "which variable becomes canonical, each alias' sign and the iteration order of the alias set are taken from the "
        "implementation (C14/C17); the oracle re-derives the signs from the equations and checks that the eliminated "
        "variables are exactly the listed aliases",
        "python_type propagation (model.py:1137-1140) and the substitution of eliminated symbols are not part of C16",
    ]


def replay(ctx, path):
    rec = json.load(open(path))
    case = rec.get("input")
    if not case:
        print("replay: no concrete input recorded in", path)
        return 1
    res = core.run_child(ctx, "c16", [case])[0]
    v = judge(case, res)
    print("replay:", ("%s: %s" % v) if v else "property holds on this input")
    return 1 if v else 0
