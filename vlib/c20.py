"""C20 — the model cache is never used when stale.

S1: regenerate from api.py / _options.py (fail-closed Python-ast probe) the table the model is
    parametrised by: comparison operator of the mtime check, exclude_options, presence of the
    version check, option keys and defaults; tie the theorems' side conditions by vm_compute.
S2: Props/C20.v.
S3: seeded histories on the real transfer_model (child) -> (a) property oracle: every call returns
    what a fresh compile (cache disabled) of the same folder state returns; (b) correspondence:
    Model/C20_cache.v check_case evaluated in coqc on the same histories and observations.
S4: replay of the known finding (library_folders)."""
import ast
import json
import os

from . import core
from .core import cq_bool, cq_list, cq_nat, cq_Z

THEOREMS = ["C20_fresh", "C20_fresh_operator", "C20_invariant", "C20_fresh_refuted", "C20_delete_refuted",
            "C20_equal_mtime_refuted", "C20_legal_example"]
KNOWN_TAG = "library_folders-change-not-invalidating"

# must agree with vlib/impl/c20.py FILES
FILE_IDS = {0: [0, 1, 2, 3, 4], 1: [0, 1, 2, 3], 2: [0, 1, 2]}
MODEL_KEYS = {"library_folders": 0, "verbose": 1, "mtime_check": 3, "cache": 4, "codegen": 5, "expand_mx": 6}


# the table as of the snapshot the model was written against; used only to keep the correspondence
# and the oracle running (the probe obligation has already failed) when the probe is fail-closed
FALLBACK_TABLE = {
    "op": "Gt", "excl": ["library_folders"], "vcheck": True, "lines": {},
    "keys": ["library_folders", "verbose", "check_balanced", "mtime_check", "cache", "codegen", "expand_mx",
             "unroll_loops", "inline_functions", "expand_vectors", "resolve_parameter_values",
             "replace_parameter_expressions", "replace_constant_expressions", "eliminate_constant_assignments",
             "replace_parameter_values", "replace_constant_values", "eliminable_variable_expression",
             "factor_and_simplify_equations", "detect_aliases", "allow_derivative_aliases", "reduce_affine_expression"],
    "defaults": {"library_folders": [], "verbose": False, "check_balanced": True, "mtime_check": True, "cache": False,
                 "codegen": False, "expand_mx": False, "unroll_loops": True, "inline_functions": True,
                 "expand_vectors": False, "resolve_parameter_values": False, "replace_parameter_expressions": False,
                 "replace_constant_expressions": False, "eliminate_constant_assignments": False,
                 "replace_parameter_values": False, "replace_constant_values": False,
                 "eliminable_variable_expression": None, "factor_and_simplify_equations": False,
                 "detect_aliases": False, "allow_derivative_aliases": True, "reduce_affine_expression": False},
}


# ---------------------------------------------------------------------------
# S1: probe of the anchored source
# ---------------------------------------------------------------------------
class ProbeError(Exception):
    pass


def _is_sub(node, name, key):
    return (isinstance(node, ast.Subscript) and isinstance(node.value, ast.Name) and node.value.id == name
            and isinstance(node.slice, ast.Constant) and node.slice.value == key)


def _raises_invalid(stmts):
    return any(isinstance(s, ast.Raise) and isinstance(s.exc, ast.Call)
               and getattr(s.exc.func, "id", None) == "InvalidCacheError" for s in stmts)


def _func(tree, name):
    for n in tree.body:
        if isinstance(n, ast.FunctionDef) and n.name == name:
            return n
    raise ProbeError("function %s not found" % name)


def probe(repo):
    """Returns dict(op, excl, vcheck, keys, defaults, checks_order) or raises ProbeError."""
    api_src = open(os.path.join(repo, "src/pymoca/backends/casadi/api.py")).read()
    opt_src = open(os.path.join(repo, "src/pymoca/backends/casadi/_options.py")).read()
    api, opt = ast.parse(api_src), ast.parse(opt_src)
    # --- option universe and defaults
    ret = [n for n in ast.walk(_func(opt, "_get_default_options")) if isinstance(n, ast.Return)]
    if len(ret) != 1 or not isinstance(ret[0].value, ast.Dict):
        raise ProbeError("_get_default_options does not return a dict literal")
    keys, defaults = [], {}
    for k, v in zip(ret[0].value.keys, ret[0].value.values):
        if not isinstance(k, ast.Constant):
            raise ProbeError("non-literal option key")
        keys.append(k.value)
        try:
            defaults[k.value] = ast.literal_eval(v)
        except ValueError:
            raise ProbeError("non-literal default for %s" % k.value)
    # --- load_model
    lm = _func(api, "load_model")
    pos = {}
    # mtime check: top-level `if compiler_options["mtime_check"]:`
    mt = [s for s in lm.body if isinstance(s, ast.If) and _is_sub(s.test, "compiler_options", "mtime_check")]
    if len(mt) != 1 or mt[0].orelse:
        raise ProbeError("mtime check: expected one top-level `if compiler_options[\"mtime_check\"]:`")
    pos["mtime"] = mt[0].lineno
    body = mt[0].body
    assign = [s for s in body if isinstance(s, ast.Assign) and getattr(s.targets[0], "id", None) == "cache_mtime"]
    if (len(assign) != 1 or ast.unparse(assign[0].value) != "os.path.getmtime(db_file)"):
        raise ProbeError("mtime check: cache_mtime is not os.path.getmtime(db_file)")
    loops = [s for s in body if isinstance(s, ast.For)]
    if len(loops) != 1 or ast.unparse(loops[0].iter) != "[model_folder] + compiler_options['library_folders']":
        raise ProbeError("mtime check: folder list is not [model_folder] + compiler_options['library_folders']")
    if len(body) != 2:
        raise ProbeError("mtime check: unexpected statements")
    walk = loops[0].body
    if not (len(walk) == 1 and isinstance(walk[0], ast.For)
            and ast.unparse(walk[0].iter) == "os.walk(folder, followlinks=True)"
            and ast.unparse(walk[0].target) == "(root, _dir, files)"):
        raise ProbeError("mtime check: walk loop changed")
    inner = walk[0].body
    if not (len(inner) == 1 and isinstance(inner[0], ast.For)
            and ast.unparse(inner[0].iter) == "fnmatch.filter(files, '*.mo')"):
        raise ProbeError("mtime check: file filter changed")
    ib = inner[0].body
    item = ast.unparse(inner[0].target)
    if not (len(ib) == 2 and isinstance(ib[0], ast.Assign)
            and ast.unparse(ib[0]) == "filename = os.path.join(root, %s)" % item and isinstance(ib[1], ast.If)):
        raise ProbeError("mtime check: loop body changed")
    cmp_ = ib[1].test
    if not (isinstance(cmp_, ast.Compare) and len(cmp_.ops) == 1
            and ast.unparse(cmp_.left) == "os.path.getmtime(filename)"
            and ast.unparse(cmp_.comparators[0]) == "cache_mtime"
            and _raises_invalid(ib[1].body) and not ib[1].orelse):
        raise ProbeError("mtime check: comparison changed shape")
    op = type(cmp_.ops[0]).__name__
    # compile reads the same folders with the same filter (api.py:110-112)
    cm = _func(api, "_compile_model")
    cm_for = [s for s in cm.body if isinstance(s, ast.For)]
    if not (cm_for and ast.unparse(cm_for[0].iter) == "[model_folder] + compiler_options['library_folders']"
            and ast.unparse(cm_for[0].body[0].iter) == "os.walk(folder, followlinks=True)"
            and ast.unparse(cm_for[0].body[0].body[0].iter) == "fnmatch.filter(files, '*.mo')"):
        raise ProbeError("_compile_model: source walk changed")
    # version check / options check inside the `with open(db_file, 'rb')`
    vcheck = False
    excl = None
    optcheck = False
    merged = any(isinstance(s, ast.Assign) and ast.unparse(s) == "compiler_options = _merge_default_options(compiler_options)"
                 for s in lm.body)
    if not merged:
        raise ProbeError("load_model does not merge the default options")
    for n in ast.walk(lm):
        if isinstance(n, ast.If) and isinstance(n.test, ast.Compare) and _raises_invalid(n.body):
            t = ast.unparse(n.test)
            if t in ("db['version'] != __version__", "__version__ != db['version']"):
                vcheck = True
                pos["version"] = n.lineno
            if t in ("old_opts != new_opts", "new_opts != old_opts"):
                optcheck = True
                pos["options"] = n.lineno
        if isinstance(n, ast.Assign) and getattr(n.targets[0], "id", None) == "exclude_options":
            if excl is not None or not isinstance(n.value, ast.List):
                raise ProbeError("exclude_options: not a single list literal")
            excl = [ast.literal_eval(e) for e in n.value.elts]
        if isinstance(n, ast.Assign) and getattr(n.targets[0], "id", None) in ("old_opts", "new_opts"):
            src = {"old_opts": "db['options']", "new_opts": "compiler_options"}[n.targets[0].id]
            if ast.unparse(n.value) != "{k: v for k, v in %s.items() if k not in exclude_options}" % src:
                raise ProbeError("%s: comprehension changed" % n.targets[0].id)
    if excl is None or not optcheck:
        raise ProbeError("options check not found")
    # --- save_model stores version and merged options
    sm_src = ast.unparse(_func(api, "save_model"))
    for needle in ("db['version'] = __version__", "db['options'] = compiler_options",
                   "compiler_options = _merge_default_options(compiler_options)"):
        if needle not in sm_src:
            raise ProbeError("save_model: %s missing" % needle)
    # --- transfer_model routing
    tm = _func(api, "transfer_model")
    tries = [n for n in ast.walk(tm) if isinstance(n, ast.Try)]
    if len(tries) != 1:
        raise ProbeError("transfer_model: expected one try")
    t = tries[0]
    if not (len(t.body) == 1 and ast.unparse(t.body[0]) == "return load_model(model_folder, model_name, compiler_options)"):
        raise ProbeError("transfer_model: try body changed")
    hs = t.handlers
    names = set()
    for h in hs:
        names |= {e.id for e in (h.type.elts if isinstance(h.type, ast.Tuple) else [h.type]) if isinstance(e, ast.Name)}
    hsrc = "\n".join(ast.unparse(h) for h in hs)
    if not ({"FileNotFoundError", "InvalidCacheError"} <= names
            and "model = _compile_model(model_folder, model_name, compiler_options)" in hsrc
            and "save_model(model_folder, model_name, model, compiler_options)" in hsrc and "return model" in hsrc):
        raise ProbeError("transfer_model: recompile handler changed")
    # --- codegen: library_os check in load_model, routing on isinstance(db[o], str), and save_model's order
    #     (cache file removed, libraries written, cache file written; library_os stored)
    los = [n for n in ast.walk(lm) if isinstance(n, ast.If) and ast.unparse(n.test) == "compiler_options['codegen']"
           and len(n.body) == 1 and isinstance(n.body[0], ast.If)
           and ast.unparse(n.body[0].test) in ("db['library_os'] != os.name", "os.name != db['library_os']")
           and _raises_invalid(n.body[0].body) and not n.orelse and not n.body[0].orelse]
    if len(los) != 1:
        raise ProbeError("load_model: library_os check changed")
    pos["library_os"] = los[0].lineno
    lm_src = ast.unparse(lm)
    if "if isinstance(db[o], str):\n" not in lm_src or "f = ca.external(o, db[o])" not in lm_src:
        raise ProbeError("load_model: shared-library routing changed")
    i1, i2, i3 = sm_src.find("os.remove(db_file)"), sm_src.find("_codegen_model(model_folder, f,"), sm_src.find("with open(db_file, 'wb')")
    if not (0 <= i1 < i2 < i3) or "db['library_os'] = os.name" not in sm_src or "if compiler_options['codegen']:\n        with contextlib.suppress(FileNotFoundError):\n            os.remove(db_file)" not in sm_src:
        raise ProbeError("save_model: codegen order (remove cache file, write libraries, write cache file) changed")
    return {"op": op, "excl": excl, "vcheck": vcheck, "keys": keys, "defaults": defaults, "lines": pos}


def gcfg_text(tab):
    excl_ids = [tab["keys"].index(k) if k in tab["keys"] else 999 for k in tab["excl"]]
    return "(Cfg %s %s %s)" % (cq_bool(tab["op"] != "GtE"), cq_list([cq_nat(i) for i in excl_ids]), cq_bool(tab["vcheck"]))


def tie(ctx, tab):
    d = tab["defaults"]
    text = (core.HEADER + "From Coq Require Import List String Bool.\nFrom PV Require Import Model.C20_cache.\n"
            "Import ListNotations.\nOpen Scope string_scope.\n"
            "Definition gen_keys : list string := %s.\n" % cq_list(['"%s"' % k for k in tab["keys"]])
            + "Definition gen_op : string := \"%s\".\n" % tab["op"]
            + "Definition gcfg : cfg := %s.\n" % gcfg_text(tab)
            + "Definition key_ok (k : nat) (n : string) : bool := match nth_error gen_keys k with Some s => String.eqb s n | None => false end.\n"
            + "Eval vm_compute in (%s).\n" % " && ".join('key_ok K_%s "%s"' % (k, k) for k in MODEL_KEYS)
            + "Eval vm_compute in (String.eqb gen_op \"Gt\" || String.eqb gen_op \"GtE\").\n"
            + "Eval vm_compute in (cfg_okb gcfg).\n"
            + "Eval vm_compute in (%s).\n" % cq_bool(d.get("mtime_check") is True and d.get("cache") is False
                                                      and d.get("codegen") is False and d.get("library_folders") == []))
    names = ["tie:option-keys-at-model-positions(_options.py)", "tie:mtime-comparison-is->-or->=(api.py:%s)" % tab["lines"].get("mtime"),
             "tie:cfg_ok(version-check-present,excluded-keys-harmless-or-library_folders)", "tie:defaults(mtime_check-on,cache-off)"]
    # the proved lemma instantiated on today's table (needs Proofs; separate file so the evaluation above survives a broken proof)
    text2 = ("From Coq Require Import List Bool.\nFrom PV Require Import Model.C20_cache Proofs.C20_cache.\nImport ListNotations.\n"
             "Definition gcfg : cfg := %s.\nLemma tie_cfg_ok : cfg_ok gcfg.\nProof. apply cfg_okb_ok. vm_compute. reflexivity. Qed.\n"
             "Print Assumptions tie_cfg_ok.\n" % gcfg_text(tab))
    (ok, out, err), (ok2, out2, err2) = core.coq_run_many(ctx, [("Tie_C20", text), ("Tie_C20_thm", text2)], workers=2)
    vals = core.coq_results(out) if ok else []
    for i, n in enumerate(names):
        good = ok and len(vals) == 4 and vals[i] == "true"
        ctx.oblige(n, good, "" if good else "table=%s coq=%s %s" % (json.dumps({k: tab[k] for k in ("op", "excl", "vcheck")}), vals, err[-300:]))
    ctx.oblige("tie:cfg_ok-lemma-on-regenerated-table", ok2 and "Closed under the global context" in out2, err2[-400:])


# ---------------------------------------------------------------------------
# generators
# ---------------------------------------------------------------------------
# version ids (strings in vlib/impl/c20.py VERSIONS); groups differ only in the versioneer local label
VER_GROUPS = [[1, 2, 3], [4, 7], [5, 6]]


def next_version(rng, ver):
    """mostly a version that differs from the current one only after the '+', else any other"""
    grp = [g for g in VER_GROUPS if ver in g]
    if grp and rng.random() < 0.65:
        return rng.choice([v for v in grp[0] if v != ver])
    return rng.choice([v for v in range(1, 9) if v != ver])


TOGGLES = ["expand_vectors", "replace_constant_values", "detect_aliases", "replace_parameter_values",
           "verbose", "check_balanced", "expand_mx", "eliminate_constant_assignments"]
LIBS = [[1], [2], [1, 2], [2, 1], []]
# eliminable_variable_expression is a regular expression whose VALUE matters (Main has tmp_a, aux_b, _c)
REGEXES = ["tmp_.*", "aux_.*", "_.*"]


def gen_history(rng, maxops, stream):
    """stream: 'core' (library_folders constant, mtime_check on), 'lib' (library_folders changes),
    'optout' (mtime_check toggled), 'nocache' (cache toggled)."""
    clock = 1000
    cid = [0]

    def fresh():
        cid[0] += 1
        return cid[0]

    files0 = [[0, 0, clock - rng.randint(0, 50), fresh()]]
    present = {(0, 0)}
    libs0 = rng.choice([[1], [1], [1], [2], [1, 2]])
    for lf in (1, 2):
        if rng.random() < (0.8 if lf in libs0 else 0.6):
            files0.append([lf, 0, clock - rng.randint(0, 50), fresh()])
            present.add((lf, 0))
    # (0,4), (1,3): below a symlinked directory; (2,2): a symlinked file
    for (fo, fi) in [(0, 2), (1, 1), (2, 1), (0, 4), (1, 3), (2, 2)]:
        if rng.random() < 0.25:
            files0.append([fo, fi, clock - rng.randint(0, 50), fresh()])
            present.add((fo, fi))
    opts = {"cache": True, "library_folders": libs0}
    if stream == "codegen":
        opts = {"codegen": True, "library_folders": libs0}
    if rng.random() < 0.3:
        opts[rng.choice(TOGGLES)] = True
    if rng.random() < 0.2:
        opts["eliminable_variable_expression"] = rng.choice(REGEXES)
    opts0 = dict(opts)
    ops = []
    hi = clock          # upper bound of every cache mtime so far
    n = rng.randint(3, maxops)
    ver0 = ver = rng.choice([1, 1, 2, 3, 4, 5, 6, 7])
    while len(ops) < n:
        x = rng.random()
        last_transfer = bool(ops) and ops[-1][0] == "transfer"
        if ops and stream in ("core", "delete", "codegen") and rng.random() < (0.22 if stream == "delete" else 0.05):
            # deletion / rename (rename keeps the mtime).  'core': only outside the folders in use (covered by the
            # theorem); 'delete': anywhere (outside the property's letter, observed)
            cur_libs = opts.get("library_folders", [])
            used = lambda fo: fo == 0 or fo in cur_libs
            pool = [p for p in sorted(present) if p != (0, 0) and (stream == "delete" or not used(p[0]))]
            if pool:
                src = rng.choice(pool)
                if rng.random() < 0.5:
                    ops.append(["delete", src[0], src[1]])
                    present.discard(src)
                else:
                    tg = [(fo, fi) for fo in FILE_IDS for fi in FILE_IDS[fo]
                          if (fo, fi) != src and (fo, fi) != (0, 0) and (stream == "delete" or not used(fo))]
                    if tg:
                        dst = rng.choice(tg)
                        ops.append(["rename", src[0], src[1], dst[0], dst[1]])
                        present.discard(src)
                        present.add(dst)
                continue
        if not ops or (x < 0.42) or (not last_transfer and x < 0.6):
            y = rng.random()
            fm = max([f[2] for f in files0] + [o[3] for o in ops if o[0] in ("edit", "add")])
            if y < 0.70:
                now = max(clock, hi, fm) + rng.randint(1, 3)      # ordinary: the cache is written after every edit
            elif y < 0.85:
                now = fm                                          # same timestamp as the newest source
            else:
                now = max(1, fm - rng.randint(1, 5))              # a source file dated after the save
            ops.append(["transfer", now])
            hi = max(hi, now)
            clock = max(clock, now)
            continue
        if x < 0.78:
            # a write, strictly later than the cache file
            cur_libs = opts.get("library_folders", [])
            y = rng.random()
            if y < 0.45:
                fo = 0
            elif y < 0.85 and cur_libs:
                fo = rng.choice(cur_libs)
            else:
                fo = rng.choice([1, 2])
            cands = FILE_IDS[fo]
            z = rng.random()
            if z < 0.55 and any((fo, fi) in present for fi in cands):
                fi = rng.choice([fi for fi in cands if (fo, fi) in present])
            else:
                fi = rng.choice(cands)
            m = hi + rng.randint(1, 4)
            clock = max(clock, m)
            c = 0 if rng.random() < 0.07 else fresh()
            ops.append(["edit" if (fo, fi) in present else "add", fo, fi, m, c])
            present.add((fo, fi))
            continue
        if x < 0.80:
            ops.append(["os", rng.choice([0, 0, 1, 2])])
            continue
        if x < 0.83:
            ops.append(["noise", rng.choice([0, 1, 2]), rng.choice(["notes.txt", "Main.mo.bak", "mo"]), hi + rng.randint(1, 4)])
            continue
        if x < 0.90:
            ver = next_version(rng, ver)
            ops.append(["ver", ver])
            continue
        # option change
        opts = dict(opts)
        y = rng.random()
        if stream == "lib" and y < 0.6:
            opts["library_folders"] = rng.choice([l for l in LIBS if l != opts.get("library_folders")])
        elif stream == "optout" and y < 0.5:
            opts["mtime_check"] = not opts.get("mtime_check", True)
        elif stream == "nocache" and y < 0.5:
            opts["cache"] = not opts.get("cache", False)
        elif y < 0.75 and rng.random() < 0.5:
            # a non-boolean option: switch between None and the regular expressions
            cur = opts.get("eliminable_variable_expression")
            new = rng.choice([r for r in REGEXES + [None] if r != cur])
            if new is None:
                del opts["eliminable_variable_expression"]
            else:
                opts["eliminable_variable_expression"] = new
        else:
            k = rng.choice(TOGGLES)
            if k in opts and rng.random() < 0.7:
                del opts[k]
            else:
                # boolean options also come as 1 (== True: same dictionary), 0, and 2 (trueish but != True)
                opts[k] = rng.choice([True, True, 1, 2, 0] if k != "verbose" else [True, 1])
        ops.append(["opts", opts])
    if ops[-1][0] != "transfer":
        ops.append(["transfer", max(clock, hi) + 1])
    return {"files0": files0, "opts0": opts0, "ver0": ver0, "ops": ops, "stream": stream}


def directed(tab):
    """Hand-written histories: one per mechanism / mutant."""
    f = [[0, 0, 990, 1], [1, 0, 990, 2], [2, 0, 990, 3]]
    o = {"cache": True, "library_folders": [1]}
    H = []
    H.append({"ops": [["transfer", 1001], ["transfer", 1002], ["edit", 0, 0, 1003, 4], ["transfer", 1004], ["transfer", 1005]]})
    H.append({"ops": [["transfer", 1001], ["edit", 1, 0, 1002, 4], ["transfer", 1003]]})                 # edit in a library folder
    H.append({"ops": [["transfer", 1001], ["add", 1, 1, 1002, 4], ["transfer", 1003], ["transfer", 1004]]})  # file added to a library folder
    H.append({"ops": [["transfer", 1001], ["add", 0, 1, 1002, 4], ["transfer", 1003]]})                 # added file that shadows the library class
    H.append({"ops": [["transfer", 1001], ["ver", 2], ["transfer", 1002], ["transfer", 1003]]})          # version change
    # versions that differ only in the versioneer local label ('0.9.2' / '0.9.2+3.g1a2b3c4' / '....dirty', '0+untagged.N.g...')
    for a, b in ((1, 2), (2, 3), (3, 1), (5, 6), (4, 7)):
        H.append({"ver0": a, "ops": [["transfer", 1001], ["ver", b], ["transfer", 1002], ["ver", a], ["transfer", 1003]]})
    for k in ("expand_vectors", "replace_constant_values", "verbose"):
        H.append({"ops": [["transfer", 1001], ["opts", dict(o, **{k: True})], ["transfer", 1002], ["opts", o], ["transfer", 1003]]})
    H.append({"ops": [["transfer", 1001], ["edit", 2, 0, 1002, 4], ["transfer", 1003]]})                 # edit outside the view: cache stays valid
    H.append({"ops": [["transfer", 1001], ["edit", 0, 0, 1002, 0], ["transfer", 1003], ["edit", 0, 0, 1004, 5], ["transfer", 1005]]})  # broken, repaired
    H.append({"files0": [[0, 0, 990, 1]], "ops": [["transfer", 1001], ["add", 1, 0, 1002, 2], ["transfer", 1003]]})  # missing class, then added
    H.append({"ops": [["transfer", 990], ["transfer", 991], ["edit", 0, 0, 992, 4], ["transfer", 992], ["transfer", 993]]})  # equal timestamps
    H.append({"ops": [["transfer", 1001], ["noise", 0, "notes.txt", 1002], ["transfer", 1003]]})
    H.append({"opts0": {"cache": False, "library_folders": [1]},
              "ops": [["transfer", 1001], ["opts", o], ["transfer", 1002], ["edit", 0, 0, 1003, 4],
                      ["opts", {"cache": False, "library_folders": [1]}], ["transfer", 1004], ["opts", o], ["transfer", 1005]]})
    H.append({"stream": "optout", "ops": [["transfer", 1001], ["opts", dict(o, mtime_check=False)], ["transfer", 1002],
                                          ["edit", 0, 0, 1003, 4], ["transfer", 1004], ["opts", o], ["transfer", 1005]]})
    # sources reached through a symlinked directory (model folder, library folder) or a symlinked file
    H.append({"files0": f + [[0, 4, 990, 5]], "ops": [["transfer", 1001], ["edit", 0, 4, 1002, 6], ["transfer", 1003], ["transfer", 1004]]})
    H.append({"ops": [["transfer", 1001], ["add", 0, 4, 1002, 6], ["transfer", 1003]]})
    H.append({"files0": [[0, 0, 990, 1], [1, 3, 990, 2]], "ops": [["transfer", 1001], ["edit", 1, 3, 1002, 6], ["transfer", 1003]]})
    H.append({"files0": [[0, 0, 990, 1]], "ops": [["transfer", 1001], ["add", 1, 3, 1002, 6], ["transfer", 1003], ["edit", 1, 3, 1004, 7], ["transfer", 1005]]})
    H.append({"files0": [[0, 0, 990, 1], [2, 2, 990, 2]], "opts0": dict(o, library_folders=[2]),
              "ops": [["transfer", 1001], ["edit", 2, 2, 1002, 6], ["transfer", 1003]]})
    # non-boolean option values: two different regular expressions; 1 == True but 2 != True
    for r1, r2 in (("tmp_.*", "aux_.*"), ("_.*", "tmp_.*")):
        H.append({"opts0": dict(o, eliminable_variable_expression=r1),
                  "ops": [["transfer", 1001], ["opts", dict(o, eliminable_variable_expression=r2)], ["transfer", 1002],
                          ["opts", o], ["transfer", 1003], ["opts", dict(o, eliminable_variable_expression=r1)], ["transfer", 1004]]})
    H.append({"opts0": dict(o, expand_vectors=True),
              "ops": [["transfer", 1001], ["opts", dict(o, expand_vectors=1)], ["transfer", 1002], ["opts", dict(o, expand_vectors=2)],
                      ["transfer", 1003], ["opts", dict(o, expand_vectors=0)], ["transfer", 1004], ["opts", o], ["transfer", 1005]]})
    H.append({"stream": "codegen", "opts0": {"codegen": True, "expand_mx": True, "library_folders": [1], "eliminable_variable_expression": "tmp_.*"},
              "ops": [["transfer", 1001], ["opts", {"codegen": True, "expand_mx": True, "library_folders": [1], "eliminable_variable_expression": "aux_.*"}],
                      ["transfer", 1002], ["transfer", 1003]]})
    # platform change: pickled caches are portable, code-generated ones are not
    H.append({"ops": [["transfer", 1001], ["os", 1], ["transfer", 1002], ["os", 0], ["transfer", 1003]]})
    cg = {"codegen": True, "library_folders": [1]}
    H.append({"stream": "codegen", "opts0": cg,
              "ops": [["transfer", 1001], ["transfer", 1002], ["edit", 0, 0, 1003, 4], ["transfer", 1004], ["transfer", 1005],
                      ["os", 1], ["transfer", 1006], ["transfer", 1007], ["ver", 2], ["transfer", 1008]]})
    H.append({"stream": "codegen", "opts0": cg,
              "ops": [["transfer", 1001], ["opts", o], ["transfer", 1002], ["edit", 1, 0, 1003, 4], ["opts", cg], ["transfer", 1004],
                      ["opts", dict(cg, cache=True)], ["transfer", 1005], ["opts", dict(cg, expand_vectors=True)], ["transfer", 1006]]})
    # deletion / rename outside the folders in use (covered), and in use (outside the property's letter: observed)
    H.append({"ops": [["transfer", 1001], ["delete", 2, 0], ["transfer", 1002], ["rename", 1, 0, 0, 1], ["transfer", 1003]], "stream": "delete",
              "files0": f})
    H.append({"ops": [["transfer", 1001], ["delete", 2, 0], ["transfer", 1002]]})
    H.append({"files0": f + [[2, 1, 990, 7]], "ops": [["transfer", 1001], ["rename", 2, 1, 2, 0], ["transfer", 1002]]})
    H.append({"stream": "delete", "ops": [["transfer", 1001], ["delete", 1, 0], ["transfer", 1002]]})
    H.append({"stream": "delete", "ops": [["transfer", 1001], ["rename", 2, 0, 0, 1], ["transfer", 1002]]})
    # the known finding and its neighbours
    H.append({"stream": "lib", "ops": [["transfer", 1001], ["opts", dict(o, library_folders=[2])], ["transfer", 1002]]})
    H.append({"stream": "lib", "ops": [["transfer", 1001], ["edit", 2, 0, 1002, 4], ["opts", dict(o, library_folders=[2])], ["transfer", 1003]]})
    H.append({"stream": "lib", "ops": [["transfer", 1001], ["opts", dict(o, library_folders=[1, 2])], ["transfer", 1002]]})
    H.append({"stream": "lib", "ops": [["transfer", 1001], ["edit", 1, 0, 1002, 4], ["opts", dict(o, library_folders=[2])], ["transfer", 1003]]})
    H.append({"stream": "lib", "ops": [["transfer", 1001], ["opts", dict(o, library_folders=[])], ["transfer", 1002]]})
    H.append({"stream": "lib", "ops": [["transfer", 1001], ["ver", 2], ["opts", dict(o, library_folders=[2])], ["transfer", 1002], ["transfer", 1003]]})
    out = []
    for h in H:
        out.append({"files0": h.get("files0", f), "opts0": h.get("opts0", o), "ver0": h.get("ver0", 1), "ops": h["ops"],
                    "stream": h.get("stream", "core")})
    return out


# ---------------------------------------------------------------------------
# property oracle (independent of the Coq model)
# ---------------------------------------------------------------------------
def merged(tab, o):
    m = dict(tab["defaults"])
    m.update(o)
    return m


def _nonlib(tab, o):
    m = merged(tab, o)
    if m.get("cache") and not m.get("codegen"):
        m["expand_mx"] = True       # api.py:512-514
    m.pop("library_folders", None)
    return m


def judge(tab, case, res):
    """None, or (tag, description, index of the failing op).  The property on the observable
    behaviour: each transfer_model call returns what a fresh compile of the same folder state with
    the same options returns (or raises the same exception class)."""
    if "calls" not in res:
        return ("harness-or-crash", "history could not be replayed: %s" % json.dumps(res)[:300], len(case["ops"]) - 1)
    opts, ver = case["opts0"], case["ver0"]
    mt = {(f[0], f[1]): f[2] for f in case["files0"]}
    saved = None      # what the cache file was written for: (library_folders, other options, version, mtime)
    j = 0
    for i, op in enumerate(case["ops"]):
        if op[0] == "opts":
            opts = op[1]
        elif op[0] == "ver":
            ver = op[1]
        elif op[0] in ("edit", "add"):
            mt[(op[1], op[2])] = op[3]
        elif op[0] in ("delete", "rename"):
            libs_now = list(merged(tab, opts).get("library_folders") or [])
            touched = [op[1]] + ([op[3]] if op[0] == "rename" else [])
            if any(fo == 0 or fo in libs_now for fo in touched):
                # a source in use was deleted / renamed: outside the property's letter (and outside C20_fresh's
                # hypotheses) from here on; what happens next is recorded as an observation, see observe()
                return None
            m = mt.pop((op[1], op[2]), None)
            if op[0] == "rename" and m is not None:
                mt[(op[3], op[4])] = m
        if op[0] != "transfer":
            continue
        c = res["calls"][j]
        j += 1
        libs = list(merged(tab, opts).get("library_folders") or [])
        was = saved
        if c.get("saved"):
            saved = (libs, _nonlib(tab, opts), ver, op[1])
        if c["from_cache"] and c.get("cache_foreign") and merged(tab, opts).get("codegen"):
            return ("library-for-other-platform-loaded", "call %d loaded the code-generated libraries of a cache file "
                    "written on another platform (library_os)" % j, i)
        if not merged(tab, opts).get("mtime_check"):
            continue            # opt-out: outside the claim
        if c["exc"] == c["ref_exc"] and c["fp"] == c["ref_fp"]:
            continue
        if (c["from_cache"] and c["exc"] is None and was is not None and was[0] != libs
                and was[1] == _nonlib(tab, opts) and was[2] == ver
                and all(m <= was[3] for (fo, _), m in mt.items() if fo == 0 or fo in libs)):
            # exactly the recorded class: the ONLY thing that differs from what the cache file was written for is
            # library_folders (every other option and the version are equal, no source in the folders now in
            # view is newer than the cache file), and the cache was served
            return (KNOWN_TAG, "call %d served the model cached for library_folders=%s although the options now say %s"
                    % (j, was[0], libs), i)
        if c["exc"] is not None and c["ref_exc"] is None:
            return ("raises", "call %d raised %s (%s); a fresh compile succeeds" % (j, c["exc"], c.get("msg")), i)
        if c["exc"] != c["ref_exc"]:
            return ("wrong-exception", "call %d: %s, fresh compile: %s" % (j, c["exc"], c["ref_exc"]), i)
        return ("stale-cache-served" if c["from_cache"] else "wrong-model",
                "call %d returned a model that differs from a fresh compile of the current sources/options/version "
                "(from_cache=%s): got %s, fresh %s" % (j, c["from_cache"], _short(c["fp"]), _short(c["ref_fp"])), i)
    return None


def observe(tab, case, res):
    """Observation (not a verdict): calls made after a source in use was deleted or renamed that returned a
    model different from a fresh compile.  Returns the number of such calls."""
    if "calls" not in res:
        return 0
    opts, off, n, j = case["opts0"], False, 0, 0
    for op in case["ops"]:
        if op[0] == "opts":
            opts = op[1]
        elif op[0] in ("delete", "rename") and not off:
            libs_now = list(merged(tab, opts).get("library_folders") or [])
            off = any(fo == 0 or fo in libs_now for fo in [op[1]] + ([op[3]] if op[0] == "rename" else []))
        elif op[0] == "transfer":
            c = res["calls"][j]
            j += 1
            if off and c["from_cache"] and (c["exc"] != c["ref_exc"] or c["fp"] != c["ref_fp"]):
                n += 1
    return n


def _short(fp):
    if fp is None:
        return None
    d = json.loads(fp)
    return {"parameters": d["parameters"], "constants": d["constants"], "alg": [a[0] for a in d["alg_states"]],
            "outputs": d["outputs"], "res": d["res"]}


# ---------------------------------------------------------------------------
# Coq encoding
# ---------------------------------------------------------------------------
def enc_opts(tab, o, valtab):
    m = merged(tab, o)
    items = []
    for i, k in enumerate(tab["keys"]):
        v = m[k]
        if k == "library_folders":
            e = [int(x) for x in v]
        elif isinstance(v, (bool, int)) and v == 1:     # Python: 1 == True, the dictionaries compare equal
            e = [1]
        elif isinstance(v, (bool, int)) and v == 0:
            e = [0]
        elif v is None:
            e = []
        else:
            vals = valtab.setdefault("__vals__", {})
            e = [2 + vals.setdefault(json.dumps(v, sort_keys=True), len(vals))]
        items.append("(%s, %s)" % (cq_nat(i), cq_list([cq_nat(x) for x in e])))
    for k in m:
        if k not in tab["keys"]:
            raise core.Fail("option %s is not in the regenerated universe" % k)
    text = cq_list(items)
    # distinct option dictionaries are emitted once, as named definitions in the preamble
    defs = valtab.setdefault("__defs__", {})
    return defs.setdefault(text, "o%d" % len(defs))


def encode_case(tab, case, res, valtab):
    fps = {}

    def fpid(exc, fp):
        if exc is not None or fp is None:
            return 0
        return fps.setdefault(fp, len(fps) + 1)

    f0 = cq_list(["((%s, %s), (%s, %s))" % (cq_nat(a), cq_nat(b), cq_Z(m), cq_nat(c)) for a, b, m, c in case["files0"]])
    ops, obs = [], []
    j = 0
    for op in case["ops"]:
        if op[0] in ("edit", "add"):
            ops.append("%s (%s, %s) %s %s" % ("Edit" if op[0] == "edit" else "Add", cq_nat(op[1]), cq_nat(op[2]), cq_Z(op[3]), cq_nat(op[4])))
        elif op[0] == "opts":
            ops.append("SetOptions %s" % enc_opts(tab, op[1], valtab))
        elif op[0] == "ver":
            ops.append("SetVersion %s" % cq_nat(op[1]))
        elif op[0] == "delete":
            ops.append("Delete (%s, %s)" % (cq_nat(op[1]), cq_nat(op[2])))
        elif op[0] == "rename":
            ops.append("Rename (%s, %s) (%s, %s)" % (cq_nat(op[1]), cq_nat(op[2]), cq_nat(op[3]), cq_nat(op[4])))
        elif op[0] == "os":
            ops.append("SetOS %s" % cq_nat(op[1]))
        elif op[0] == "transfer":
            ops.append("Transfer %s" % cq_Z(op[1]))
            c = res["calls"][j]
            j += 1
            obs.append("(%s, %s, %s, (%s, %s))" % (cq_bool(c["exc"] is not None), cq_bool(c["from_cache"]),
                                                   cq_nat(fpid(c["exc"], c["fp"])), cq_bool(c["ref_exc"] is not None),
                                                   cq_nat(fpid(c["ref_exc"], c["ref_fp"]))))
    return "(%s, %s, %s, %s, %s)" % (f0, enc_opts(tab, case["opts0"], valtab), cq_nat(case["ver0"]), cq_list(ops), cq_list(obs))


def prefix(case, i):
    c = dict(case)
    c["ops"] = case["ops"][:i + 1]
    return c


# ---------------------------------------------------------------------------
def run(ctx):
    from concurrent.futures import ThreadPoolExecutor
    fp, n = core.fingerprint(core.REPO + "/src/pymoca/backends/casadi/api.py",
                             {"load_model", "transfer_model", "save_model", "_compile_model"})
    ctx.notes["source_fingerprint"] = {"api.py:load_model,transfer_model,save_model,_compile_model": fp}
    # S1
    try:
        tab = probe(core.REPO)
        ctx.oblige("tie:ast-probe(api.py load_model/transfer_model/save_model, _options.py)", True)
    except (ProbeError, OSError, SyntaxError, IndexError, AttributeError) as e:
        ctx.oblige("tie:ast-probe(api.py load_model/transfer_model/save_model, _options.py)", False, repr(e))
        tab = dict(FALLBACK_TABLE)
    ctx.notes["regenerated_table"] = {k: tab[k] for k in ("op", "excl", "vcheck", "keys")}
    # S3 inputs (the children run while coqc checks Props and the tie)
    cases = directed(tab)
    n_dir = len(cases)
    n_core, n_lib, n_opt, n_noc, n_del, n_cg = ctx.scaled((60, 20, 6, 6, 12, 4), (1800, 400, 150, 150, 250, 40))
    maxops = ctx.scaled(8, 14)
    for stream, k in (("core", n_core), ("lib", n_lib), ("optout", n_opt), ("nocache", n_noc), ("delete", n_del), ("codegen", n_cg)):
        for _ in range(k):
            cases.append(gen_history(ctx.rng, maxops, stream))
    import time
    ph, t0 = {}, time.time()
    with ThreadPoolExecutor(max_workers=1) as ex:
        fut = ex.submit(run_parallel, ctx, cases)
        core.check_props(ctx, "C20.v", THEOREMS)      # S2
        ph["props"] = round(time.time() - t0, 1)
        tie(ctx, tab)
        ph["props+tie"] = round(time.time() - t0, 1)
        results = fut.result()
    # a harness time-out is not a verdict: re-run such a history once, alone; still no result -> inconclusive
    inconclusive = []
    for i, r in enumerate(results):
        if "calls" not in r:
            r2 = core.run_child(ctx, "c20", [cases[i]], timeout=900)[0]
            if "calls" in r2 or r2.get("crash") != -999:
                results[i] = r2
            if "calls" not in results[i] and results[i].get("crash") == -999:
                inconclusive.append(i)
    if inconclusive:
        ctx.notes["inconclusive_histories"] = {
            "count": len(inconclusive), "why": "child timed out twice (batch and alone); not a C20 verdict",
            "first": cases[inconclusive[0]]}
        keep = [i for i in range(len(cases)) if i not in set(inconclusive)]
        cases = [cases[i] for i in keep]
        results = [results[i] for i in keep]
    ph["props+tie|children"] = round(time.time() - t0, 1)
    ctx.notes["phase_s"] = ph
    # (a) oracle
    dist = {"edit": 0, "add": 0, "opts": 0, "ver": 0, "transfer": 0, "noise": 0, "delete": 0, "rename": 0, "os": 0}
    stale_after_delete = 0
    seen = {"loaded": 0, "recompiled": 0, "raised": 0, "lib_edits_in_view": 0, "claimed_calls": 0}
    nontrivial = set()
    for c, r in zip(cases, results):
        for op in c["ops"]:
            dist[op[0]] += 1
        for call in r.get("calls", []):
            seen["raised" if call["exc"] else ("loaded" if call["from_cache"] else "recompiled")] += 1
        seen["lib_edits_in_view"] += sum(1 for op in c["ops"] if op[0] in ("edit", "add") and op[1] != 0)
        stale_after_delete += observe(tab, c, r)
        v = judge(tab, c, r)
        if v:
            tag, why, i = v
            core.report(ctx, tag, why, {"history": prefix(c, i), "why": why,
                                        "observed": [{k: (_short(x[k]) if k.endswith("fp") else x[k]) for k in x} for x in r.get("calls", [])]
                                        [:len([o for o in c["ops"][:i + 1] if o[0] == "transfer"])]})
        kinds = {op[0] for op in c["ops"]}
        if len([op for op in c["ops"] if op[0] == "transfer"]) >= 2 and kinds & {"edit", "add", "opts", "ver"}:
            nontrivial.add(json.dumps([c["files0"], c["opts0"], c["ops"]], sort_keys=True))
    # (b) correspondence
    idx = [i for i, r in enumerate(results) if "calls" in r]
    valtab = {}
    enc = [encode_case(tab, cases[i], results[i], valtab) for i in idx]
    pre = ("From Coq Require Import ZArith List Bool.\nFrom PV Require Import Model.C20_cache.\nImport ListNotations.\n"
           "Definition gcfg : cfg := %s.\n" % gcfg_text(tab)
           + "".join("Definition %s : opts := %s.\n" % (n, t) for t, n in valtab.get("__defs__", {}).items()))
    bad = core.coq_eval_cases(ctx, "hist", pre, "case", enc, "check_case gcfg", shard=ctx.scaled(45, 150))
    mism = list(range(len(cases))) if bad is None else [idx[j] for j in bad]
    ph["+oracle+correspondence"] = round(time.time() - t0, 1)
    crashed = [i for i, r in enumerate(results) if "calls" not in r]
    ctx.oblige("correspondence:model-vs-transfer_model", not mism and not crashed,
               "mismatching histories: %s; not replayable: %s" % (mism[:10], crashed[:5]))
    if mism and not ctx.violations:
        i = mism[0]
        core.violation(ctx, "correspondence-broken",
                       {"correspondence": "Model/C20_cache.v check_case vs transfer_model",
                        "history": cases[i], "observed": [{k: (_short(x[k]) if k.endswith("fp") else x[k]) for k in x}
                                                          for x in results[i].get("calls", [])]}, no_input=True)
    # S4
    core.replay_known(ctx, lambda e: known_still_fails(ctx, tab, e))
    ctx.cov["evaluations"] = len(cases)
    ctx.cov["distinct_nontrivial"] = len(nontrivial)
    ctx.cov["rule"] = ("%d directed histories (one per mechanism/mutant) + seeded histories of <= %d ops over 9 source files in "
                       "the model folder and two library folders: %d with library_folders constant, %d changing it, %d toggling "
                       "mtime_check, %d toggling cache, %d deleting/renaming sources in use, %d in codegen mode (real C compiles); non-trivial = at least two transfer_model calls and at least one "
                       "edit/add/option/version change, distinct by (initial tree, options, op list)"
                       % (n_dir, maxops + 1, n_core, n_lib, n_opt, n_noc, n_del, n_cg))
    ctx.cov["samples"] = [cases[min(n_dir, len(cases) - 1)]["ops"][:8], cases[min(n_dir + n_core, len(cases) - 1)]["ops"][:8]]
    ctx.notes["input_distribution"] = {"ops": dist, "calls": seen, "histories": len(cases)}
    ctx.notes["observations"] = {
        "calls_served_stale_after_deleting_or_renaming_a_source_in_use": stale_after_delete,
        "note": "deletion/rename is outside the property's letter and outside C20_fresh's hypotheses; the model mirrors "
                "it (C20_delete_refuted) and the correspondence checks that it does"}
    ctx.assumptions += [
        "sources are abstracted to (path, mtime, content id) and the compiler to a free function of (visible sources, "
        "options, version); os.walk/fnmatch, pickle and CasADi serialisation are trusted; the AST probe checks that "
        "load_model and _compile_model walk the same folders with the same filter",
        "C20_fresh assumes library_folders constant over the history (known finding), mtime_check on (opt-out) and no "
        "deletion/rename of a source in the folders in use (outside the property's letter; observed, C20_delete_refuted); "
        "edits concurrent with a compile and writes with an mtime earlier than the cache file's (clock going backwards) are "
        "non-goals; an mtime equal to the cache file's is covered only under >= (C20_equal_mtime_refuted)",
        "codegen mode is modelled (libraries + pointing cache file written together, library_os) and exercised with real C "
        "compiles; a platform change is played by rewriting the cache file's library_os field (os.name cannot change in-process); "
        "loading a shared library built for another platform is not exercised",
        "the child stamps the compiling version into the compiled model so that a cache surviving a version change is "
        "observable; cache-file mtimes are set with os.utime to the history's logical time",
    ]


def run_parallel(ctx, cases, workers=4):
    """4 children, interleaved slices (core.run_child is sequential and crash-safe per slice)."""
    from concurrent.futures import ThreadPoolExecutor
    workers = min(workers, max(1, len(cases) // 8))
    parts = [list(range(w, len(cases), workers)) for w in range(workers)]
    with ThreadPoolExecutor(max_workers=workers) as ex:
        outs = list(ex.map(lambda p: core.run_child(ctx, "c20", [cases[i] for i in p]), parts))
    results = [None] * len(cases)
    for p, o in zip(parts, outs):
        for i, r in zip(p, o):
            results[i] = r
    return results


def known_still_fails(ctx, tab, entry):
    if entry.get("tag") != KNOWN_TAG:
        return None
    case = entry["replay"]["history"]
    res = core.run_child(ctx, "c20", [case])[0]
    v = judge(tab, case, res)
    return bool(v and v[0] == KNOWN_TAG)


def replay(ctx, path):
    rec = json.load(open(path))
    case = rec.get("history") or rec.get("replay", {}).get("history")
    if case is None:
        print("replay: no history in %s (broken obligations: %s)" % (path, rec.get("broken")))
        return 1
    try:
        tab = probe(core.REPO)
    except Exception:  # noqa
        tab = dict(FALLBACK_TABLE)
    res = core.run_child(ctx, "c20", [case])[0]
    v = judge(tab, case, res)
    if v and v[0] == KNOWN_TAG and any(e.get("tag") == KNOWN_TAG for e in core.load_known("C20")):
        print("replay: known finding [%s] %s" % (v[0], v[1]))
        return 0
    print("replay:", ("[%s] %s" % (v[0], v[1])) if v else "property holds on this history")
    return 1 if v else 0
