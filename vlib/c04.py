"""C04 — parsed class structure reflects the source declarations.

S2  Props/C04.v (listener model refines the declarative reading of the class syntax).
S3  a generator draws the ABSTRACT syntax of class texts (component clauses with several declarators, prefixes,
    clause / declarator dimensions, public / protected sections, modifications, declaration values, comments,
    nested classes, extends, imports, initial / non-initial equation and algorithm sections, occasional
    duplicates), an independent printer writes Modelica text, the real pymoca.parser.parse runs in a child.
    (a) ORACLE: the observed tree against the abstract syntax, read as the property says (expect()).
    (b) CORRESPONDENCE: Coq `run_file` on the abstract syntax == the observation (vm_compute), including the
        order numbers and the identity pattern of the prefixes / dimensions / type objects.
    The model variant is `head_variant` (/repo HEAD).  Three defects this check found (repeated section labels,
    clause-over-declarator dimensions, import lists of 3+ names) are repaired in /repo; the oracle still gives
    them their own tags, so a regression is reported with the narrow description.
"""
import json

from . import core
from .core import cq_bool, cq_list

THEOREMS = ["C04_symbols", "C04_sections", "C04_duplicate", "C04_order", "C04_no_sharing", "C04_variants",
            "C04_visibility_refuted", "C04_dimensions_refuted", "C04_import_refuted", "C04_example"]
PREAMBLE = ("From Coq Require Import String List Bool.\nFrom PV Require Import Model.C04_listener.\n"
            "Import ListNotations.\nOpen Scope string_scope.\n")
CASE_TYPE = "variant * list element * obs"

TAG_VIS = "repeated-section-visibility"
TAG_DIMS = "clause-dimensions-override-declarator-dimensions"
TAG_IMP = "import-list-tail-joined"
TAG_REDECL = "redeclare-in-component-modification"
PROBE_REDECL = "model P extends B(a = 1, redeclare Real x, c = 2); Real z; end P;"
VIS = {"unl": 0, "pro": 1, "pub": 2}          # ast.Visibility: unlabelled elements are PRIVATE = 0


# =============================================================================================
# generator of abstract syntax
# =============================================================================================
NAMES = ["a", "b", "c", "d", "x", "y", "z", "u", "v", "w", "k", "p", "q", "r", "s1", "t_2", "foo", "Bar"]
TYPES = [["Real"], ["Real"], ["Integer"], ["Boolean"], ["String"], ["T"], ["Pk", "Sub"], ["A", "B", "Cc"]]
ATTRS = ["start", "min", "max", "nominal", "fixed", "unit"]
CTYPES = ["model", "class", "block", "record", "connector", "package", "function"]


class Gen:
    def __init__(self, rng):
        self.r = rng
        self.stats = {}

    def hit(self, k):
        self.stats[k] = self.stats.get(k, 0) + 1

    # ---- expressions: (text, canonical) ------------------------------------------------------
    def atom(self):
        r = self.r
        x = r.random()
        if x < 0.4:
            n = r.randint(0, 12)
            return (str(n), str(n))
        if x < 0.8:
            n = r.choice(NAMES)
            if r.random() < 0.15:
                m = r.choice(NAMES)
                return (n + "." + m, n + "." + m)
            return (n, n)
        if x < 0.9:
            b = r.choice(["true", "false"])
            return (b, b)
        s = r.choice(["s", "m/s", "hello world", ""])
        return ('"%s"' % s, '"%s"' % s)

    def expr(self, depth=2):
        r = self.r
        x = r.random()
        if depth == 0 or x < 0.45:
            return self.atom()
        if x < 0.75:
            op = r.choice(["+", "-", "*", "/", "<", "and"])
            a, b = self.expr(depth - 1), self.expr(depth - 1)
            return ("(%s %s %s)" % (a[0], op, b[0]), "(%s %s %s)" % (op, a[1], b[1]))
        if x < 0.87:
            f = r.choice(["der", "sin", "f"])
            a = self.expr(depth - 1)
            return ("%s(%s)" % (f, a[0]), "(%s %s)" % (f, a[1]))
        if x < 0.94:
            a, b = self.atom(), self.atom()
            return ("{%s, %s}" % (a[0], b[0]), "{%s,%s}" % (a[1], b[1]))
        a = self.atom()
        return ("-" + a[0], "(- %s)" % a[1])

    def dim(self):
        r = self.r
        x = r.random()
        if x < 0.6:
            n = r.randint(1, 5)
            return (str(n), str(n))
        if x < 0.8:
            n = r.choice(NAMES)
            return (n, n)
        if x < 0.9:
            return (":", ":")
        n = r.choice(NAMES)
        return ("%s + 1" % n, "(+ %s 1)" % n)

    def dims(self):
        return [self.dim() for _ in range(self.r.choice([1, 1, 1, 2, 3]))]

    # ---- modifications -----------------------------------------------------------------------
    def arg(self, depth):
        r = self.r
        name = r.choice(ATTRS) if r.random() < 0.6 else r.choice(NAMES)
        if r.random() < 0.12:
            name += "." + r.choice(NAMES)
        x = r.random()
        if x < 0.05:
            return {"name": name, "mod": None}
        if depth == 0 or x < 0.7:
            return {"name": name, "mod": {"cm": None, "val": self.expr(1)}}
        return {"name": name, "mod": {"cm": self.args(depth - 1),
                                      "val": self.expr(1) if r.random() < 0.3 else None}}

    def redecl(self, depth):
        """element redeclaration inside a modification: `redeclare Real x(start = 1) = 3` or `redeclare model N = K`"""
        r = self.r
        if r.random() < 0.2:
            self.hit("redeclare_short_class")
            return {"k": "short", "ctype": r.choice(["model", "record", "connector"]), "name": "R" + r.choice(NAMES),
                    "target": r.choice([["K"], ["Pk", "K2"]])}
        self.hit("redeclare_component")
        pre = [r.choice(["parameter", "constant", "input", "output"])] if r.random() < 0.3 else []
        x = r.random()
        if x < 0.4:
            m = None
        elif x < 0.6:
            m = {"cm": None, "val": self.expr(1)}
        elif x < 0.8:
            m = {"cm": self.args_with_redecl(depth - 1, self.redecl_p * 0.2) if depth > 0 else [], "val": None}
        else:
            m = {"cm": self.args_with_redecl(depth - 1, self.redecl_p * 0.2) if depth > 0 else [], "val": self.expr(1)}
        return {"k": "redecl", "prefixes": pre, "type": r.choice(TYPES), "name": r.choice(NAMES),
                "dims": self.dims() if r.random() < 0.2 else None, "mod": m,
                "comment": r.choice(["", "", "rc"])}

    redecl_p = 0.0      # probability that an argument is a redeclaration (set per argument list owner)

    def args(self, depth):
        n = self.r.choice([0, 1, 1, 2, 2, 3])
        return [self.redecl(depth) if self.r.random() < self.redecl_p else self.arg(depth) for _ in range(n)]

    def args_with_redecl(self, depth, p):
        old, self.redecl_p = self.redecl_p, p
        try:
            return self.args(depth)
        finally:
            self.redecl_p = old

    def decl_mod(self):
        r = self.r
        x = r.random()
        if x < 0.4:
            return None
        if x < 0.6:
            self.hit("decl_value")
            return {"cm": None, "val": self.expr(2)}
        # rarely a component modification with redeclarations (oracle only: not modelled, see has_comp_redecl)
        p = 0.35 if r.random() < 0.04 else 0.0
        if x < 0.8:
            self.hit("decl_classmod")
            return {"cm": self.args_with_redecl(2, p), "val": None}
        self.hit("decl_classmod_and_value")
        return {"cm": self.args_with_redecl(2, p), "val": self.expr(2)}

    # ---- trailing comment: description string and / or annotation ---------------------------------
    ANNS = ["annotation(Evaluate = true)", "annotation(Documentation(info = \"d\"))",
            "annotation(choices(checkBox = true), k = 1)", "annotation()"]

    def ann(self, what, p=0.3):
        """None | annotation text; an annotation with arguments creates a Symbol in the listener"""
        if self.r.random() >= p:
            return None
        a = self.r.choice(self.ANNS)
        self.hit(what + "_with_annotation")
        return a

    def descr(self, what, p=0.35):
        if self.r.random() >= p:
            return ""
        self.hit(what + "_with_description")
        return self.r.choice(["descr", "the .* import", "x.*", "a, b"])

    # ---- elements ----------------------------------------------------------------------------
    def clause(self, names):
        r = self.r
        pre = []
        if r.random() < 0.15:
            pre.append(r.choice(["flow", "stream"]))
        if r.random() < 0.45:
            pre.append(r.choice(["discrete", "parameter", "constant"]))
        if r.random() < 0.35:
            pre.append(r.choice(["input", "output"]))
        self.hit("prefixes_%d" % len(pre))
        nd = r.choice([1, 1, 2, 2, 3, 4])
        cd = self.dims() if r.random() < 0.25 else None
        decls = []
        for _ in range(nd):
            dd = self.dims() if r.random() < 0.3 else None
            if cd is not None and dd is not None:
                self.hit("clause_and_declarator_dims")
            decls.append({"name": names(), "dims": dd, "mod": self.decl_mod(),
                          "comment": r.choice(["", "", "", "a comment", "x"]), "ann": self.ann("declarator", 0.15)})
        self.hit("declarators_%d" % min(nd, 3))
        return {"k": "comp", "prefixes": pre, "type": r.choice(TYPES), "dims": cd, "decls": decls}

    def cls(self, name, depth, dup=None):
        """dup: None | 'sym' | 'imp' — plant one duplicate in this class."""
        r = self.r
        pool = list(NAMES)
        r.shuffle(pool)
        used = []

        def fresh():
            n = pool.pop() if pool else "n%d" % len(used)
            used.append(n)
            return n

        def name_src():
            if dup == "sym" and used and r.random() < 0.25:
                self.hit("planted_duplicate_symbol")
                return r.choice(used)
            return fresh()

        imp_names = ["I%d" % i for i in range(12)]
        r.shuffle(imp_names)
        imp_used = []
        nested = 0
        items = []
        nsec = r.choice([1, 1, 2, 3, 3, 4, 5])
        labels = ["unl"] + [r.choice(["pub", "pro"]) for _ in range(nsec - 1)]
        for lb in labels:
            els = []
            for _ in range(r.choice([0, 1, 1, 2, 3, 4])):
                x = r.random()
                if x < 0.62:
                    els.append(self.clause(name_src))
                elif x < 0.74:
                    self.hit("extends")
                    a = self.args_with_redecl(2, 0.4 if r.random() < 0.5 else 0.0) if r.random() < 0.6 else None
                    if a:
                        self.hit("extends_with_modification")
                    els.append({"k": "ext", "path": r.choice([["Base"], ["Pk", "Base"], ["B2"]]), "args": a,
                                "ann": self.ann("extends")})
                elif x < 0.86:
                    f = r.choice(["qual", "qual", "short", "star", "list"])
                    if dup == "imp" and imp_used and r.random() < 0.7:
                        f = "qual"
                    self.hit("import_" + f)
                    pk = r.choice([["Lib"], ["Lib", "Sub"]])
                    tail = {"descr": self.descr("import_" + f), "ann": self.ann("import_" + f)}
                    if f == "star":
                        els.append(dict({"k": "imp", "form": f, "path": pk}, **tail))
                    elif f == "list":
                        n = r.choice([1, 2, 2, 3, 4])
                        ns = [imp_names.pop() for _ in range(n)]
                        imp_used.append(ns[0])
                        if n >= 3:
                            self.hit("import_list_3plus")
                        els.append(dict({"k": "imp", "form": f, "path": pk, "names": ns}, **tail))
                    else:
                        if dup == "imp" and imp_used and r.random() < 0.8 and f == "qual":
                            self.hit("planted_duplicate_import")
                            n = r.choice(imp_used)
                        else:
                            n = imp_names.pop()
                            imp_used.append(n)
                        if f == "qual":
                            els.append(dict({"k": "imp", "form": f, "path": pk + [n]}, **tail))
                        else:
                            els.append(dict({"k": "imp", "form": f, "short": n, "path": pk + ["X" + n]}, **tail))
                elif depth > 0 and nested < 3:
                    nested += 1
                    self.hit("nested_class")
                    sub_dup = dup if r.random() < 0.3 else None
                    els.append({"k": "cls", "cls": self.cls("N%d%s" % (nested, name[:1]), depth - 1, sub_dup)})
                else:
                    els.append(self.clause(name_src))
            items.append(["sec", lb, els])
        # equation / algorithm sections interleaved after the unlabelled section
        for _ in range(r.choice([0, 0, 1, 2, 3, 4])):
            init = r.random() < 0.4
            if r.random() < 0.65:
                eqs = []
                for _ in range(r.choice([0, 1, 2, 3])):
                    if r.random() < 0.12:
                        a, b = r.choice(NAMES), r.choice(NAMES)
                        eqs.append(("connect(%s, %s)" % (a, b), "(connect %s %s)" % (a, b)))
                    else:
                        l = r.choice(NAMES)
                        l = ("der(%s)" % l, "(der %s)" % l) if r.random() < 0.3 else (l, l)
                        rhs = self.expr(2)
                        c = r.choice(["", "", "", "why"])
                        eqs.append(("%s = %s%s" % (l[0], rhs[0], ' "%s"' % c if c else ""),
                                    "(= %s %s)%s" % (l[1], rhs[1], "#" + c if c else "")))
                self.hit("initial_equation_section" if init else "equation_section")
                item = ["eq", init, eqs]
            else:
                sts = []
                for _ in range(r.choice([0, 1, 2, 3])):
                    l = r.choice(NAMES)
                    rhs = self.expr(2)
                    sts.append(("%s := %s" % (l, rhs[0]), "(:= %s %s)" % (l, rhs[1])))
                self.hit("initial_algorithm_section" if init else "algorithm_section")
                item = ["alg", init, sts]
            items.insert(r.randint(1, len(items)), item)
        secs = [it[1] for it in items if it[0] == "sec"]
        if secs.count("pub") > 1 or secs.count("pro") > 1:
            self.hit("repeated_section_label")
        return {"ctype": r.choice(CTYPES), "name": name, "comment": r.choice(["", "", "doc string"]), "items": items}

    def file(self):
        r = self.r
        dup = None
        x = r.random()
        if x < 0.10:
            dup = "sym"
        elif x < 0.15:
            dup = "imp"
        n = 2 if r.random() < 0.15 else 1
        return [self.cls("M%d" % i, r.choice([0, 1, 1, 2]), dup) for i in range(n)]


# =============================================================================================
# printer (independent of pymoca)
# =============================================================================================
class Printer:
    def __init__(self, rng):
        self.r = rng

    def sp(self):
        x = self.r.random()
        if x < 0.8:
            return " "
        if x < 0.9:
            return "\n  "
        if x < 0.95:
            return " /* c */ "
        return " // line\n "

    def mod(self, m):
        s = ""
        if m["cm"] is not None:
            s += "(" + ", ".join(self.arg(a) for a in m["cm"]) + ")"
        if m["val"] is not None:
            s += " = " + m["val"][0]
        return s

    def arg(self, a):
        if a.get("k") == "short":
            return "redeclare %s %s = %s" % (a["ctype"], a["name"], ".".join(a["target"]))
        if a.get("k") == "redecl":
            t = "redeclare " + " ".join(a["prefixes"] + [".".join(a["type"])]) + " " + a["name"]
            if a["dims"] is not None:
                t += self.dims(a["dims"])
            if a["mod"] is not None:
                t += self.mod(a["mod"])
            return t + (' "%s"' % a["comment"] if a["comment"] else "")
        return a["name"] + (self.mod(a["mod"]) if a["mod"] is not None else "")

    def dims(self, d):
        return "[" + ", ".join(x[0] for x in d) + "]"

    def element(self, e, ind):
        if e["k"] == "comp":
            s = " ".join(e["prefixes"] + [".".join(e["type"])])
            if e["dims"] is not None:
                s += self.dims(e["dims"])
            ds = []
            for d in e["decls"]:
                t = d["name"]
                if d["dims"] is not None:
                    t += self.dims(d["dims"])
                if d["mod"] is not None:
                    t += self.mod(d["mod"])
                if d["comment"]:
                    t += ' "%s"' % d["comment"]
                if d.get("ann"):
                    t += " " + d["ann"]
                ds.append(t)
            return s + self.sp() + ("," + self.sp()).join(ds)
        if e["k"] == "ext":
            s = "extends " + ".".join(e["path"])
            if e["args"] is not None:
                s += "(" + ", ".join(self.arg(a) for a in e["args"]) + ")"
            return s + (" " + e["ann"] if e.get("ann") else "")
        if e["k"] == "imp":
            p = ".".join(e["path"])
            if e["form"] == "qual":
                s = "import " + p
            elif e["form"] == "short":
                s = "import %s = %s" % (e["short"], p)
            elif e["form"] == "star":
                s = "import %s.*" % p
            else:
                s = "import %s.{%s}" % (p, ", ".join(e["names"]))
            if e.get("descr"):
                s += ' "%s"' % e["descr"]
            return s + (" " + e["ann"] if e.get("ann") else "")
        return self.cls(e["cls"], ind + "  ")

    def cls(self, c, ind=""):
        out = ["%s %s%s" % (c["ctype"], c["name"], ' "%s"' % c["comment"] if c["comment"] else "")]
        for it in c["items"]:
            if it[0] == "sec":
                if it[1] != "unl":
                    out.append({"pub": "public", "pro": "protected"}[it[1]])
                for e in it[2]:
                    out.append("  " + self.element(e, ind) + ";")
            else:
                kw = ("initial " if it[1] else "") + ("equation" if it[0] == "eq" else "algorithm")
                out.append(kw)
                for x in it[2]:
                    out.append("  " + x[0] + ";")
        out.append("end %s" % c["name"])
        return ("\n" + ind).join(out)

    def file(self, f):
        return "\n".join(self.cls(c) + ";" for c in f) + "\n"


# =============================================================================================
# the property, read off the abstract syntax (independent of the Coq model)
# =============================================================================================
def show_args(args):
    return "(" + ",".join(show_arg(a) for a in args) + ")"


def show_arg(a):
    if a.get("k") == "short":
        return "redeclare-short{%s|%s|%s}" % (a["ctype"], a["name"], ".".join(a["target"]))
    if a.get("k") == "redecl":
        dims = [[x[1] for x in a["dims"]]] if a["dims"] is not None else [["None"]]
        return "redeclare{%s|%s|%s|%s|%s|%s}" % (" ".join(a["prefixes"]), ".".join(a["type"]), a["name"],
                                                 ";".join(",".join(g) for g in dims), expect_cm(a["mod"]), a["comment"])
    mods = []
    if a["mod"] is not None:
        if a["mod"]["cm"] is not None:
            mods.append(show_args(a["mod"]["cm"]))
        if a["mod"]["val"] is not None:
            mods.append("=" + a["mod"]["val"][1])
    return a["name"] + "[" + ";".join(mods) + "]"


def expect_cm(m):
    """class modification first, then the declaration value as one `value` argument"""
    if m is None or (m["cm"] is None and m["val"] is None):
        return "None"
    args = [show_arg(a) for a in (m["cm"] or [])]
    if m["val"] is not None:
        args.append("value[=%s]" % m["val"][1])
    return "(" + ",".join(args) + ")"


class Dup(Exception):
    pass


def expect(f):
    """-> ('ok', [class records in pre-order]) | ('err', kind, name); each class record lists what the
    property names.  Ideal reading: visibility = label of the declaring section, dimensions = declarator
    subscripts followed by clause subscripts, every imported name bound."""
    out = []

    def rec(c, path):
        me = {"path": path, "type": c["ctype"], "comment": c["comment"], "symbols": [], "extends": [],
              "imports": [], "classes": [], "eqs": [], "ieqs": [], "sts": [], "ists": []}
        out.append(me)
        imports = {}
        seen = set()
        for it in c["items"]:
            if it[0] == "eq":
                me["ieqs" if it[1] else "eqs"] += [x[1] for x in it[2]]
            elif it[0] == "alg":
                me["ists" if it[1] else "sts"] += [x[1] for x in it[2]]
            else:
                for e in it[2]:
                    if e["k"] == "comp":
                        for d in e["decls"]:
                            if d["name"] in seen:
                                raise Dup(0, d["name"])
                            seen.add(d["name"])
                            own = [x[1] for x in d["dims"]] if d["dims"] is not None else []
                            cl = [x[1] for x in e["dims"]] if e["dims"] is not None else []
                            dims = [own + cl] if own + cl else [["None"]]
                            me["symbols"].append({
                                "name": d["name"], "type": e["type"], "prefixes": e["prefixes"], "dims": dims,
                                "vis": VIS[it[1]], "comment": d["comment"], "cm": expect_cm(d["mod"]),
                                "both_dims": bool(own and cl), "clause_dims": [cl], "section": it})
                    elif e["k"] == "ext":
                        me["extends"].append({"path": e["path"], "vis": VIS[it[1]],
                                              "cm": show_args(e["args"] or []), "section": it})
                    elif e["k"] == "imp":
                        if e["form"] == "short":
                            imports[e["short"]] = "short:" + ".".join(e["path"])
                        elif e["form"] == "star":
                            imports["*"] = (imports["*"] + "|" if "*" in imports else "star:") + ".".join(e["path"])
                        else:
                            for n in ([e["path"]] if e["form"] == "qual" else [e["path"] + [n] for n in e["names"]]):
                                if n[-1] in imports:
                                    raise Dup(1, n[-1])
                                imports[n[-1]] = "path:" + ".".join(n)
                    else:
                        me["classes"].append(e["cls"]["name"])
                        rec(e["cls"], path + [e["cls"]["name"]])
        me["imports"] = [[k, v] for k, v in imports.items()]

    try:
        for c in f:
            rec(c, [c["name"]])
    except Dup as d:
        return ("err", d.args[0], d.args[1])
    return ("ok", out)


def last_of_label(c_items, it):
    """is `it` the last section of its label in this class?"""
    later = False
    seen = False
    for x in c_items:
        if x is it:
            seen = True
        elif seen and x[0] == "sec" and x[1] == it[1]:
            later = True
    return not later


def mod_has_redecl(m):
    return m is not None and any(a.get("k") in ("redecl", "short") or mod_has_redecl(a.get("mod")) for a in (m["cm"] or []))


def args_nested_redecl(args):
    """a redeclaration inside the modification of a redeclared component, at any depth"""
    for a in args or []:
        m = a.get("mod")
        if a.get("k") == "redecl" and mod_has_redecl(m):
            return True
        if m is not None and args_nested_redecl(m["cm"]):
            return True
    return False


def comp_redecl_classes(f):
    """paths of the classes with a redeclaration inside the modification of a COMPONENT: a declared one, or one that
    is itself redeclared inside an extends clause (there component_clause1 clobbers comp_clause / symbol_node of the
    declaration being modified).  Not modelled: oracle only."""
    out = set()

    def rec(c, path):
        for it in c["items"]:
            if it[0] == "sec":
                for e in it[2]:
                    if e["k"] == "comp" and any(mod_has_redecl(d["mod"]) for d in e["decls"]):
                        out.add(tuple(path))
                    elif e["k"] == "ext" and args_nested_redecl(e["args"]):
                        out.add(tuple(path))
                    elif e["k"] == "cls":
                        rec(e["cls"], path + [e["cls"]["name"]])
    for c in f:
        rec(c, [c["name"]])
    return out


def judge(f, res):
    """-> list of (tag, description); 'structure-mismatch' unless the deviation is exactly one of the recorded
    defects.  TAG_REDECL: the file has a class of comp_redecl_classes and either the parse dies with AttributeError /
    KeyError, or a duplicate-free text is rejected as 'already defined', or the symbol table / an extends clause / a
    component's modification of that very class is not the declared one (then the listener state is corrupted and
    every mismatch of the file carries the tag)."""
    out = judge0(f, res)
    leaky = comp_redecl_classes(f)
    if leaky and out:
        if out[0][0] == "parse-raised" and res.get("exc") in ("AttributeError", "KeyError"):
            return [(TAG_REDECL, out[0][1])]
        if out[0][0] == "spurious-rejection" and res["err"][2] == "already defined":
            return [(TAG_REDECL, out[0][1])]
        pre = [".".join(p_) for p_ in leaky]
        hit = any(t == "structure-mismatch" and any(
            w.startswith(q + ": symbols ") or w.startswith(q + ": extends ") or
            (w.startswith(q + ".") and ": cm is " in w)
            for q in pre) for t, w in out)
        if hit:
            return [(TAG_REDECL if t == "structure-mismatch" else t, w) for t, w in out]
    return out


def judge0(f, res):
    if "crash" in res or "exc" in res:
        return [("parse-raised", "parse raised / crashed: %s" % json.dumps(res)[:200])]
    exp = expect(f)
    if res.get("syntax_error"):
        return [("generated-text-rejected", "parse returned None on a generated class text")]
    if exp[0] == "err":
        want = ["OSError", exp[2], "already defined" if exp[1] == 0 else "already imported"]
        if "err" not in res:
            return [("duplicate-accepted", "duplicate %s %r not rejected" % ("component" if exp[1] == 0 else "import", exp[2]))]
        if res["err"] != want:
            return [("duplicate-error", "expected %s, got %s" % (want, res["err"]))]
        return []
    if "err" in res:
        return [("spurious-rejection", "duplicate-free text rejected: %s" % res["err"])]
    obs = res["classes"]
    out = []
    items_of = {}

    def idx(c, path):
        items_of[tuple(path)] = c["items"]
        for it in c["items"]:
            if it[0] == "sec":
                for e in it[2]:
                    if e["k"] == "cls":
                        idx(e["cls"], path + [e["cls"]["name"]])
    for c in f:
        idx(c, [c["name"]])
    if [o["path"] for o in obs] != [e["path"] for e in exp[1]]:
        return [("structure-mismatch", "classes %s, declared %s" % ([o["path"] for o in obs], [e["path"] for e in exp[1]]))]
    orders = []
    idsets = ([], [], [])
    for o, e in zip(obs, exp[1]):
        where = ".".join(e["path"])
        items = items_of[tuple(e["path"])]
        for k in ("type", "comment", "classes", "eqs", "ieqs", "sts", "ists"):
            if o[k] != e[k]:
                out.append(("structure-mismatch", "%s: %s is %s, declared %s" % (where, k, o[k], e[k])))
        # imports
        if o["imports"] != e["imports"]:
            ok = False
            want = []
            imports = {}
            for it in items:
                if it[0] == "sec":
                    for el in it[2]:
                        if el["k"] == "imp" and el["form"] == "list" and len(el["names"]) >= 3:
                            ok = True
            if ok:
                # what the tail-joining defect gives for exactly these imports
                for it in items:
                    if it[0] != "sec":
                        continue
                    for el in it[2]:
                        if el["k"] != "imp":
                            continue
                        if el["form"] == "short":
                            imports[el["short"]] = "short:" + ".".join(el["path"])
                        elif el["form"] == "star":
                            imports["*"] = (imports["*"] + "|" if "*" in imports else "star:") + ".".join(el["path"])
                        elif el["form"] == "qual":
                            imports[el["path"][-1]] = "path:" + ".".join(el["path"])
                        else:
                            ns = el["names"]
                            ns = ns if len(ns) < 3 else [ns[0], ",".join(ns[1:])]
                            for n in ns:
                                imports[n] = "path:" + ".".join(el["path"] + [n])
                want = [[k, v] for k, v in imports.items()]
            if ok and o["imports"] == want:
                out.append((TAG_IMP, "%s: imports %s, declared %s" % (where, o["imports"], e["imports"])))
            else:
                out.append(("structure-mismatch", "%s: imports %s, declared %s" % (where, o["imports"], e["imports"])))
        # extends
        if len(o["extends"]) != len(e["extends"]):
            out.append(("structure-mismatch", "%s: %d extends clauses, declared %d" % (where, len(o["extends"]), len(e["extends"]))))
        else:
            for ox, ex in zip(o["extends"], e["extends"]):
                if ox[0] != ex["path"] or ox[2] != ex["cm"]:
                    out.append(("structure-mismatch", "%s: extends %s, declared %s%s" % (where, ox, ex["path"], ex["cm"])))
                elif ox[1] != ex["vis"]:
                    if ox[1] == 0 and not last_of_label(items, ex["section"]):
                        out.append((TAG_VIS, "%s: extends %s in a %s section has visibility PRIVATE" % (where, ".".join(ex["path"]), ex["section"][1])))
                    else:
                        out.append(("structure-mismatch", "%s: extends %s visibility %d, section %s" % (where, ex["path"], ox[1], ex["section"][1])))
        # symbols: each declarator exactly once, in source order
        if [s["name"] for s in o["symbols"]] != [s["name"] for s in e["symbols"]] or \
                [s["key"] for s in o["symbols"]] != [s["name"] for s in e["symbols"]]:
            out.append(("structure-mismatch", "%s: symbols %s, declared %s" % (where, [s["key"] for s in o["symbols"]], [s["name"] for s in e["symbols"]])))
            continue
        for so, se in zip(o["symbols"], e["symbols"]):
            sw = where + "." + se["name"]
            for k in ("type", "prefixes", "comment", "cm"):
                if so[k] != se[k]:
                    out.append(("structure-mismatch", "%s: %s is %r, declared %r" % (sw, k, so[k], se[k])))
            if so["dims"] != se["dims"]:
                if se["both_dims"] and so["dims"] == se["clause_dims"]:
                    out.append((TAG_DIMS, "%s: dimensions %s, declared %s (declarator subscripts lost)" % (sw, so["dims"], se["dims"])))
                else:
                    out.append(("structure-mismatch", "%s: dimensions %s, declared %s" % (sw, so["dims"], se["dims"])))
            if so["vis"] != se["vis"]:
                if so["vis"] == 0 and not last_of_label(items, se["section"]):
                    out.append((TAG_VIS, "%s: declared in a %s section, visibility PRIVATE" % (sw, se["section"][1])))
                else:
                    out.append(("structure-mismatch", "%s: visibility %d, section %s" % (sw, so["vis"], se["section"][1])))
            for k in range(3):
                idsets[k].append((so["ids"][k], sw))
    # declaration order: strictly increasing in source order inside each class, all distinct file-wide
    for o in obs:
        mine = [(s_["order"], ".".join(o["path"]) + "." + s_["key"]) for s_ in o["symbols"]]
        for a, b in zip(mine, mine[1:]):
            if not a[0] < b[0]:
                out.append(("structure-mismatch", "order of %s (%d) not below order of %s (%d)" % (a[1], a[0], b[1], b[0])))
    orders = [(s_["order"], s_["key"]) for o in obs for s_ in o["symbols"]]
    if len({x[0] for x in orders}) != len(orders):
        out.append(("structure-mismatch", "order numbers repeat: %s" % sorted(x[0] for x in orders)))
    for k, nm in enumerate(("prefixes", "dimensions", "type")):
        seen = {}
        for i, sw in idsets[k]:
            if i in seen:
                out.append(("structure-mismatch", "%s and %s share one %s object" % (seen[i], sw, nm)))
            seen[i] = sw
    # dedupe, keep order
    res_, s = [], set()
    for t in out:
        if t not in s:
            s.add(t)
            res_.append(t)
    return res_


# =============================================================================================
# Coq encoding
# =============================================================================================
class Interner:
    """each distinct string literal of a shard is defined once (`Definition sN := "..."`): elaborating the
    case terms is what costs in coqc, not evaluating them"""
    def __init__(self):
        self.d = {}

    def __call__(self, x):
        if x not in self.d:
            self.d[x] = "s%d" % len(self.d)
        return self.d[x]

    def defs(self):
        return "".join("Definition %s := %s.\n" % (n, core.cq_str(x)) for x, n in self.d.items())


STR = Interner()


def cq_str(x):
    return STR(x)


def cq_nat(n):
    return str(n)


def cq_ls(l):
    return cq_list([cq_str(x) for x in l])


def cq_mod(m):
    return "(Modif %s %s)" % (core.cq_opt(cq_list([cq_arg(a) for a in m["cm"]]) if m["cm"] is not None else None),
                              core.cq_opt(cq_str(m["val"][1]) if m["val"] is not None else None))


def cq_arg(a):
    if a.get("k") == "short":
        return "(AShort %s %s %s)" % (cq_str(a["ctype"]), cq_str(a["name"]), cq_ls(a["target"]))
    if a.get("k") == "redecl":
        return "(ARedecl %s %s %s %s %s %s)" % (cq_ls(a["prefixes"]), cq_ls(a["type"]), cq_str(a["name"]), cq_dims(a["dims"]),
                                                 core.cq_opt(cq_mod(a["mod"]) if a["mod"] is not None else None),
                                                 cq_str(a["comment"]))
    return "(Arg %s %s)" % (cq_str(a["name"]), core.cq_opt(cq_mod(a["mod"]) if a["mod"] is not None else None))


def cq_dims(d):
    return core.cq_opt(cq_ls([x[1] for x in d]) if d is not None else None)


def ann_flag(e):
    """annotation with at least one argument (element modification)"""
    return cq_bool(bool(e.get("ann")) and e["ann"] != "annotation()")


def cq_element(e):
    if e["k"] == "comp":
        ds = cq_list(["(mkD %s %s %s %s)" % (cq_str(d["name"]), cq_dims(d["dims"]),
                                             core.cq_opt(cq_mod(d["mod"]) if d["mod"] is not None else None),
                                             cq_str(d["comment"])) for d in e["decls"]])
        return "(EComp (mkC %s %s %s %s))" % (cq_ls(e["prefixes"]), cq_ls(e["type"]), cq_dims(e["dims"]), ds)
    if e["k"] == "ext":
        return "(EExt %s %s %s)" % (cq_ls(e["path"]),
                                    core.cq_opt(cq_list([cq_arg(a) for a in e["args"]]) if e["args"] is not None else None),
                                    ann_flag(e))
    if e["k"] == "imp":
        if e["form"] == "qual":
            return "(EImp (ImpQual %s) %s)" % (cq_ls(e["path"]), ann_flag(e))
        if e["form"] == "short":
            return "(EImp (ImpShort %s %s) %s)" % (cq_str(e["short"]), cq_ls(e["path"]), ann_flag(e))
        if e["form"] == "star":
            return "(EImp (ImpStar %s) %s)" % (cq_ls(e["path"]), ann_flag(e))
        return "(EImp (ImpList %s %s) %s)" % (cq_ls(e["path"]), cq_ls(e["names"]), ann_flag(e))
    return cq_cls(e["cls"])


def cq_cls(c):
    secs = cq_list(["(%s, %s)" % ({"unl": "Unl", "pub": "Pub", "pro": "Pro"}[it[1]], cq_list([cq_element(e) for e in it[2]]))
                    for it in c["items"] if it[0] == "sec"])
    eqs = cq_list(["(%s, %s)" % (cq_bool(it[1]), cq_ls([x[1] for x in it[2]])) for it in c["items"] if it[0] == "eq"])
    algs = cq_list(["(%s, %s)" % (cq_bool(it[1]), cq_ls([x[1] for x in it[2]])) for it in c["items"] if it[0] == "alg"])
    return "(ECls %s %s %s %s %s %s)" % (cq_str(c["ctype"]), cq_str(c["name"]), cq_str(c["comment"]), secs, eqs, algs)


def cq_obs(res):
    if "err" in res:
        kind = 0 if res["err"][2] == "already defined" else 1 if res["err"][2] == "already imported" else 9
        if res["err"][0] != "OSError":
            kind = 9
        return "(ObsErr %s %s)" % (cq_nat(kind), cq_str(res["err"][1]))
    cs = []
    for o in res["classes"]:
        syms = cq_list(["(%s, %s, %s, %s, (%s, %s), (%s, %s), (%s, %s, %s))" % (
            cq_str(s["name"]), cq_ls(s["type"]), cq_ls(s["prefixes"]), cq_list([cq_ls(g) for g in s["dims"]]),
            cq_nat(s["vis"]), cq_nat(s["order"]), cq_str(s["comment"]), cq_str(s["cm"]),
            cq_nat(s["ids"][0]), cq_nat(s["ids"][1]), cq_nat(s["ids"][2])) for s in o["symbols"]])
        exts = cq_list(["(%s, %s, %s)" % (cq_ls(x[0]), cq_nat(x[1]), cq_str(x[2])) for x in o["extends"]])
        imps = cq_list(["(%s, %s)" % (cq_str(k), cq_str(v)) for k, v in o["imports"]])
        cs.append("(%s, (%s, %s), %s, %s, %s, %s, (%s, %s), (%s, %s))" % (
            cq_ls(o["path"]), cq_str(o["type"]), cq_str(o["comment"]), syms, exts, imps, cq_ls(o["classes"]),
            cq_ls(o["eqs"]), cq_ls(o["ieqs"]), cq_ls(o["sts"]), cq_ls(o["ists"])))
    return "(ObsOk %s)" % cq_list(cs)


def encodable(res):
    return "classes" in res or "err" in res


# =============================================================================================
# fixed corpus (abstract syntax written by hand; covers every mechanism once)
# =============================================================================================
def E(s):
    return (s, s)


def corpus():
    d = lambda n, dims=None, mod=None, c="": {"name": n, "dims": dims, "mod": mod, "comment": c}
    comp = lambda pre, ty, dims, decls: {"k": "comp", "prefixes": pre, "type": ty, "dims": dims, "decls": decls}
    c1 = {"ctype": "model", "name": "C1", "comment": "", "items": [
        ["sec", "unl", [comp(["parameter", "input"], ["Real"], None, [d("p")])]]]}
    c2 = {"ctype": "model", "name": "C2", "comment": "doc", "items": [
        ["sec", "unl", [comp(["flow", "discrete", "output"], ["Real"], [E("2")],
                             [d("a", None, {"cm": [{"name": "start", "mod": {"cm": None, "val": E("1")}}], "val": E("3")}, "c"),
                              d("b"), d("c", [E("4")])]),
                        {"k": "ext", "path": ["B"], "args": [{"name": "k", "mod": {"cm": None, "val": E("2")}}]},
                        comp([], ["Integer"], None, [d("i"), d("j")])]],
        ["eq", False, [("a = b", "(= a b)")]],
        ["sec", "pub", [comp([], ["Real"], None, [d("u")])]],
        ["eq", True, [("a = 1", "(= a 1)")]],
        ["sec", "pro", [comp([], ["Real"], None, [d("v")]), {"k": "ext", "path": ["Q"], "args": None}]],
        ["alg", False, [("a := 1", "(:= a 1)")]],
        ["sec", "pub", [comp([], ["Real"], None, [d("w")]),
                        {"k": "cls", "cls": {"ctype": "record", "name": "R", "comment": "", "items": [
                            ["sec", "unl", [comp([], ["Real"], None, [d("a"), d("u")]),
                                            {"k": "imp", "form": "list", "path": ["L"], "names": ["X", "Y", "Z"]}]]]}}]],
        ["alg", True, [("b := 2", "(:= b 2)")]],
        ["eq", False, [("u = v", "(= u v)")]],
    ]}
    c3 = {"ctype": "model", "name": "C3", "comment": "", "items": [
        ["sec", "unl", [comp([], ["Real"], None, [d("a"), d("b"), d("a")])]]]}
    c4 = {"ctype": "model", "name": "C4", "comment": "", "items": [
        ["sec", "unl", [{"k": "imp", "form": "star", "path": ["P"], "descr": "descr", "ann": None},
                        {"k": "imp", "form": "star", "path": ["Q"], "descr": "", "ann": "annotation(Evaluate = true)"},
                        comp([], ["Real"], None, [dict(d("x", None, None, "c"), ann="annotation(Evaluate = true)"), d("y")]),
                        {"k": "imp", "form": "short", "short": "Z", "path": ["A", "C"], "descr": "x.*", "ann": "annotation()"},
                        {"k": "ext", "path": ["E"], "args": None, "ann": "annotation(k = 1)"},
                        comp([], ["Real"], None, [d("z")]),
                        {"k": "imp", "form": "list", "path": ["A"], "names": ["C", "D"], "descr": "l", "ann": None},
                        {"k": "imp", "form": "qual", "path": ["Lib", "B"], "descr": "d2", "ann": None}]]]}
    return [[c1], [c2], [c3], [c4]]


def eval_cases(ctx, label, triples, shard=50, workers=6):
    """triples: (variant term, file syntax, observation).  Returns indices whose check_case is not true, or None
    when a shard did not compile.  Own sharding (instead of core.coq_eval_cases) so that every shard carries only
    its own interned strings."""
    global STR
    items, parts = [], []
    for s0 in range(0, len(triples), shard):
        part = list(range(s0, min(len(triples), s0 + shard)))
        STR = Interner()
        enc = ["(%s, %s, %s)" % (triples[i][0], cq_list([cq_cls(c) for c in triples[i][1]]), cq_obs(triples[i][2]))
               for i in part]
        text = (core.HEADER + PREAMBLE + "Open Scope nat_scope.\n"
                "Fixpoint pv_bad {A} (f : A -> bool) (l : list A) (i : nat) : list nat :=\n"
                "  match l with nil => nil | cons x l' => (if f x then nil else cons i nil) ++ pv_bad f l' (S i) end.\n"
                + STR.defs() + "Definition pv_cases : list (%s) :=\n [ %s ].\n"
                "Eval vm_compute in (pv_bad check_case pv_cases 0).\n" % (CASE_TYPE, ";\n   ".join(enc)))
        items.append(("cases_%s_%d" % (label, s0), text))
        parts.append(part)
    bad = []
    for part, (ok, out, err) in zip(parts, core.coq_run_many(ctx, items, workers=workers)):
        if not ok:
            ctx.oblige("correspondence:%s:coqc" % label, False, err[-1200:])
            return None
        bad += [part[j] for j in core.parse_nat_list(core.coq_results(out)[-1])]
    return bad


# =============================================================================================
def run(ctx):
    core.check_props(ctx, "C04.v", THEOREMS)
    fp, n = core.fingerprint(core.REPO + "/src/pymoca/parser.py", {"ASTListener"})
    ctx.notes["source_fingerprint"] = {"parser.py:ASTListener": fp}
    g = Gen(ctx.rng)
    pr = Printer(ctx.rng)
    files = corpus()
    n_corpus = len(files)
    for _ in range(ctx.scaled(300, 3000)):
        files.append(g.file())
    cases = [{"text": PROBE_REDECL}] + [{"text": pr.file(f)} for f in files]
    results = core.run_child(ctx, "c04", cases, timeout=3000)
    # does exitComponent_clause1 restore symbol_node (repair of TAG_REDECL)?  z gets order 2 then, 3 otherwise
    try:
        restore = results[0]["classes"][0]["symbols"][0]["order"] == 2
    except (KeyError, IndexError, TypeError):
        restore = False
    ctx.notes["code_variant"] = {"v_redecl": restore}
    cases, results = cases[1:], results[1:]
    # (a) oracle
    n_rej = 0
    distinct = set()
    for f, c, r in zip(files, cases, results):
        for tag, why in judge(f, r):
            core.report(ctx, tag, why, {"input": {"text": c["text"], "syntax": f}, "observed": r})
        if "err" in r:
            n_rej += 1
        if sum(len(e["decls"]) for cl in f for it in cl["items"] if it[0] == "sec" for e in it[2] if e["k"] == "comp") >= 2:
            distinct.add(c["text"])
    # (b) correspondence
    cqv = "(mkV true true true %s)" % cq_bool(restore)
    # redeclarations inside COMPONENT modifications are not modelled: oracle only
    n_skip = sum(1 for f in files if comp_redecl_classes(f))
    ctx.notes["oracle_only_cases"] = n_skip
    idx = [i for i, r in enumerate(results) if encodable(r) and not comp_redecl_classes(files[i])]
    bad = eval_cases(ctx, "listener", [(cqv, files[i], results[i]) for i in idx])
    not_enc = [i for i, r in enumerate(results) if not encodable(r) and not comp_redecl_classes(files[i])]
    ok = bad == [] and not not_enc
    ctx.oblige("correspondence:model-vs-ASTListener", ok,
               "mismatching cases %s; not observable %s" % (None if bad is None else [idx[j] for j in bad[:10]], not_enc[:5]))
    if not ok and not [v for v in ctx.violations if not v["no_input"]]:
        j = idx[bad[0]] if bad else (not_enc[0] if not_enc else 0)
        core.violation(ctx, "correspondence-broken",
                       {"correspondence": "Model/C04_listener.v run_file vs pymoca.parser.parse",
                        "variant": "head_variant", "input": {"text": cases[j]["text"], "syntax": files[j]},
                        "observed": results[j]}, no_input=True)
    # S4 known findings
    def still_fails(e):
        rp = e.get("replay") or {}
        r = core.run_child(ctx, "c04", [{"text": rp["text"]}])[0]
        return any(t == e["tag"] for t, _ in judge(rp["syntax"], r))
    core.replay_known(ctx, still_fails)
    ctx.cov["evaluations"] = len(cases)
    ctx.cov["distinct_nontrivial"] = len(distinct)
    ctx.cov["rule"] = ("hand-written corpus (%d) + generated files of 1-2 classes, nested 0-2 deep; non-trivial = at "
                       "least two declarators, distinct texts" % n_corpus)
    ctx.cov["samples"] = [cases[1]["text"][:600], cases[n_corpus]["text"][:600]]
    ctx.notes["input_distribution"] = dict(g.stats, files=len(files), rejected_by_parser=n_rej)
    ctx.assumptions += [
        "expressions (subscripts, modification values, equations, statements) are opaque canonical strings in the "
        "model; their parsing is C03's subject; the child's serialiser of expression nodes is trusted",
        "the ParseTreeWalker order is modelled by the structure of the recursion (tied by the correspondence only)",
        "not modelled: redeclare / replaceable, annotations, enumerations, short class definitions, `within`, "
        "conditional components, string-comment concatenation (\"a\" + \"b\" keeps the inner quotes), "
        "final/each/inner/outer prefixes, duplicate nested class names (silently overwritten)",
    ]


def replay(ctx, path):
    rec = json.load(open(path))
    inp = rec["input"]
    res = core.run_child(ctx, "c04", [{"text": inp["text"]}])[0]
    why = judge(inp["syntax"], res)
    known = {e["tag"] for e in core.load_known(ctx.pid)}
    bad = [w for w in why if w[0] not in known]
    for t, w in why:
        print("replay: [%s] %s" % (t, w))
    if not why:
        print("replay: property holds on this class text")
    return 1 if bad else 0
