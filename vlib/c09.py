"""C09 — connections produce exactly the Modelica connection-set equations."""
import itertools
import json
from concurrent.futures import ThreadPoolExecutor
from fractions import Fraction

from . import core
from .core import cq_bool, cq_list, cq_pos

THEOREMS = ["C09_partition", "C09_flow", "C09_potential", "C09_model_rows", "C09_sharing_invariant",
            "C09_example", "C09_join_injective", "C09_prefix_with_separator", "C09_bare_prefix_refuted",
            "C09_name_test_sound", "C09_string_partition", "C09_string_model_rows", "C09_string_example",
            "C09_partition_indexed", "C09_flow_indexed", "C09_potential_indexed", "C09_model_rows_indexed",
            "C09_sharing_invariant_indexed", "C09_byname_all_or_none", "C09_byname_refuted"]

POT_KINDS = ("pot", "in", "out")
KIND_DECL = {"pot": "Real", "in": "input Real", "out": "output Real", "flow": "flow Real",
             "par": "parameter Real", "const": "constant Real"}


# ---------------------------------------------------------------------------
# case -> Modelica text
# ---------------------------------------------------------------------------
def ref_str(r):
    return r[1] if r[0] is None else "%s.%s" % (r[0], r[1])


def render_eq(eq):
    out = ""
    for i, (c, name) in enumerate(eq):
        if i == 0:
            out += ("-" if c < 0 else "") + name
        else:
            out += (" - " if c < 0 else " + ") + name
    return out + " = 0"


def render(case):
    lines = []
    for cname, cvars in case["connectors"].items():
        lines.append("connector %s" % cname)
        for v, k in cvars:
            lines.append("  %s %s%s;" % (KIND_DECL[k], v, " = 1" if k in ("par", "const") else ""))
        lines.append("end %s;" % cname)
    for c in case["classes"]:
        lines.append("model %s" % c["name"])
        for d in c["decl_order"]:
            dim = c.get("dims", {}).get(d[0])
            lines.append("  %s %s%s;" % (d[1], d[0], "[%d]" % dim if dim else ""))
        for z in c.get("reals", []):
            lines.append("  Real %s;" % z)
        lines.append("equation")
        for it in c["body"]:
            if it[0] == "connect":
                lines.append("  connect(%s, %s);" % (ref_str(it[1]), ref_str(it[2])))
            else:
                lines.append("  %s;" % render_eq(it[1]))
        lines.append("end %s;" % c["name"])
    return "\n".join(lines) + "\n"


# ---------------------------------------------------------------------------
# independent reference: Modelica connection semantics, level by level, union-find
# ---------------------------------------------------------------------------
class UF:
    def __init__(self):
        self.p = {}
        self.order = []

    def find(self, x):
        if x not in self.p:
            self.p[x] = x
            self.order.append(x)
        while self.p[x] != x:
            self.p[x] = self.p[self.p[x]]
            x = self.p[x]
        return x

    def union(self, a, b):
        ra, rb = self.find(a), self.find(b)
        if ra != rb:
            self.p[rb] = ra
            return True
        return False

    def sets(self):
        out = {}
        for x in self.order:
            out.setdefault(self.find(x), []).append(x)
        return list(out.values())


def class_table(case):
    return {c["name"]: c for c in case["classes"]}


def base(x):
    """'a[2]' -> 'a' (array elements are written into the reference strings)"""
    return x.split("[")[0]


def elems(c, n):
    d = c.get("dims", {}).get(n)
    return [n] if not d else ["%s[%d]" % (n, k) for k in range(1, d + 1)]


def conn_type(tab, c, r):
    """connector class of reference r = (comp|None, conn) used inside class c"""
    if r[0] is None:
        return dict(c["conns"])[base(r[1])]
    sub = tab[dict(c["subs"])[base(r[0])]]
    return dict(sub["conns"])[base(r[1])]


def tgroup(connectors, t):
    """connector classes with the same members (name, kind) are connectable with one another"""
    return tuple(sorted((v, "pot" if k in POT_KINDS else k) for v, k in connectors[t]))


def reference(case):
    """rows (dict var -> Fraction) of the connection semantics + pass-through rows + statistics"""
    tab = class_table(case)
    rows, passthrough = [], []
    mentioned = set()
    allflows = []
    stats = {"levels": 0, "sets": 0, "merges": 0, "redundant": 0, "mixed_sets": 0, "outside_only_sets": 0,
             "max_set": 0, "clauses": 0}

    def walk(prefix, cname, depth):
        c = tab[cname]
        stats["levels"] = max(stats["levels"], depth)
        for n0, t in c["conns"]:
            for n in elems(c, n0):
                for v, k in case["connectors"][t]:
                    if k == "flow":
                        allflows.append((prefix + n, prefix + n + "." + v))
        for n0, t in c["subs"]:
            for n in elems(c, n0):
                walk(prefix + n + ".", t, depth + 1)
        uf = UF()
        size = {}
        for it in c["body"]:
            if it[0] == "eq":
                row = {}
                for co, name in it[1]:
                    row[prefix + name] = row.get(prefix + name, 0) + Fraction(co)
                passthrough.append(row)
                continue
            l, r = tuple(it[1]), tuple(it[2])
            stats["clauses"] += 1
            mentioned.add(prefix + ref_str(l))
            mentioned.add(prefix + ref_str(r))
            ra, rb = uf.find(l), uf.find(r)
            sa, sb = size.get(ra, 1), size.get(rb, 1)
            if ra == rb:
                stats["redundant"] += 1
            elif sa > 1 and sb > 1:
                stats["merges"] += 1
            if uf.union(l, r):
                size[uf.find(l)] = sa + sb
        for members in uf.sets():
            stats["sets"] += 1
            stats["max_set"] = max(stats["max_set"], len(members))
            ins = [m for m in members if m[0] is not None]
            if ins and len(ins) < len(members):
                stats["mixed_sets"] += 1
            if not ins:
                stats["outside_only_sets"] += 1
            t = conn_type(tab, c, members[0])
            for v, k in case["connectors"][t]:
                names = [prefix + ref_str(m) + "." + v for m in members]
                if k in POT_KINDS:
                    for other in names[1:]:
                        rows.append({names[0]: Fraction(1), other: Fraction(-1)})
                elif k == "flow":
                    row = {}
                    for m, nm in zip(members, names):
                        row[nm] = row.get(nm, 0) + (Fraction(1) if m[0] is not None else Fraction(-1))
                    rows.append(row)

    walk("", case["top"], 1)
    zeros = 0
    for conn, fv in allflows:
        if conn not in mentioned:
            rows.append({fv: Fraction(1)})
            zeros += 1
    stats["zero_defaults"] = zeros
    stats["array_clauses"] = sum(1 for c_ in case["classes"] for it in c_["body"]
                                 if it[0] == "connect" and "[" in ref_str(it[1]) + ref_str(it[2]))
    stats["mixed_class_clauses"] = sum(
        1 for c_ in case["classes"] for it in c_["body"] if it[0] == "connect"
        and conn_type(tab, c_, tuple(it[1])) != conn_type(tab, c_, tuple(it[2])))
    conns_all = {c_ for c_, _ in allflows}
    stats["prefix_unconnected"] = sum(1 for u in conns_all if u not in mentioned
                                      and any(u.startswith(m_) for m_ in mentioned))
    stats["flow_vars"] = len(allflows)
    return rows, passthrough, stats


# ---------------------------------------------------------------------------
# implementation equations -> linear rows
# ---------------------------------------------------------------------------
class NonLinear(Exception):
    pass


def lin(t):
    """tree -> (dict var -> Fraction, const Fraction)"""
    tag = t[0]
    if tag == "sym":
        return {t[1]: Fraction(1)}, Fraction(0)
    if tag == "ref":
        if t[3]:
            raise NonLinear("unresolved reference %s" % t[1])
        idx = [i for ia in t[2] for i in ia if i is not None]
        if not idx:
            return {t[1]: Fraction(1)}, Fraction(0)
        # generated arrays live at the top level only: one literal index, on the first name segment
        if len(idx) != 1 or idx[0][0] != "num" or int(idx[0][1]) != idx[0][1]:
            raise NonLinear("unsupported indices on %s" % t[1])
        segs = t[1].split(".")
        return {".".join(["%s[%d]" % (segs[0], idx[0][1])] + segs[1:]): Fraction(1)}, Fraction(0)
    if tag == "num":
        return {}, Fraction(t[1])
    if tag == "op":
        op, args = t[1], [lin(a) for a in t[2]]
        if op == "+" and len(args) == 2:
            return add(args[0], args[1], 1)
        if op == "-" and len(args) == 2:
            return add(args[0], args[1], -1)
        if op == "-" and len(args) == 1:
            return add(({}, Fraction(0)), args[0], -1)
        if op == "+" and len(args) == 1:
            return args[0]
        if op == "*" and len(args) == 2:
            for a, b in ((args[0], args[1]), (args[1], args[0])):
                if not a[0]:
                    return {v: c * a[1] for v, c in b[0].items()}, b[1] * a[1]
        raise NonLinear("operator %s/%d" % (op, len(args)))
    raise NonLinear("node %s" % tag)


def add(a, b, s):
    d = dict(a[0])
    for v, c in b[0].items():
        d[v] = d.get(v, 0) + s * c
    return d, a[1] + s * b[1]


def impl_rows(res, case=None):
    dims = {}
    if case is not None:
        dims = class_table(case)[case["top"]].get("dims", {})
    rows = []
    for e in res["eqs"]:
        if e[0] != "eq":
            raise NonLinear("non-equation %s" % e[0])
        d, k = add(lin(e[1]), lin(e[2]), -1)
        if k != 0:
            raise NonLinear("inhomogeneous equation (constant %s)" % k)
        whole = [v for v in d if v.split(".")[0] in dims]
        if whole:
            # an equation on a whole array symbol (the zero default `a.n.i = 0`) means every element
            if len(d) != 1:
                raise NonLinear("whole-array variable in a compound equation: %s" % show(d))
            segs = whole[0].split(".")
            for kk in range(1, dims[segs[0]] + 1):
                rows.append({".".join(["%s[%d]" % (segs[0], kk)] + segs[1:]): d[whole[0]]})
        else:
            rows.append(d)
    return rows


def clean(row):
    return {v: c for v, c in row.items() if c != 0}


def rref(rows):
    """exact reduced row-echelon form over Q, variables ordered by name: pivot var -> row"""
    piv = {}
    for r in rows:
        r = clean(r)
        while True:
            hit = next((v for v in r if v in piv), None)
            if hit is None:
                break
            c = r[hit]
            for u, d in piv[hit].items():
                r[u] = r.get(u, 0) - c * d
            r = clean(r)
        if not r:
            continue
        p = min(r)
        c = r[p]
        r = {v: x / c for v, x in r.items()}
        for q, pr in piv.items():
            if p in pr:
                c = pr[p]
                for u, d in r.items():
                    pr[u] = pr.get(u, 0) - c * d
                piv[q] = clean(pr)
        piv[p] = r
    return piv


def residual(row, piv):
    r = clean(row)
    while True:
        hit = next((v for v in r if v in piv), None)
        if hit is None:
            return r
        c = r[hit]
        for u, d in piv[hit].items():
            r[u] = r.get(u, 0) - c * d
        r = clean(r)


def show(row):
    return " ".join("%+g*%s" % (float(c), v) for v, c in sorted(row.items())) + " = 0"


def judge(case, res):
    """Property oracle on the implementation (independent of the Coq model): the flat equations
    must have exactly the solutions of the connection semantics (+ the pass-through equations)."""
    if "eqs" not in res:
        return "flatten failed: %s" % json.dumps(res)[:300]
    try:
        got = impl_rows(res, case)
    except NonLinear as e:
        return "flat equation not of the expected linear homogeneous form: %s" % e
    want, passthrough, _ = reference(case)
    want = want + passthrough
    a, b = rref(got), rref(want)
    if a == b:
        return None
    for r in want:
        x = residual(r, a)
        if x:
            return ("connection semantics requires  %s  but the flat equations do not imply it "
                    "(solution space too large)" % show(r))
    for r in got:
        x = residual(r, b)
        if x:
            return ("flat equation  %s  is not implied by the connection semantics "
                    "(solution space too small)" % show(r))
    return "row spaces differ"


ARRAY_TAG = "array-element-unconnected-no-zero"


def judge_tag(case, res):
    """Tag of a failing case.  ARRAY_TAG only when the sole discrepancy is the documented one: elements of an
    ARRAY of connectors that appear in no connection get no zero equation although another element of the same
    array is connected (tree.py:1114-1117 TODO)."""
    try:
        got = impl_rows(res, case)
    except (NonLinear, KeyError):
        return "connection-equations"
    want, passthrough, _ = reference(case)
    allv = {v for r in want for v in r}
    mentioned_bases = set()
    for r in got:
        if len(clean(r)) > 1 or any("[" not in v for v in r):
            for v in r:
                if "[" in v:
                    mentioned_bases.add(base(v.split(".")[0]) + "." + ".".join(v.split(".")[1:]))
    extra = []
    for r in want:
        if len(r) == 1:
            v = next(iter(r))
            if "[" in v and base(v.split(".")[0]) + "." + ".".join(v.split(".")[1:]) in mentioned_bases:
                extra.append(r)
    if extra and rref(got + extra) == rref(want + passthrough) and rref(got) != rref(want + passthrough):
        return ARRAY_TAG
    return "connection-equations"


# ---------------------------------------------------------------------------
# generator
# ---------------------------------------------------------------------------
SHAPES = ["chain", "star", "cycle", "redundant", "merge", "random", "pairs"]


def gen_edges(rng, eps, shape):
    """connect edges over endpoint list eps (len >= 2) for one connector class; returns ordered list"""
    eps = list(eps)
    rng.shuffle(eps)
    n = len(eps)
    k = rng.randint(2, n)
    use = eps[:k]
    edges = []
    keep_order = False
    if shape == "chain":
        edges = [(use[i], use[i + 1]) for i in range(k - 1)]
    elif shape == "star":
        edges = [(use[0], u) for u in use[1:]]
    elif shape == "cycle":
        edges = [(use[i], use[i + 1]) for i in range(k - 1)] + [(use[-1], use[0])]
    elif shape == "redundant":
        edges = [(use[i], use[i + 1]) for i in range(k - 1)]
        for _ in range(rng.randint(1, 3)):
            x = rng.random()
            if x < 0.4:
                e = rng.choice(edges)
                edges.append(e if rng.random() < 0.5 else (e[1], e[0]))
            elif x < 0.9:
                edges.append((rng.choice(use), rng.choice(use)))     # chord or self connection
            else:
                u = rng.choice(use)
                edges.append((u, u))
    elif shape == "merge" and k >= 4:
        cut = rng.randint(2, k - 2)
        A, B = use[:cut], use[cut:]
        ea = [(A[i], A[i + 1]) for i in range(len(A) - 1)]
        eb = [(B[i], B[i + 1]) for i in range(len(B) - 1)]
        if rng.random() < 0.5:
            rng.shuffle(ea)
            rng.shuffle(eb)
        edges = ea + eb + [(rng.choice(A), rng.choice(B))]
        if k >= 6 and rng.random() < 0.5:
            # a third set merged afterwards
            extra = eps[k:k + 2]
            if len(extra) == 2:
                edges += [(extra[0], extra[1]), (rng.choice(B), extra[1])]
        keep_order = rng.random() < 0.6
    elif shape == "pairs":
        edges = [(use[i], use[i + 1]) for i in range(0, k - 1, 2)]
        if len(edges) >= 2 and rng.random() < 0.6:
            edges.append((edges[0][rng.randrange(2)], edges[1][rng.randrange(2)]))
            keep_order = rng.random() < 0.6
    else:
        for _ in range(rng.randint(1, k + 1)):
            a, b = rng.choice(use), rng.choice(use)
            if a != b or rng.random() < 0.15:
                edges.append((a, b))
        if not edges:
            edges = [(use[0], use[1])]
    if not keep_order:
        rng.shuffle(edges)
    return [(a, b) if rng.random() < 0.5 else (b, a) for a, b in edges]


def gen_connectors(rng):
    out = {}
    for cname in (["Pin", "Port"] if rng.random() < 0.45 else ["Pin"]):
        vs = []
        npot, nflow = rng.randint(1, 3), rng.randint(1, 2)
        pn = ["v", "w", "h"] if cname == "Pin" else ["T", "pr", "u"]
        fn = ["i", "j"] if cname == "Pin" else ["q", "m"]
        for x in pn[:npot]:
            k = "pot"
            if rng.random() < 0.08:
                k = rng.choice(["in", "out"])
            vs.append([x, k])
        for x in fn[:nflow]:
            vs.append([x, "flow"])
        if rng.random() < 0.3:
            vs.append(["k0", rng.choice(["par", "const"])])
        rng.shuffle(vs)
        out[cname] = vs
        if len(vs) >= 2 and rng.random() < 0.4:
            # a second connector class with the same members in another declaration order
            # (supply / return port): members are matched by NAME, never by position
            tw = list(vs)
            for _ in range(10):
                rng.shuffle(tw)
                if tw != vs:
                    break
            if tw != vs:
                out[cname + "R"] = [list(x) for x in tw]
    return out


# name pools in which some names are plain string prefixes of others (p / p1 / p10 / pa, a / ab / abc,
# a connector named like the beginning of a component's name): a flattened name must be matched
# exactly, never by startswith()
LEAF_POOL = ["p", "p1", "p10", "pa", "n", "n1", "nb", "r", "r2"]
MID_POOL = ["c", "c1", "c10", "ca", "d", "d1", "o", "o1", "o10", "oa"]
TOP_POOL = ["a", "ab", "abc", "a1", "b", "b1", "b10", "t", "t1", "t10", "ta", "s", "s1", "e", "e2"]


def draw_names(rng, pool, k):
    """k distinct names; after the first, with probability 0.65 a name that is a string prefix or an
    extension of one already drawn"""
    left = list(pool)
    out = [left.pop(rng.randrange(len(left)))]
    while len(out) < k:
        rel = [x for x in left if any(x.startswith(y) or y.startswith(x) for y in out)]
        x = rng.choice(rel) if rel and rng.random() < 0.65 else rng.choice(left)
        left.remove(x)
        out.append(x)
    return out


def gen_leaf(rng, name, connectors, nconn, plain=False):
    cn = draw_names(rng, LEAF_POOL, nconn)
    rng.shuffle(cn)
    conns = [[cn[i], rng.choice(list(connectors))] for i in range(nconn)]
    c = {"name": name, "conns": conns, "subs": [], "reals": [], "body": []}
    if not plain and rng.random() < 0.3:
        # ordinary (pass-through) equations of the component
        x = rng.random()
        flows = [(cn_, v) for cn_, t in conns for v, k in connectors[t] if k == "flow"]
        pots = [(cn_, v) for cn_, t in conns for v, k in connectors[t] if k in POT_KINDS]
        if x < 0.4 and len(flows) >= 2:
            a, b = rng.sample(flows, 2)
            c["body"].append(["eq", [[1, "%s.%s" % a], [1, "%s.%s" % b]]])
        elif x < 0.8:
            a = rng.choice(pots)
            c["reals"].append("z")
            c["body"].append(["eq", [[1, "z"], [-1, "%s.%s" % a]]])
        elif len(pots) >= 2:
            a, b = rng.sample(pots, 2)
            c["body"].append(["eq", [[-1, "%s.%s" % a], [1, "%s.%s" % b]]])
    return c


def endpoints(tab, c, grp, connectors):
    eps = [(None, e) for n, ty in c["conns"] if tgroup(connectors, ty) == grp for e in elems(c, n)]
    for sn, st in c["subs"]:
        for se in elems(c, sn):
            eps += [(se, n) for n, ty in tab[st]["conns"] if tgroup(connectors, ty) == grp]
    return eps


def add_connects(rng, case_connectors, tab, c, shape, p_level=1.0):
    body = []
    groups = []
    for t in case_connectors:
        if tgroup(case_connectors, t) not in groups:
            groups.append(tgroup(case_connectors, t))
    for grp in groups:
        eps = endpoints(tab, c, grp, case_connectors)
        if len(eps) < 2 or rng.random() > p_level:
            continue
        sh = shape if rng.random() < 0.75 else rng.choice(SHAPES)
        body += [["connect", list(a), list(b)] for a, b in gen_edges(rng, eps, sh)]
    if len(groups) > 1 and rng.random() < 0.5:
        # interleave the clauses of the two connector classes, keeping each class's order
        by = {}
        for it in body:
            by.setdefault(tgroup(case_connectors, conn_type(tab, c, tuple(it[1]))), []).append(it)
        lists = list(by.values())
        body = []
        while any(lists):
            l = rng.choice([x for x in lists if x])
            body.append(l.pop(0))
    # ordinary equations keep their place among the connects
    for it in c["body"]:
        body.insert(rng.randint(0, len(body)), it)
    c["body"] = body


def complete_arrays(rng, connectors, tab, c):
    """pymoca removes zero defaults by NAME, so an array of connectors is generated either with every element
    in some connection or with none (the partially connected case is the recorded known finding ARRAY_TAG)."""
    def ends():
        return [tuple(it[k]) for it in c["body"] if it[0] == "connect" for k in (1, 2)]
    for _ in range(6):
        used = set(ends())
        todo = []
        for grp in {tgroup(connectors, t) for t in connectors}:
            eps = endpoints(tab, c, grp, connectors)
            by = {}
            for e in eps:
                if "[" in ref_str(e):
                    by.setdefault((base(e[0]) if e[0] else None, base(e[1])), []).append(e)
            for fam in by.values():
                if any(e in used for e in fam):
                    todo += [(e, grp) for e in fam if e not in used]
        if not todo:
            return
        for e, grp in todo:
            partners = [x for x in endpoints(tab, c, grp, connectors) if x in used and x != e]
            if not partners:
                partners = [x for x in endpoints(tab, c, grp, connectors) if x != e]
            other = rng.choice(partners)
            pair = [list(e), list(other)]
            if rng.random() < 0.5:
                pair.reverse()
            c["body"].insert(rng.randint(0, len(c["body"])), ["connect"] + pair)
            used.add(e)


def finish_class(rng, c):
    d = [[n, t] for n, t in c["subs"]] + [[n, t] for n, t in c["conns"]]
    rng.shuffle(d)
    c["decl_order"] = d


def gen_case(rng, shape=None):
    shape = shape or rng.choice(SHAPES)
    connectors = gen_connectors(rng)
    classes, tab = [], {}

    arrays = rng.random() < 0.22      # arrays of components / connectors at the top level

    def new_leaf(nm):
        c = gen_leaf(rng, nm, connectors, rng.randint(1, 3), plain=arrays)
        finish_class(rng, c)
        classes.append(c)
        tab[nm] = c
        return c

    nleaf = rng.randint(1, 3)
    leaves = [new_leaf("Comp%d" % i) for i in range(1, nleaf + 1)]
    mids = []
    if rng.random() < 0.4:
        # a component that itself contains components and own (pass-through) connectors
        deep = rng.random() < 0.25
        for mi in range(2 if deep else 1):
            m = {"name": "Sub%d" % (mi + 1), "conns": [], "subs": [], "reals": [], "body": []}
            nsub, ncon = rng.randint(1, 3), rng.randint(1, 2)
            mnames = draw_names(rng, MID_POOL, nsub + ncon)
            rng.shuffle(mnames)
            for j in range(nsub):
                pool = leaves if not (deep and mi == 1 and j == 0) else [mids[0]]
                m["subs"].append([mnames[j], rng.choice(pool)["name"]])
            for j in range(ncon):
                m["conns"].append([mnames[nsub + j], rng.choice(list(connectors))])
            tab[m["name"]] = m
            add_connects(rng, connectors, tab, m, rng.choice(SHAPES), p_level=0.85)
            finish_class(rng, m)
            classes.append(m)
            mids.append(m)
    top = {"name": "M", "conns": [], "subs": [], "reals": [], "body": []}
    target = rng.randint(2, 7)
    have = 0
    ntop = rng.choice([0, 0, 1, 1, 2, 3])
    allnames = draw_names(rng, TOP_POOL, 12)
    tnames = rng.sample(allnames[:6], ntop)
    names = iter([x for x in allnames if x not in tnames])
    if mids:
        top["subs"].append([next(names), mids[-1]["name"]])
        have += len(mids[-1]["conns"])
    while have < target:
        lf = rng.choice(leaves)
        top["subs"].append([next(names), lf["name"]])
        have += len(lf["conns"])
    for j in range(ntop):
        top["conns"].append([tnames[j], rng.choice(list(connectors))])
    tab["M"] = top
    if arrays:
        top["dims"] = {}
        cand = [n for n, t in top["subs"] if not tab[t]["subs"]] + [n for n, _ in top["conns"]]
        rng.shuffle(cand)
        for n in cand[:rng.randint(1, 2)]:
            top["dims"][n] = rng.randint(2, 3)
    add_connects(rng, connectors, tab, top, shape)
    if arrays:
        complete_arrays(rng, connectors, tab, top)
    finish_class(rng, top)
    classes.append(top)
    case = {"connectors": connectors, "classes": classes, "top": "M", "shape": shape}
    case["text"] = render(case)
    return case


def small_orders(nedges):
    """every ordered, oriented sequence of `nedges` connects over the endpoints a.p, a.p1, ab.p, t
    (one connector class with one potential and one flow; t is a top-level, outside connector; the
    top-level connector t1 is never connected; names are string prefixes of one another on purpose)"""
    eps = [("a", "p"), ("a", "p1"), ("ab", "p"), (None, "t")]
    oriented = [(x, y) for x in eps for y in eps if x != y]
    out = []
    for seq in itertools.product(oriented, repeat=nedges):
        case = {"connectors": {"Pin": [["v", "pot"], ["i", "flow"]]},
                "classes": [
                    {"name": "C", "conns": [["p", "Pin"], ["p1", "Pin"]], "subs": [], "reals": [], "body": [],
                     "decl_order": [["p", "Pin"], ["p1", "Pin"]]},
                    {"name": "M", "conns": [["t", "Pin"], ["t1", "Pin"]], "subs": [["a", "C"], ["ab", "C"]],
                     "reals": [],
                     "body": [["connect", list(x), list(y)] for x, y in seq],
                     "decl_order": [["a", "C"], ["ab", "C"], ["t", "Pin"], ["t1", "Pin"]]}],
                "top": "M", "shape": "exhaustive%d" % nedges}
        case["text"] = render(case)
        out.append(case)
    return out


# ---------------------------------------------------------------------------
# fail-closed ast probe: which string operations does the code use on flattened names at the sites
# the property anchors (parent process only reads the source text, it never imports pymoca)
# ---------------------------------------------------------------------------
PROBE_CALL_ATTRS = {"ComponentRef", "Equation", "Expression", "Primary", "all", "append", "find_class",
                    "format", "get", "items", "pop", "update", "values", "warning", "startswith"}
PROBE_CALL_NAMES = {"Exception", "OrderedDict", "flatten_class", "getattr", "hasattr", "isinstance", "len",
                    "list", "reversed", "tuple", "any", "dict", "id"}


class ProbeFail(Exception):
    pass


def probe_names(repo):
    """Returns (sites, sep): sites = list of 'TExact' | 'TPrefixSep' | 'TPrefixBare', one per statement of
    expand_connectors that removes entries from disconnected_flow_variables; raises ProbeFail on anything
    the reader does not recognise."""
    import ast as A
    src = open(repo + "/src/pymoca/tree.py").read()
    mod = A.parse(src)
    U = A.unparse
    sep = None
    for n in mod.body:
        if isinstance(n, A.Assign) and len(n.targets) == 1 and U(n.targets[0]) == "CLASS_SEPARATOR":
            if not (isinstance(n.value, A.Constant) and isinstance(n.value.value, str) and len(n.value.value) == 1):
                raise ProbeFail("CLASS_SEPARATOR is not a one-character string literal")
            sep = n.value.value
    if sep is None:
        raise ProbeFail("CLASS_SEPARATOR not found")
    funcs = {n.name: n for n in mod.body if isinstance(n, A.FunctionDef)}
    for fn in ("expand_connectors", "flatten_symbols"):
        if fn not in funcs:
            raise ProbeFail("function %s not found" % fn)
    # name construction in flatten_symbols (instance prefix) and in the component-reference flattener
    fs = {U(n) for n in A.walk(funcs["flatten_symbols"]) if isinstance(n, (A.Assign, A.AugAssign))}
    for want in ("instance_prefix = instance_name + CLASS_SEPARATOR", "sym.name = instance_prefix + sym_name"):
        if want not in fs:
            raise ProbeFail("flatten_symbols: statement '%s' not found" % want)
    allst = {U(n) for n in A.walk(mod) if isinstance(n, (A.Assign, A.AugAssign))}
    for want in ("new_name = self.instance_prefix + tree.name", "new_name += CLASS_SEPARATOR + c.name"):
        if want not in allst:
            raise ProbeFail("component reference flattening: statement '%s' not found" % want)
    f = funcs["expand_connectors"]
    # vocabulary of the function: no unknown string / container operations
    for n in A.walk(f):
        if isinstance(n, A.Call):
            if isinstance(n.func, A.Attribute):
                if n.func.attr not in PROBE_CALL_ATTRS:
                    raise ProbeFail("expand_connectors: unknown method call .%s()" % n.func.attr)
            elif isinstance(n.func, A.Name):
                if n.func.id not in PROBE_CALL_NAMES:
                    raise ProbeFail("expand_connectors: unknown call %s()" % n.func.id)
            else:
                raise ProbeFail("expand_connectors: computed call target")
        if isinstance(n, A.Compare):
            txt = U(n)
            for o, right in zip(n.ops, n.comparators):
                if isinstance(o, (A.In, A.NotIn)) and ("name" in U(right).lower()
                                                       or (isinstance(right, A.Constant) and isinstance(right.value, str))):
                    raise ProbeFail("expand_connectors: substring test inside a name: %s" % txt)
        if isinstance(n, A.Subscript) and isinstance(n.slice, A.Slice) and "name" in U(n.value).lower():
            raise ProbeFail("expand_connectors: slice of a name: %s" % U(n))
    assigns = {}
    for n in A.walk(f):
        if isinstance(n, A.Assign) and len(n.targets) == 1 and isinstance(n.targets[0], A.Name):
            assigns.setdefault(n.targets[0].id, set()).add(U(n.value))
    exact_names = {
        "left_name": "equation.left.name + CLASS_SEPARATOR + connector_variable.name",
        "right_name": "equation.right.name + CLASS_SEPARATOR + connector_variable.name",
    }
    for k, v in exact_names.items():
        if assigns.get(k) != {v}:
            raise ProbeFail("expand_connectors: %s is built as %s" % (k, sorted(assigns.get(k, []))))
    for k in ("left_key", "right_key"):
        vals = assigns.get(k, set())
        if len(vals) != 1 or not next(iter(vals)).startswith("(%s, " % k.replace("key", "name")):
            raise ProbeFail("expand_connectors: %s is not the tuple (%s, indices, inner)" % (k, k.replace("key", "name")))
    D = "disconnected_flow_variables"
    sites = []
    allowed_other = {"%s = OrderedDict()" % D, "%s[sym.name] = sym" % D}
    for n in A.walk(f):
        if isinstance(n, A.Call) and isinstance(n.func, A.Attribute) and n.func.attr == "startswith":
            if len(n.args) != 1:
                raise ProbeFail("startswith with %d arguments" % len(n.args))
            a = n.args[0]
            if isinstance(a, A.BinOp) and isinstance(a.op, A.Add) and U(a.right) in ("CLASS_SEPARATOR", repr(sep)):
                sites.append("TPrefixSep")
            else:
                sites.append("TPrefixBare")
    for n in A.walk(f):
        if isinstance(n, A.Delete):
            for t in n.targets:
                if D in U(t) and not any(x.startswith("TPrefix") for x in sites):
                    raise ProbeFail("del on %s without a recognised name test: %s" % (D, U(n)))
        if isinstance(n, (A.Assign, A.AugAssign)) and D in U(n.targets[0] if isinstance(n, A.Assign) else n.target):
            if U(n) not in allowed_other:
                raise ProbeFail("unrecognised assignment to %s: %s" % (D, U(n)))
        if isinstance(n, A.Call) and isinstance(n.func, A.Attribute) and U(n.func.value) == D:
            if n.func.attr == "pop":
                if len(n.args) == 2 and isinstance(n.args[0], A.Name) and n.args[0].id in exact_names \
                        and U(n.args[1]) == "None":
                    sites.append("TExact")
                else:
                    raise ProbeFail("unrecognised pop on %s: %s" % (D, U(n)))
            elif n.func.attr != "values":
                raise ProbeFail("unrecognised operation on %s: %s" % (D, U(n)))
    # flow_connections: exact dict-key operations only
    for n in A.walk(f):
        if isinstance(n, A.Call) and isinstance(n.func, A.Attribute) and U(n.func.value) == "flow_connections":
            if n.func.attr not in ("get", "values"):
                raise ProbeFail("unrecognised operation on flow_connections: %s" % U(n))
    if not sites:
        raise ProbeFail("no statement removes entries from %s" % D)
    return sites, sep


def check_name_tie(ctx):
    """S1: read the name tests from the source, evaluate the accepting predicate inside Coq."""
    try:
        sites, sep = probe_names(core.REPO)
    except (ProbeFail, OSError, SyntaxError) as e:
        ctx.oblige("tie:name-tests (ast probe of tree.py, fail closed)", False, "probe failed: %s" % e)
        ctx.notes["name_probe"] = {"error": str(e)}
        return
    text = (core.HEADER + "From stdpp Require Import gmap strings.\nFrom Coq Require Import Ascii.\n"
            "From PV Require Import Lib.Closure Lib.DotJoin Model.C09_connect Proofs.C09_connect Proofs.C09_names.\n"
            "Eval vm_compute in (tie_ok [%s] (ascii_of_nat %d)).\n" % ("; ".join(sites), ord(sep)))
    ok, out, err = core.coq_run(ctx, "name_tie", text, timeout=300)
    vals = core.coq_results(out) if ok else []
    good = ok and vals and vals[-1].strip() == "true"
    ctx.oblige("tie:name-tests (ast probe of tree.py, fail closed)", good,
               "sites=%s separator=%r coq=%s %s" % (sites, sep, vals[-1:] if vals else "", err[-300:]))
    ctx.notes["name_probe"] = {"sites": sites, "separator": sep,
                               "accepted_by": "Proofs/C09_names.v tie_ok (theorem C09_name_test_sound)"}


# ---------------------------------------------------------------------------
# Coq encoding
# ---------------------------------------------------------------------------
def ident_ids(case):
    names = set()
    for cv in case["connectors"].values():
        names.update(v for v, _ in cv)
    for c in case["classes"]:
        names.update(n for n, _ in c["conns"])
        names.update(n for n, _ in c["subs"])
        names.update(c.get("reals", []))
    return IdxIds({n: "(%s, [])" % cq_pos(i + 1) for i, n in enumerate(sorted(names))})


class IdxIds(dict):
    """identifier -> Coq term of type positive * list Z; 'a[2]' -> (id a, [2])"""
    def __missing__(self, k):
        b = base(k)
        if b == k or b not in self:
            raise KeyError(k)
        sub = k[len(b):].strip("[]")
        return dict.__getitem__(self, b).replace("[])", "[%s])" % core.cq_Z(int(sub)))

    def has(self, k):
        return base(k) in self


KIND_COQ = {"pot": "KPot", "in": "KPot", "out": "KPot", "flow": "KFlow", "par": "KPar", "const": "KPar"}


def enc_cvars(ids, cvars):
    return cq_list(["(%s, %s)" % (ids[v], KIND_COQ[k]) for v, k in cvars])


def enc_ref(ids, r):
    return "(CRef %s %s)" % ("None" if r[0] is None else "(Some %s)" % ids[r[0]], ids[r[1]])


def enc_inst(case, tab, ids, cname):
    c = tab[cname]
    # declaration order of the text (the model's equation order follows the symbol order)
    subs = [d for d in c["decl_order"] if d in [list(x) for x in c["subs"]] and d[1] in tab]
    subs = [d for d in subs if d[1] not in case["connectors"]]
    conns = [d for d in c["decl_order"] if d[1] in case["connectors"]]
    decl = cq_list(["(%s, %s)" % (ids[e], enc_cvars(ids, case["connectors"][t])) for n, t in conns
                    for e in elems(c, n)])
    ss = cq_list(["(%s, %s)" % (ids[e], enc_inst(case, tab, ids, t)) for n, t in subs for e in elems(c, n)])
    cl = []
    for it in c["body"]:
        if it[0] == "connect":
            t = conn_type(tab, c, tuple(it[1]))
            cl.append("(Clause %s %s %s)" % (enc_ref(ids, it[1]), enc_ref(ids, it[2]),
                                             enc_cvars(ids, case["connectors"][t])))
    return "(Inst %s %s %s)" % (decl, ss, cq_list(cl))


def enc_row(ids, row):
    return cq_list(["(%s, %s)" % (cq_list([ids[x] for x in v.split(".")]), core.cq_Z(int(c)))
                    for v, c in sorted(row.items())])


def encode_case(case, res):
    """Gallina term of type inst * list row, or None with a reason when the observation cannot be
    expressed in the model's vocabulary (then it is a mismatch by itself)."""
    ids = ident_ids(case)
    tab = class_table(case)
    rows = impl_rows(res, case)
    _, passthrough, _ = reference(case)
    rows = [clean(r) for r in rows]
    for p in passthrough:                       # ordinary equations are not the model's business
        p = clean(p)
        if p in rows:
            rows.remove(p)
    for r in rows:
        for v, c in r.items():
            if c.denominator != 1 or any(not ids.has(x) for x in v.split(".")):
                return None, "row %s outside the model vocabulary" % show(r)
    return "(%s, %s)" % (enc_inst(case, tab, ids, case["top"]), cq_list([enc_row(ids, r) for r in rows])), None


SHARD = 120
PREAMBLE = ("From stdpp Require Import gmap.\n"
            "From PV Require Import Lib.Closure Model.C09_connect Proofs.C09_connect Proofs.C09_indexed.\n")
CASE_TYPE = "inst (positive * list Z) * list (list (list (positive * list Z) * Z))"
CHECK_FN = "check_case_byname"     # zero defaults removed by array NAME, as tree.py:1118-1119 does

# string level: identifiers and flattened names as the real strings, names built by the dot-joined instance
PREAMBLE_S = ("From stdpp Require Import gmap strings.\nFrom Coq Require Import Ascii String.\n"
              "From PV Require Import Lib.Closure Lib.DotJoin Model.C09_connect Proofs.C09_connect Proofs.C09_names.\n"
              "Close Scope string_scope.\n"
              "Definition check_case_s (c : inst (list ascii) * list (list (list ascii * Z))) : bool := check_case c.\n")
CASE_TYPE_S = "inst (list ascii) * list (list (list ascii * Z))"


class StrIds(dict):
    """identifier -> Coq term of type list ascii (the identifier itself)"""
    def __missing__(self, k):
        assert k.replace("_", "a").isalnum(), k
        return '(lit "%s")' % k


def encode_case_s(case, res):
    tab = class_table(case)
    rows = [clean(r) for r in impl_rows(res, case)]
    _, passthrough, _ = reference(case)
    for p_ in passthrough:
        p_ = clean(p_)
        if p_ in rows:
            rows.remove(p_)
    enc_rows = []
    for r in rows:
        items = []
        for v, c in sorted(r.items()):
            if c.denominator != 1 or '"' in v:
                return None
            items.append('(lit "%s", %s)' % (v, core.cq_Z(int(c))))
        enc_rows.append(cq_list(items))
    ids = StrIds()
    return "(%s, %s)" % (enc_inst(case, tab, ids, case["top"]), cq_list(enc_rows))



# ---------------------------------------------------------------------------
def run_children(ctx, cases, workers=3):
    """core.run_child on up to `workers` chunks in parallel (helper local to this module)."""
    if len(cases) < 40:
        return core.run_child(ctx, "c09", cases)
    n = (len(cases) + workers - 1) // workers
    chunks = [cases[i:i + n] for i in range(0, len(cases), n)]
    with ThreadPoolExecutor(max_workers=workers) as ex:
        parts = list(ex.map(lambda ch: core.run_child(ctx, "c09", ch, timeout=1500), chunks))
    return [r for p in parts for r in p]


def has_arrays(case):
    return any(c.get("dims") for c in case["classes"])


def known_still_fails(ctx, e):
    case = e["replay"]["case"]
    res = core.run_child(ctx, "c09", [{"text": case["text"], "top": case["top"]}])[0]
    return bool(judge(case, res)) and judge_tag(case, res) == e["tag"]


def slim(case):
    return {k: case[k] for k in ("connectors", "classes", "top", "shape", "text")}


def run(ctx):
    import time
    t0 = time.time()
    timing = {}

    def static_part():
        core.check_props(ctx, "C09.v", THEOREMS)
        check_name_tie(ctx)
        timing["props_and_tie_s"] = round(time.time() - t0, 1)
    bg = ThreadPoolExecutor(max_workers=1)
    static_future = bg.submit(static_part)       # runs while the children parse and flatten
    fp, _ = core.fingerprint(core.REPO + "/src/pymoca/tree.py", {"expand_connectors", "flatten_symbols"})
    ctx.notes["source_fingerprint"] = {"tree.py:expand_connectors+flatten_symbols": fp}
    n_rand = ctx.scaled(220, 5000)
    cases = []
    try:
        cases += json.load(open(core.VERIF + "/corpus/C09/cases.json"))
    except OSError:
        pass
    n_corpus = len(cases)
    for i in range(n_rand):
        cases.append(gen_case(ctx.rng, SHAPES[i % len(SHAPES)] if i % 2 == 0 else None))
    ex = small_orders(1) + small_orders(2)
    if ctx.tier == "thorough":
        ex += small_orders(3)
    else:
        ex3 = small_orders(3)
        ctx.rng.shuffle(ex3)
        ex += ex3[:40]
    cases += ex
    t0 = time.time()
    results = run_children(ctx, [{"text": c["text"], "top": c["top"]} for c in cases])
    timing["impl_s"] = round(time.time() - t0, 1)
    t0 = time.time()

    # (a) property oracle on the implementation
    shapes, agg = {}, {}
    nontrivial = set()
    for c, r in zip(cases, results):
        shapes[c["shape"]] = shapes.get(c["shape"], 0) + 1
        why = judge(c, r)
        if why:
            core.report(ctx, judge_tag(c, r), why, {"case": slim(c), "observed": r})
        _, _, st = reference(c)
        for k, v in st.items():
            if k in ("levels", "max_set"):
                agg[k] = max(agg.get(k, 0), v)
            else:
                agg[k] = agg.get(k, 0) + v
        for flag in ("merges", "redundant", "mixed_sets", "outside_only_sets", "zero_defaults",
                     "prefix_unconnected", "array_clauses", "mixed_class_clauses"):
            if st[flag]:
                agg["cases_with_" + flag] = agg.get("cases_with_" + flag, 0) + 1
        if st["levels"] >= 2 and any(x["body"] and x["name"] != "M" and x["subs"] for x in c["classes"]):
            agg["cases_with_nested_connects"] = agg.get("cases_with_nested_connects", 0) + 1
        if st["clauses"] >= 2:
            nontrivial.add(c["text"])

    # (b) correspondence: Coq model vs implementation rows
    enc, idx, unenc = [], [], []
    n_array_cases = 0
    for i, (c, r) in enumerate(zip(cases, results)):
        if "eqs" not in r:
            unenc.append((i, "impl failure"))
            continue
        if has_arrays(c):
            n_array_cases += 1          # array elements = names with subscripts (indexed instance of the model)
        try:
            e, why = encode_case(c, r)
        except NonLinear as ex_:
            e, why = None, str(ex_)
        if e is None:
            unenc.append((i, why))
        else:
            enc.append(e)
            idx.append(i)
    timing["oracle_s"] = round(time.time() - t0, 1)
    static_future.result()
    bg.shutdown()
    t0 = time.time()
    ev = ThreadPoolExecutor(max_workers=1)
    path_future = ev.submit(core.coq_eval_cases, ctx, "rows", PREAMBLE, CASE_TYPE, enc, CHECK_FN, SHARD)
    # (c) the same comparison at STRING level on a sample: identifiers and flattened names are the real
    #     strings, the model builds names with the dot-joined instance and compares them as strings
    t0 = time.time()
    n_str = ctx.scaled(90, 900)
    pick = [i for i in idx if cases[i]["shape"].startswith("exhaustive")][:n_str // 3]
    pick += [i for i in idx if not cases[i]["shape"].startswith("exhaustive")
             and not has_arrays(cases[i])][:n_str - len(pick)]
    enc_s, idx_s = [], []
    for i in pick:
        e = encode_case_s(cases[i], results[i])
        if e is not None:
            enc_s.append(e)
            idx_s.append(i)
    bad_s = core.coq_eval_cases(ctx, "strrows", PREAMBLE_S, CASE_TYPE_S, enc_s, "check_case_s", shard=45)
    bad = path_future.result()
    ev.shutdown()
    mism_s = list(idx_s) if bad_s is None else [idx_s[j] for j in bad_s]
    ctx.oblige("correspondence:string-level-model-vs-expand_connectors", not mism_s and len(enc_s) > 0,
               "mismatching cases: %s of %d" % (sorted(mism_s)[:10], len(enc_s)))
    timing["coq_eval_both_s"] = round(time.time() - t0, 1)
    ctx.notes["string_level_cases"] = len(enc_s)
    ctx.notes["timing"] = timing
    mism = list(range(len(cases))) if bad is None else [idx[j] for j in bad] + [i for i, _ in unenc]
    mism = sorted(set(mism) | set(mism_s))
    ctx.oblige("correspondence:model-vs-expand_connectors", not mism,
               "mismatching cases: %s; not encodable: %s" % (sorted(mism)[:10], unenc[:3]))
    if mism and not [v for v in ctx.violations if not v["no_input"]]:
        i = sorted(mism)[0]
        core.violation(ctx, "correspondence-broken",
                       {"correspondence": "Model/C09_connect.v check_case vs pymoca.tree.flatten",
                        "case": slim(cases[i]), "observed": results[i]}, no_input=True)
    core.replay_known(ctx, lambda e: known_still_fails(ctx, e))
    ctx.notes["array_cases_in_correspondence"] = n_array_cases

    ctx.cov["evaluations"] = len(cases)
    ctx.cov["distinct_nontrivial"] = len(nontrivial)
    ctx.cov["rule"] = ("generated Modelica texts: 1-2 connector classes (1-3 potentials incl. rare input/output, 1-2 "
                       "flows, optional parameter/constant), 1-3 leaf component classes with 1-3 connectors, optional "
                       "1-2 nested component levels with own pass-through connectors and inner connects, 2-7 "
                       "component connectors + 0-3 top-level connectors; connect graphs by shape (chain, star, cycle, "
                       "redundant, merge of separate sets, disjoint pairs then join, random), random clause order and "
                       "orientation (%d); every ordered oriented sequence of 1-2 connects%s over {a.p,a.p1,ab.p,t} with t1 unconnected (%d); connector and component names drawn from pools in which some names are string prefixes of others (p/p1/p10/pa, a/ab/abc, c/c1/c10, t/t1/t10) at every level; "
                       "corpus (%d).  non-trivial = at least 2 connect clauses; distinct = distinct text"
                       % (n_rand, " and 3 connects" if ctx.tier == "thorough" else " + 40 sampled sequences of 3",
                          len(ex), n_corpus))
    ctx.cov["samples"] = [cases[n_corpus]["text"], cases[n_corpus + 1]["text"], ex[len(ex) // 2]["text"]]
    ctx.notes["input_distribution"] = {"shapes": shapes, "totals": agg, "cases": len(cases)}
    ctx.assumptions += [
        "value-level model: flow_connections maps a key to its set of keys; the sharing of OrderedDict objects "
        "(in-place update of the left set, repointing of all members) is covered by the proved sharing invariant at "
        "value level and exercised by the correspondence check, not proved at heap level",
        "array elements are names with integer subscripts (indexed instance of the generic model); the correspondence "
        "runs check_case_byname, which removes zero defaults by array NAME as the code does; arrays are generated with "
        "every element of an array connected or none (the partial case is the recorded known finding, theorem "
        "C09_byname_refuted; C09_byname_all_or_none covers the rest); the string-level sample excludes array cases; "
        "stream/expandable connectors and connects of elementary Reals are outside the model and the generator",
        "equation order and operand order are not compared (multisets of canonical linear forms); the parse of flat "
        "equations into linear rows and the name splitting at '.' are trusted harness code",
        "Coq names are lists of identifiers, so confusing a name with a string prefix of it (port1 / port10) cannot "
        "be expressed in the model; string-level naming is covered by the oracle and the correspondence only",
        "third sentence of the property read literally: a flow variable that appears in a connection at ANY level "
        "(e.g. as outside connector inside its own component class) gets no zero equation",
    ]


def replay(ctx, path):
    rec = json.load(open(path))
    case = rec["case"]
    res = core.run_child(ctx, "c09", [{"text": case["text"], "top": case["top"]}])[0]
    why = judge(case, res)
    print("replay:", why or "property holds on this model")
    return 1 if why else 0
