"""C11 — DAE residual equals the Modelica meaning of the flat equations.

S1  T3: OP_MAP parsed from generator.py (fail-closed ast probe) + hasattr(casadi.MX, method) and the
    opcode the real generator builds per operator (F, child) -> run/C11/Gen.v; side conditions by vm_compute.
S2  Props/C11.v recompiled, Print Assumptions.
S3  generated models -> real generate() + dae/initial residual functions at dyadic points (child)
    (a) ORACLE: independent exact/interval evaluator of lhs - rhs under Modelica semantics (this file)
    (b) CORRESPONDENCE: Model/C11_residual.v check_case on the same models/points inside coqc.
S4  known findings replayed.
"""
import ast as pyast
import json
import math
import os
import re
from concurrent.futures import ThreadPoolExecutor
from fractions import Fraction

from . import core

THEOREMS = ["C11_expr", "C11_residual", "C11_total", "C11_total_fixed_table", "C11_total_refuted_ne",
            "C11_affine_subscript", "C11_loop_range", "C11_three_part_range", "C11_three_part_range_old_reading_refuted",
            "C11_function", "C11_call_residual", "C11_function_order", "C11_function_if_refuted",
            "C11_function_if_repaired_witness", "C11_function_if_example", "C11_matrix_residual", "C11_square_not_transposed", "C11_example"]

GEN_PY = "src/pymoca/backends/casadi/generator.py"

KEYS = {"*": "K_mul", "+": "K_add", "-": "K_sub", "/": "K_div", "^": "K_pow", ">": "K_gt", "<": "K_lt",
        "<=": "K_le", ">=": "K_ge", "<>": "K_ne", "==": "K_eq", "min": "K_min", "max": "K_max", "abs": "K_abs",
        "and": "K_and", "or": "K_or"}
METHS = {"__mul__": "M_mul", "__add__": "M_add", "__sub__": "M_sub", "__truediv__": "M_truediv",
         "__div__": "M_div", "__pow__": "M_pow", "__gt__": "M_gt", "__lt__": "M_lt", "__le__": "M_le",
         "__ge__": "M_ge", "__ne__": "M_ne", "__eq__": "M_eq", "fmin": "M_fmin", "fmax": "M_fmax", "fabs": "M_fabs"}
OPCODES = {"OP_ADD", "OP_SUB", "OP_MUL", "OP_DIV", "OP_POW", "OP_SQ", "OP_LT", "OP_LE", "OP_EQ", "OP_NE",
           "OP_FMIN", "OP_FMAX", "OP_FABS", "OP_NEG", "OP_CALL"}
BINOPS = {"+": "BAdd", "-": "BSub", "*": "BMul", ".*": "BEMul", "/": "BDiv", "^": "BPow", ">": "BGt", "<": "BLt",
          "<=": "BLe", ">=": "BGe", "<>": "BNe", "==": "BEq", "min": "BMin", "max": "BMax", "and": "BAnd",
          "or": "BOr", ".+": "BAdd", ".-": "BSub", "./": "BDiv", ".^": "BPow"}
UNOPS = {"-": "UNeg", "+": "UPos", "not": "UNot", "abs": "UAbs"}
FUNS = ["sin", "cos", "tan", "exp", "log", "sqrt", "sinh", "cosh", "tanh"]
FUN_ID = {f: i + 1 for i, f in enumerate(FUNS)}
RELS = (">", "<", ">=", "<=", "==", "<>")


# =============================================================================================
# T3: OP_MAP from the source, fail-closed
# =============================================================================================
class ShapeError(Exception):
    pass


def extract_opmap(src):
    tree = pyast.parse(src)
    found = None
    for node in tree.body:
        if isinstance(node, pyast.Assign) and any(isinstance(t, pyast.Name) and t.id == "OP_MAP" for t in node.targets):
            if found is not None or len(node.targets) != 1:
                raise ShapeError("OP_MAP assigned more than once")
            if not isinstance(node.value, pyast.Dict):
                raise ShapeError("OP_MAP is not a dict literal")
            found = {}
            for k, v in zip(node.value.keys, node.value.values):
                if not (isinstance(k, pyast.Constant) and isinstance(k.value, str)
                        and isinstance(v, pyast.Constant) and isinstance(v.value, str)):
                    raise ShapeError("OP_MAP entry is not str: str")
                if k.value in found:
                    raise ShapeError("duplicate OP_MAP key %r" % k.value)
                found[k.value] = v.value
    if found is None:
        raise ShapeError("no module-level OP_MAP")
    # nobody else writes to OP_MAP
    for node in pyast.walk(tree):
        if isinstance(node, pyast.Name) and node.id == "OP_MAP" and not isinstance(node.ctx, pyast.Load):
            if not (isinstance(node.ctx, pyast.Store)):
                raise ShapeError("OP_MAP deleted")
        if isinstance(node, (pyast.Subscript, pyast.Attribute)) and isinstance(node.value, pyast.Name) \
                and node.value.id == "OP_MAP":
            if isinstance(node, pyast.Attribute) or not isinstance(node.ctx, pyast.Load):
                raise ShapeError("OP_MAP is mutated or accessed through an attribute")
    stores = [n for n in pyast.walk(tree) if isinstance(n, pyast.Name) and n.id == "OP_MAP" and isinstance(n.ctx, pyast.Store)]
    if len(stores) != 1:
        raise ShapeError("OP_MAP rebound")
    # the special-case chain of exitExpression
    fn = None
    for node in pyast.walk(tree):
        if isinstance(node, pyast.FunctionDef) and node.name == "exitExpression":
            fn = node
    if fn is None:
        raise ShapeError("no exitExpression")
    specials, uses_map = [], 0
    for node in pyast.walk(fn):
        if isinstance(node, pyast.Compare) and isinstance(node.left, pyast.Name) and node.left.id == "op" and len(node.ops) == 1:
            c = node.comparators[0]
            if isinstance(node.ops[0], pyast.Eq) and isinstance(c, pyast.Constant) and isinstance(c.value, str):
                specials.append(c.value)
            elif isinstance(node.ops[0], pyast.In) and isinstance(c, pyast.Name) and c.id == "OP_MAP":
                uses_map += 1
            else:
                raise ShapeError("unrecognised test on op in exitExpression")
    if uses_map != 2:
        raise ShapeError("expected exactly two `op in OP_MAP` tests, found %d" % uses_map)
    clash = (set(specials) & set(found)) - {"-", "+", "*"}
    if clash:
        raise ShapeError("operators of OP_MAP special-cased in exitExpression: %s" % sorted(clash))
    for need in ("mtimes", "not", "-", "+", "*", "der"):
        if need not in specials:
            raise ShapeError("special case %r missing from exitExpression" % need)
    return found, specials


PROBES = [
    ("+", "PB BAdd", "Real y; Real a; Real b;", "y = a + b;"),
    ("-", "PB BSub", "Real y; Real a; Real b;", "y = a - b;"),
    ("*", "PB BMul", "Real y; Real a; Real b;", "y = a * b;"),
    (".*", "PB BEMul", "Real y; Real a; Real b;", "y = a .* b;"),
    ("/", "PB BDiv", "Real y; Real a; Real b;", "y = a / b;"),
    ("^", "PB BPow", "Real y; Real a; Real b;", "y = a ^ b;"),
    (">", "PB BGt", "Boolean y; Real a; Real b;", "y = a > b;"),
    ("<", "PB BLt", "Boolean y; Real a; Real b;", "y = a < b;"),
    (">=", "PB BGe", "Boolean y; Real a; Real b;", "y = a >= b;"),
    ("<=", "PB BLe", "Boolean y; Real a; Real b;", "y = a <= b;"),
    ("==", "PB BEq", "Boolean y; Real a; Real b;", "y = a == b;"),
    ("min", "PB BMin", "Real y; Real a; Real b;", "y = min(a, b);"),
    ("max", "PB BMax", "Real y; Real a; Real b;", "y = max(a, b);"),
    ("and", "PB BAnd", "Boolean y; Boolean a; Boolean b;", "y = a and b;"),
    ("or", "PB BOr", "Boolean y; Boolean a; Boolean b;", "y = a or b;"),
    ("abs", "PU UAbs", "Real y; Real a;", "y = abs(a);"),
    ("not", "PU UNot", "Boolean y; Boolean a;", "y = not a;"),
]


def build_table(ctx):
    """S1.  Returns (gen_v_text, info) or raises ShapeError."""
    src = open(os.path.join(core.REPO, GEN_PY)).read()
    opmap, specials = extract_opmap(src)
    methods = sorted(set(opmap.values()))
    probes = [[k, "model P\n %s\nequation\n %s\nend P;\n" % (decl, eq)] for k, _, decl, eq in PROBES]
    if "<>" in opmap:
        probes.append(["<>", "model P\n Boolean y; Real a; Real b;\nequation\n y = a <> b;\nend P;\n"])
    res = core.run_child(ctx, "c11", [{"kind": "table", "methods": methods, "probes": probes}])[0]
    if "hasattr" not in res:
        raise ShapeError("table probe failed in the child: %s" % res)
    rows = []
    for k, m in opmap.items():
        if k in KEYS:
            rows.append("(%s, (%s, %s))" % (KEYS[k], METHS.get(m, "M_other"), core.cq_bool(res["hasattr"][m])))
    prows = []
    pinfo = {}
    for k, coq, _, _ in PROBES + ([("<>", "PB BNe", "", "")] if "<>" in opmap else []):
        pr = res["probes"].get(k, {})
        oc = pr.get("opcode", "OP_UNKNOWN")
        pinfo[k] = pr
        prows.append("(%s, (%s, %s))" % (coq, oc if oc in OPCODES else "OP_UNKNOWN", core.cq_bool(pr.get("swapped", False))))
    text = (core.HEADER + "From Coq Require Import List.\nImport ListNotations.\n"
            "From PV Require Import Model.C11_residual.\n"
            "(* regenerated from %s (OP_MAP) and casadi %s *)\n"
            "Definition gen_table : table :=\n  [%s].\n"
            "Definition gen_probe : list (probe_op * (opcode * bool)) :=\n  [%s].\n"
            "(* F: exitIfStatement executes the branches sequentially (fixes/C11_if_statement_sequential)? *)\n"
            "Definition gen_if_seq : bool := %s.\n"
            % (GEN_PY, res.get("casadi"), ";\n   ".join(rows), ";\n   ".join(prows),
               core.cq_bool(res.get("if_probe") == "sequential")))
    if res.get("if_probe") not in ("sequential", "merged"):
        raise ShapeError("if-statement probe not recognised: %s" % res.get("if_probe"))
    return text, {"OP_MAP": opmap, "hasattr": res["hasattr"], "probes": pinfo, "specials": specials, "if_probe": res.get("if_probe"),
                  "ignored_keys": sorted(k for k in opmap if k not in KEYS)}


# =============================================================================================
# Model generator (Modelica AST as JSON-able lists)
#   expr: ["num", text] | ["bool", b] | ["var", name] | ["der", name] | ["idx", name, k] | ["lidx", name, k]
#         | ["loopvar"] | ["un", op, e] | ["bin", op, a, b] | ["if", [[c, e]...], els] | ["fun", f, e]
#   eqn:  ["eq", l, r] | ["ifeq", [[c, [eq...]]...], [eq...]] | ["for", lo, hi, use_n, [eq...]]
#         | ["for3", start, step, stop, [eq...]]        (for i in start:step:stop)
# =============================================================================================
NUMS = ["0", "1", "2", "3", "4", "0.5", "1.5", "0.25", "2.5", "0.125", "0.75", "0.1", "0.3", "1e-1", "2.0"]


class Gen:
    def __init__(self, rng, N, allow_ne, allow_fun=True):
        self.rng = rng
        self.N = N
        self.allow_ne = allow_ne
        self.allow_fun = allow_fun
        self.reals = ["x1", "x2", "x3", "u1", "p1", "k1", "time"]
        self.bools = ["b1", "b2"]
        self.arrays = ["a", "c"]
        self.ders = ["x1", "x2"]
        self.loop = None  # (lo, hi) when inside a for-loop
        self.zero_offsets = False
        self.allow_empty_offsets = False

    def atom(self):
        r = self.rng
        x = r.random()
        if x < 0.25:
            return ["num", r.choice(NUMS)]
        if x < 0.60:
            return ["var", r.choice(self.reals)]
        if x < 0.68:
            return ["der", r.choice(self.ders)]
        if self.loop is not None and x < 0.92:
            lo, hi = self.loop
            if r.random() < 0.2:
                return ["loopvar"]
            kmin, kmax = 1 - lo, self.N - hi
            k = r.choice([0, 0, 0, 1, -1, 2]) if r.random() < 0.8 else r.randint(kmin, kmax)
            k = 0 if self.zero_offsets else min(max(k, kmin), kmax)
            return ["lidx", r.choice(self.arrays), k]
        return ["idx", r.choice(self.arrays), r.randint(1, self.N)]

    def real(self, d):
        r = self.rng
        if d <= 0 or r.random() < 0.2:
            return self.atom()
        x = r.random()
        if x < 0.42:
            op = r.choice(["+", "-", "*", "/", "+", "-", "*", ".*", "./", ".+", ".-"])
            b = self.real(d - 1)
            if op in ("/", "./") and r.random() < 0.6:
                b = ["bin", "+", ["un", "abs", b], ["num", r.choice(["1", "0.5", "2"])]]
            return ["bin", op, self.real(d - 1), b]
        if x < 0.50:
            n = r.choice(["0", "1", "2", "3", "2", "-1", "-2"])
            base = self.real(d - 1)
            if n.startswith("-"):
                if r.random() < 0.7:
                    base = ["bin", "+", ["un", "abs", base], ["num", "1"]]
                return ["bin", "^", base, ["un", "-", ["num", n[1:]]]]
            return ["bin", r.choice(["^", "^", ".^"]), base, ["num", n]]
        if x < 0.58:
            return ["un", r.choice(["-", "-", "+"]), self.real(d - 1)]
        if x < 0.68:
            return ["bin", r.choice(["min", "max"]), self.real(d - 1), self.real(d - 1)]
        if x < 0.74:
            return ["un", "abs", self.real(d - 1)]
        if x < 0.88:
            n = r.choice([1, 1, 2])
            return ["if", [[self.boolean(d - 1), self.real(d - 1)] for _ in range(n)], self.real(d - 1)]
        if self.allow_fun:
            f = r.choice(FUNS)
            a = self.real(d - 1)
            if f in ("log", "sqrt") and r.random() < 0.8:
                a = ["bin", "+", ["un", "abs", a], ["num", "0.5"]]
            return ["fun", f, a]
        return self.atom()

    def boolean(self, d):
        r = self.rng
        x = r.random()
        if d <= 0 or x < 0.45:
            y = r.random()
            if y < 0.2 and self.bools:
                return ["var", r.choice(self.bools)]
            if y < 0.26:
                return ["bool", r.random() < 0.5]
            ops = [">", "<", ">=", "<=", ">", "<", "=="]
            if self.allow_ne and r.random() < 0.5:
                ops = ["<>"]
            return ["bin", r.choice(ops), self.real(max(d - 1, 0)), self.real(max(d - 1, 0))]
        if x < 0.63:
            return ["bin", "and", self.boolean(d - 1), self.boolean(d - 1)]
        if x < 0.81:
            return ["bin", "or", self.boolean(d - 1), self.boolean(d - 1)]
        if x < 0.93:
            return ["un", "not", self.boolean(d - 1)]
        return ["if", [[self.boolean(d - 1), self.boolean(d - 1)]], self.boolean(d - 1)]

    def lhs(self):
        r = self.rng
        if self.loop is not None and r.random() < 0.8:
            lo, hi = self.loop
            kmin, kmax = 1 - lo, self.N - hi
            k = 0 if self.zero_offsets else min(max(r.choice([0, 0, 0, 1, -1]), kmin), kmax)
            return ["lidx", r.choice(self.arrays), k]
        x = r.random()
        if x < 0.35:
            return ["var", r.choice(["x1", "x2", "x3"])]
        if x < 0.6:
            return ["der", r.choice(self.ders)]
        if x < 0.8:
            return ["idx", r.choice(self.arrays), r.randint(1, self.N)]
        return self.real(1)

    def simple(self, d):
        return ["eq", self.lhs(), self.real(d)]

    def equation(self, d):
        r = self.rng
        x = r.random()
        if x < 0.40:
            return self.simple(d)
        if x < 0.52:
            return ["eq", ["var", r.choice(self.bools)], self.boolean(d)]
        if x < 0.72:
            m = r.choice([1, 1, 2])
            nb = r.choice([1, 1, 2])
            return ["ifeq", [[self.boolean(d - 1), [self.simple(d - 1) for _ in range(m)]] for _ in range(nb)],
                    [self.simple(d - 1) for _ in range(m)]]
        if r.random() < 0.25:
            return gen_for3(self, d)
        lo = r.randint(1, self.N)
        hi = r.randint(lo - (1 if r.random() < 0.08 else 0), self.N)
        use_n = (hi == self.N and r.random() < 0.5)
        self.loop = (lo, max(hi, lo))
        self.zero_offsets = (hi < lo) and not self.allow_empty_offsets
        body = [self.simple(d - 1) for _ in range(r.choice([1, 1, 2, 3]))]
        self.loop = None
        self.zero_offsets = False
        return ["for", lo, hi, use_n, body]


class FGen(Gen):
    """expressions over a fixed set of scalar names (function bodies, matrix models)"""

    def __init__(self, rng, names, extra_atoms=()):
        Gen.__init__(self, rng, 3, allow_ne=True, allow_fun=True)
        self.reals = list(names)
        self.bools = []
        self.extra = list(extra_atoms)
        self.in_loop = False

    def atom(self):
        r = self.rng
        x = r.random()
        if x < 0.25:
            return ["num", r.choice(NUMS)]
        if self.in_loop and x < 0.4:
            return ["loopvar"]
        if self.extra and x < 0.6:
            return r.choice(self.extra)
        return ["var", r.choice(self.reals)]

    def boolean(self, d):
        r = self.rng
        if d <= 0 or r.random() < 0.6:
            return ["bin", r.choice([">", "<", ">=", "<=", "<>", "=="]), self.real(max(d - 1, 0)), self.real(max(d - 1, 0))]
        return Gen.boolean(self, d)


def gen_function(rng, name, nout):
    ins, outs, prot = ["u", "w"], ["a", "b"][:nout], ["t"]
    allv = ins + outs + prot
    g = FGen(rng, ins)
    body = []
    for v in outs + prot:                      # every local is assigned before it is read
        body.append(["assign", v, g.real(1)])
        g.reals.append(v)
    locs = outs + prot
    for _ in range(rng.randint(2, 4)):
        x = rng.random()
        if x < 0.3:
            body.append(["assign", rng.choice(locs), g.real(2)])
        elif x < 0.55:
            # if-statement: every branch assigns the same variables once; right-hand sides and
            # conditions read only variables the statement does not assign (or the target itself)
            S = rng.sample(locs, rng.randint(1, min(2, len(locs))))
            free = [v for v in allv if v not in S]
            gc = FGen(rng, free)

            def branch():
                blk = []
                for v in S:
                    gv = FGen(rng, free + [v])
                    blk.append(["assign", v, gv.real(1)])
                return blk
            body.append(["ifst", [[gc.boolean(1), branch()] for _ in range(rng.choice([1, 1, 2]))], branch()])
        else:
            # for-statement: 1-3 assignments that read each other's results across iterations
            lo = rng.randint(1, 2)
            hi = lo + rng.randint(1, 3)
            g.in_loop = True
            k = rng.choice([1, 2, 2, 3])
            tg = rng.sample(locs, min(k, len(locs)))
            blk = []
            for j, v in enumerate(tg):
                other = tg[(j + 1) % len(tg)]
                form = rng.random()
                if form < 0.6:
                    e = ["bin", rng.choice(["+", "-"]), ["var", v], ["bin", "*", rng.choice([["loopvar"], ["num", "0.5"], ["var", "u"]]), ["var", other]]]
                elif form < 0.8:
                    e = ["bin", "-", ["var", other], ["bin", "*", ["num", "0.5"], ["var", v]]]
                else:
                    e = g.real(1)
                blk.append(["assign", v, e])
            g.in_loop = False
            st = ["forst", lo, hi, blk]
            if rng.random() < 0.35 and '"w"' not in json.dumps(blk):
                # the index is named like the input w (which the body does not read) and used as a value
                blk.append(["assign", tg[0], ["bin", "+", ["var", tg[0]], ["bin", "*", ["loopvar"], ["num", "0.25"]]]])
                st.append("w")
            body.append(st)
    return {"name": name, "inputs": ins, "outputs": outs, "protected": prot, "body": body}


def gen_ifdep_statement(rng):
    """if-statements whose translation needs the full sequential treatment (conditions on the pre-if
    values, all variables updated simultaneously)"""
    g = FGen(rng, ["u", "w", "a", "b"])
    x = rng.random()
    if x < 0.5:
        # the condition reads `a`, which every branch updates FIRST and by so much that the update
        # flips the condition; the later variables' branch values read nothing assigned before them
        # and differ between the branches, so a condition evaluated on the updated `a` is visible
        gi = FGen(rng, ["u", "w"])
        c0 = ["num", rng.choice(["0", "0.5", "1", "2"])]
        d = ["num", rng.choice(["1000", "2000"])]
        gt = rng.random() < 0.5
        cond = ["bin", ">" if gt else "<", ["var", "a"], c0]
        down = ["assign", "a", ["bin", "-", ["var", "a"], d]]
        up = ["assign", "a", ["bin", "+", ["var", "a"], d]]
        thn = [down if gt else up, ["assign", "b", ["bin", "+", ["num", "5000"], gi.real(1)]]]
        els = [up if gt else down, ["assign", "b", gi.real(1)]]
        if rng.random() < 0.4:
            thn.append(["assign", "t", ["bin", "-", gi.real(1), ["num", "7000"]]])
            els.append(["assign", "t", gi.real(1)])
        return ["ifst", [[cond, thn]], els]
    if x < 0.75:      # the condition reads a variable assigned in the branches
        return ["ifst", [[["bin", rng.choice([">", "<"]), ["var", "a"], g.real(0)],
                          [["assign", "a", ["bin", "-", ["var", "a"], ["num", rng.choice(["5", "3", "2.5"])]]], ["assign", "b", g.real(1)]]]],
                [["assign", "a", ["var", "a"]], ["assign", "b", g.real(1)]]]
    # branches assign in different orders and read each other
    return ["ifst", [[["bin", rng.choice([">", "<"]), ["var", "u"], g.real(0)],
                      [["assign", "a", g.real(1)], ["assign", "b", ["bin", "+", ["var", "a"], ["num", "10"]]]]]],
            [["assign", "b", g.real(1)], ["assign", "a", ["bin", "+", ["var", "b"], ["num", "100"]]]]]


def gen_fun_model(rng, ifdep=False):
    nout = rng.choice([1, 2, 2]) if not ifdep else 2
    f = gen_function(rng, "F1", nout)
    if ifdep:
        f["body"].insert(rng.randint(3, len(f["body"])), gen_ifdep_statement(rng))
    g = FGen(rng, ["x1", "x2", "x3", "u1", "p1", "time"])
    eqs = []
    if nout == 2:
        eqs.append(["calleq", ["x1", "x2"], "F1", [g.real(1), g.real(1)]])
        if rng.random() < 0.4:
            eqs.append(["calleq", ["x3"], "F1", [g.real(1), g.real(1)]])       # truncated output list
    else:
        eqs.append(["calleq", ["x1"], "F1", [g.real(1), g.real(1)]])
        eqs.append(["eq", ["var", "x2"], ["bin", "+", ["bin", "*", ["num", "2"], ["call", "F1", [g.real(1), ["num", "1.5"]]]], ["num", "1"]]])
    eqs.append(["eq", ["var", "x3"], g.real(2)] if rng.random() < 0.5 else ["eq", g.real(1), g.real(1)])
    return {"kind": "model", "name": "M", "N": 3, "eqs": eqs, "ieqs": [], "stream": "fun", "decl": "fun", "functions": [f]}


R3 = lambda a, s_, b: ["r3", a, s_, b]  # noqa
# constant three-part slices: negative and non-unit steps, on vectors and on either axis of a matrix
M22_R3 = [["sl", "C", [R3(3, -2, 1), R3(1, 2, 3)]], ["sl", "C", [R3(2, -1, 1), R3(3, -1, 2)]], ["sl", "E", [R3(2, -1, 1), R3(3, -2, 1)]],
          ["sl", "E", [":", R3(3, -1, 2)]], ["sl", "C", [["r", 1, 2], R3(3, -2, 1)]], ["sl", "A", [R3(2, -1, 1), ":"]]]
V3_R3 = [["sl", "v", [R3(3, -1, 1)]], ["sl", "z", [R3(5, -2, 1)]], ["sl", "z", [R3(1, 2, 5)]], ["sl", "z", [R3(4, -1, 2)]],
         ["sl", "C", [R3(3, -1, 1), 2]], ["sl", "C", [R3(3, -1, 1), 1]], ["sl", "z", [R3(5, -1, 3)]]]
V3_R3_ROW = [["sl", "C", [2, R3(3, -1, 1)]], ["sl", "E", [1, R3(3, -1, 1)]]]
V2_R3 = [["sl", "v", [R3(3, -2, 1)]], ["sl", "z", [R3(4, -1, 3)]], ["sl", "z", [R3(5, -3, 1)]], ["sl", "z", [R3(2, 3, 5)]],
         ["sl", "E", [R3(2, -1, 1), 3]], ["sl", "C", [R3(3, -2, 1), 2]], ["sl", "w", [R3(2, -1, 1)]]]
V2_R3_ROW = [["sl", "C", [3, R3(3, -2, 1)]], ["sl", "A", [2, R3(2, -1, 1)]]]
M22 = [["A", "A"], ["A", "B"], ["A", "D"], ["sl", "C", [["r", 1, 2], ["r", 2, 3]]], ["sl", "C", [["r", 2, 3], ["r", 1, 2]]],
       ["sl", "E", [":", ["r", 2, 3]]], ["sl", "E", [":", ["r", 1, 2]]], ["sl", "C", [["r", 1, 2], ["r", 1, 2]]]]


def gen_aexpr(rng, g, ty, d):
    r = rng
    if d <= 0 or r.random() < 0.3:
        if r.random() < 0.35:
            return r.choice({"m22": M22_R3, "v3": V3_R3, "v2": V2_R3}[ty])
        if ty == "m22":
            return r.choice(M22)
        if ty == "v3":
            return r.choice([["A", "v"], ["A", "w"], ["sl", "C", [":", r.randint(1, 3)]], ["sl", "C", [["r", 1, 3], r.randint(1, 3)]],
                             ["sl", "v", [["r", 1, 3]]]])
        return r.choice([["sl", "v", [["r", 1, 2]]], ["sl", "w", [["r", 2, 3]]], ["sl", "C", [["r", r.randint(1, 2), 0], r.randint(1, 3)]],
                         ["sl", "E", [":", r.randint(1, 3)]], ["sl", "A", [":", r.randint(1, 2)]], ["sl", "B", [["r", 1, 2], r.randint(1, 2)]]])
    x = r.random()
    if x < 0.4:
        return ["abin", r.choice(["+", "-", "+", "-", ".*"]), gen_aexpr(r, g, ty, d - 1), gen_aexpr(r, g, ty, d - 1)]
    if x < 0.6:
        return ["ascal", g.real(1) if r.random() < 0.5 else ["num", r.choice(["2", "0.5", "3"])], gen_aexpr(r, g, ty, d - 1)]
    if x < 0.7:
        return ["aneg", gen_aexpr(r, g, ty, d - 1)]
    if x < 0.9:
        if ty == "m22":
            return ["abin", "*", gen_aexpr(r, g, "m22", d - 1), gen_aexpr(r, g, "m22", d - 1)]
        if ty == "v2":
            return ["abin", "*", gen_aexpr(r, g, "m22", d - 1), gen_aexpr(r, g, "v2", d - 1)]
        return ["abin", "*", ["A", "C"], gen_aexpr(r, g, "v3", d - 1)]
    if ty == "m22":
        return ["atr", gen_aexpr(r, g, "m22", d - 1)]
    return gen_aexpr(r, g, ty, d - 1)


def fix_ranges(e):
    """["r", lo, 0] placeholders -> lo:lo+1"""
    if isinstance(e, list):
        if len(e) == 3 and e[0] == "r" and e[2] == 0:
            return ["r", e[1], e[1] + 1]
        return [fix_ranges(x) for x in e]
    return e


def gen_mat_model(rng):
    elems = [["idx2", n, i + 1, j + 1] for n, sh in MAT_DECL.items() if len(sh) == 2 for i in range(sh[0]) for j in range(sh[1])]
    elems += [["idx", n, i + 1] for n in ("v", "w") for i in range(3)] + [["idx", "z", i + 1] for i in range(5)]
    g = FGen(rng, ["x1", "u1", "p1", "time"], extra_atoms=elems)
    eqs = []
    for _ in range(rng.randint(3, 5)):
        x = rng.random()
        d = rng.choice([0, 1, 1, 2])
        if x < 0.4:      # square matrices, whole or as a 2-D slice
            lhs = rng.choice(M22 + M22_R3)
            eqs.append(["aeq", lhs, gen_aexpr(rng, g, "m22", d)])
        elif x < 0.6:
            lhs = rng.choice([["A", "v"], ["A", "w"], ["sl", "C", [":", rng.randint(1, 3)]], ["sl", "C", [rng.randint(1, 3), ":"]],
                              ["sl", "E", [rng.randint(1, 2), ":"]]] + V3_R3 + V3_R3_ROW)
            eqs.append(["aeq", lhs, gen_aexpr(rng, g, "v3", d)])
        elif x < 0.8:
            lhs = rng.choice([["sl", "v", [["r", 1, 2]]], ["sl", "w", [["r", 2, 3]]], ["sl", "C", [["r", 2, 3], rng.randint(1, 3)]],
                              ["sl", "E", [":", rng.randint(1, 3)]], ["sl", "A", [rng.randint(1, 2), ":"]], ["sl", "A", [":", rng.randint(1, 2)]]] + V2_R3 + V2_R3_ROW)
            eqs.append(["aeq", lhs, gen_aexpr(rng, g, "v2", d)])
        elif x < 0.9:
            eqs.append(["aeq", ["A", "E"], ["abin", rng.choice(["+", "-"]), ["ascal", g.real(1), ["A", "E"]], ["sl", "C", [["r", 1, 2], ":"]]]])
        else:
            eqs.append(["eq", rng.choice(elems + [["var", "x1"]]), g.real(2)])
    ieqs = []
    if rng.random() < 0.6:
        ty = rng.choice(["m22", "v3", "v2"])
        lhs = rng.choice({"m22": M22 + M22_R3, "v3": V3_R3 + [["A", "v"]], "v2": V2_R3}[ty])
        ieqs = [["aeq", lhs, gen_aexpr(rng, g, ty, 1)]]
    return {"kind": "model", "name": "M", "N": 3, "eqs": fix_ranges(eqs), "ieqs": fix_ranges(ieqs), "stream": "mat", "decl": "mat"}


def mrange(a, st, b):
    """Modelica range a:st:b (spec 10.4.3), independent of the code under test"""
    if st == 0:
        raise ValueError("zero step")
    if (st > 0 and a > b) or (st < 0 and a < b):
        return []
    n = (Fraction(b - a) / st).__floor__()
    return [a + k * st for k in range(n + 1)]


def gen_for3(g, d):
    """a for-equation over a three-part range: positive / negative steps, steps that do not divide
    the span, explicit step 1, occasionally empty"""
    r = g.rng
    st = r.choice([2, 2, 3, -1, -2, -2, -3, 1])
    a, b = r.randint(1, g.N), r.randint(1, g.N)
    if r.random() < 0.85 and ((st > 0) != (a <= b)):
        a, b = b, a
    vs = mrange(a, st, b)
    g.loop = (min(vs), max(vs)) if vs else (1, 1)
    g.zero_offsets = not vs
    body = [g.simple(d - 1) for _ in range(r.choice([1, 1, 2]))]
    g.loop = None
    g.zero_offsets = False
    # a negative step is written either as the literal -k or as the expression (0-k)
    return ["for3", a, st, b, body, "lit" if r.random() < 0.4 else "sub"]


# (lo, hi, coef, off, text) with 1 <= coef*i + off <= 6 for lo <= i <= hi; N = 6, n = 6
AFFINE = [(1, 3, 2, 0, "2*i"), (1, 3, 2, -1, "2*i-1"), (1, 2, 3, -2, "3*i-2"), (1, 2, 3, 0, "3*i"), (1, 6, -1, 7, "n+1-i"),
          (2, 3, 2, -1, "2*i-1"), (1, 3, -2, 8, "8-2*i"), (2, 5, -1, 7, "7-i"), (1, 2, 2, 2, "2*i+2"), (1, 3, -1, 4, "4-i")]


def fits(lo, hi, coef, off, N):
    return all(1 <= coef * i + off <= N for i in (lo, hi))


def gen_affine_loop(g, d):
    """for-equation whose subscripts are affine in the index with coefficient <> 1 (2*i, 2*i-1, n+1-i, ...)"""
    r = g.rng
    lo, hi, coef, off, txt = r.choice(AFFINE)
    g.loop = (lo, hi)
    body = []
    for _ in range(r.choice([1, 1, 2])):
        others = [a for a in AFFINE if fits(lo, hi, a[2], a[3], g.N)]
        o = r.choice(others)
        rhs = ["bin", r.choice(["+", "-", "*"]), ["aidx", r.choice(g.arrays), o[2], o[3], o[4]], g.real(d - 1)]
        if r.random() < 0.5:
            rhs = ["bin", "+", rhs, ["bin", "*", ["loopvar"], g.real(0)]]
        body.append(["eq", ["aidx", r.choice(g.arrays), coef, off, txt], rhs])
    g.loop = None
    return ["for", lo, hi, False, body]


def gen_shadow_loop(g, d):
    """for-equation whose index is named like a variable / parameter / input of the model and is used as a value"""
    r = g.rng
    name = r.choice(["x3", "p1", "u1", "k1"])
    saved = list(g.reals)
    g.reals = [v for v in g.reals if v != name]     # inside the loop the name means the index
    lo = r.randint(1, 2)
    hi = r.randint(lo + 1, g.N)
    g.loop = (lo, hi)
    body = [["eq", ["lidx", r.choice(g.arrays), 0],
             ["bin", "+", ["bin", "*", ["loopvar"], ["lidx", r.choice(g.arrays), 0]], g.real(d - 1)]]]
    if r.random() < 0.4:
        body.append(["eq", ["lidx", r.choice(g.arrays), 0], g.real(d - 1)])
    g.loop = None
    g.reals = saved
    return ["for", lo, hi, False, body, name]


def gen_model(rng, kind="plain"):
    if kind == "loopx":
        g = Gen(rng, 6, allow_ne=False)
        eqs = [g.equation(1) for _ in range(rng.randint(1, 2))]
        eqs += [gen_affine_loop(g, 2) for _ in range(rng.randint(1, 2))]
        eqs.append(gen_shadow_loop(g, 2))
        rng.shuffle(eqs)
        ieqs = [gen_affine_loop(g, 1) if rng.random() < 0.6 else gen_shadow_loop(g, 1)] if rng.random() < 0.7 else []
        return {"kind": "model", "name": "M", "N": 6, "eqs": eqs, "ieqs": ieqs, "stream": kind}
    N = rng.randint(3, 6 if kind == "for3" else 5)
    g = Gen(rng, N, allow_ne=(kind == "ne" or rng.random() < 0.3))
    d = rng.choice([1, 2, 2, 3])
    eqs = [g.equation(d) for _ in range(rng.randint(2, 5))]
    if kind == "ne" and "<>" not in json.dumps(eqs):
        eqs.append(["eq", ["var", "b1"], ["bin", "<>", ["var", "x1"], g.real(1)]])
    if kind == "for3" and '"for3"' not in json.dumps(eqs):
        eqs.append(gen_for3(g, 2))
    if kind == "emptyoff":
        lo = rng.randint(2, N)
        k = rng.choice([-1, 1]) if lo < N else -1
        eqs.append(["for", lo, lo - 1, False, [["eq", ["lidx", rng.choice(["a", "c"]), k], g.real(1)]]])
    ieqs = [g.simple(1) for _ in range(rng.randint(0, 2))]
    return {"kind": "model", "name": "M", "N": N, "eqs": eqs, "ieqs": ieqs, "stream": kind}


# ---- printing --------------------------------------------------------------------------------
def pe(e):
    t = e[0]
    if t == "num":
        return e[1]
    if t == "bool":
        return "true" if e[1] else "false"
    if t == "var":
        return e[1]
    if t == "der":
        return "der(%s)" % e[1]
    if t == "idx":
        return "%s[%d]" % (e[1], e[2])
    if t == "lidx":
        return "%s[i]" % e[1] if e[2] == 0 else "%s[i%s%d]" % (e[1], "+" if e[2] > 0 else "-", abs(e[2]))
    if t == "loopvar":
        return "i"
    if t == "aidx":            # name[coef*i + off], printed as given (2*i, 2*i-1, n+1-i, ...)
        return "%s[%s]" % (e[1], e[4])
    if t == "un":
        if e[1] == "abs":
            return "abs(%s)" % pe(e[2])
        if e[1] == "not":
            return "(not %s)" % pe(e[2])
        return "(%s%s)" % (e[1], pe(e[2]))
    if t == "bin":
        if e[1] in ("min", "max"):
            return "%s(%s, %s)" % (e[1], pe(e[2]), pe(e[3]))
        return "(%s %s %s)" % (pe(e[2]), e[1], pe(e[3]))
    if t == "if":
        s = ""
        for i, (c, a) in enumerate(e[1]):
            s += "%s %s then %s " % ("if" if i == 0 else "elseif", pe(c), pe(a))
        return "(%selse %s)" % (s, pe(e[2]))
    if t == "fun":
        return "%s(%s)" % (e[1], pe(e[2]))
    if t == "idx2":
        return "%s[%d,%d]" % (e[1], e[2], e[3])
    if t == "call":
        return "%s(%s)" % (e[1], ", ".join(pe(a) for a in e[2]))
    raise ValueError(t)


def psub(x):
    if x == ":":
        return ":"
    if isinstance(x, list):
        return "%d:%d:%d" % (x[1], x[2], x[3]) if x[0] == "r3" else "%d:%d" % (x[1], x[2])
    return str(x)


def pa(e):
    t = e[0]
    if t == "A":
        return e[1]
    if t == "sl":
        return "%s[%s]" % (e[1], ",".join(psub(x) for x in e[2]))
    if t == "abin":
        return "(%s %s %s)" % (pa(e[2]), e[1], pa(e[3]))
    if t == "ascal":
        return "(%s * %s)" % (pe(e[1]), pa(e[2]))
    if t == "aneg":
        return "(-%s)" % pa(e[1])
    if t == "atr":
        return "transpose(%s)" % pa(e[1])
    raise ValueError(t)


def pst(st, ind="  "):
    if st[0] == "assign":
        return "%s%s := %s;\n" % (ind, st[1], pe(st[2]))
    if st[0] == "ifst":
        s = ""
        for i, (c, blk) in enumerate(st[1]):
            s += "%s%s %s then\n%s" % (ind, "if" if i == 0 else "elseif", pe(c), "".join(pst(x, ind + "  ") for x in blk))
        return s + "%selse\n%s%send if;\n" % (ind, "".join(pst(x, ind + "  ") for x in st[2]), ind)
    if st[0] == "forst":
        txt = "%sfor i in %d:%d loop\n%s%send for;\n" % (ind, st[1], st[2], "".join(pst(x, ind + "  ") for x in st[3]), ind)
        return re.sub(r"\bi\b", st[4], txt) if len(st) > 4 and st[4] else txt
    raise ValueError(st[0])


def pfun(f):
    s = "function %s\n" % f["name"]
    s += "".join("  input Real %s;\n" % n for n in f["inputs"])
    s += "".join("  output Real %s;\n" % n for n in f["outputs"])
    if f["protected"]:
        s += "protected\n" + "".join("  Real %s;\n" % n for n in f["protected"])
    return s + "algorithm\n" + "".join(pst(st) for st in f["body"]) + "end %s;\n\n" % f["name"]


def pq(q, ind="  "):
    t = q[0]
    if t == "eq":
        return "%s%s = %s;\n" % (ind, pe(q[1]), pe(q[2]))
    if t == "ifeq":
        s = ""
        for i, (c, blk) in enumerate(q[1]):
            s += "%s%s %s then\n%s" % (ind, "if" if i == 0 else "elseif", pe(c), "".join(pq(x, ind + "  ") for x in blk))
        return s + "%selse\n%s%send if;\n" % (ind, "".join(pq(x, ind + "  ") for x in q[2]), ind)
    if t == "for":
        txt = "%sfor i in %d:%s loop\n%s%send for;\n" % (ind, q[1], "n" if q[3] else str(q[2]),
                                                         "".join(pq(x, ind + "  ") for x in q[4]), ind)
        # the loop index may be named like a variable / parameter of the enclosing class (it shadows it)
        return re.sub(r"\bi\b", q[5], txt) if len(q) > 5 and q[5] else txt
    if t == "calleq":
        lhs = q[1][0] if len(q[1]) == 1 else "(%s)" % ", ".join(q[1])
        return "%s%s = %s(%s);\n" % (ind, lhs, q[2], ", ".join(pe(a) for a in q[3]))
    if t == "aeq":
        return "%s%s = %s;\n" % (ind, pa(q[1]), pa(q[2]))
    if t == "for3":
        st = str(q[2]) if q[2] > 0 or (len(q) > 5 and q[5] == "lit") else "(0-%d)" % -q[2]
        return "%sfor i in %d:%s:%d loop\n%s%send for;\n" % (ind, q[1], st, q[3],
                                                             "".join(pq(x, ind + "  ") for x in q[4]), ind)
    raise ValueError(t)


MAT_DECL = {"A": (2, 2), "B": (2, 2), "D": (2, 2), "C": (3, 3), "E": (2, 3), "v": (3,), "w": (3,), "z": (5,)}


def model_text(m):
    if m.get("decl") == "fun":
        s = "".join(pfun(f) for f in m["functions"])
        s += "model M\n  input Real u1;\n  Real x1; Real x2; Real x3;\n  parameter Real p1 = 1.5;\n"
        return s + "equation\n" + "".join(pq(q) for q in m["eqs"]) + "end M;\n"
    if m.get("decl") == "mat":
        s = "model M\n" + "".join("  Real %s[%s];\n" % (n, ",".join(str(d) for d in sh)) for n, sh in MAT_DECL.items())
        s += "  Real x1;\n  input Real u1;\n  parameter Real p1 = 1.5;\n"
        if m["ieqs"]:
            s += "initial equation\n" + "".join(pq(q) for q in m["ieqs"])
        return s + "equation\n" + "".join(pq(q) for q in m["eqs"]) + "end M;\n"
    s = "model M\n  parameter Integer n = %d;\n  Real x1; Real x2; Real x3;\n  input Real u1;\n" % m["N"]
    s += "  parameter Real p1 = 1.5;\n  constant Real k1 = 2.0;\n  Boolean b1; Boolean b2;\n"
    s += "  Real a[n]; Real c[%d];\n" % m["N"]
    if m["ieqs"]:
        s += "initial equation\n" + "".join(pq(q) for q in m["ieqs"])
    s += "equation\n" + "".join(pq(q) for q in m["eqs"]) + "end M;\n"
    return s


SCALARS = ["x1", "x2", "x3", "u1", "p1", "k1", "time", "b1", "b2", "n"]
VAR_ID = {n: i + 1 for i, n in enumerate(SCALARS)}
ARR_ID = {"a": 20, "c": 21, "v": 45, "w": 46, "z": 47}
FUN_VAR_ID = {"u": 31, "w": 32, "a": 33, "b": 34, "t": 35}
MAT_ID = {"A": 40, "B": 41, "D": 42, "C": 43, "E": 44}


def gen_point(rng, N):
    def dy():
        return Fraction(rng.randint(-24, 24), 8)
    p = {"x1": dy(), "x2": dy(), "x3": dy(), "u1": dy(), "p1": dy(), "k1": dy(), "time": dy(),
         "b1": Fraction(rng.randint(0, 1)), "b2": Fraction(rng.randint(0, 1)), "n": Fraction(N),
         "der(x1)": dy(), "der(x2)": dy(), "a": [dy() for _ in range(N)], "c": [dy() for _ in range(N)]}
    if rng.random() < 0.3:  # provoke ties in relations
        p["x2"] = p["x1"]
        p["a"][0] = p["c"][0]
    if rng.random() < 0.15:
        p["x3"] = Fraction(0)
    return p


def fr(x):
    return [fr(v) for v in x] if isinstance(x, list) else str(x)


def unfr(x):
    return [unfr(v) for v in x] if isinstance(x, list) else Fraction(x)


def to_child(v):
    """exact value -> floats for the child; matrices (lists of rows) flattened column-major"""
    if isinstance(v, list) and v and isinstance(v[0], list):
        return [float(v[i][j]) for j in range(len(v[0])) for i in range(len(v))]
    return [float(x) for x in v] if isinstance(v, list) else float(v)


def gen_point_decl(rng, decl):
    def dy():
        return Fraction(rng.randint(-16, 16), 8)
    p = {"x1": dy(), "x2": dy(), "x3": dy(), "u1": dy(), "p1": dy(), "time": dy()}
    if decl == "mat":
        for n, sh in MAT_DECL.items():
            p[n] = [dy() for _ in range(sh[0])] if len(sh) == 1 else [[dy() for _ in range(sh[1])] for _ in range(sh[0])]
    return p


def finalize(m, rng, npoints):
    m["text"] = model_text(m)
    if m.get("decl") in ("fun", "mat"):
        pts = [gen_point_decl(rng, m["decl"]) for _ in range(npoints)]
    else:
        pts = [gen_point(rng, m["N"]) for _ in range(npoints)]
    m["xpoints"] = [{k: fr(v) for k, v in p.items()} for p in pts]
    m["points"] = [{k: to_child(v) for k, v in p.items()} for p in pts]
    return m


# =============================================================================================
# Independent evaluator: exact value (Fractions) + enclosure of every binary64 evaluation
# =============================================================================================
class Skip(Exception):
    """the point is outside what can be judged: undefined (division by zero, domain) or a relation
    whose outcome depends on rounding"""


U = Fraction(1, 2 ** 50)
ABS0 = Fraction(1, 2 ** 900)


def widen(lo, hi, k=1):
    m = max(abs(lo), abs(hi))
    return lo - k * m * U - ABS0, hi + k * m * U + ABS0


class Ev:
    def __init__(self, point):
        self.p = point
        self.i = None
        self.ftab = []
        self.funs = {}
        self.if_mode = "modelica"

    # reals: (val, lo, hi)
    def real(self, e):
        t = e[0]
        if t == "num":
            v = Fraction(e[1])
            f = Fraction(float(e[1]))
            return v, min(v, f), max(v, f)
        if t == "var":
            v = self.p[e[1]]
            if isinstance(v, tuple):      # inside a function body: (val, lo, hi)
                return v
            return v, v, v
        if t == "idx2":
            v = self.p[e[1]][e[2] - 1][e[3] - 1]
            return v, v, v
        if t == "call":
            return self.call(e[1], e[2])[0]
        if t == "der":
            v = self.p["der(%s)" % e[1]]
            return v, v, v
        if t == "idx":
            v = self.p[e[1]][e[2] - 1]
            return v, v, v
        if t == "lidx":
            j = self.i + e[2]
            if not 1 <= j <= len(self.p[e[1]]):
                raise IndexError("subscript %d of %s" % (j, e[1]))
            v = self.p[e[1]][j - 1]
            return v, v, v
        if t == "aidx":
            j = e[2] * self.i + e[3]
            if not 1 <= j <= len(self.p[e[1]]):
                raise IndexError("subscript %d of %s" % (j, e[1]))
            v = self.p[e[1]][j - 1]
            return v, v, v
        if t == "loopvar":
            v = Fraction(self.i)
            return v, v, v
        if t == "un":
            v, lo, hi = self.real(e[2])
            if e[1] == "-":
                return -v, -hi, -lo
            if e[1] == "+":
                return v, lo, hi
            if e[1] == "abs":
                if lo >= 0:
                    return abs(v), lo, hi
                if hi <= 0:
                    return abs(v), -hi, -lo
                return abs(v), Fraction(0), max(-lo, hi)
            raise ValueError(e[1])
        if t == "bin":
            op = e[1].lstrip(".")
            a, alo, ahi = self.real(e[2])
            if op == "^":
                return self.power(a, alo, ahi, e[3])
            b, blo, bhi = self.real(e[3])
            if op == "+":
                return (a + b,) + widen(alo + blo, ahi + bhi)
            if op == "-":
                return (a - b,) + widen(alo - bhi, ahi - blo)
            if op == "*":
                c = [alo * blo, alo * bhi, ahi * blo, ahi * bhi]
                return (a * b,) + widen(min(c), max(c))
            if op == "/":
                if blo <= 0 <= bhi:
                    raise Skip("division by zero")
                c = [alo / blo, alo / bhi, ahi / blo, ahi / bhi]
                return (a / b,) + widen(min(c), max(c))
            if op == "min":
                return min(a, b), min(alo, blo), min(ahi, bhi)
            if op == "max":
                return max(a, b), max(alo, blo), max(ahi, bhi)
            raise ValueError(op)
        if t == "if":
            for c, x in e[1]:
                if self.truth(c)[0]:
                    return self.real(x)
            return self.real(e[2])
        if t == "fun":
            a, alo, ahi = self.real(e[2])
            fn = getattr(math, e[1])
            try:
                vals = [fn(float(a)), fn(float(alo)), fn(float(ahi))]
            except (ValueError, OverflowError):
                raise Skip("domain of %s" % e[1])
            if any(math.isinf(x) or math.isnan(x) for x in vals):
                raise Skip("overflow in %s" % e[1])
            v = Fraction(vals[0])
            self.ftab.append((FUN_ID[e[1]], a, v))
            lo, hi = Fraction(min(vals)), Fraction(max(vals))
            m = max(abs(lo), abs(hi))
            eps = Fraction(1, 10 ** 9)
            return v, lo - m * eps - Fraction(1, 10 ** 12), hi + m * eps + Fraction(1, 10 ** 12)
        raise ValueError("not a Real expression: %s" % t)

    # ---- user functions: sequential interpreter (Modelica algorithm semantics) ----------------
    def call(self, fname, args):
        f = self.funs[fname]
        vals = [self.real(a) for a in args]
        inner = Ev(dict(zip(f["inputs"], vals)))
        inner.funs = self.funs
        inner.if_mode = self.if_mode
        inner.run(f["body"])
        self.ftab += inner.ftab
        return [inner.p[o] for o in f["outputs"]]

    def run(self, stmts):
        for st in stmts:
            if st[0] == "assign":
                self.p[st[1]] = self.real(st[2])
            elif st[0] == "ifst" and self.if_mode == "pymoca":
                # exitIfStatement + get_function: one merged if_else per assigned variable (in order
                # of first appearance), each evaluated - conditions included - on the values
                # already updated by the variables before it
                order = []
                for b in [b for _, b in st[1]] + [st[2]]:
                    for a in b:
                        if a[1] not in order:
                            order.append(a[1])
                for x in order:
                    blk = st[2]
                    for c, b in st[1]:
                        if self.truth(c)[0]:
                            blk = b
                            break
                    self.p[x] = self.real([a[2] for a in blk if a[1] == x][0])
            elif st[0] == "ifst":
                blk = st[2]
                for c, b in st[1]:
                    if self.truth(c)[0]:
                        blk = b
                        break
                self.run(blk)
            elif st[0] == "forst":
                for i in range(st[1], st[2] + 1):
                    self.i = i
                    self.run(st[3])
                self.i = None
            else:
                raise ValueError(st[0])

    # ---- arrays: {"shape": (n,) | (n, m), "d": {index tuple: (val, lo, hi)}} -------------------
    def tri(self, op, x, y):
        a, alo, ahi = x
        b, blo, bhi = y
        if op == "+":
            return (a + b,) + widen(alo + blo, ahi + bhi)
        if op == "-":
            return (a - b,) + widen(alo - bhi, ahi - blo)
        c = [alo * blo, alo * bhi, ahi * blo, ahi * bhi]
        return (a * b,) + widen(min(c), max(c))

    def arr(self, e):
        t = e[0]
        if t == "A":
            v = self.p[e[1]]
            if v and isinstance(v[0], list):
                return {"shape": (len(v), len(v[0])), "d": {(i, j): (x, x, x) for i, row in enumerate(v) for j, x in enumerate(row)}}
            return {"shape": (len(v),), "d": {(i,): (x, x, x) for i, x in enumerate(v)}}
        if t == "sl":
            base = self.arr(["A", e[1]])
            sel = []
            for dim, sub in zip(base["shape"], e[2]):
                if sub == ":":
                    sel.append(list(range(dim)))
                elif isinstance(sub, list) and sub[0] == "r3":
                    sel.append([i - 1 for i in mrange(sub[1], sub[2], sub[3])])   # element k is x[lo + k*st]
                elif isinstance(sub, list):
                    sel.append(list(range(sub[1] - 1, sub[2])))
                else:
                    sel.append(sub - 1)       # scalar subscript: the dimension disappears
            keep = [x for x in sel if isinstance(x, list)]
            shape = tuple(len(x) for x in keep)
            d = {}
            if len(keep) == 1:
                for a, i in enumerate(keep[0]):
                    d[(a,)] = base["d"][tuple(i if isinstance(x, list) else x for x in sel)]
            else:
                for a, i in enumerate(keep[0]):
                    for b, j in enumerate(keep[1]):
                        d[(a, b)] = base["d"][(i, j)]
            return {"shape": shape, "d": d}
        if t == "abin":
            x, y = self.arr(e[2]), self.arr(e[3])
            if e[1] == "*":                   # Modelica matrix product
                if len(x["shape"]) != 2:
                    raise ValueError("matrix product lhs")
                n, k = x["shape"]
                if len(y["shape"]) == 1:
                    d = {}
                    for i in range(n):
                        acc = None
                        for l in range(k):
                            pr = self.tri("*", x["d"][(i, l)], y["d"][(l,)])
                            acc = pr if acc is None else self.tri("+", acc, pr)
                        d[(i,)] = acc
                    return {"shape": (n,), "d": d}
                m = y["shape"][1]
                d = {}
                for i in range(n):
                    for j in range(m):
                        acc = None
                        for l in range(k):
                            pr = self.tri("*", x["d"][(i, l)], y["d"][(l, j)])
                            acc = pr if acc is None else self.tri("+", acc, pr)
                        d[(i, j)] = acc
                return {"shape": (n, m), "d": d}
            if x["shape"] != y["shape"]:
                raise ValueError("shape mismatch")
            op = {"+": "+", "-": "-", ".*": "*"}[e[1]]
            return {"shape": x["shape"], "d": {k: self.tri(op, x["d"][k], y["d"][k]) for k in x["d"]}}
        if t == "ascal":
            sc = self.real(e[1])
            x = self.arr(e[2])
            return {"shape": x["shape"], "d": {k: self.tri("*", sc, v) for k, v in x["d"].items()}}
        if t == "aneg":
            x = self.arr(e[1])
            return {"shape": x["shape"], "d": {k: (-v[0], -v[2], -v[1]) for k, v in x["d"].items()}}
        if t == "atr":
            x = self.arr(e[1])
            return {"shape": x["shape"][::-1], "d": {(j, i): v for (i, j), v in x["d"].items()}}
        raise ValueError(t)

    @staticmethod
    def flat(x):
        if len(x["shape"]) == 1:
            return [x["d"][(i,)] for i in range(x["shape"][0])]
        n, m = x["shape"]
        return [x["d"][(i, j)] for j in range(m) for i in range(n)]     # column-major = veccat

    def power(self, a, alo, ahi, ex):
        n, nlo, nhi = self.real(ex)
        if nlo != nhi or n.denominator != 1:
            raise Skip("non-integer exponent")
        n = int(n)
        if n == 0:
            return Fraction(1), Fraction(1), Fraction(1)
        k = abs(n)
        c = [alo ** k, ahi ** k]
        if alo < 0 < ahi:
            c.append(Fraction(0))
        v, lo, hi = a ** k, min(c), max(c)
        if n < 0:
            if lo <= 0 <= hi or a == 0:
                raise Skip("zero to a negative power")
            v, lo, hi = 1 / v, min(1 / lo, 1 / hi), max(1 / lo, 1 / hi)
        return (v,) + widen(lo, hi, k + 3)

    # Booleans: (truth, count) — count is the number the declared encoding yields
    # (relations 0/1, and = product, or = sum, not = 1/0)
    def truth(self, e):
        t = e[0]
        if t == "bool":
            return bool(e[1]), Fraction(int(e[1]))
        if t == "var":
            v = self.p[e[1]]
            return v != 0, v
        if t == "un" and e[1] == "not":
            tr, _ = self.truth(e[2])
            return (not tr), Fraction(int(not tr))
        if t == "bin" and e[1] in ("and", "or"):
            ta, ca = self.truth(e[2])
            tb, cb = self.truth(e[3])
            if e[1] == "and":
                return (ta and tb), ca * cb
            return (ta or tb), ca + cb
        if t == "bin" and e[1] in RELS:
            a, alo, ahi = self.real(e[2])
            b, blo, bhi = self.real(e[3])
            exact = (alo == ahi and blo == bhi)
            op = e[1]
            if op in ("<", ">"):
                if op == ">":
                    a, alo, ahi, b, blo, bhi = b, blo, bhi, a, alo, ahi
                if exact:
                    r = a < b
                elif ahi < blo:
                    r = True
                elif alo > bhi:
                    r = False
                else:
                    raise Skip("relation depends on rounding")
            elif op in ("<=", ">="):
                if op == ">=":
                    a, alo, ahi, b, blo, bhi = b, blo, bhi, a, alo, ahi
                if exact:
                    r = a <= b
                elif ahi < blo:
                    r = True
                elif alo > bhi:
                    r = False
                else:
                    raise Skip("relation depends on rounding")
            else:
                if exact:
                    r = (a == b)
                elif ahi < blo or alo > bhi:
                    r = False
                else:
                    raise Skip("relation depends on rounding")
                if op == "<>":
                    r = not r
            return r, Fraction(int(r))
        if t == "if":
            for c, x in e[1]:
                if self.truth(c)[0]:
                    return self.truth(x)
            return self.truth(e[2])
        raise ValueError("not a Boolean expression: %s" % (e,))

    def is_bool(self, e):
        t = e[0]
        return (t == "bool" or (t == "var" and e[1] in ("b1", "b2")) or (t == "un" and e[1] == "not")
                or (t == "bin" and (e[1] in ("and", "or") or e[1] in RELS))
                or (t == "if" and self.is_bool(e[2])))

    def res1(self, q):
        """(val, lo, hi) of lhs - rhs of one simple equation"""
        if self.is_bool(q[1]) or self.is_bool(q[2]):
            tl, cl = self.truth(q[1])
            tr, cr = self.truth(q[2])
            if (cl != 0) != tl or (cr != 0) != tr or cl < 0 or cr < 0:
                raise AssertionError("encoding invariant broken in the oracle")
            v = cl - cr
            return v, v, v
        a, alo, ahi = self.real(q[1])
        b, blo, bhi = self.real(q[2])
        return (a - b,) + widen(alo - bhi, ahi - blo)

    def loop_values(self, q):
        if q[0] == "for":
            return list(range(q[1], q[2] + 1))
        return mrange(q[1], q[2], q[3])

    def residual(self, eqs):
        """expected residual vector, per equation: list of lists of (val, lo, hi)"""
        out = []
        for q in eqs:
            if q[0] == "eq":
                out.append([self.res1(q)])
            elif q[0] == "calleq":
                outs = self.call(q[2], q[3])[:len(q[1])]
                r = []
                for name, o in zip(q[1], outs):
                    v = self.p[name]
                    r.append((v - o[0],) + widen(v - o[2], v - o[1]))
                out.append(r)
            elif q[0] == "aeq":
                x, y = self.arr(q[1]), self.arr(q[2])
                if x["shape"] != y["shape"]:
                    raise ValueError("array equation between different shapes")
                out.append([self.tri("-", a, b) for a, b in zip(self.flat(x), self.flat(y))])
            elif q[0] == "ifeq":
                blk = q[2]
                for c, b in q[1]:
                    if self.truth(c)[0]:
                        blk = b
                        break
                out.append([self.res1(x) for x in blk])
            else:
                vals = self.loop_values(q)
                r = []
                for x in q[4]:          # equation-major: res[0].T then veccat
                    for i in vals:
                        self.i = i
                        r.append(self.res1(x))
                self.i = None
                out.append(r)
        return out


def obs_fraction(s):
    if isinstance(s, str) and s in ("nan", "inf", "-inf"):
        return None
    return Fraction(float.fromhex(s))


def has(m, what):
    return what in json.dumps([m["eqs"], m["ieqs"]])


def judge(m, r, if_mode="modelica"):
    """Property oracle.  Returns (why | None, stats)."""
    stats = {"points": 0, "skipped": 0, "entries": 0}
    if "crash" in r:
        return "the generator crashed (rc=%s) on a supported model" % r["crash"], stats
    if r.get("generate") != "ok":
        return "generate() raised %s: %s" % (r.get("exc"), r.get("msg", "")[:120]), stats
    for pi, xp in enumerate(m["xpoints"]):
        p = {k: unfr(v) for k, v in xp.items()}
        ev = Ev(p)
        ev.funs = {f["name"]: f for f in m.get("functions", [])}
        ev.if_mode = if_mode
        try:
            exp_d = ev.residual(m["eqs"])
            exp_i = ev.residual(m["ieqs"])
        except Skip:
            stats["skipped"] += 1
            continue
        stats["points"] += 1
        for key, exp in (("dae", exp_d), ("init", exp_i)):
            flat = [x for blk in exp for x in blk]
            got = r[key][pi]
            if len(got) != len(flat):
                return "point %d: %s residual has %d entries, the flat equations have %d" % (pi, key, len(got), len(flat)), stats
            for j, ((v, lo, hi), g) in enumerate(zip(flat, got)):
                stats["entries"] += 1
                o = obs_fraction(g)
                if o is None:
                    return "point %d: %s residual[%d] = %s, Modelica meaning %s" % (pi, key, j, g, float(v)), stats
                if not (lo <= o <= hi):
                    return "point %d: %s residual[%d] = %r, Modelica meaning lhs - rhs = %r (enclosure [%r, %r])" % (
                        pi, key, j, float(o), float(v), float(lo), float(hi)), stats
    return None, stats


def empty_offset_loop(m):
    """a for-equation with an empty range whose body subscripts an array with i+k, k != 0"""
    for q in m["eqs"]:
        if q[0] == "for" and q[2] < q[1] and '"lidx"' in json.dumps(q[4]):
            if any(('["lidx", "%s", %d]' % (a, k)) in json.dumps(q[4]) for a in ("a", "c") for k in range(-6, 7) if k != 0):
                return True
    return False


def const_for_statement(m):
    """a user function with a for-statement all of whose right-hand sides are constants"""
    def const(e):
        return not any(k in json.dumps(e) for k in ('"var"', '"loopvar"', '"call"'))

    def scan(stmts):
        for st in stmts:
            if st[0] == "forst" and all(const(x[2]) for x in st[3]):
                return True
            if st[0] == "ifst" and (any(scan(b) for _, b in st[1]) or scan(st[2])):
                return True
        return False
    return any(scan(f["body"]) for f in m.get("functions", []))


def neg_literal_step(m):
    """a for-equation whose three-part range has a negative step written as a literal (-k)"""
    return any(q[0] == "for3" and q[2] < 0 and len(q) > 5 and q[5] == "lit" for q in m["eqs"])


def is_neg_literal_failure(m, r):
    return (r.get("generate") == "raised" and r.get("exc") == "RuntimeError"
            and "'symvar' not defined for DM" in r.get("msg", "") and neg_literal_step(m))


def ifst_nonsequential(m):
    """a function with an if-statement whose condition reads a variable the statement assigns, or whose
    branches assign their variables in different orders"""
    for f in m.get("functions", []):
        for st in f["body"]:
            if st[0] != "ifst":
                continue
            blocks = [b for _, b in st[1]] + [st[2]]
            S = {a[1] for b in blocks for a in b}
            if any(('["var", "%s"]' % x) in json.dumps(c) for c, _ in st[1] for x in S):
                return True
            if len({tuple(a[1] for a in b) for b in blocks}) > 1:
                return True
    return False


def tag_of(m, r, why):
    """descriptive tags of defects that were found by this check and have since been repaired (a known-findings entry with
    that tag would absorb them; none is listed any more); anything else is a plain violation"""
    if r.get("generate") == "raised" and r.get("exc") == "Exception" and "Unknown function <>" in r.get("msg", "") \
            and has(m, '"<>"'):
        return "ne-operator-unmapped"
    if r.get("generate") == "raised" and r.get("exc") == "RuntimeError" and "Degenerate map operation" in r.get("msg", "") \
            and empty_offset_loop(m):
        return "empty-loop-offset-subscript"
    if r.get("generate") == "raised" and r.get("exc") == "RuntimeError" and "'symvar' not defined for DM" in r.get("msg", "") \
            and const_for_statement(m):
        return "for-statement-constant-body"
    if is_neg_literal_failure(m, r):
        return "negative-literal-step"
    if r.get("generate") == "ok" and ifst_nonsequential(m) and judge(m, r, if_mode="pymoca")[0] is None:
        return "if-statement-not-sequential"
    return "residual-mismatch"


# =============================================================================================
# Coq encoding
# =============================================================================================
def pow2_above(w):
    """a power of two >= w (keeps the Coq literals small)"""
    if w <= 0:
        return Fraction(0)
    e = math.frexp(float(w))[1] + 1 if w > Fraction(1, 2 ** 1000) else -999
    return Fraction(2) ** e


def cq_qc(x):
    return "(Q2Qc (%d # %d))" % (x.numerator, x.denominator)


def ce(e):
    t = e[0]
    if t == "num":
        return "(ENum %s)" % cq_qc(Fraction(e[1]))
    if t == "bool":
        return "(EBool %s)" % core.cq_bool(e[1])
    if t == "var":
        return "(ERef (RVar %s))" % core.cq_pos((FUN_VAR_ID if _IN_FUN[0] else VAR_ID)[e[1]])
    if t == "der":
        return "(ERef (RDer %s))" % core.cq_pos(VAR_ID[e[1]])
    if t == "idx":
        return "(ERef (RIdx %s %s))" % (core.cq_pos(ARR_ID[e[1]]), core.cq_Z(e[2]))
    if t == "lidx":
        return "(ERef (RLoopIdx %s %s))" % (core.cq_pos(ARR_ID[e[1]]), core.cq_Z(e[2]))
    if t == "aidx":
        return "(ERef (RAff %s %s %s))" % (core.cq_pos(ARR_ID[e[1]]), core.cq_Z(e[2]), core.cq_Z(e[3]))
    if t == "loopvar":
        return "(ERef RLoopVar)"
    if t == "un":
        return "(EUn %s %s)" % (UNOPS[e[1]], ce(e[2]))
    if t == "bin":
        return "(EBin %s %s %s)" % (BINOPS[e[1]], ce(e[2]), ce(e[3]))
    if t == "if":
        return "(EIf [%s] %s)" % ("; ".join("(%s, %s)" % (ce(c), ce(a)) for c, a in e[1]), ce(e[2]))
    if t == "fun":
        return "(EFun %s %s)" % (core.cq_pos(FUN_ID[e[1]]), ce(e[2]))
    raise ValueError(t)


def cs(q):
    return "(%s, %s)" % (ce(q[1]), ce(q[2]))


def cqn(q):
    if q[0] == "eq":
        return "(QSimple %s)" % cs(q)
    if q[0] == "ifeq":
        return "(QIf [%s] [%s])" % ("; ".join("(%s, [%s])" % (ce(c), "; ".join(cs(x) for x in b)) for c, b in q[1]),
                                    "; ".join(cs(x) for x in q[2]))
    if q[0] == "for":
        return "(QFor %s %s %s [%s])" % (core.cq_Z(q[1]), core.cq_Z(1), core.cq_Z(q[2]), "; ".join(cs(x) for x in q[4]))
    if q[0] == "for3":
        return "(QFor %s %s %s [%s])" % (core.cq_Z(q[1]), core.cq_Z(q[2]), core.cq_Z(q[3]), "; ".join(cs(x) for x in q[4]))
    raise ValueError(q[0])


_IN_FUN = [False]


def encodable(e):
    """scalar expressions the Coq model covers: no 2-D element references, no in-expression calls"""
    j = json.dumps(e)
    return '"idx2"' not in j and '"call"' not in j


def c_assigns(l):
    return "[%s]" % "; ".join("(%s, %s)" % (core.cq_pos(FUN_VAR_ID[a[1]]), ce(a[2])) for a in l)


def c_stmt(st):
    if st[0] == "assign":
        return "(SAssign (%s, %s))" % (core.cq_pos(FUN_VAR_ID[st[1]]), ce(st[2]))
    if st[0] == "ifst":
        return "(SIf [%s] %s)" % ("; ".join("(%s, %s)" % (ce(c), c_assigns(b)) for c, b in st[1]), c_assigns(st[2]))
    if st[0] == "forst":
        return "(SFor %s %s %s %s)" % (core.cq_Z(st[1]), core.cq_Z(1), core.cq_Z(st[2]), c_assigns(st[3]))
    raise ValueError(st[0])


def c_func(f):
    _IN_FUN[0] = True
    try:
        body = "; ".join(c_stmt(st) for st in f["body"])
    finally:
        _IN_FUN[0] = False
    return "{| f_in := [%s]; f_out := [%s]; f_body := [%s] |}" % (
        "; ".join(core.cq_pos(FUN_VAR_ID[n]) for n in f["inputs"]),
        "; ".join(core.cq_pos(FUN_VAR_ID[n]) for n in f["outputs"]), body)


def c_sub(x):
    if x == ":":
        return "SubAll"
    if isinstance(x, list) and x[0] == "r3":
        return "(SubR3 %s %s %s)" % (core.cq_Z(x[1]), core.cq_Z(x[2]), core.cq_Z(x[3]))
    if isinstance(x, list):
        return "(SubR %s %s)" % (core.cq_Z(x[1]), core.cq_Z(x[2]))
    return "(SubI %s)" % core.cq_Z(x)


def c_aexpr(e):
    t = e[0]
    if t == "A":
        return "(AVar %s)" % core.cq_pos(MAT_ID.get(e[1]) or ARR_ID[e[1]])
    if t == "sl":
        ident = core.cq_pos(MAT_ID.get(e[1]) or ARR_ID[e[1]])
        if len(e[2]) == 1:
            return "(ASl1 %s %s)" % (ident, c_sub(e[2][0]))
        return "(ASl2 %s %s %s)" % (ident, c_sub(e[2][0]), c_sub(e[2][1]))
    if t == "abin":
        if e[1] == "*":
            return "(AMul %s %s)" % (c_aexpr(e[2]), c_aexpr(e[3]))
        return "(ABin %s %s %s)" % ({"+": "AAdd", "-": "ASub", ".*": "AEMul"}[e[1]], c_aexpr(e[2]), c_aexpr(e[3]))
    if t == "ascal":
        return "(AScal %s %s)" % (ce(e[1]), c_aexpr(e[2]))
    if t == "aneg":
        return "(ANeg %s)" % c_aexpr(e[1])
    if t == "atr":
        return "(ATr %s)" % c_aexpr(e[1])
    raise ValueError(t)


def c_xeqn(m, q):
    """Coq xeqn for one equation of a fun / mat model, or None when the Coq model does not cover it"""
    if q[0] == "calleq":
        if not all(encodable(a) for a in q[3]):
            return None
        f = [f for f in m["functions"] if f["name"] == q[2]][0]
        return "(XCall ([%s], %s, [%s]))" % ("; ".join(core.cq_pos(VAR_ID[n]) for n in q[1]), c_func(f),
                                             "; ".join(ce(a) for a in q[3]))
    if q[0] == "aeq":
        if not encodable(q):
            return None
        return "(XArr %s %s)" % (c_aexpr(q[1]), c_aexpr(q[2]))
    if q[0] == "eq":
        if not encodable(q):
            return None
        return "(XBase %s)" % cqn(q)
    return None


DECL_COQ = "[%s]" % "; ".join(
    "(%s, %s)" % (core.cq_pos(MAT_ID.get(n) or ARR_ID[n]), "ShV %d%%nat" % sh[0] if len(sh) == 1 else "ShM %d%%nat %d%%nat" % sh)
    for n, sh in MAT_DECL.items())


def encode_xcases(m, r):
    """Coq xcases (Model/C11_cases.v) for the function and matrix streams"""
    if m.get("decl") not in ("fun", "mat") or "crash" in r:
        return []
    eqs = m["eqs"] + m["ieqs"]
    xq = [c_xeqn(m, q) for q in eqs]
    if not any(xq):
        return []
    empty_pt = "{| p_sc := []; p_der := []; p_arr := [] |}"
    if r.get("generate") != "ok":
        return ["(gen_table, [], %s, [], %s, false, [%s])" % (empty_pt, DECL_COQ, "; ".join("(%s, [])" % x for x in xq if x))]
    out = []
    for pi, xp in enumerate(m["xpoints"]):
        p = {k: unfr(v) for k, v in xp.items()}
        ev = Ev(p)
        ev.funs = {f["name"]: f for f in m.get("functions", [])}
        try:
            exp = ev.residual(m["eqs"]) + ev.residual(m["ieqs"])
        except Skip:
            continue
        got = list(r["dae"][pi]) + list(r["init"][pi])
        if len(got) != sum(len(b) for b in exp):
            got = got + ["nan"] * (sum(len(b) for b in exp) - len(got))
        k = 0
        parts = []
        for x, blk in zip(xq, exp):
            obs = []
            for (v, lo, hi) in blk:
                o = obs_fraction(got[k])
                k += 1
                obs.append("None" if o is None else "(Some (%s, %s))" % (cq_qc(o), cq_qc(pow2_above(hi - lo))))
            if x:
                parts.append("(%s, [%s])" % (x, "; ".join(obs)))
        ft = "; ".join("(%s, %s, %s)" % (core.cq_pos(f), cq_qc(a), cq_qc(v)) for f, a, v in ev.ftab)
        sc = "; ".join("(%s, %s)" % (core.cq_pos(VAR_ID[n]), cq_qc(p[n])) for n in SCALARS if n in p)
        ar = "; ".join("(%s, [%s])" % (core.cq_pos(ARR_ID[n]), "; ".join(cq_qc(x) for x in p[n])) for n in ("v", "w", "z") if n in p)
        mats = "; ".join("(%s, [%s])" % (core.cq_pos(MAT_ID[n]), "; ".join("[%s]" % "; ".join(cq_qc(x) for x in row) for row in p[n]))
                         for n in MAT_ID if n in p)
        out.append("(gen_table, [%s], {| p_sc := [%s]; p_der := []; p_arr := [%s] |}, [%s], %s, true, [%s])"
                   % (ft, sc, ar, mats, DECL_COQ, "; ".join(parts)))
    return out


def encode_cases(m, r):
    """one Coq case per judged point (or one case with impl_ok = false)"""
    if m.get("decl") in ("fun", "mat") or is_neg_literal_failure(m, r):
        return []      # outside the Coq model (oracle-only streams; the negative-literal-step finding)
    eqs = m["eqs"] + m["ieqs"]
    if r.get("generate") != "ok":
        if "crash" in r:
            return []
        return ["(gen_table, [], {| p_sc := []; p_der := []; p_arr := [] |}, false, [%s])"
                % "; ".join("(%s, [])" % cqn(q) for q in eqs)]
    out = []
    for pi, xp in enumerate(m["xpoints"]):
        p = {k: unfr(v) for k, v in xp.items()}
        ev = Ev(p)
        try:
            exp = ev.residual(m["eqs"]) + ev.residual(m["ieqs"])
        except Skip:
            continue
        got = list(r["dae"][pi]) + list(r["init"][pi])
        if len(got) != sum(len(b) for b in exp):
            got = got + ["nan"] * (sum(len(b) for b in exp) - len(got))
        k = 0
        parts = []
        for q, blk in zip(eqs, exp):
            obs = []
            for (v, lo, hi) in blk:
                o = obs_fraction(got[k])
                k += 1
                obs.append("None" if o is None else "(Some (%s, %s))" % (cq_qc(o), cq_qc(pow2_above(hi - lo))))
            parts.append("(%s, [%s])" % (cqn(q), "; ".join(obs)))
        ft = "; ".join("(%s, %s, %s)" % (core.cq_pos(f), cq_qc(a), cq_qc(v)) for f, a, v in ev.ftab)
        sc = "; ".join("(%s, %s)" % (core.cq_pos(VAR_ID[n]), cq_qc(p[n])) for n in SCALARS)
        dr = "; ".join("(%s, %s)" % (core.cq_pos(VAR_ID[n]), cq_qc(p["der(%s)" % n])) for n in ("x1", "x2"))
        ar = "; ".join("(%s, [%s])" % (core.cq_pos(ARR_ID[n]), "; ".join(cq_qc(x) for x in p[n])) for n in ("a", "c"))
        out.append("(gen_table, [%s], {| p_sc := [%s]; p_der := [%s]; p_arr := [%s] |}, true, [%s])"
                   % (ft, sc, dr, ar, "; ".join(parts)))
    return out


# =============================================================================================
# corpus: hand-written models covering every mechanism (run first)
# =============================================================================================
def corpus():
    V = lambda n: ["var", n]  # noqa
    NUM = lambda s: ["num", s]  # noqa
    ms = []
    # division, power, min/max/abs, elementary
    ms.append({"N": 3, "eqs": [["eq", V("x1"), ["bin", "/", V("u1"), V("p1")]],
                               ["eq", ["der", "x1"], ["bin", "-", ["bin", "^", V("x2"), NUM("2")], ["bin", "./", NUM("1"), ["bin", "+", ["un", "abs", V("x3")], NUM("1")]]]],
                               ["eq", V("x3"), ["bin", "+", ["bin", "min", V("x1"), V("u1")], ["bin", "max", V("x2"), ["un", "abs", V("time")]]]],
                               ["eq", ["idx", "a", 2], ["fun", "sin", ["bin", "*", V("time"), V("k1")]]]],
               "ieqs": [["eq", V("x1"), ["bin", "/", V("p1"), NUM("2")]]]})
    # logic: not / and / or, Boolean equations, if-expression with elseif
    ms.append({"N": 3, "eqs": [["eq", V("b1"), ["bin", "or", ["bin", ">", V("x1"), V("u1")], ["bin", "and", ["bin", "<", V("x1"), NUM("1")], ["un", "not", ["bin", ">=", V("u1"), NUM("2")]]]]],
                               ["eq", V("b2"), ["un", "not", ["bin", "or", V("b1"), ["bin", "or", ["bin", "<=", V("x2"), V("x3")], ["bool", False]]]]],
                               ["eq", V("x2"), ["if", [[["bin", "or", V("b1"), V("b2")], NUM("1")], [["bin", ">", V("x1"), NUM("0")], ["bin", "*", NUM("2"), V("x1")]]], ["un", "-", V("x1")]]]],
               "ieqs": []})
    # if-equation with elseif, two equations per branch
    ms.append({"N": 4, "eqs": [["ifeq", [[["bin", ">", V("u1"), NUM("1")], [["eq", V("x1"), V("p1")], ["eq", V("x2"), NUM("100")]]],
                                         [["bin", ">", V("u1"), NUM("0")], [["eq", V("x1"), ["bin", "+", V("p1"), NUM("1")]], ["eq", ["idx", "a", 4], NUM("1000")]]]],
                                [["eq", V("x1"), NUM("0")], ["eq", V("x2"), ["bin", "-", V("x3"), NUM("10000")]]]]],
               "ieqs": []})
    # for-loops: index arithmetic, loop variable as a number, offsets, 1:n, empty range
    ms.append({"N": 5, "eqs": [["for", 1, 5, True, [["eq", ["lidx", "a", 0], ["bin", "+", ["loopvar"], V("x1")]]]],
                               ["for", 2, 4, False, [["eq", ["lidx", "c", 0], ["bin", "-", ["lidx", "c", -1], ["bin", "*", ["loopvar"], ["lidx", "a", 1]]]],
                                                     ["eq", ["lidx", "a", -1], ["bin", "/", ["lidx", "c", 1], NUM("2")]]]],
                               ["for", 3, 2, False, [["eq", ["lidx", "a", 0], NUM("1000")]]],
                               ["eq", ["idx", "c", 1], ["idx", "a", 5]]],
               "ieqs": [["eq", ["idx", "a", 1], NUM("0.5")]]})
    # three-part ranges: step not dividing the span, negative step, explicit step 1, empty
    ms.append({"N": 6, "eqs": [["for3", 1, 2, 5, [["eq", ["lidx", "a", 0], ["loopvar"]]]],
                               ["for3", 6, -2, 1, [["eq", ["lidx", "c", 0], ["bin", "*", ["loopvar"], ["lidx", "a", -1]]]]],
                               ["for3", 1, 3, 6, [["eq", ["lidx", "c", 1], ["bin", "+", ["lidx", "a", 2], V("x1")]]]],
                               ["for3", 2, 1, 4, [["eq", ["lidx", "a", 2], ["lidx", "c", -1]]]],
                               ["for3", 2, -1, 4, [["eq", ["lidx", "a", 0], NUM("1000")]]]],
               "ieqs": []})
    out = []
    for m in ms:
        m.update({"kind": "model", "name": "M", "stream": "corpus"})
        out.append(m)
    return out




# =============================================================================================
def run_models(ctx, cases):
    """the child, in up to 4 parallel processes"""
    k = 4 if len(cases) > 8 else 1
    chunks = [cases[i::k] for i in range(k)]
    with ThreadPoolExecutor(max_workers=k) as ex:
        parts = list(ex.map(lambda c: core.run_child(ctx, "c11", c, timeout=1500) if c else [], chunks))
    res = [None] * len(cases)
    for i in range(k):
        for j, r in enumerate(parts[i]):
            res[i + j * k] = r
    return res


def slim(m):
    return {k: m[k] for k in ("kind", "name", "N", "eqs", "ieqs", "stream", "text", "xpoints", "points", "decl", "functions",
                              "options") if k in m}


def child_case(m):
    return {"kind": "model", "name": m["name"], "text": m["text"], "points": m["points"], "options": m.get("options")}


def tie(ctx, gen_v, info):
    """Gen.v + side conditions in ONE coqc run (the Eval is at the end of Gen.v)"""
    text = gen_v + ("Eval vm_compute in (table_ok gen_table, forallb (probe_row_ok gen_table) gen_probe,"
                    " ne_ok gen_table, table_total gen_table).\n")
    ok, out, err = core.coq_run(ctx, "Gen", text)
    if not ok:
        ctx.oblige("tie:Gen.v-compiles", False, err[-800:])
        return False
    vals = core.coq_results(out)
    v = vals[-1].replace(" ", "") if vals else ""
    parts = v.strip("()").split(",")
    ctx.oblige("tie:T3-OP_MAP-satisfies-table_ok (side condition of C11_expr/C11_residual)",
               parts[:1] == ["true"], v + " table=" + json.dumps(info["OP_MAP"]))
    ctx.oblige("tie:F-opcode-of-the-node-built-per-operator-agrees-with-the-model",
               parts[1:2] == ["true"], v + " probes=" + json.dumps(info["probes"])[:900])
    ctx.notes["tie_values(table_ok,probe_ok,ne_ok,table_total)"] = v
    return True


def run(ctx):
    pool = ThreadPoolExecutor(max_workers=2)
    f_props = pool.submit(core.check_props, ctx, "C11.v", THEOREMS)
    fp, _ = core.fingerprint(os.path.join(core.REPO, GEN_PY),
                             {"ForLoop", "exitExpression", "exitIfExpression", "exitEquation", "exitForEquation",
                              "exitIfEquation", "get_indexed_symbol"})
    ctx.notes["source_fingerprint"] = {GEN_PY: fp}

    # ---- S1: table --------------------------------------------------------------------------
    f_tie = None
    try:
        gen_v, info = build_table(ctx)
        ctx.notes["operator_table"] = info
        f_tie = pool.submit(tie, ctx, gen_v, info)
    except ShapeError as e:
        ctx.oblige("tie:T3-shape-recognised", False, str(e))

    # ---- S3: models ---------------------------------------------------------------------------
    n_plain = int(os.environ.get("C11_N", 0)) or ctx.scaled(90, 1200)
    n_ne = ctx.scaled(6, 40)
    n_r3 = ctx.scaled(6, 40)
    n_eo = ctx.scaled(4, 30)
    npts = 3
    models = [finalize(m, ctx.rng, npts) for m in corpus()]
    n_corpus = len(models)
    for _ in range(n_plain):
        models.append(finalize(gen_model(ctx.rng, "plain"), ctx.rng, npts))
    for _ in range(n_ne):
        models.append(finalize(gen_model(ctx.rng, "ne"), ctx.rng, npts))
    for _ in range(n_r3):
        models.append(finalize(gen_model(ctx.rng, "for3"), ctx.rng, npts))
    for _ in range(n_eo):
        models.append(finalize(gen_model(ctx.rng, "emptyoff"), ctx.rng, npts))
    for _ in range(ctx.scaled(14, 80)):
        models.append(finalize(gen_model(ctx.rng, "loopx"), ctx.rng, npts))
    n_fun = ctx.scaled(18, 150)
    n_mat = ctx.scaled(34, 400)
    for _ in range(n_fun):
        base = finalize(gen_fun_model(ctx.rng), ctx.rng, npts)
        for opt in (None, {"inline_functions": False}, {"unroll_loops": False}):
            mm = dict(base)
            mm["options"] = opt
            models.append(mm)
    for _ in range(ctx.scaled(9, 60)):
        mm = finalize(gen_fun_model(ctx.rng, ifdep=True), ctx.rng, npts)
        mm["stream"] = "ifdep"
        models.append(mm)
    for _ in range(n_mat):
        models.append(finalize(gen_mat_model(ctx.rng), ctx.rng, npts))
    import time as _t
    t_child = _t.time()
    results = run_models(ctx, [child_case(m) for m in models])

    ctx.notes["t_child_s"] = round(_t.time() - t_child, 1)
    # (a) oracle
    tot = {"points": 0, "skipped": 0, "entries": 0}
    distinct = set()
    opcount = {}
    for m, r in zip(models, results):
        why, st = judge(m, r)
        for k in tot:
            tot[k] += st[k]
        if why:
            core.report(ctx, tag_of(m, r, why), why, {"input": slim(m), "observed": r,
                                                      "expected": "residual = lhs - rhs of every flat equation (Modelica semantics)"})
        if st["points"]:
            distinct.add(m["text"] + json.dumps(m.get("options")))
        for tok in ('"/"', '"./"', '"^"', '"min"', '"max"', '"abs"', '"if"', '"ifeq"', '"for"', '"and"', '"or"', '"not"',
                    '"fun"', '"lidx"', '"aidx"', '"loopvar"', '"der"', '"<>"', '"for3"', '"=="', '".*"', '"calleq"', '"call"', '"aeq"', '"sl"',
                    '"idx2"', '"atr"', '"ascal"'):
            if has(m, tok) or tok in json.dumps(m.get("functions", [])):
                opcount[tok.strip('"')] = opcount.get(tok.strip('"'), 0) + 1

    ctx.notes["t_oracle_s"] = round(_t.time() - t_child - ctx.notes["t_child_s"], 1)
    f_props.result()
    if f_tie is None or not f_tie.result():
        # fall back to the table of the theorems so that the correspondence can still run
        core.coq_run(ctx, "Gen", core.HEADER + "From PV Require Import Model.C11_residual Proofs.C11_residual.\n"
                     "Definition gen_table := good_table.\nDefinition gen_if_seq := false.\n")
    pool.shutdown()
    # (b) correspondence
    t_coq = _t.time()
    enc, owner = [], []
    for i, (m, r) in enumerate(zip(models, results)):
        cs_ = encode_cases(m, r)
        if ctx.tier != "thorough" and m["stream"] != "corpus":
            cs_ = cs_[:1]      # quick tier: one point per model inside Coq (the oracle judges all points)
        for c in cs_:
            enc.append(c)
            owner.append(i)
    pool2 = ThreadPoolExecutor(max_workers=2)
    f_bad = pool2.submit(core.coq_eval_cases, ctx, "models",
                              "From Coq Require Import ZArith QArith Qcanon.\nImport ListNotations.\n"
                              "From PV Require Import Model.C11_residual.\nFrom RunC11 Require Import Gen.\nOpen Scope Qc_scope.\n",
                              "case", enc, "check_case", ctx.scaled(60, 150), 1500)
    xenc, xowner = [], []
    for i, (m, r) in enumerate(zip(models, results)):
        cs_ = encode_xcases(m, r)
        if ctx.tier != "thorough":
            cs_ = cs_[:1]
        for c in cs_:
            xenc.append(c)
            xowner.append(i)
    xbad = core.coq_eval_cases(ctx, "xmodels",
                               "From Coq Require Import ZArith QArith Qcanon.\nImport ListNotations.\n"
                               "From PV Require Import Model.C11_residual Model.C11_functions Model.C11_arrays Model.C11_cases.\n"
                               "From RunC11 Require Import Gen.\nOpen Scope Qc_scope.\n",
                               "xcase", xenc, "(check_xcase gen_if_seq)", shard=ctx.scaled(40, 120), timeout=1500)
    bad = f_bad.result()
    pool2.shutdown()
    ctx.oblige("correspondence:function-and-array-model-vs-casadi-generator", xbad == [],
               "mismatching cases: %s" % ([xowner[j] for j in (xbad or [])][:10] if xbad is not None else "coqc failed"))
    if xbad and not ctx.violations:
        i = xowner[xbad[0]]
        core.violation(ctx, "correspondence-broken",
                       {"correspondence": "Model/C11_cases.v check_xcase vs generate()+residual functions",
                        "input": slim(models[i]), "observed": results[i]}, no_input=True)
    ctx.notes["coq_xcases"] = len(xenc)
    ctx.notes["t_coq_s"] = round(_t.time() - t_coq, 1)
    ctx.oblige("correspondence:model-vs-casadi-generator", bad == [],
               "mismatching cases: %s" % ([owner[j] for j in (bad or [])][:10] if bad is not None else "coqc failed"))
    if bad and not ctx.violations:
        i = owner[bad[0]]
        core.violation(ctx, "correspondence-broken",
                       {"correspondence": "Model/C11_residual.v check_case vs generate()+residual functions",
                        "input": slim(models[i]), "observed": results[i]}, no_input=True)

    # ---- S4 -----------------------------------------------------------------------------------
    def still_fails(entry):
        m = dict(entry["replay"])
        m.setdefault("kind", "model")
        m.setdefault("name", "M")
        m.setdefault("stream", "known")
        if "xpoints" not in m:
            finalize(m, ctx.rng, 2)
        r = run_models(ctx, [child_case(m)])[0]
        why, _ = judge(m, r)
        return bool(why) and tag_of(m, r, why) == entry["tag"]
    core.replay_known(ctx, still_fails)

    ctx.cov["evaluations"] = tot["entries"]
    ctx.cov["distinct_nontrivial"] = len(distinct)
    ctx.cov["rule"] = ("%d generated models (%d corpus, %d plain, %d with '<>', %d guaranteed three-part range, %d with an empty offset loop, %d with a user function x 3 option sets, %d with matrices/slices) x %d dyadic points; "
                       "an evaluation = one residual entry compared with the exact lhs - rhs; distinct non-trivial = distinct "
                       "model texts with at least one judged point; %d points judged, %d skipped (division by zero / domain / "
                       "relation within rounding distance of a tie); %d Coq correspondence cases"
                       % (len(models), n_corpus, n_plain, n_ne, n_r3, n_eo, n_fun, n_mat, npts, tot["points"], tot["skipped"], len(enc)))
    ctx.cov["samples"] = [models[n_corpus]["text"], models[n_corpus + 1]["text"][:600]]
    ctx.notes["input_distribution"] = {"models_using": opcount, "models": len(models)}
    ctx.assumptions += [
        "CasADi's numeric evaluator is trusted (the model gives CasADi nodes their documented meaning); IEEE rounding is "
        "not modelled: a binary64 residual is accepted iff it lies in a rigorous enclosure of all roundings of the exact value",
        "elementary functions are uninterpreted in the theorems; in the oracle/correspondence they are Python's math functions "
        "applied to the exactly evaluated argument (relative tolerance 1e-9)",
        "user functions (assignment / if / for statements, option sets default, inline_functions=False, unroll_loops=False) "
        "and 1-D/2-D arrays (whole-array equations, matrix product, transpose, slices) are in the Coq model "
        "(Model/C11_functions.v, C11_arrays.v) and go through the correspondence (check_xcase) as well as the oracle; "
        "nested loops, delay, interpolation, 3-D arrays, arrays inside functions are not generated",
        "relations on Boolean operands (e.g. (a or b) == c) are outside the typed grammar (typeof)",
        "C11_function covers assignment, for- and (for the repaired exitIfStatement, seq_if = true) if-statements; nested "
        "statements inside if/for bodies are outside the model; in-expression function calls and 2-D element references "
        "inside scalar expressions are judged by the oracle only",
    ]


def replay(ctx, path):
    rec = json.load(open(path))
    m = rec.get("input") or rec.get("replay")
    r = run_models(ctx, [child_case(m)])[0]
    why, _ = judge(m, r)
    print("replay:", why or "property holds on this model at these points")
    if why:
        print(m["text"])
    return 1 if why else 0
