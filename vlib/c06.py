"""C06 — deep copies of a tree are independent of the original."""
import ast as pyast
import json

from . import core
from .core import cq_bool, cq_list, cq_nat

THEOREMS = ["C06_iso", "C06_disjoint", "C06_edits", "C06_copy_of_copy",
            "C06_reachable_wf", "C06_reachable_copy", "C06_history_independent", "C06_history_projection",
            "C06_refuted_parent", "C06_refuted_hook", "C06_example", "C06_example_wf", "C06_parsed_tree_check"]


# ---------------------------------------------------------------------------------------------
# generated libraries (shared with C05): nested packages/models, component types, extends,
# modifications, connectors + connect, package constants, nested classes, unqualified imports
# ---------------------------------------------------------------------------------------------
class _N:
    def __init__(self, name, kind):
        self.name, self.kind = name, kind
        self.children, self.decl, self.eqs = [], [], []

    def text(self, ind=0):
        p = "  " * ind
        out = [p + "%s %s" % (self.kind, self.name)]
        out += [p + "  " + d for d in self.decl]
        for c in self.children:
            out += c.text(ind + 1)
        if self.eqs:
            out.append(p + "equation")
            out += [p + "  " + e for e in self.eqs]
        out.append(p + "end %s;" % self.name)
        return out


def gen_library(rng, n_models=None, small=False):
    """-> dict(text, classes={dotted path: kind}, syms={path: [names]}, neq={path: n}, users={path: [paths]})"""
    n_models = n_models or (rng.randint(2, 3) if small else rng.randint(3, 7))
    top = []
    classes, syms, neq, users = {}, {}, {}, {}
    slots = [((), top)]
    npk = 1 if small else rng.randint(1, 2)
    consts = []
    conns = []
    for i in range(npk):
        pk = _N("P%d" % i, "package")
        top.append(pk)
        classes[(pk.name,)] = "package"
        syms[(pk.name,)] = []
        neq[(pk.name,)] = 0
        slots.append(((pk.name,), pk.children))
        if rng.random() < 0.7:
            pk.decl.append("constant Real k%d = %d.25;" % (i, i + 2))
            consts.append("%s.k%d" % (pk.name, i))
            syms[(pk.name,)].append("k%d" % i)
        if rng.random() < (0.3 if small else 0.6):
            cn = _N("C%d" % i, "connector")
            cn.decl += ["Real v;", "flow Real f;"]
            pk.children.append(cn)
            classes[(pk.name, cn.name)] = "connector"
            syms[(pk.name, cn.name)] = ["v", "f"]
            neq[(pk.name, cn.name)] = 0
            conns.append((pk.name, cn.name))
        if not small and rng.random() < 0.5:
            q = _N("Q%d" % i, "package")
            pk.children.append(q)
            classes[(pk.name, q.name)] = "package"
            syms[(pk.name, q.name)] = []
            neq[(pk.name, q.name)] = 0
            slots.append(((pk.name, q.name), q.children))
    models = []   # (path, var, param)

    def ref(frm, to):
        if frm[:-1] == to[:-1] and rng.random() < 0.5:
            return to[-1]
        return ".".join(to)

    for i in range(n_models):
        spath, lst = rng.choice(slots)
        m = _N("M%d" % i, "model")
        path = spath + (m.name,)
        lst.append(m)
        x, p = "x%d" % i, "p%d" % i
        m.decl.append("parameter Real %s = %d.5;" % (p, i + 1))
        m.decl.append("Real %s;" % x)
        mysyms = [p, x]
        terms = []
        usable = list(models)
        imported = None
        if usable and rng.random() < 0.2:
            cand = [u for u in usable if len(u[0]) == 2 and u[0][:-1] != path[:-1]]
            if cand:
                imported = rng.choice(cand)
                m.decl.insert(0, "import %s.*;" % imported[0][0])
        if usable and rng.random() < 0.45:
            e = rng.choice(usable)
            mod = "(%s = %d.0)" % (e[2], rng.randint(2, 9)) if rng.random() < 0.6 else ""
            m.decl.insert(1 if imported else 0, "extends %s%s;" % (ref(path, e[0]), mod))
            users.setdefault(e[0], []).append(path)
            terms.append(e[1])
        for j in range(rng.choice([0, 1, 1, 2]) if usable else 0):
            t = imported if (imported and j == 0) else rng.choice(usable)
            cname = "c%d_%d" % (i, j)
            mod = "(%s = %d.0)" % (t[2], rng.randint(2, 9)) if rng.random() < 0.6 else ""
            tref = t[0][-1] if t is imported else ref(path, t[0])
            m.decl.append("%s %s%s;" % (tref, cname, mod))
            users.setdefault(t[0], []).append(path)
            mysyms.append(cname)
            terms.append("%s.%s" % (cname, t[1]))
        if conns and rng.random() < 0.45:
            c = rng.choice(conns)
            m.decl.append("%s a%d;" % (".".join(c), i))
            m.decl.append("%s b%d;" % (".".join(c), i))
            mysyms += ["a%d" % i, "b%d" % i]
            m.eqs.append("connect(a%d, b%d);" % (i, i))
            m.eqs.append("a%d.v = %s;" % (i, x))
            users.setdefault(c, []).append(path)
        if rng.random() < (0.6 if imported else 0.3):
            nn = _N("N%d" % i, "model")
            nn.decl.append("Real y%d;" % i)
            nn.eqs.append("y%d = %d.0;" % (i, i))
            if imported:
                # a nested class using the unqualified import of its owner: the lookup climbs to the
                # ORIGINAL owner, whose import memo is written (ast.py:681)
                nn.decl.append("%s q%d;" % (imported[0][-1], i))
            m.children.append(nn)
            classes[path + (nn.name,)] = "model"
            syms[path + (nn.name,)] = ["y%d" % i]
            neq[path + (nn.name,)] = 1
            m.decl.append("%s n%d;" % (nn.name, i))
            mysyms.append("n%d" % i)
            terms.append("n%d.y%d" % (i, i))
            users.setdefault(path + (nn.name,), []).append(path)
        if consts and rng.random() < 0.4:
            terms.append(rng.choice(consts))
        rhs = " + ".join(["-%s * %s" % (p, x)] + terms)
        m.eqs.append("der(%s) = %s;" % (x, rhs))
        classes[path] = "model"
        syms[path] = mysyms
        neq[path] = len(m.eqs)
        models.append((path, x, p))
    lines = []
    for n in top:
        lines += n.text()
    return {"text": "\n".join(lines) + "\n",
            "classes": {".".join(k): v for k, v in classes.items()},
            "syms": {".".join(k): v for k, v in syms.items()},
            "neq": {".".join(k): v for k, v in neq.items()},
            "users": {".".join(k): [".".join(u) for u in v] for k, v in users.items()}}


# ---------------------------------------------------------------------------------------------
# histories
# ---------------------------------------------------------------------------------------------
class Shadow:
    """what the generator knows about one live tree (to emit valid edits only)"""

    def __init__(self, lib=None):
        if lib is not None:
            self.kind = "root"
            self.cls = {tuple(k.split(".")): v for k, v in lib["classes"].items()}
            self.syms = {tuple(k.split(".")): list(v) for k, v in lib["syms"].items()}
            self.neq = {tuple(k.split(".")): v for k, v in lib["neq"].items()}
            self.cls[()] = "root"
            self.syms[()] = []
            self.neq[()] = 0

    def copy(self):
        s = Shadow()
        s.kind = self.kind
        s.cls = dict(self.cls)
        s.syms = {k: list(v) for k, v in self.syms.items()}
        s.neq = dict(self.neq)
        return s

    def sub(self, path):
        s = Shadow()
        s.kind = "sub"
        n = len(path)
        s.cls = {k[n:]: v for k, v in self.cls.items() if k[:n] == path}
        s.syms = {k[n:]: list(v) for k, v in self.syms.items() if k[:n] == path}
        s.neq = {k[n:]: v for k, v in self.neq.items() if k[:n] == path}
        return s


def gen_edit(rng, sh, t, uid, pinned, focus=None):
    """one valid edit op on tree t (shadow sh), or None"""
    paths = sorted(sh.cls)
    models = [p for p in paths if sh.cls[p] == "model"] or paths
    x = rng.random()
    if x < 0.36:
        p = focus if (focus in sh.cls and rng.random() < 0.7) else rng.choice(models)
        k = uid[0]
        uid[0] += 1
        sh.syms[p].append("e%d" % k)
        sh.neq[p] += 1
        return ["addsym", t, list(p), k]
    if x < 0.56:
        p = rng.choice(paths)
        k = uid[0]
        uid[0] += 1
        name = "Z%d" % k
        sh.cls[p + (name,)] = "model"
        sh.syms[p + (name,)] = ["w%d" % k]
        sh.neq[p + (name,)] = 1
        return ["addclass", t, list(p), name, k]
    if x < 0.68:
        cand = [p for p in paths if p and not any(pt == t and q[:len(p)] == p for pt, q in pinned)]
        if not cand:
            return None
        p = rng.choice(cand)
        for q in [q for q in sh.cls if q[:len(p)] == p]:
            del sh.cls[q], sh.syms[q], sh.neq[q]
        return ["rmclass", t, list(p[:-1]), p[-1]]
    if x < 0.82:
        cand = [p for p in models if sh.syms[p]]
        if not cand:
            return None
        p = focus if (focus in cand and rng.random() < 0.5) else rng.choice(cand)
        added = [s for s in sh.syms[p] if s.startswith("e")]
        s = rng.choice(added) if (added and rng.random() < 0.6) else rng.choice(sh.syms[p])
        sh.syms[p].remove(s)
        return ["rmsym", t, list(p), s]
    if x < 0.91:
        p = rng.choice(models)
        k = uid[0]
        uid[0] += 1
        sh.neq[p] += 1
        return ["addeq", t, list(p), k]
    cand = [p for p in models if sh.neq[p] > 0]
    if not cand:
        return None
    p = rng.choice(cand)
    sh.neq[p] -= 1
    return ["rmeq", t, list(p), rng.randint(0, 5)]


def gen_transplant(rng, shadows, kinds_root_only, pinned):
    """add_class, to tree td, of a class obtained from tree ts (other tree, or another package of the same tree) by
    find_class(copy=True) / copy.deepcopy(cls); 60%: same package path in the other tree (replaces the same-named class)"""
    idx = [i for i, s in enumerate(shadows) if (s.kind == "root" or not kinds_root_only)]
    if not idx:
        return None
    ts = rng.choice(idx)
    src = [p for p in shadows[ts].cls if p and shadows[ts].cls[p] in ("model", "connector", "package")]
    if not src:
        return None
    sp = rng.choice(src)
    others = [i for i in idx if i != ts and shadows[i].kind == "root"]
    if others and rng.random() < 0.7:
        td = rng.choice(others)
    else:
        td = ts if shadows[ts].kind == "root" else (rng.choice(others) if others else None)
    if td is None:
        return None
    shd = shadows[td]
    if td != ts and sp[:-1] in shd.cls and rng.random() < 0.75:
        dp = sp[:-1]
    else:
        cand = [p for p in shd.cls if shd.cls[p] in ("package", "root") and p + (sp[-1],) != sp or td != ts]
        cand = [p for p in cand if not (td == ts and (p[:len(sp)] == sp))]
        if not cand:
            return None
        dp = rng.choice(sorted(cand))
    tgt = dp + (sp[-1],)
    if td == ts and tgt == sp:
        return None
    if any(pt == td and q[:len(tgt)] == tgt for pt, q in pinned):
        return None
    for q in [q for q in shd.cls if q[:len(tgt)] == tgt]:
        del shd.cls[q], shd.syms[q], shd.neq[q]
    n = len(sp)
    for q in [q for q in shadows[ts].cls if q[:n] == sp]:
        shd.cls[tgt + q[n:]] = shadows[ts].cls[q]
        shd.syms[tgt + q[n:]] = list(shadows[ts].syms[q])
        shd.neq[tgt + q[n:]] = shadows[ts].neq[q]
    how = "fc" if (shadows[ts].kind == "root" and rng.random() < 0.5) else "dc"
    return ["transplant", td, list(dp), ts, list(sp), how]


def gen_oracle_case(rng, nops):
    lib = gen_library(rng)
    users = {tuple(k.split(".")): [tuple(u.split(".")) for u in v] for k, v in lib["users"].items()}
    shadows = [Shadow(lib)]
    ops = []
    uid = [100]
    used = [p for p in users]

    def flatten_op(t, near=None):
        sh = shadows[t]
        cand = [p for p in sh.cls if p]
        if not cand:
            return
        if near is not None and rng.random() < 0.75:
            pool = [near] + users.get(near, [])
            for u in list(pool):
                pool += users.get(u, [])
            pool = [p for p in pool if p in sh.cls] or cand
            p = rng.choice(pool)
        else:
            p = rng.choice(cand)
        kind = "flatten"
        y = rng.random()
        if y < 0.06:
            kind = "sympy"
        elif y < 0.10:
            kind = "xml"
        ops.append([kind, t, list(p)])

    while len(ops) < nops:
        x = rng.random()
        roots = [i for i, s in enumerate(shadows) if s.kind == "root"]
        if (not ops and rng.random() < 0.85) or (x < 0.16 and len(shadows) < 4):
            src = rng.choice(roots)
            ops.append(["copy", src])
            shadows.append(shadows[src].copy())
        elif x < 0.62:
            t = rng.choice(roots)
            focus = rng.choice(used) if (used and rng.random() < 0.6) else None
            if len(roots) > 1 and rng.random() < 0.3:
                e = gen_transplant(rng, shadows, True, [])
                if e is not None:
                    t = e[1]
            else:
                e = gen_edit(rng, shadows[t], t, uid, [], focus)
            if e is None:
                continue
            ops.append(e)
            if e[0] == "transplant":
                near = tuple(e[2]) + (e[4][-1],)
                if tuple(e[4]) in users:
                    users.setdefault(near, [])
                    users[near] = list(set(users[near] + users[tuple(e[4])]))
            else:
                near = tuple(e[2]) if e[0] != "rmclass" else tuple(e[2]) + (e[3],)
            flatten_op(t, near)
            others = [r for r in roots if r != t]
            if others:
                flatten_op(rng.choice(others), near)
        else:
            flatten_op(rng.choice(roots))
    return {"text": lib["text"], "ops": ops, "graph": False}


def gen_const_edit_case(rng):
    """remove_symbol / add_symbol of a package constant after flatten / sympy / xml generate of models that reference
    it by dotted name, on either tree; then flatten of the users in both trees"""
    c, d = rng.randint(2, 9), rng.randint(2, 9)
    text = ("package P\n  constant Real c = %d.0;\n  constant Real d = %d.5;\n  model X\n    Real y;\n  equation\n    y = 1.0;\n  end X;\nend P;\n"
            "package W\n  import P.*;\n  model M\n    X x;\n    Real m;\n  equation\n    m = P.c;\n  end M;\n"
            "  model N\n    Real n;\n  equation\n    n = P.c + P.d;\n  end N;\nend W;\n" % (c, d))
    ops = [["copy", 0]]
    a = rng.randrange(2)
    b = 1 - a
    users = [["W", "M"], ["W", "N"]]
    for _ in range(rng.randint(1, 2)):
        ops.append([rng.choice(["sympy", "xml", "flatten", "sympy", "xml"]), a, rng.choice(users)])
    if rng.random() < 0.4:
        ops.append([rng.choice(["sympy", "xml"]), b, rng.choice(users)])
    victim = rng.choice(["c", "d"])
    ops.append(["rmsym", a, ["P"], victim])
    ops.append(["flatten", a, rng.choice(users)])
    ops.append(["flatten", b, rng.choice(users)])
    ops.append(["addsym", rng.choice([a, b]), ["P"], 700 + rng.randrange(50)])
    if rng.random() < 0.5:
        ops.append(["copy", rng.choice([a, b])])
        ops.append(["rmsym", 2, ["P"], "d" if victim == "c" else "c"])
        ops.append(["flatten", 2, ["W", "N"]])
    ops.append(["flatten", a, ["W", "N"]])
    ops.append(["flatten", b, ["W", "N"]])
    return {"text": text, "ops": ops, "graph": False, "src": "const-edit"}


def gen_qimport_case(rng):
    """a QUALIFIED import on an enclosing package; the imported class is removed, a class using the import is
    flattened while it is missing, a class of that name is added again (copied from the other tree), flatten again"""
    v = rng.randint(2, 9)
    text = ("package P\n  model X\n    Real y;\n  equation\n    y = %d.0;\n  end X;\n  model X2\n    Real y2;\n  equation\n    y2 = 2.0;\n  end X2;\nend P;\n"
            "package W\n  import P.X;\n  model M\n    X x;\n    Real m;\n  equation\n    m = 2.0;\n  end M;\n"
            "  package V\n    model M2\n      X x2;\n    end M2;\n  end V;\nend W;\n" % v)
    a = rng.randrange(2)
    b = 1 - a
    users = [["W", "M"], ["W", "V", "M2"]]
    ops = [["copy", 0]]
    if rng.random() < 0.5:
        ops.append(["flatten", a, rng.choice(users)])
    ops.append(["rmclass", a, ["P"], "X"])
    ops.append([rng.choice(["flatten", "flatten", "sympy"]), a, rng.choice(users)])
    ops.append(["flatten", b, rng.choice(users)])
    ops.append(["transplant", a, ["P"], b, ["P", "X"], rng.choice(["fc", "dc"])])
    ops.append(["flatten", a, rng.choice(users)])
    ops.append(["flatten", b, rng.choice(users)])
    if rng.random() < 0.5:
        ops.append(["copy", a])
        ops.append(["flatten", 2, rng.choice(users)])
    return {"text": text, "ops": ops, "graph": False, "src": "qualified-import"}


def gen_subscript_case(rng):
    """a component class whose equations subscript an array by one of its OWN parameters/constants (x[n], B[n, k]),
    instantiated under different instance names by several models; flattened from both trees, after copies and edits
    (the flat digest includes the subscript expressions)"""
    n = rng.randint(1, 2)
    two_d = rng.random() < 0.5
    lines = ["package L", "  model A", "    parameter Integer n = %d;" % n, "    constant Integer k = 1;", "    Real x[2];"]
    if two_d:
        lines.append("    Real B[2, 2];")
    lines += ["    Real y;", "  equation", "    y = x[n]%s;" % (" + B[n, k]" if two_d else ""), "    x[k] = 1.0;", "  end A;",
              "  model M", "    A a;", "  end M;", "  model N", "    A b;", "  end N;",
              "  model Two", "    A first;", "    A second(n = 2);", "  end Two;", "end L;",
              "model Top", "  L.A c;", "  L.M m;", "end Top;"]
    text = "\n".join(lines) + "\n"
    users = [["L", "M"], ["L", "N"], ["L", "Two"], ["Top"], ["L", "A"]]
    ops = []
    ntrees = 1
    for _ in range(rng.randint(5, 8)):
        x = rng.random()
        if x < 0.2 and ntrees < 3:
            ops.append(["copy", rng.randrange(ntrees)])
            ntrees += 1
        elif x < 0.3:
            ops.append(["addsym", rng.randrange(ntrees), ["L", "A"], 800 + len(ops)])
        else:
            ops.append([rng.choice(["flatten", "flatten", "flatten", "sympy", "xml"]), rng.randrange(ntrees), rng.choice(users)])
    ops.append(["flatten", rng.randrange(ntrees), ["L", "M"]])
    ops.append(["flatten", rng.randrange(ntrees), ["L", "N"]])
    return {"text": text, "ops": ops, "graph": False, "src": "subscripts"}


def gen_function_edit_case(rng):
    """user-defined functions called from models (directly and through a component class, and from another
    function); the FUNCTION classes are edited in place between flattens of the same tree and of its copies"""
    chain = rng.random() < 0.5
    lines = ["package L", "  function f", "    input Real u;", "    output Real y;", "  algorithm", "    y := %d.0 * u;" % rng.randint(2, 9),
             "  end f;"]
    if chain:
        lines += ["  function g", "    input Real u;", "    output Real y;", "  algorithm", "    y := f(u) + 1.0;", "  end g;"]
    top = "g" if chain else "f"
    lines += ["  model A", "    Real x;", "    Real z;", "  equation", "    z = %s(x);" % top, "  end A;",
              "  model M", "    A a;", "  end M;", "  model D", "    Real w;", "  equation", "    w = L.f(2.0);", "  end D;", "end L;"]
    text = "\n".join(lines) + "\n"
    users = [["L", "M"], ["L", "A"], ["L", "D"]]
    funcs = [["L", "f"]] + ([["L", "g"]] if chain else [])
    ops = []
    ntrees = 1
    uid = 900
    for step in range(rng.randint(6, 9)):
        x = rng.random()
        if x < 0.18 and ntrees < 3:
            ops.append(["copy", rng.randrange(ntrees)])
            ntrees += 1
        elif x < 0.45 and any(o[0] in ("flatten", "sympy", "xml") for o in ops):
            t = rng.randrange(ntrees)
            uid += 1
            ops.append([rng.choice(["addsym", "addsym", "addeq"]), t, rng.choice(funcs), uid])
            ops.append(["flatten", t, rng.choice(users)])
            if ntrees > 1:
                ops.append(["flatten", rng.choice([i for i in range(ntrees) if i != t]), rng.choice(users)])
        else:
            ops.append([rng.choice(["flatten", "flatten", "flatten", "sympy", "xml"]), rng.randrange(ntrees), rng.choice(users)])
    return {"text": text, "ops": ops, "graph": False, "src": "function-edits"}


def gen_graph_case(rng, nops):
    lib = gen_library(rng, small=True)
    shadows = [Shadow(lib)]
    pinned = []      # (tree, path) of classes that are the parent of some detached copy's root
    rootpar = [None]
    ops = []
    uid = [100]
    while len(ops) < nops:
        x = rng.random()
        t = rng.randrange(len(shadows))
        sh = shadows[t]
        if (not ops and rng.random() < 0.7) or (x < 0.25 and len(shadows) < 4):
            ops.append(["copy", t])
            shadows.append(sh.copy())
            rootpar.append(rootpar[t])
            if rootpar[t] is not None:
                pinned.append(rootpar[t])
        elif x < 0.42 and len(shadows) < 4 and sh.kind == "root":
            cand = [p for p in sh.cls if p]
            if not cand:
                continue
            p = rng.choice(cand)
            ops.append(["fc", t, list(p)])
            shadows.append(sh.sub(p))
            rootpar.append((t, p[:-1]))
            pinned.append((t, p[:-1]))
        elif x < 0.6 and len(shadows) > 1:
            e = gen_transplant(rng, shadows, False, pinned)
            if e is not None:
                ops.append(e)
        else:
            e = gen_edit(rng, sh, t, uid, pinned)
            if e is not None:
                ops.append(e)
    return {"text": lib["text"], "ops": ops, "graph": True}


# ---------------------------------------------------------------------------------------------
# judge: the property on the implementation, against the independently rebuilt tree
# ---------------------------------------------------------------------------------------------
def judge2(case, out):
    """-> (None, None) or (description, tag).  tag = 'constant-renamed-in-place' only for: remove_symbol raising
    KeyError with a dotted key on a tree on which (or on whose copy source) a plain flatten ran before"""
    if "res" not in out:
        return "history could not be run: %s" % json.dumps(out)[:300], "harness"
    tainted = set()
    for i, (op, r) in enumerate(zip(case["ops"], out["res"])):
        if op[0] == "flatten":
            tainted.add(op[1])
        if op[0] == "copy" and op[1] in tainted:
            tainted.add(_new_tree_index(case["ops"], i))
        if "op_exc" in r:
            tag = "op-raised"
            if op[0] == "rmsym" and r["op_exc"] == "KeyError" and "." in r.get("msg", "") and op[1] in tainted:
                tag = "constant-renamed-in-place"
            return "op %d %s raised %s %s" % (i, op, r["op_exc"], r.get("msg", "")), tag
        if op[0] in ("copy", "fc"):
            if not r["equal"]:
                return "op %d %s: the copy's content differs from its source" % (i, op), "copy"
            if r["shared"]:
                return ("op %d %s: %d mutable object(s) reachable from both the copy and the original (%s)"
                        % (i, op, r["shared"], ",".join(r["shared_types"]))), "copy"
            if op[0] == "copy" and not r["type_ok"]:
                return "op %d %s: copy has a different type" % (i, op), "copy"
            if op[0] == "fc" and not (r["parent_is_original"] and r["fresh"]):
                return "op %d %s: find_class(copy=True) did not return a fresh class under the original parent" % (i, op), "copy"
        elif op[0] == "transplant":
            if not r.get("source_unchanged", True):
                return ("op %d %s: add_class of a class copied out of tree %d changed tree %d itself"
                        % (i, op, op[3], op[3])), "transplant"
        elif op[0] in ("flatten", "sympy", "xml"):
            if op[0] != "flatten" and not r.get("tree_unchanged", True):
                return ("op %d %s generate of %s changed the caller's tree %d (the backends work on a deep copy)"
                        % (i, op[0], ".".join(op[2]), op[1])), "generate-writes"
            if r["got"][:2] != r["want"][:2]:
                tag = "flatten-differs"
                # narrow tag of the known finding: the requested class's subtree holds both a class and a copy of it
                # (or of a class containing it) that was added by add_class — one deepcopy then reaches a
                # ClassModificationArgument and a copy whose hook is still bound to the same source argument
                for prev in case["ops"][:i]:
                    if prev[0] == "transplant" and prev[1] == op[1]:
                        S, T, R = list(prev[4]), list(prev[2]) + [prev[4][-1]], list(op[2])
                        if _comparable(R, S) and _comparable(R, T):
                            tag = "argument-hook-aliasing"
                return ("op %d %s of %s in tree %d gives %s; a fresh parse with this tree's own edits gives %s"
                        % (i, op[0], ".".join(op[2]), op[1], r["got"], r["want"])), tag
    return None, None


def _comparable(a, b):
    n = min(len(a), len(b))
    return a[:n] == b[:n]


def _new_tree_index(ops, i):
    """index of the tree created by the copy/fc op at position i"""
    return 1 + sum(1 for o in ops[:i] if o[0] in ("copy", "fc"))


def judge(case, out):
    return judge2(case, out)[0]


# ---------------------------------------------------------------------------------------------
# flags of Class.__deepcopy__ read from the source (fail-closed) and from behaviour
# ---------------------------------------------------------------------------------------------
def _is_attr(n, obj, attr):
    return isinstance(n, pyast.Attribute) and isinstance(n.value, pyast.Name) and n.value.id == obj and n.attr == attr


def source_flags(path):
    """(g_fixed, h_fixed) or (None, None) with a reason when the shape of the function is not a known one"""
    try:
        mod = pyast.parse(open(path).read())
    except (OSError, SyntaxError) as e:
        return None, None, "cannot parse: %s" % e
    fn = None
    for n in mod.body:
        if isinstance(n, pyast.ClassDef) and n.name == "Class":
            for m in n.body:
                if isinstance(m, pyast.FunctionDef) and m.name == "__deepcopy__":
                    fn = m
    if fn is None or [a.arg for a in fn.args.args] != ["self", "memo"]:
        return None, None, "Class.__deepcopy__(self, memo) not found"
    body = [s for s in fn.body if not (isinstance(s, pyast.Expr) and isinstance(s.value, pyast.Constant))]
    g = None
    if body and isinstance(body[0], pyast.If) and not body[0].orelse and isinstance(body[0].test, pyast.BoolOp) \
            and isinstance(body[0].test.op, pyast.And) and len(body[0].test.values) == 2:
        a, b = body[0].test.values
        ok_a = (isinstance(a, pyast.Compare) and _is_attr(a.left, "self", "parent") and len(a.ops) == 1
                and isinstance(a.ops[0], pyast.IsNot) and isinstance(a.comparators[0], pyast.Constant)
                and a.comparators[0].value is None)
        ok_body = (len(body[0].body) == 1 and pyast.dump(body[0].body[0]) ==
                   pyast.dump(pyast.parse("memo[id(self.parent)] = self.parent").body[0]))
        if ok_a and ok_body and isinstance(b, pyast.Compare) and len(b.ops) == 1 and isinstance(b.ops[0], pyast.NotIn) \
                and isinstance(b.comparators[0], pyast.Name) and b.comparators[0].id == "memo":
            if pyast.dump(b.left) == pyast.dump(pyast.parse("id(self.parent)").body[0].value):
                g = True
            elif _is_attr(b.left, "self", "parent"):
                g = False
    if g is None:
        return None, None, "guard statement has an unknown shape"
    rest = body[1:]
    flat = []
    for s in rest:
        if isinstance(s, pyast.Try):
            if s.handlers or s.orelse:
                return g, None, "unknown try shape"
            flat += s.body + s.finalbody
        else:
            flat.append(s)
    dumps = [pyast.dump(s) for s in flat]

    def d(src):
        return pyast.dump(pyast.parse(src).body[0])
    must = [d("self.__deepcopy__ = None"), d("new = copy.deepcopy(self, memo)"), d("return new")]
    allowed = must + [d("del self.__deepcopy__"), d("del new.__deepcopy__"), d("_deepcp = self.__deepcopy__"),
                      d("self.__deepcopy__ = _deepcp"), d("new.__deepcopy__ = _deepcp")]
    if any(x not in allowed for x in dumps) or any(x not in dumps for x in must):
        return g, None, "unknown statement in Class.__deepcopy__"
    if dumps.index(must[0]) > dumps.index(must[1]) or dumps[-1] != must[2]:
        return g, None, "unknown statement order"
    has_del = d("del new.__deepcopy__") in dumps
    has_bind = d("new.__deepcopy__ = _deepcp") in dumps
    restores = d("del self.__deepcopy__") in dumps or d("self.__deepcopy__ = _deepcp") in dumps
    if not restores or has_del == has_bind:
        return g, None, "hook handling has an unknown shape"
    return g, has_del, "ok"


def behaviour_flags(graph_cases, outs):
    """flags as observed on the first root copy of a tree that has a nested class"""
    for c, o in zip(graph_cases, outs):
        if "graphs" not in o:
            continue
        for i, op in enumerate(c["ops"]):
            if op[0] == "copy" and op[1] == 0 and i + 1 < len(o["graphs"]):
                g = o["graphs"][i + 1]
                new = g[-1]
                kids = [n for n in new if n[0]]
                if kids:
                    gfix = all(n[3] is not None and n[3] != "dangling" and n[3][0] == len(g) - 1 for n in kids)
                    hfix = all(n[4] is None for n in new)
                    return gfix, hfix
    return None, None


# ---------------------------------------------------------------------------------------------
# Coq encoding of graph cases
# ---------------------------------------------------------------------------------------------
class Names:
    def __init__(self):
        self.k = {}

    def __call__(self, s):
        return self.k.setdefault(s, len(self.k) + 1)


def enc_path(nm, p):
    return cq_list([cq_nat(nm("c:" + x)) for x in p])


def enc_addr(nm, a):
    if a is None:
        return "None"
    if isinstance(a, str):
        return "(Some (%s, []))" % cq_nat(9999)
    return "(Some (%s, %s))" % (cq_nat(a[0]), enc_path(nm, a[1]))


def enc_cd(nm, syms, n):
    return "(CD %s %s)" % (cq_list([cq_nat(nm("s:" + s)) for s in syms]), cq_nat(n))


def enc_node(nm, n):
    return "(%s, Info %s %s %s)" % (enc_path(nm, n[0]), enc_cd(nm, n[1], n[2]), enc_addr(nm, n[3]), enc_addr(nm, n[4]))


def encode_graph_case(flags, case, out):
    nm = Names()
    graphs = out["graphs"]
    t0 = cq_list([enc_node(nm, n) for n in graphs[0][0]])
    ops = []
    for i, op in enumerate(case["ops"]):
        k = op[0]
        if k == "copy":
            ops.append("DeepCopy (%s, [])" % cq_nat(op[1]))
        elif k == "fc":
            ops.append("DeepCopy (%s, %s)" % (cq_nat(op[1]), enc_path(nm, op[2])))
        elif k == "addclass":
            ops.append("AddClass (%s, %s) %s %s" % (cq_nat(op[1]), enc_path(nm, op[2]), cq_nat(nm("c:" + op[3])),
                                                     enc_cd(nm, ["w%d" % op[4]], 1)))
        elif k == "rmclass":
            ops.append("RmClass (%s, %s) %s" % (cq_nat(op[1]), enc_path(nm, op[2]), cq_nat(nm("c:" + op[3]))))
        elif k == "transplant":
            tgt = op[2] + [op[4][-1]]
            ents = [n for n in graphs[i + 1][op[1]] if n[0][:len(tgt)] == tgt]
            ops.append("AddTree (%s, %s) %s %s" % (cq_nat(op[1]), enc_path(nm, op[2]), cq_nat(nm("c:" + op[4][-1])),
                                                   cq_list(["(%s, %s)" % (enc_path(nm, n[0][len(tgt):]), enc_cd(nm, n[1], n[2]))
                                                            for n in ents])))
        else:
            after = [n for n in graphs[i + 1][op[1]] if n[0] == op[2]]
            cd = enc_cd(nm, after[0][1], after[0][2]) if after else "(CD [] 0)"
            ops.append("SetData (%s, %s) %s" % (cq_nat(op[1]), enc_path(nm, op[2]), cd))
    obs = [cq_list([cq_list([enc_node(nm, n) for n in t]) for t in g]) for g in graphs[1:]]
    return "((%s, %s), %s, %s, %s)" % (cq_bool(flags[0]), cq_bool(flags[1]), t0, cq_list(ops), cq_list(obs))


PREAMBLE = "From Coq Require Import List.\nFrom PV Require Import Lib.ObjGraph Model.C06_deepcopy.\nImport ListNotations.\n"
CASE_TYPE = "(bool * bool) * tree * list op * list (list (list (path * info)))"


# ---------------------------------------------------------------------------------------------
def run(ctx):
    core.check_props(ctx, "C06.v", THEOREMS)
    src = core.REPO + "/src/pymoca/ast.py"
    fp, _ = core.fingerprint(src, {"Class.__deepcopy__", "ClassModificationArgument.__deepcopy__"})
    ctx.notes["source_fingerprint"] = {"ast.py:Class.__deepcopy__+ClassModificationArgument.__deepcopy__": fp}
    sg, sh, why = source_flags(src)

    n_graph = ctx.scaled(60, 1000)
    n_oracle = ctx.scaled(28, 450)
    graph_cases = [gen_graph_case(ctx.rng, ctx.rng.randint(2, 7)) for _ in range(n_graph)]
    oracle_cases = [gen_oracle_case(ctx.rng, ctx.rng.randint(6, ctx.scaled(16, 24))) for _ in range(n_oracle)]
    try:
        corpus = json.load(open(core.VERIF + "/corpus/C06/cases.json"))
    except OSError:
        corpus = []
    special = [gen_const_edit_case(ctx.rng) for _ in range(ctx.scaled(6, 60))] + \
              [gen_qimport_case(ctx.rng) for _ in range(ctx.scaled(5, 40))] + \
              [gen_subscript_case(ctx.rng) for _ in range(ctx.scaled(5, 40))] + \
              [gen_function_edit_case(ctx.rng) for _ in range(ctx.scaled(5, 40))]
    cases = corpus + graph_cases + oracle_cases + special
    # 4 children in parallel (the histories are independent)
    from concurrent.futures import ThreadPoolExecutor
    k = 4
    chunks = [cases[i::k] for i in range(k)]
    with ThreadPoolExecutor(max_workers=k) as ex:
        parts = list(ex.map(lambda ch: core.run_child(ctx, "c06", ch, timeout=ctx.scaled(600, 3000)) if ch else [], chunks))
    outs = [None] * len(cases)
    for j, part in enumerate(parts):
        for i, o in enumerate(part):
            outs[j + i * k] = o

    # (a) property oracle on the implementation
    opcount = {}
    nontrivial = set()
    n_flat = n_flat_ok = 0
    for c, o in zip(cases, outs):
        for op in c["ops"]:
            opcount[op[0]] = opcount.get(op[0], 0) + 1
        why_bad, tag = judge2(c, o)
        if why_bad:
            core.report(ctx, tag, why_bad, {"case": c, "why": why_bad})
        if "res" in o:
            for op, r in zip(c["ops"], o["res"]):
                if op[0] == "flatten" and "got" in r:
                    n_flat += 1
                    n_flat_ok += r["got"][0] == "ok"
        kinds = {op[0] for op in c["ops"]}
        if ("copy" in kinds or "fc" in kinds) and len(kinds) >= 2:
            nontrivial.add(json.dumps(c["ops"]))

    # (b) tie: flags of the source = the flags the theorems are about
    gidx = [i for i, c in enumerate(cases) if c.get("graph") and "graphs" in outs[i] and
            not any("op_exc" in r for r in outs[i]["res"])]
    bg, bh = behaviour_flags([cases[i] for i in gidx], [outs[i] for i in gidx])
    if sg is None or sh is None:
        flags = (bg, bh)
        origin = "behaviour (source shape not recognised: %s)" % why
    else:
        flags = (sg, sh)
        origin = "source (ast probe of Class.__deepcopy__)"
    ctx.notes["deepcopy_flags"] = {"source": [sg, sh, why], "behaviour": [bg, bh], "used": list(flags), "origin": origin}
    if flags[0] is None or flags[1] is None:
        ctx.oblige("tie:flags-of-Class.__deepcopy__", False, "flags could not be determined: %s" % why)
        flags = (True, True)
    else:
        ok, _, err = core.coq_run(ctx, "Tie_C06", core.HEADER + PREAMBLE +
                                  "Definition src_flags := Flags %s %s.\n"
                                  "Lemma tie_flags : src_flags = fixed_flags.\nProof. reflexivity. Qed.\n"
                                  % (cq_bool(flags[0]), cq_bool(flags[1])))
        ctx.oblige("tie:flags-of-Class.__deepcopy__ = fixed_flags (%s)" % origin, ok, err[-600:])
    # (c) correspondence: model world = real object graph after every op
    enc = [encode_graph_case(flags, cases[i], outs[i]) for i in gidx]
    bad = core.coq_eval_cases(ctx, "graph", PREAMBLE, CASE_TYPE, enc, "check_case", shard=100)
    n_missing = len([c for c in cases if c.get("graph")]) - len(gidx)
    good = bad == [] and n_missing == 0
    ctx.oblige("correspondence:model-vs-copy.deepcopy-object-graph", good,
               "mismatching: %s; graph cases that did not run: %d" % (None if bad is None else [gidx[j] for j in bad[:8]], n_missing))
    if not good and not ctx.violations:
        first = cases[gidx[bad[0]]] if bad else None
        core.violation(ctx, "correspondence-broken",
                       {"correspondence": "Model/C06_deepcopy.v check_case vs object graph", "case": first,
                        "observed": outs[gidx[bad[0]]] if bad else None}, no_input=True)
    def still_fails(e):
        case = (e.get("replay") or {}).get("case")
        if not case:
            return None
        o = core.run_child(ctx, "c06", [case])[0]
        return judge2(case, o)[1] == e.get("tag")
    core.replay_known(ctx, still_fails)

    ctx.cov["evaluations"] = len(cases)
    ctx.cov["distinct_nontrivial"] = len(nontrivial)
    ctx.cov["rule"] = ("%d graph histories (deepcopy of trees/copies/sub-copies, find_class(copy=True), add/remove class, "
                       "symbol/equation edits; object graph compared with the model after every op) + %d oracle histories "
                       "(deepcopy, edits on either side, flatten/sympy/xml generate of classes near the edit on both sides, "
                       "each compared with a fresh parse + that side's edits) + %d corpus; non-trivial = contains a copy "
                       "and another kind of op; distinct op lists" % (n_graph, n_oracle, len(corpus)))
    ctx.cov["samples"] = [graph_cases[0]["ops"][:6], oracle_cases[0]["ops"][:8]]
    ctx.notes["input_distribution"] = {"ops": opcount, "flatten_compared": n_flat, "flatten_ok": n_flat_ok,
                                       "sample_library": oracle_cases[0]["text"][:600]}
    ctx.assumptions += [
        "model: classes are addressed by (tree, path of names); content of a class is abstracted to symbol names and "
        "equation count; flatten itself is not modelled — what lookup can reach (`see`: any walk over .classes/.parent) is",
        "`parent` is copied after `classes` in __dict__ order; the model performs the memo lookup for it before the owned "
        "classes are copied (argued equivalent in Model/C06_deepcopy.v; validated by the correspondence)",
        "ClassModificationArgument.__deepcopy__ (scope kept, hook bound to the source argument) is exercised by the "
        "oracle (libraries with modifications; flatten after copy-of-copy) but is not in the Coq model",
        "the Python harness (graph extraction by id(), generators, reference rebuild) is trusted for the tie",
    ]


def replay(ctx, path):
    rec = json.load(open(path))
    case = rec.get("case")
    if not case:
        print("replay: no concrete input in this record")
        return 1
    out = core.run_child(ctx, "c06", [case])[0]
    why = judge(case, out)
    print("replay:", why or "property holds on this history")
    return 1 if why else 0
