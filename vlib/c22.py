"""C22 — delay durations are validated and delay arguments preserved."""
import json
import re
import time
from fractions import Fraction

from . import core
from .core import cq_Z, cq_list, cq_nat

THEOREMS = ["C22_decision", "C22_accept", "C22_accept_semantic", "C22_arguments", "C22_creation_order",
            "C22_decision_refuted", "C22_arguments_refuted", "C22_example",
            "C22_delay_args_follow", "C22_delay_args_value", "C22_simplify_decision", "C22_delay_args_follow_refuted",
            "C22_simplify_example"]

BASE = 100                    # id of delayed-state input k is BASE + k  (_pymoca_delay_k)
KIND = {"const": "KConst", "param": "KParam", "finput": "(KInput true)", "input": "(KInput false)",
        "plain": "KPlain"}
TAG_ACCEPT = "loop-indexed-duration-not-rejected"
TAG_FUNC = "loop-indexed-duration-function-fails"
TAG_ASSERT = "loop-delay-expression-free-symbol"
TAG_VEC = "loop-delay-expression-vector-element"
TAG_CACHEVEC = "cache-duration-vector-element"
TAG_RPV = "replace-parameter-values-delay-argument"
TAG_RAE = "reduce-affine-delay-arguments-function"

# ---------------------------------------------------------------------------------------------
# Case (JSON):
#   {"N": vector length, "vars": [{"name","kind": const|param|finput|input|plain,"vec": bool,"bind": text|None}],
#    "eqs": [eq...], "points": [{"time": t, "vals": {name: [v1..vN]}, "der": {name: v}}], "kind": ...}
#   eq   = ["eq", lhs, rhs] | ["for", lo, hi, [["eq", lhs, rhs]...]]          (loop variable is always i)
#   expr = ["num", n] | ["v", name] | ["el", name, k] | ["vi", name] (name[i]) | ["i"] | ["time"] |
#          ["der", name] | ["add", a, b] | ["sub", a, b] | ["mul", a, b] | ["neg", a] | ["delay", e, d]
#   values of delayed-state input k live in vals["_pymoca_delay_k"]
# ---------------------------------------------------------------------------------------------


def pr(e, lvl=0):
    """Modelica text with minimal parentheses (lvl: 0 additive context, 1 right operand of -, 2 factor, 3 unary)."""
    k = e[0]
    if k == "num":
        return "%d.0" % e[1] if e[1] >= 0 else "(-%d.0)" % -e[1]
    if k == "v":
        return e[1]
    if k == "el":
        return "%s[%d]" % (e[1], e[2])
    if k == "el2":
        return "%s[%d,%d]" % (e[1], e[2], e[3])
    if k == "arr":
        return e[1]
    if k == "smul":
        return "%s * %s" % (pr(e[1], 2), pr(e[2], 2))
    if k == "aadd":
        s = "%s + %s" % (pr(e[1], 0), pr(e[2], 0))
        return "(%s)" % s if lvl >= 1 else s
    if k == "vi":                          # ["vi", name] = name[i];  ["vi", name, off] = name[i+off]
        return "%s[i]" % e[1] if len(e) < 3 else "%s[i%+d]" % (e[1], e[2])
    if k == "i":
        return "i"
    if k == "time":
        return "time"
    if k == "der":
        return "der(%s)" % e[1]
    if k == "add":
        s = "%s + %s" % (pr(e[1], 0), pr(e[2], 0))
        return "(%s)" % s if lvl >= 1 else s
    if k == "sub":
        s = "%s - %s" % (pr(e[1], 0), pr(e[2], 1))
        return "(%s)" % s if lvl >= 1 else s
    if k == "mul":
        s = "%s * %s" % (pr(e[1], 2), pr(e[2], 2))
        return "(%s)" % s if lvl >= 3 else s
    if k == "neg":
        return "(-%s)" % pr(e[1], 3)
    if k == "delay":
        return "delay(%s, %s)" % (pr(e[1]), pr(e[2]))
    if k == "if":
        return "(if %s %s %s then %s else %s)" % (pr(e[2]), e[1], pr(e[3]), pr(e[4]), pr(e[5]))
    if k == "abs":
        return "abs(%s)" % pr(e[1])
    if k in ("min", "max"):
        return "%s(%s, %s)" % (k, pr(e[1]), pr(e[2]))
    raise ValueError(k)


NONPOLY = ("if", "abs", "min", "max")
# array expressions (only as the delayed expression of a whole-array equation ["aeq", Y, ["delay", aexpr, dur]]):
#   ["arr", name] | ["smul", scalar expr, aexpr] | ["aadd", aexpr, aexpr];  scalar leaf ["el2", name, i, j, cols]


def sides(q):
    """(lhs, rhs) expression pairs of an equation item."""
    if q[0] == "eq":
        return [(q[1], q[2])]
    if q[0] == "aeq":
        return [(["arr", q[1]], q[2])]
    return [(b[1], b[2]) for b in q[3]]


def shape_of(case, name):
    for v in case["vars"]:
        if v["name"] == name:
            return tuple(v["mat"]) if v.get("mat") else ((case["N"], 1) if v["vec"] else (1, 1))
    raise KeyError(name)


def arr_shape(case, a):
    return shape_of(case, a[1]) if a[0] == "arr" else arr_shape(case, a[2])


def elem(case, a, i, j):
    """Scalar expression of element (i, j) (1-based) of an array expression."""
    if a[0] == "arr":
        sh = shape_of(case, a[1])
        return ["el2", a[1], i, j, sh[1]] if len(sh) == 2 and sh[1] > 1 else ["el", a[1], i]
    if a[0] == "smul":
        return ["mul", a[1], elem(case, a[2], i, j)]
    return ["add", elem(case, a[1], i, j), elem(case, a[2], i, j)]


def children(e):
    k = e[0]
    if k in ("neg", "abs"):
        return [e[1]]
    if k in ("add", "sub", "mul", "delay", "min", "max", "smul", "aadd"):
        return [e[1], e[2]]
    if k == "if":                      # ["if", rel, c1, c2, then, else]
        return [e[2], e[3], e[4], e[5]]
    return []


def used_names(case):
    out = set()

    def walk(e):
        if e[0] in ("v", "el", "vi", "der", "arr", "el2"):
            out.add(e[1])
        for c in children(e):
            walk(c)
    for q in case["eqs"]:
        for l, r in sides(q):
            walk(l)
            walk(r)
    return out


def to_text(case):
    out = ["model M"]
    n = case["N"]
    for v in case["vars"]:
        pre = {"const": "constant ", "param": "parameter ", "finput": "input ", "input": "input ", "plain": ""}[v["kind"]]
        s = v["name"] + ("[%d,%d]" % tuple(v["mat"]) if v.get("mat") else "[%d]" % n if v["vec"] else "")
        if v["kind"] == "finput":
            s += "(each fixed=true)" if v["vec"] else "(fixed=true)"
        if v.get("bind_expr"):
            s += " = " + pr(v["bind_expr"])
        elif v.get("bind"):
            s += " = " + v["bind"]
        elif v["kind"] in ("const", "param"):
            s += " = {%s}" % ", ".join("%d.0" % (j + 1) for j in range(n)) if v["vec"] else " = %d.0" % v.get("value", 2)
        out.append("  %sReal %s;" % (pre, s))
    out.append("equation")
    for q in case["eqs"]:
        if q[0] == "eq":
            out.append("  %s = %s;" % (pr(q[1]), pr(q[2])))
        elif q[0] == "aeq":
            out.append("  %s = %s;" % (q[1], pr(q[2])))
        else:
            out.append("  for i in %d:%d loop" % (q[1], q[2]))
            for b in q[3]:
                out.append("    %s = %s;" % (pr(b[1]), pr(b[2])))
            out.append("  end for;")
    out.append("end M;")
    return "\n".join(out) + "\n"


# ---- independent reference (the property's statement in Python, exact arithmetic) ---------------
def poly(e, dly):
    """Exact polynomial of a delay-free reading of e: {monomial (sorted tuple of atoms): Fraction}.
    Delay nodes are atoms ("dly", k) numbered by `dly` (id(node) -> k)."""
    k = e[0]
    if k == "num":
        return {(): Fraction(e[1])} if e[1] else {}
    if k in ("v", "el", "vi", "i", "time", "der", "el2"):
        return {(tuple(e),): Fraction(1)}
    if k == "delay":
        return {(("dly", dly[id(e)]),): Fraction(1)}
    if k in NONPOLY:
        NP[id(e)] = e
        return {(("np", id(e)),): Fraction(1)}
    if k == "neg":
        return {m: -c for m, c in poly(e[1], dly).items()}
    a, b = poly(e[1], dly), poly(e[2], dly)
    if k in ("add", "sub"):
        r = dict(a)
        for m, c in b.items():
            r[m] = r.get(m, 0) + (c if k == "add" else -c)
        return {m: c for m, c in r.items() if c}
    r = {}
    for m1, c1 in a.items():
        for m2, c2 in b.items():
            m = tuple(sorted(m1 + m2))
            r[m] = r.get(m, 0) + c1 * c2
    return {m: c for m, c in r.items() if c}


NP = {}          # id -> piecewise node met by poly() (kept alive by the case it belongs to)


def atoms_of(p):
    return {a for m in p for a in m}


def dep_atoms(e, dly):
    """What e depends on: the atoms of its exact polynomial; a piecewise node (if / abs / min / max) depends
    on everything its operands depend on - for an if-expression that includes the CONDITION."""
    out = set()
    for a in atoms_of(poly(e, dly)):
        if a[0] == "np":
            for c in children(NP[a[1]]):
                out |= dep_atoms(c, dly)
        else:
            out.add(a)
    return out


def syn_atoms(e, dly):
    """Atoms that survive constant folding and multiplication by a literal zero (generator filter only:
    cases where this differs from the exact dependency set are not generated).  -> (atoms, const|None)"""
    k = e[0]
    if k == "num":
        return set(), e[1]
    if k in ("v", "el", "vi", "i", "time", "der", "el2"):
        return {tuple(e)}, None
    if k == "delay":
        return {("dly", dly[id(e)])}, None
    if k in NONPOLY:
        out = set()
        for c in children(e):
            out |= syn_atoms(c, dly)[0]
        return out, None
    if k == "neg":
        s, c = syn_atoms(e[1], dly)
        return s, (None if c is None else -c)
    (s1, c1), (s2, c2) = syn_atoms(e[1], dly), syn_atoms(e[2], dly)
    if c1 is not None and c2 is not None:
        return set(), {"add": c1 + c2, "sub": c1 - c2, "mul": c1 * c2}[k]
    if k == "mul" and (c1 == 0 or c2 == 0):
        return set(), 0
    return s1 | s2, None


def collect_delays(case):
    """Delay calls in creation order = post-order over the equations in order.
    -> [ {"node", "e", "d", "loop": None | (lo, hi)} ], numbering id(node) -> k."""
    recs, dly = [], {}

    def walk(e, loop):
        k = e[0]
        if k == "delay":
            walk(e[1], loop)
            walk(e[2], loop)
            dly[id(e)] = len(recs)
            recs.append({"node": e, "e": e[1], "d": e[2], "loop": loop})
        else:
            for c in children(e):
                walk(c, loop)
    for q in case["eqs"]:
        for l, r in sides(q):
            walk(l, (q[1], q[2]) if q[0] == "for" else None)
            walk(r, (q[1], q[2]) if q[0] == "for" else None)
    for r in recs:
        r["array"] = r["e"][0] in ("arr", "smul", "aadd")
    return recs, dly


def der_names(case):
    out = set()

    def walk(e):
        if e[0] == "der":
            out.add(e[1])
        for c in children(e):
            walk(c)
    for q in case["eqs"]:
        for l, r in sides(q):
            walk(l)
            walk(r)
    return out


def category(case, atom, ders):
    """Category of what a duration atom refers to, in the property's words."""
    kinds = {v["name"]: v["kind"] for v in case["vars"]}
    t = atom[0]
    if t == "time":
        return "time"
    if t == "der":
        return "derivative"
    if t == "dly":
        return "delayed-state input"
    if t == "i":
        return "loop index"
    kd = kinds[atom[1]]
    if atom[1] in (case.get("eca") or {}) and (case.get("options") or {}).get("eliminate_constant_assignments"):
        return "constant"
    if kd == "plain":
        return "state" if atom[1] in ders else "algebraic"
    return {"const": "constant", "param": "parameter", "finput": "fixed input", "input": "non-fixed input"}[kd]


ALLOWED = {"constant", "parameter", "fixed input", "loop index"}


def evaluate(e, pt, dly, i=None):
    k = e[0]
    if k == "num":
        return Fraction(e[1])
    if k == "v":
        return Fraction(pt["vals"][e[1]][0])
    if k == "el":
        return Fraction(pt["vals"][e[1]][e[2] - 1])
    if k == "el2":
        return Fraction(pt["vals"][e[1]][(e[2] - 1) * e[4] + e[3] - 1])
    if k == "vi":
        return Fraction(pt["vals"][e[1]][i - 1 + (e[2] if len(e) > 2 else 0)])
    if k == "i":
        return Fraction(i)
    if k == "time":
        return Fraction(pt["time"])
    if k == "der":
        return Fraction(pt["der"][e[1]])
    if k == "delay":
        return Fraction(pt["vals"]["_pymoca_delay_%d" % dly[id(e)]][0])
    if k == "neg":
        return -evaluate(e[1], pt, dly, i)
    if k == "abs":
        return abs(evaluate(e[1], pt, dly, i))
    if k == "if":
        x, y = evaluate(e[2], pt, dly, i), evaluate(e[3], pt, dly, i)
        c = {">": x > y, "<": x < y, ">=": x >= y, "<=": x <= y}[e[1]]
        return evaluate(e[4] if c else e[5], pt, dly, i)
    a, b = evaluate(e[1], pt, dly, i), evaluate(e[2], pt, dly, i)
    if k in ("min", "max"):
        return min(a, b) if k == "min" else max(a, b)
    return a + b if k == "add" else a - b if k == "sub" else a * b


def loop_atoms(atoms):
    return {a for a in atoms if a[0] in ("vi", "i")}


def body_free_atoms(case, loop_eq, dly):
    """Atoms of the loop body's residuals with every delay call replaced by its delayed-state symbol."""
    out = set()
    for b in loop_eq[3]:
        out |= dep_atoms(["sub", b[1], b[2]], dly)
    return out


def alias_applies(case, rhs):
    """simplify(): `d = s` / `d = -s` eliminates the algebraic d when detect_aliases is on and s is a scalar
    symbol (an array element only after expand_vectors)."""
    o = case.get("options") or {}
    if not o.get("detect_aliases"):
        return False
    leaf = rhs[1] if rhs[0] == "neg" else rhs
    if leaf[0] == "v":
        # an earlier step of _simplify_once may already have replaced the target in the equations: `w = p` has
        # become `w = 5` / `w = c*p2` and w is no alias any more
        for v in case.get("vars", []):
            if v["name"] == leaf[1] and v["kind"] in ("const", "param"):
                expr_valued = bool(v.get("bind_expr") or v.get("bind"))
                if v["kind"] == "param" and ((o.get("replace_parameter_values") and not expr_valued) or
                                             (o.get("replace_parameter_expressions") and expr_valued)):
                    return False
                if v["kind"] == "const" and (o.get("replace_constant_values") or
                                             (o.get("replace_constant_expressions") and expr_valued)):
                    return False
    return leaf[0] == "v" or (leaf[0] == "el" and bool(o.get("expand_vectors")))


def resolved(case):
    """The case with every variable that simplify() eliminates replaced by what it stands for:
    detect_aliases: `w = s` / `w = -s`; eliminable_variable_expression: `_e = expr` (option streams)."""
    o = case.get("options") or {}
    al = {d: r for d, r in (case.get("aliases") or {}).items() if alias_applies(case, r)}
    if o.get("eliminable_variable_expression"):
        al.update(case.get("eliminable") or {})
    if not al:
        return case

    def sub(e, depth=0):
        if e and e[0] == "v" and e[1] in al and depth < 12:
            return sub(json.loads(json.dumps(al[e[1]])), depth + 1)
        return [sub(x, depth) if isinstance(x, list) else x for x in e]
    eqs = []
    for q in case["eqs"]:
        if q[0] == "eq" and q[1][0] == "v" and q[1][1] in al:
            continue                                   # the defining equation itself disappears
        eqs.append(sub(q))
    c = dict(case)
    c["eqs"] = eqs
    return c


def analyse(case):
    """Everything the property says about a case.  -> dict"""
    case = resolved(case)
    recs, dly = collect_delays(case)
    ders = der_names(case)
    info = {"n": len(recs), "reject_because": [], "loop_dur": [], "assert_class": False, "vec_class": False,
            "recs": recs, "dly": dly}
    for k, r in enumerate(recs):
        atoms = dep_atoms(r["d"], dly)
        for a in sorted(atoms):
            c = category(case, a, ders)
            if c not in ALLOWED:
                info["reject_because"].append((k, pr(list(a)) if a[0] != "dly" else "_pymoca_delay_%d" % a[1], c,
                                               a[0] in ("vi",)))
        if r["loop"] and loop_atoms(atoms):
            info["loop_dur"].append(k)
        r["indexed"] = bool(r["loop"]) and not r["array"] and any(a[0] == "vi" for a in dep_atoms(r["e"], dly))
    # generator.py:486 assert: free symbols of an indexed loop delay's expression must occur in the loop body
    for q in case["eqs"]:
        if q[0] != "for":
            continue
        body = {a if a[0] != "el" else ("v", a[1]) for a in body_free_atoms(case, q, dly)}
        for r in recs:
            if r["indexed"] and any(r["node"] is n for n in nodes_of(q)):
                need = {a if a[0] != "el" else ("v", a[1]) for a in dep_atoms(r["e"], dly) if a[0] not in ("vi", "i")}
                if not need <= body:
                    info["assert_class"] = True
                if any(a[0] == "el" for a in dep_atoms(r["e"], dly)):
                    info["vec_class"] = True
    return info


def nodes_of(loop_eq):
    out = []

    def walk(e):
        if e[0] == "delay":
            out.append(e)
        for c in children(e):
            walk(c)
    for b in loop_eq[3]:
        walk(b[1])
        walk(b[2])
    return out


def as_fraction(x):
    if isinstance(x, int):
        return Fraction(x)
    if isinstance(x, str) and "/" in x:
        return Fraction(x)
    return None          # nan / inf


def judge(case, res):
    """Property oracle on the implementation's observation (every transfer_model call of a cache case).
    -> (tag, why) or None."""
    v = judge1(case, res)
    if v:
        return v
    for j, r in enumerate(res.get("more") or []):
        v = judge1(case, r)
        if v:
            return ("call-%d:%s" % (j + 2, v[0]), "transfer_model call #%d on the same folder (cache): %s" % (j + 2, v[1]))
    return None


def expected_entries(case, r, pt, dly):
    """Shape and values (dict (i, j) -> Fraction, 1-based) of the delayed expression of one delay call."""
    if r["array"]:
        sh = arr_shape(case, r["e"])
        return sh, {(i, j): evaluate(elem(case, r["e"], i, j), pt, dly) for i in range(1, sh[0] + 1) for j in range(1, sh[1] + 1)}
    if r["indexed"]:
        lo, hi = r["loop"]
        return (hi - lo + 1, 1), {(i - lo + 1, 1): evaluate(r["e"], pt, dly, i) for i in range(lo, hi + 1)}
    return (1, 1), {(1, 1): evaluate(r["e"], pt, dly)}


def judge1(case, res):
    if case.get("malformed"):
        return None
    info = analyse(case)
    st = res.get("status")
    should_reject = bool(info["reject_because"])
    only_via_loop = should_reject and all(x[3] for x in info["reject_because"])
    if st == "error" or st is None:
        if info["assert_class"] and res.get("exc") == "AssertionError":
            return (TAG_ASSERT, "transfer_model raises AssertionError: an indexed delay inside a for-loop whose "
                    "delayed expression uses a symbol that occurs nowhere else in the loop body")
        if info["vec_class"] and res.get("exc") == "RuntimeError" and "truth value" in res.get("msg", ""):
            return (TAG_VEC, "transfer_model raises RuntimeError (truth value of a vector MX): an indexed delay inside a "
                    "for-loop whose delayed expression uses an element v[k] of a vector that also occurs in the loop body")
        if (case.get("options") or {}).get("cache") and res.get("exc") == "RuntimeError" \
                and "truth value" in res.get("msg", "") \
                and any(a[0] == "el" for r in info["recs"] for a in dep_atoms(r["d"], info["dly"])):
            return (TAG_CACHEVEC, "transfer_model(cache=True) raises RuntimeError (truth value of a vector MX): a delay "
                    "duration mentions an element of an array variable")
        return ("exception", "transfer_model raised %s: %s" % (res.get("exc"), res.get("msg")))
    if st == "rejected":
        if not should_reject:
            return ("rejected-valid", "rejected although every duration depends only on constants, parameters, "
                    "fixed inputs")
        return None
    # accepted
    if should_reject:
        k, what, cat, _ = info["reject_because"][0]
        return (TAG_ACCEPT if only_via_loop else "accepted-invalid",
                "accepted although the duration of delay %d depends on %s (%s)" % (k, what, cat))
    n = info["n"]
    recs, dly = info["recs"], info["dly"]
    rcase = resolved(case)
    expanded = bool((case.get("options") or {}).get("expand_vectors"))
    shapes = [expected_entries(rcase, r, case["points"][0], dly)[0] for r in recs]
    # delay states: one per delay call, or (expand_vectors) one per element, named _pymoca_delay_k[i,j]
    if expanded:
        want = ["_pymoca_delay_%d[%d,%d]" % (k, i, j) for k in range(n)
                for i in range(1, shapes[k][0] + 1) for j in range(1, shapes[k][1] + 1)]
    else:
        want = ["_pymoca_delay_%d" % k for k in range(n)]
    if sorted(res["delay_states"]) != sorted(want) or res["n_delay_arguments"] != len(want) or \
            (not expanded and res["delay_states"] != want):
        return ("delay-list", "delay_states = %s, expected %s" % (res["delay_states"], want))
    inp = dict((a, b) for a, b in res["inputs"])
    for name in want:
        if inp.get(name, None) is not False:
            return ("delay-input", "%s is not a non-fixed input: %s" % (name, res["inputs"]))
    if n == 0:
        return None
    if res["func"] is not None:
        if (case.get("options") or {}).get("replace_parameter_values") and "free" in res["func"].get("msg", "") and \
                any(a[0] == "v" and category(rcase, a, set()) == "parameter"
                    for r in recs for x in (r["e"], r["d"]) for a in dep_atoms(x, dly)):
            return (TAG_RPV, "accepted, but delay_arguments_function has a free parameter symbol: "
                    "replace_parameter_values removes the parameter without substituting it in the delay arguments")
        if (case.get("options") or {}).get("reduce_affine_expression") and "free" in res["func"].get("msg", "") and \
                any(category(rcase, a, der_names(rcase)) not in ("constant", "parameter", "time", "loop index")
                    for r in recs for x in (r["e"], r["d"]) for a in dep_atoms(x, dly)):
            return (TAG_RAE, "accepted, but with reduce_affine_expression delay_arguments_function has free state / "
                    "algebraic / input symbols (its inputs are the new *_vector symbols)")
        return (TAG_FUNC if info["loop_dur"] else "function-fails",
                "accepted but delay_arguments_function cannot be built/evaluated: %s" % res["func"].get("msg", "")[-160:])
    if res.get("attr_exc") or ("attr_values" in res and res["attr_values"] != res["values"]):
        return ("delay-arguments-attribute", "model.delay_arguments (%s) does not evaluate like delay_arguments_function: %s vs %s"
                % ("CachedModel" if res.get("cached") else "Model", res.get("attr_exc") or res.get("attr_values"), res["values"]))
    if len(res["shapes"]) != 2 * len(want):
        return ("argument-count", "%d outputs for %d delay states" % (len(res["shapes"]), len(want)))
    for pi, (pt, vals) in enumerate(zip(case["points"], res["values"])):
        for t, name in enumerate(res["delay_states"]):
            m_ = re.fullmatch(r"_pymoca_delay_(\d+)(?:\[(\d+),(\d+)\])?", name)
            k = int(m_.group(1))
            r = recs[k]
            sh, ent = expected_entries(rcase, r, pt, dly)
            if expanded:
                exp_e = [ent[(int(m_.group(2)), int(m_.group(3)))]]
                exp_shape = [1, 1]
            else:
                exp_e = [ent[(i, j)] for j in range(1, sh[1] + 1) for i in range(1, sh[0] + 1)]     # column-major
                exp_shape = list(sh)
            if res["shapes"][2 * t] != exp_shape or res["shapes"][2 * t + 1] != [1, 1]:
                return ("argument-shape", "%s: shapes %s / %s, expected %s / [1, 1]"
                        % (name, res["shapes"][2 * t], res["shapes"][2 * t + 1], exp_shape))
            exp_d = [evaluate(r["d"], pt, dly)]
            got_e = [as_fraction(x) for x in vals[2 * t]]
            got_d = [as_fraction(x) for x in vals[2 * t + 1]]
            if got_e != exp_e:
                return ("argument-expr", "%s at point %d: delayed expression %s evaluates to %s, function returns %s"
                        % (name, pi, pr(r["e"]), [str(x) for x in exp_e], vals[2 * t]))
            if got_d != exp_d:
                return ("argument-duration", "%s at point %d: duration %s evaluates to %s, function returns %s"
                        % (name, pi, pr(r["d"]), [str(x) for x in exp_d], vals[2 * t + 1]))
    return None


# ---- Coq encoding -------------------------------------------------------------------------------
def enc_expr(e, ids):
    k = e[0]
    if k == "num":
        return "Num %s" % cq_Z(e[1])
    if k == "v":
        return "Ref (SVar %s)" % cq_nat(ids[e[1]])
    if k == "el":
        return "Elem %s %s" % (cq_nat(ids[e[1]]), cq_nat(e[2]))
    if k == "vi":
        return "Ref (SLoop %s)" % cq_nat(ids[e[1]])
    if k == "i":
        return "Ref SIndex"
    if k == "time":
        return "Ref STime"
    if k == "der":
        return "Ref (SDer %s)" % cq_nat(ids[e[1]])
    if k == "neg":
        return "Neg (%s)" % enc_expr(e[1], ids)
    if k == "abs":
        return "Abs (%s)" % enc_expr(e[1], ids)
    if k == "if":
        c1, c2 = (e[2], e[3]) if e[1] in (">", ">=") else (e[3], e[2])
        return "Ite %s (%s) (%s) (%s) (%s)" % ("true" if e[1] in (">=", "<=") else "false", enc_expr(c1, ids),
                                               enc_expr(c2, ids), enc_expr(e[4], ids), enc_expr(e[5], ids))
    return "%s (%s) (%s)" % ({"add": "Add", "sub": "Sub", "mul": "Mul", "delay": "Delay", "min": "Min", "max": "Max"}[k],
                             enc_expr(e[1], ids), enc_expr(e[2], ids))


def enc_model(case):
    ids = {v["name"]: j + 1 for j, v in enumerate(case["vars"])}
    decls = cq_list(["mkDecl %s %s" % (cq_nat(ids[v["name"]]), KIND[v["kind"]]) for v in case["vars"]])
    eqs = []
    for q in case["eqs"]:
        if q[0] == "eq":
            eqs.append("Eq (%s) (%s)" % (enc_expr(q[1], ids), enc_expr(q[2], ids)))
        else:
            eqs.append("For %s %s %s" % (cq_nat(q[1]), cq_nat(q[2]),
                                         cq_list(["(%s, %s)" % (enc_expr(b[1], ids), enc_expr(b[2], ids)) for b in q[3]])))
    return "(mkModel %s %s %s)" % (decls, cq_list(eqs), cq_nat(BASE)), ids


def enc_point(pt, ids):
    vals = []
    for name, v in sorted(pt["vals"].items()):
        if name.startswith("_pymoca_delay_"):
            i = BASE + int(name[len("_pymoca_delay_"):])
        elif name in ids:
            i = ids[name]
        else:
            continue
        vals.append("(%s, %s)" % (cq_nat(i), cq_list([cq_Z(x) for x in v])))
    ders = ["(%s, %s)" % (cq_nat(ids[n]), cq_Z(x)) for n, x in sorted(pt["der"].items()) if n in ids]
    return "(mkEnv %s %s %s)" % (cq_Z(pt["time"]), cq_list(vals), cq_list(ders))


def has_offset(case):
    def walk(e):
        return (e[0] == "vi" and len(e) > 2) or any(walk(c) for c in children(e))
    return any(walk(l) or walk(r) for q in case["eqs"] for l, r in sides(q))


def modelled(case):
    o = case.get("options") or {}
    if has_offset(case):
        return False                                  # x[i-1] in a loop delay: oracle only
    if any(k not in ("cache", "expand_vectors") for k in o) or any(q[0] == "aeq" for q in case["eqs"]):
        return False
    # expand_vectors splits loop delays into scalar delay states: same values, other output layout
    return not (o.get("expand_vectors") and any(q[0] == "for" for q in case["eqs"]))


SIMP_KEYS = {"replace_parameter_expressions": "rpe", "replace_constant_expressions": "rce",
             "eliminate_constant_assignments": "eca", "replace_parameter_values": "rpv", "replace_constant_values": "rcv",
             "eliminable_variable_expression": "eve", "detect_aliases": "da"}


def chain_modelled(case):
    """Option sets the simplify model (Model/C22_simplify.v) covers: the seven substitution steps (+ expand_mx),
    scalar models without for-equations / arrays / array-element references."""
    o = case.get("options") or {}
    if not o or any(k not in SIMP_KEYS and k != "expand_mx" for k in o):
        return False
    if any(q[0] != "eq" for q in case["eqs"]) or any(v["vec"] or v.get("mat") for v in case["vars"]):
        return False
    return all(v.get("bind") is None for v in case["vars"])


def encode_case(case, res):
    """-> Gallina term of type (model * list envd * obs) + (smodel * opts * list envd * obs) for check_any, or None
    when the observation has no model counterpart."""
    chain = chain_modelled(case)
    if not chain and (not modelled(case) or ((case.get("options") or {}).get("cache") and res.get("status") == "error")):
        return None                                   # array delays / cache-path errors / vector options: oracle only
    m, ids = enc_model(case)
    pts = cq_list([enc_point(p, ids) for p in case["points"]])
    if chain:
        if res.get("status") == "error":
            return None
        o = case["options"]
        vals = []
        for v in case["vars"]:
            if v["kind"] in ("const", "param"):
                ex = v["bind_expr"] if v.get("bind_expr") else ["num", v.get("value", 2)]
                vals.append("(%s, %s)" % (cq_nat(ids[v["name"]]), enc_expr(ex, ids)))
        elim = [cq_nat(ids[v["name"]]) for v in case["vars"] if v["name"].startswith("_")] \
            if o.get("eliminable_variable_expression") else []
        flags = " ".join("true" if o.get(k) else "false" for k in SIMP_KEYS)
        m = "mkSM %s %s %s, mkOpts %s" % (m, cq_list(vals), cq_list(elim), flags)
    st = res.get("status")
    if st == "rejected":
        ob = "ORej"
    elif st == "error":
        if not (res.get("exc") == "AssertionError" or
                (res.get("exc") == "RuntimeError" and "truth value" in res.get("msg", ""))):
            return None
        ob = "OGenErr"
    elif st == "accepted":
        if res.get("n_delay_arguments", 0) == 0:
            ob = "OAcc []" if True else ""
            ob = "(OAcc %s)" % cq_list(["[]" for _ in case["points"]])
        elif res["func"] is not None:
            ob = "OFuncFail"
        else:
            rows = []
            for vals in res["values"]:
                outs = []
                for o in vals:
                    if not all(isinstance(x, int) for x in o):
                        return None
                    outs.append(cq_list([cq_Z(x) for x in o]))
                rows.append(cq_list(outs))
            ob = "(OAcc %s)" % cq_list(rows)
    else:
        return None
    if chain:
        return "(inr (%s, %s, %s))" % (m, pts, ob)
    return "(inl (%s, %s, %s))" % (m, pts, ob)


# ---- generators -----------------------------------------------------------------------------------
N = 3
UNIVERSE = [("c1", "const", False), ("c2", "const", False), ("cv", "const", True),
            ("p1", "param", False), ("p2", "param", False), ("pv", "param", True),
            ("uf", "finput", False), ("ufv", "finput", True),
            ("u1", "input", False), ("uv", "input", True),
            ("x1", "plain", False), ("x2", "plain", False), ("a1", "plain", False), ("a2", "plain", False),
            ("av", "plain", True), ("bv", "plain", True)]
ALLOWED_SCALARS = ["c1", "c2", "p1", "p2", "q1", "uf"]
ALLOWED_VECS = ["cv", "pv", "ufv"]
BAD_VECS = ["uv", "av", "bv"]


EL_OK = [True]        # cache stream: no array elements in durations (known finding cache-duration-vector-element)


def leaf_allowed(rng, in_loop):
    x = rng.random()
    if not EL_OK[0] and x >= 0.70:
        x = 0.5
    if x < 0.15:
        return ["num", rng.choice([1, 2, 3, 5, -2])]
    if x < 0.70:
        return ["v", rng.choice(ALLOWED_SCALARS)]
    if x < 0.85 or not in_loop:
        return ["el", rng.choice(ALLOWED_VECS), rng.randint(1, N)]
    if x < 0.96:
        return ["vi", rng.choice(ALLOWED_VECS)]
    return ["i"]


BAD_KINDS = ["time", "state", "der", "alg", "input", "delay", "alg-el", "input-el", "loop-alg", "loop-input"]


def leaf_bad(rng, in_loop, kind=None, allow_delay=True):
    kind = kind or rng.choice(BAD_KINDS)
    if not EL_OK[0] and kind in ("alg-el", "input-el"):
        kind = kind[:-3]
    if kind in ("loop-alg", "loop-input") and not in_loop:
        kind = kind[5:]
    if kind == "delay" and not allow_delay:
        kind = "alg"
    if kind == "time":
        return ["time"]
    if kind == "state":
        return ["v", "x1"]
    if kind == "der":
        return ["der", rng.choice(["x1", "x2"])]
    if kind == "alg":
        return ["v", rng.choice(["a1", "a2"])]
    if kind == "input":
        return ["v", "u1"]
    if kind == "alg-el":
        return ["el", rng.choice(["av", "bv"]), rng.randint(1, N)]
    if kind == "input-el":
        return ["el", "uv", rng.randint(1, N)]
    if kind == "loop-alg":
        return ["vi", rng.choice(["av", "bv"])]
    if kind == "loop-input":
        return ["vi", "uv"]
    # the value of another delay as duration: a delayed-state input
    return ["delay", ["v", rng.choice(["x1", "a1", "p1"])], ["v", rng.choice(["p1", "c1"])]]


def combine(rng, leaves):
    e = leaves[0]
    for l in leaves[1:]:
        op = rng.choice(["add", "sub", "mul", "add", "mul"])
        e = [op, e, l] if rng.random() < 0.5 else [op, l, e]
        if rng.random() < 0.12:
            e = ["neg", e]
    return e


def gen_duration(rng, in_loop, want_bad, bad_kind=None, p_piece=0.25):
    for _ in range(50):
        leaves = [leaf_allowed(rng, in_loop) for _ in range(rng.randint(1, 3))]
        if want_bad:
            leaves.append(leaf_bad(rng, in_loop, bad_kind))
            rng.shuffle(leaves)
        elif rng.random() < 0.15:
            # a dependency that constant folding removes: leaf * 0 / (k - k) * leaf
            z = rng.choice([["num", 0], ["sub", ["num", 2], ["num", 2]], ["mul", ["num", 0], ["num", 3]]])
            b = leaf_bad(rng, in_loop, allow_delay=False)
            leaves.append(["mul", b, z] if rng.random() < 0.5 else ["mul", z, b])
            rng.shuffle(leaves)
        x = rng.random()
        if x < p_piece and len(leaves) >= 2:
            # piecewise duration: the LAST leaf after shuffling may be the bad one -> put one leaf in the condition
            rng.shuffle(leaves)
            c = leaves.pop()
            rest = combine(rng, leaves) if leaves else ["v", "p1"]
            y = rng.random()
            if y < 0.6:
                cond2 = rng.choice([["num", 1], ["num", 0], ["v", "p2"], ["v", "c1"]])
                e = ["if", rng.choice([">", "<", ">=", "<="]), c, cond2, rest, ["mul", ["num", 2], ["v", "p1"]]]
                if rng.random() < 0.4:
                    e = ["add", ["v", "c2"], e]
            elif y < 0.75:
                e = ["add", ["abs", c], rest]
            else:
                e = [rng.choice(["min", "max"]), c, rest] if rng.random() < 0.5 else [rng.choice(["min", "max"]), rest, c]
        else:
            e = combine(rng, leaves)
        if consistent(e):
            return e
    return ["v", "p1"]


def consistent(e):
    """Generator filter: exact dependency set == occurrence set after literal folding (so that CasADi's own,
    richer, simplifier cannot make a difference)."""
    recs, dly = collect_delays({"eqs": [["eq", ["num", 0], e]]})

    def pieces_ok(x):
        if x[0] == "if":
            if not atoms_of(poly(["sub", x[2], x[3]], dly)) or poly(x[4], dly) == poly(x[5], dly):
                return False
        return all(pieces_ok(c) for c in children(x))
    return dep_atoms(e, dly) == syn_atoms(e, dly)[0] and pieces_ok(e)


def gen_expr(rng, in_loop, indexed, p_vec=0.06):
    for _ in range(50):
        pool = []
        for _ in range(rng.randint(1, 3)):
            x = rng.random()
            if x < 0.12:
                pool.append(["num", rng.choice([2, 3, -1])])
            elif x < 0.45:
                pool.append(["v", rng.choice(["x1", "a1", "a2", "u1", "p1", "c1", "uf", "x2"])])
            elif x < 0.55 and (not indexed or rng.random() < p_vec):
                pool.append(["el", rng.choice(["av", "uv", "pv"]), rng.randint(1, N)])
            elif x < 0.62:
                pool.append(["time"])
            elif x < 0.70:
                pool.append(["der", "x1"])
            elif x < 0.80 and not in_loop:
                pool.append(["delay", ["v", rng.choice(["x1", "a1"])], ["v", rng.choice(["p1", "c2", "uf"])]])
            else:
                pool.append(["v", rng.choice(["a1", "x1"])])
        if indexed:
            pool.append(["vi", rng.choice(["av", "bv", "uv", "pv"])])
            if rng.random() < 0.3:
                pool.append(["vi", rng.choice(["av", "uv"])])
            if rng.random() < 0.15:
                pool.append(["i"])
            rng.shuffle(pool)
        e = combine(rng, pool)
        sa = syn_atoms(e, collect_delays({"eqs": [["eq", ["num", 0], e]]})[1])[0]
        if consistent(e) and sa and (not indexed or any(a[0] == "vi" for a in sa)):
            return e
    return ["vi", "av"] if indexed else ["v", "a1"]


def gen_points(rng, case, n_pts):
    """Integer valuations of what the equations mention (unused declarations stay 0 on both sides)."""
    recs, _ = collect_delays(case)
    used = used_names(case)
    pts = []
    for _ in range(n_pts):
        vals = {v["name"]: [rng.randint(-4, 5) for _ in range(v["mat"][0] * v["mat"][1] if v.get("mat") else N if v["vec"] else 1)]
                for v in case["vars"] if v["name"] in used}
        for k in range(len(recs)):
            vals["_pymoca_delay_%d" % k] = [rng.randint(-4, 5)]
        pts.append({"time": rng.randint(-3, 6), "vals": vals,
                    "shape": {v["name"]: v["mat"] for v in case["vars"] if v.get("mat")},
                    "der": {n: rng.randint(-4, 5) for n in sorted(der_names(case))}})
    return pts


def base_vars(rng):
    vs = [{"name": n, "kind": k, "vec": v, "bind": None} for n, k, v in UNIVERSE]
    vs.append({"name": "q1", "kind": "param", "vec": False, "bind": "2.0 * p1 + c1"})
    rng.shuffle(vs)
    return vs


def prune(rng, case, keep=0.15):
    """Declare only what the equations use (+ a few unused variables of random categories): parsing dominates."""
    used = used_names(case)
    vs = [v for v in case["vars"] if v["name"] in used or rng.random() < keep]
    names = {v["name"] for v in vs}
    if "q1" in names:
        vs += [v for v in case["vars"] if v["name"] in ("p1", "c1") and v["name"] not in names]
    case["vars"] = vs
    return case


def gen_model(rng, p_bad=0.22, p_loopdep=0.04, p_nohelper=0.04, kind="random", p_vec=0.06):
    vs = base_vars(rng)
    eqs = [["eq", ["der", "x1"], ["sub", ["v", "u1"], ["v", "x1"]]],
           ["eq", ["v", "a1"], ["add", ["v", "x1"], ["v", "c1"]]]]
    ny = 0
    n_items = rng.randint(1, 3)
    for _ in range(n_items):
        if rng.random() < 0.45:                                   # a for-loop with 1-2 delays
            lo = rng.randint(1, N)
            hi = rng.randint(lo, N)
            body, need = [], set()
            for _ in range(rng.randint(1, 2)):
                ny += 1
                yn = "yv%d" % ny
                vs.append({"name": yn, "kind": "plain", "vec": True, "bind": None})
                indexed = rng.random() < 0.8
                e = gen_expr(rng, True, indexed, p_vec=p_vec)
                if indexed and lo >= 2 and rng.random() < 0.12:
                    arr = rng.choice(["av", "uv"])
                    e2 = [rng.choice(["add", "sub"]), e, ["sub", ["vi", arr], ["vi", arr, -1]]]
                    e = e2 if consistent(e2) else e
                want_bad = rng.random() < p_bad
                if rng.random() < p_loopdep:                      # known-defect class: duration references i / v[i]
                    d = combine(rng, [leaf_allowed(rng, False), rng.choice([["vi", "pv"], ["vi", "ufv"], ["i"], ["vi", "av"], ["vi", "uv"]])])
                else:
                    d = gen_duration(rng, False, want_bad)        # loop-free duration
                rhs = ["delay", e, d]
                if rng.random() < 0.25:
                    rhs = ["add", ["mul", ["num", 2], rhs], ["vi", "av"]]
                body.append(["eq", ["vi", yn], rhs])
                _, dl = collect_delays({"eqs": [["eq", ["num", 0], e]]})
                for a in dep_atoms(e, dl):
                    if a[0] in ("v", "time", "der"):
                        need.add(a)
                    elif a[0] == "el":
                        need.add(("el", a[1], a[2]))
            if need and rng.random() >= p_nohelper:
                ny += 1
                hn = "hv%d" % ny
                vs.append({"name": hn, "kind": "plain", "vec": True, "bind": None})
                h = None
                for a in sorted(need):
                    h = list(a) if h is None else ["add", h, list(a)]
                pos = rng.randint(0, len(body))
                body.insert(pos, ["eq", ["vi", hn], h])
            eqs.append(["for", lo, hi, body])
        else:
            ny += 1
            yn = "y%d" % ny
            vs.append({"name": yn, "kind": "plain", "vec": False, "bind": None})
            e = gen_expr(rng, False, False)
            d = gen_duration(rng, False, rng.random() < p_bad)
            rhs = ["delay", e, d]
            x = rng.random()
            if x < 0.2:
                rhs = ["add", ["mul", ["num", 3], rhs], ["v", "a2"]]
            elif x < 0.3:
                rhs = ["sub", rhs, ["delay", ["v", "a2"], gen_duration(rng, False, False)]]
            elif x < 0.4:
                rhs = ["delay", rhs, gen_duration(rng, False, rng.random() < p_bad)]     # delay of a delayed value
            eqs.append(["eq", ["v", yn], rhs])
    head, tail = eqs[:2], eqs[2:]
    rng.shuffle(tail)
    case = prune(rng, {"N": N, "vars": vs, "eqs": head + tail, "kind": kind})
    case["points"] = gen_points(rng, case, 1)
    return case


OPTION_SETS = [{"expand_vectors": True}, {"detect_aliases": True}, {"expand_vectors": True, "detect_aliases": True}]
ALIAS_RHS = [["v", "p1"], ["v", "c1"], ["v", "uf"], ["v", "u1"], ["v", "x1"], ["v", "a1"], ["el", "pv", 2], ["el", "cv", 3],
             ["el", "ufv", 1], ["el", "uv", 2], ["el", "av", 1], ["neg", ["v", "p2"]], ["neg", ["v", "u1"]],
             ["mul", ["num", 2], ["v", "p1"]]]
ONLY_DUR = [["el", "pv", 1], ["el", "pv", 3], ["el", "cv", 2], ["el", "ufv", 2], ["el", "ufv", 3], ["el", "uv", 1],
            ["el", "uv", 3], ["el", "av", 2], ["el", "bv", 3], ["v", "d1"], ["v", "d2"], ["v", "p2"], ["v", "uf"], ["num", 3]]


def gen_option_case(rng, options=None, forced=None):
    """Non-default simplification options.  No for-loops; array elements and alias variables (d = u, d = p, ...)
    that occur ONLY in durations; delayed expressions mostly over scalars that no simplification step touches."""
    options = dict(options if options is not None else rng.choice(OPTION_SETS))
    vs = base_vars(rng) + [{"name": n, "kind": "plain", "vec": False, "bind": None} for n in ("d1", "d2")]
    aliases = {"d1": rng.choice(ALIAS_RHS), "d2": rng.choice(ALIAS_RHS)}
    if forced:
        aliases["d1"] = forced[1]
    eqs = [["eq", ["der", "x1"], ["sub", ["v", "u1"], ["v", "x1"]]],
           ["eq", ["v", "a1"], ["add", ["v", "x1"], ["v", "c1"]]]]
    items = []
    scalar_only = rng.random() < 0.7
    for k in range(1 if forced else rng.randint(1, 3)):
        yn = "y%d" % (k + 1)
        vs.append({"name": yn, "kind": "plain", "vec": False, "bind": None})
        for _ in range(30):
            if scalar_only:
                e = combine(rng, [["v", rng.choice(["x1", "a1", "u1", "p1", "x2", "a2"])] for _ in range(rng.randint(1, 2))])
            else:
                e = gen_expr(rng, False, False)
            leaves = [json.loads(json.dumps(rng.choice(ONLY_DUR))) for _ in range(rng.randint(1, 2))]
            d = combine(rng, leaves) if not forced else json.loads(json.dumps(forced[0]))
            if rng.random() < 0.15 and not forced:
                d = ["if", rng.choice([">", "<="]), d, ["num", 1], ["v", "p1"], ["mul", ["num", 2], ["v", "p1"]]]
            if consistent(e) and consistent(d) and dep_atoms(e, collect_delays({"eqs": [["eq", ["num", 0], e]]})[1]):
                break
        rhs = ["delay", e, d]
        if rng.random() < 0.3:
            rhs = ["add", ["mul", ["num", 2], rhs], ["v", "a2"]]
        items.append(["eq", ["v", yn], rhs])
    used = set()
    for q in items:
        used |= used_names({"eqs": [q]})
    al_eqs = [["eq", ["v", d], json.loads(json.dumps(aliases[d]))] for d in ("d1", "d2") if d in used]
    case = {"N": N, "vars": vs, "eqs": eqs + al_eqs + items, "kind": "options", "options": options,
            "aliases": {d: aliases[d] for d in ("d1", "d2") if d in used}}
    prune(rng, case, keep=0.05)
    case["points"] = gen_points(rng, case, 1)
    return case


def option_table(rng):
    """Finite part of the option stream: each option set x (duration over one array element / alias of each category)."""
    out = []
    for o in OPTION_SETS:
        for d in (["el", "pv", 2], ["el", "cv", 1], ["el", "ufv", 3], ["el", "uv", 2], ["el", "av", 1]):
            out.append(gen_option_case(rng, o, forced=(d, ["v", "p1"])))
        for r in ALIAS_RHS:
            out.append(gen_option_case(rng, o, forced=(["v", "d1"], r)))
    return out


def gen_array_case(rng, options=None):
    """Delays of whole 2-D arrays and vectors (plus a scalar delay and sometimes a for-loop delay), mostly under
    expand_vectors with / without expand_mx: every delay state must carry ITS element of the delayed expression."""
    if options is None:
        options = rng.choice([{"expand_vectors": True}, {"expand_vectors": True, "expand_mx": True},
                              {"expand_vectors": True}, {}])
    vs = base_vars(rng)
    eqs = [["eq", ["der", "x1"], ["sub", ["v", "u1"], ["v", "x1"]]],
           ["eq", ["v", "a1"], ["add", ["v", "x1"], ["v", "c1"]]]]
    items = []
    good = lambda: gen_duration(rng, False, rng.random() < 0.12, p_piece=0.1)     # noqa: E731
    scal = lambda: rng.choice([["num", 2], ["num", 3], ["v", "p1"], ["v", "c1"], ["neg", ["v", "p2"]], ["v", "x1"]])  # noqa: E731
    for k in range(rng.randint(1, 2)):
        sh = rng.choice([[2, 3], [3, 2], [2, 2], [3, 3]])
        names = ["A%d" % k, "B%d" % k, "Y%d" % k]
        for nm in names:
            vs.append({"name": nm, "kind": "plain", "vec": False, "mat": sh, "bind": None})
        x = rng.random()
        a = ["arr", names[0]] if x < 0.2 else ["smul", scal(), ["arr", names[0]]] if x < 0.6 else \
            ["aadd", ["smul", scal(), ["arr", names[0]]], ["arr", names[1]]]
        items.append(["aeq", names[2], ["delay", a, good()]])
    if rng.random() < 0.7:                                            # a delayed vector
        vs.append({"name": "W1", "kind": "plain", "vec": True, "bind": None})
        a = rng.choice([["arr", "av"], ["smul", scal(), ["arr", "uv"]], ["aadd", ["arr", "av"], ["smul", scal(), ["arr", "pv"]]]])
        items.append(["aeq", "W1", ["delay", a, good()]])
    if rng.random() < 0.7:                                            # a scalar delay
        vs.append({"name": "y1", "kind": "plain", "vec": False, "bind": None})
        items.append(["eq", ["v", "y1"], ["delay", gen_expr(rng, False, False), good()]])
    if rng.random() < 0.5:                                            # a for-loop delay (with helper equation)
        for nm in ("yv1", "hv1"):
            vs.append({"name": nm, "kind": "plain", "vec": True, "bind": None})
        lo = rng.randint(1, 2)
        items.append(["for", lo, rng.randint(lo + 1, 3),
                      [["eq", ["vi", "hv1"], ["mul", ["vi", "uv"], ["v", "p2"]]],
                       ["eq", ["vi", "yv1"], ["delay", ["mul", ["mul", ["num", 3], ["vi", rng.choice(["av", "bv"])]], ["v", "p2"]], good()]]]])
    rng.shuffle(items)
    case = prune(rng, {"N": N, "vars": vs, "eqs": eqs + items, "kind": "array", "options": dict(options)}, keep=0.05)
    case["points"] = gen_points(rng, case, 1)
    return case


def cache_cases(rng, n_random):
    """cache stream: the same folder is transferred 2 or 3 times with {"cache": True}: a rejected model must be
    rejected again on the cache path, an accepted one must hand back the same arguments from the cache."""
    out = []
    tab = category_cases(rng)
    for j, c in enumerate(tab):
        if j % 6 == (0 if c["kind"].startswith("table:outside") else 5):
            out.append(c)
    EL_OK[0] = False
    try:
        for _ in range(n_random):
            out.append(gen_model(rng, p_bad=0.4, p_loopdep=0.0, p_nohelper=0.0, p_vec=0.0))
    finally:
        EL_OK[0] = True
    for j, c in enumerate(out):
        for v in c["vars"]:
            v["bind"] = None          # a parameter bound to a constant breaks save_model's metadata function (not C22)
        c["kind"] = "cache:" + c["kind"].split(":")[0]
        c["options"] = {"cache": True}
        c["calls"] = 2 + (j % 3 == 0)
    return out


SIMP = {"RPE": {"replace_parameter_expressions": True}, "RCE": {"replace_constant_expressions": True},
        "RPV": {"replace_parameter_values": True}, "RCV": {"replace_constant_values": True},
        "EVE": {"eliminable_variable_expression": "_\\w+", "expand_mx": True}, "DA": {"detect_aliases": True},
        "ECA": {"eliminate_constant_assignments": True}}
SIMP_SETS = [("EVE", "DA"), ("RPE", "RCV"), ("RPE", "RCE"), ("RCE", "RCV"), ("ECA", "RCV"), ("DA", "ECA"), ("EVE", "ECA"),
             ("RPE", "DA"), ("RCV", "DA"), ("RCV", "EVE"), ("RPE", "EVE"), ("RPV", "RCV"), ("RPE", "RPV"),
             ("EVE", "DA", "ECA"), ("RPE", "RCE", "RCV"), ("EVE", "DA", "RCV"), ("EVE", "DA", "RPE"), ("RPE", "RCV", "DA"),
             ("RCE", "RCV", "ECA"), ("EVE", "DA", "RPV"), ("RPE", "RCE", "EVE")]


def gen_chain_case(rng, names=None, dur=None, target=None):
    """Two / three cooperating simplification options on a model whose durations and delayed expressions go
    through chains: parameter defined by an expression in a constant and parameters (q1 = c1*p1, q2 = q1 + p2),
    constant expression k1, alias chain w2 = w1 = target, eliminable _e1 = 2*w1 (+ ...), _e2 = 3*_e1,
    constant assignment z1 = literal.  Constants / parameters are evaluated at their declared values."""
    names = names or rng.choice(SIMP_SETS)
    options = {}
    for nme in names:
        options.update(SIMP[nme])
    val = {"c1": rng.randint(2, 4), "p1": rng.randint(2, 5), "p2": rng.randint(1, 3)}
    k1 = rng.choice([["mul", ["num", 2], ["v", "c1"]], ["add", ["v", "c1"], ["num", 1]]])
    q1 = rng.choice([["mul", ["v", "c1"], ["v", "p1"]], ["add", ["v", "k1"], ["v", "p1"]], ["mul", ["num", 2], ["v", "p1"]]])
    q2 = rng.choice([["add", ["v", "q1"], ["v", "p2"]], ["mul", ["v", "q1"], ["v", "c1"]]])
    V = lambda n, k, **kw: dict({"name": n, "kind": k, "vec": False, "bind": None}, **kw)    # noqa: E731
    vs = [V("c1", "const", value=val["c1"]), V("k1", "const", bind_expr=k1), V("p1", "param", value=val["p1"]),
          V("p2", "param", value=val["p2"]), V("q1", "param", bind_expr=q1), V("q2", "param", bind_expr=q2),
          V("uf", "finput"), V("u1", "input")] + [V(n, "plain") for n in ("x1", "a1", "w1", "w2", "_e1", "_e2", "z1")]
    rng.shuffle(vs)
    # an alias of a parameter / constant stops being one when its value or expression is substituted first
    subst = any(n in names for n in ("RPE", "RCE", "RPV", "RCV"))
    targets = [["v", "uf"], ["v", "u1"], ["v", "x1"], ["v", "a1"], ["neg", ["v", "uf"]]]
    if not subst or rng.random() < 0.5:
        targets += [["v", "p1"], ["v", "c1"], ["v", "p2"], ["neg", ["v", "p1"]], ["v", "p1"], ["v", "q1"], ["v", "k1"]]
    target = target or rng.choice(targets)
    zlit = rng.randint(1, 6)
    e1 = rng.choice([["mul", ["num", 2], ["v", "w1"]], ["add", ["v", "w2"], ["v", "uf"]], ["add", ["mul", ["num", 2], ["v", "w1"]], ["v", "p2"]]])
    aliases = {"w1": target, "w2": ["v", "w1"]}
    elim = {"_e1": e1, "_e2": ["mul", ["num", 3], ["v", "_e1"]]}
    eqs = [["eq", ["der", "x1"], ["sub", ["v", "u1"], ["v", "x1"]]],
           ["eq", ["v", "a1"], ["add", ["v", "x1"], ["v", "c1"]]]]
    good = [["v", "q1"], ["v", "q2"], ["v", "k1"], ["v", "c1"], ["v", "p1"], ["v", "uf"], ["v", "z1"], ["num", 2]]
    chain = [["v", "w1"], ["v", "w2"], ["v", "_e1"], ["v", "_e2"], ["v", "z1"], ["v", "q2"], ["v", "q1"]]
    items = []
    for k in range(1 if dur else rng.randint(1, 2)):
        yn = "y%d" % (k + 1)
        vs.append(V(yn, "plain"))
        for _ in range(30):
            d = json.loads(json.dumps(dur)) if dur else combine(rng, [json.loads(json.dumps(rng.choice(chain if rng.random() < 0.6 else good)))
                                                                     for _ in range(rng.randint(1, 2))])
            e = combine(rng, [json.loads(json.dumps(rng.choice([["v", "x1"], ["v", "a1"], ["v", "u1"], ["v", "w2"], ["v", "_e1"],
                                                                  ["v", "q1"], ["v", "k1"], ["v", "x1"]])))
                              for _ in range(rng.randint(1, 2))])
            probe = {"eqs": [["eq", ["num", 0], ["delay", e, d]]], "aliases": aliases, "eliminable": elim,
                     "options": {"detect_aliases": True, "eliminable_variable_expression": "x"}}
            rq = resolved(probe)["eqs"][0][2]
            if consistent(d) and consistent(e) and consistent(rq[1]) and consistent(rq[2]) and \
                    dep_atoms(rq[1], collect_delays({"eqs": [["eq", ["num", 0], rq[1]]]})[1]):
                break
        items.append(["eq", ["v", yn], ["add", ["mul", ["num", 2], ["delay", e, d]], ["v", "a1"]]
                      if rng.random() < 0.3 else ["delay", e, d]])
    used = set()
    for q in items:
        used |= used_names({"eqs": [q]})
    defs = []
    if "_e2" in used:
        used.add("_e1")
    if "_e1" in used:
        defs.append(["eq", ["v", "_e1"], e1])
        used |= used_names({"eqs": [["eq", ["num", 0], e1]]})
    if "_e2" in used:
        defs.append(["eq", ["v", "_e2"], elim["_e2"]])
    if "w2" in used:
        defs.append(["eq", ["v", "w2"], ["v", "w1"]])
        used.add("w1")
    if "w1" in used:
        defs.insert(0, ["eq", ["v", "w1"], target])
    if "z1" in used:
        defs.append(["eq", ["v", "z1"], ["num", zlit]])
    rng.shuffle(defs)
    case = {"N": N, "vars": vs, "eqs": eqs + defs + items, "kind": "chain:" + "+".join(names), "options": options,
            "aliases": {k_: v_ for k_, v_ in aliases.items() if k_ in used},
            "eliminable": {k_: v_ for k_, v_ in elim.items() if k_ in used}, "eca": {"z1": zlit}}
    un = used_names(case)
    for nm, ex in (("q2", q2), ("q1", q1), ("k1", k1)):              # keep what the kept bindings need
        if nm in un:
            un |= used_names({"eqs": [["eq", ["num", 0], ex]]})
    case["vars"] = [v for v in vs if v["name"] in un]
    case["points"] = gen_points(rng, case, 1)
    # constants / parameters at their declared (resolved) values, z1 at its literal
    for pt in case["points"]:
        pt["vals"].update({n: [x] for n, x in val.items()})
        env = {"vals": dict({n: [x] for n, x in val.items()}), "time": 0, "der": {}}
        for nm, ex in (("k1", k1), ("q1", q1), ("q2", q2)):
            env["vals"][nm] = [int(evaluate(ex, env, {}))]
            pt["vals"][nm] = env["vals"][nm]
        if "z1" in pt["vals"]:
            pt["vals"]["z1"] = [zlit]
    return case


def chain_table(rng):
    out = []
    for names in SIMP_SETS:
        for d, t in ((["v", "_e1"], None), (["add", ["v", "q2"], ["v", "z1"]], None)):
            out.append(gen_chain_case(rng, names, dur=d, target=t))
    out.append(gen_chain_case(rng, ("EVE", "DA"), dur=["v", "_e1"], target=["v", "x1"]))      # the seeded shapes
    out.append(gen_chain_case(rng, ("RPE", "RCV"), dur=["v", "q1"]))
    return out


def category_cases(rng):
    """Finite table: one delay whose duration draws on exactly one category, outside and inside a for-loop."""
    durs = [("constant", ["v", "c1"]), ("parameter", ["v", "p1"]), ("bound parameter", ["v", "q1"]),
            ("parameter expression", ["add", ["mul", ["v", "p1"], ["num", 2]], ["v", "c2"]]),
            ("literal", ["num", 5]), ("fixed input", ["v", "uf"]), ("fixed input element", ["el", "ufv", 2]),
            ("parameter element", ["el", "pv", 3]), ("constant element", ["el", "cv", 1]),
            ("fixed input * parameter", ["mul", ["v", "uf"], ["v", "p2"]]),
            ("input", ["v", "u1"]), ("input element", ["el", "uv", 1]), ("state", ["v", "x1"]),
            ("derivative", ["der", "x1"]), ("derivative of otherwise plain variable", ["der", "x2"]),
            ("algebraic", ["v", "a1"]), ("algebraic element", ["el", "av", 2]), ("time", ["time"]),
            ("delayed value", ["delay", ["v", "x1"], ["v", "p1"]]),
            ("parameter + algebraic*0", ["add", ["v", "p1"], ["mul", ["v", "a1"], ["num", 0]]]),
            ("parameter + 0*time", ["add", ["v", "p1"], ["mul", ["num", 0], ["time"]]]),
            ("parameter + input", ["add", ["v", "p1"], ["v", "u1"]]),
            ("state * constant", ["mul", ["v", "x1"], ["v", "c1"]]),
            ("negated parameter", ["neg", ["v", "p1"]])]
    two_p = ["mul", ["num", 2], ["v", "p1"]]
    for lab, leaf in (("constant", ["v", "c1"]), ("parameter", ["v", "p2"]), ("fixed input", ["v", "uf"]),
                      ("fixed input element", ["el", "ufv", 1]), ("input", ["v", "u1"]), ("input element", ["el", "uv", 3]),
                      ("state", ["v", "x1"]), ("derivative", ["der", "x1"]), ("algebraic", ["v", "a1"]),
                      ("algebraic element", ["el", "av", 1]), ("time", ["time"]),
                      ("delayed value", ["delay", ["v", "x1"], ["v", "p1"]])):
        rel = {"constant": ">", "parameter": "<", "input": ">=", "state": "<=", "time": "<"}.get(lab, ">")
        durs.append(("if-condition on " + lab, ["if", rel, leaf, ["num", 1], ["v", "p1"], two_p]))
    durs += [("if-condition parameter, branch state", ["if", ">", ["v", "p2"], ["num", 1], ["v", "x1"], ["v", "p1"]]),
             ("if-condition time vs constant, constant branches", ["if", ">", ["time"], ["v", "c1"], ["num", 1], ["num", 2]]),
             ("c + if-condition on input", ["add", ["v", "c2"], ["if", ">", ["v", "u1"], ["num", 0], ["num", 1], ["num", 2]]]),
             ("abs(input) + parameter", ["add", ["abs", ["v", "u1"]], ["v", "p1"]]),
             ("abs(parameter)", ["abs", ["v", "p1"]]),
             ("min(parameter, state)", ["min", ["v", "p1"], ["v", "x1"]]),
             ("max(fixed input, parameter)", ["max", ["v", "uf"], ["v", "p1"]]),
             ("min(time, constant)", ["min", ["time"], ["v", "c1"]])]
    out = []
    for label, d in durs:
        for where in ("outside", "loop"):
            vs = base_vars(rng)
            eqs = [["eq", ["der", "x1"], ["sub", ["v", "u1"], ["v", "x1"]]],
                   ["eq", ["v", "a1"], ["add", ["v", "x1"], ["v", "c1"]]]]
            if where == "outside":
                vs.append({"name": "y1", "kind": "plain", "vec": False, "bind": None})
                eqs.append(["eq", ["v", "y1"], ["delay", ["mul", ["v", "a1"], ["v", "p2"]], d]])
            else:
                vs.append({"name": "yv1", "kind": "plain", "vec": True, "bind": None})
                vs.append({"name": "hv1", "kind": "plain", "vec": True, "bind": None})
                eqs.append(["for", 2, 3, [["eq", ["vi", "hv1"], ["mul", ["vi", "uv"], ["v", "p2"]]],
                                          ["eq", ["vi", "yv1"], ["delay", ["mul", ["mul", ["num", 3], ["vi", "av"]], ["v", "p2"]], d]]]])
            # a second, harmless delay before or after, so that "any number of delays" is exercised
            vs.append({"name": "y9", "kind": "plain", "vec": False, "bind": None})
            extra = ["eq", ["v", "y9"], ["delay", ["v", "x1"], ["num", 1]]]
            if rng.random() < 0.5:
                eqs.insert(2, extra)
            else:
                eqs.append(extra)
            case = prune(rng, {"N": N, "vars": vs, "eqs": eqs, "kind": "table:%s:%s" % (where, label)}, keep=0.1)
            case["points"] = gen_points(rng, case, 2)
            out.append(case)
    return out


def offset_cases(rng):
    """for-loop delays whose delayed expression uses ONE array with two index expressions."""
    out = []
    for lo, hi, e in ((2, 3, ["sub", ["vi", "av"], ["vi", "av", -1]]), (2, 3, ["mul", ["vi", "av", -1], ["vi", "av"]]),
                      (1, 2, ["add", ["vi", "av", 1], ["vi", "av"]]),
                      (2, 3, ["add", ["mul", ["v", "p2"], ["sub", ["vi", "uv"], ["vi", "uv", -1]]], ["vi", "av"]]),
                      (2, 2, ["sub", ["vi", "av", 1], ["vi", "av", -1]])):
        vs = base_vars(rng) + [{"name": n, "kind": "plain", "vec": True, "bind": None} for n in ("yv1", "hv1")]
        c = {"N": N, "vars": vs, "kind": "table:loop:two index expressions",
             "eqs": [["eq", ["der", "x1"], ["sub", ["v", "u1"], ["v", "x1"]]],
                     ["for", lo, hi, [["eq", ["vi", "hv1"], ["mul", ["vi", "uv"], ["v", "p2"]]],
                                      ["eq", ["vi", "yv1"], ["delay", e, rng.choice([["v", "p1"], ["v", "uf"], ["num", 2]])]]]]]}
        prune(rng, c, keep=0.05)
        c["points"] = gen_points(rng, c, 2)
        out.append(c)
    return out


RAE_SETS = [{"reduce_affine_expression": True}, {"reduce_affine_expression": True, "expand_mx": True},
            {"reduce_affine_expression": True, "detect_aliases": True}]


def rae_cases(rng):
    """reject stream under reduce_affine_expression: every must-reject duration of the table (outside loops) with
    one of the RAE option sets, plus a few accepted ones.  A must-reject model is rejected under EVERY option set."""
    out, k = [], 0
    for c in category_cases(rng):
        if not c["kind"].startswith("table:outside"):
            continue
        rej = bool(analyse(c)["reject_because"])
        if rej or k % 5 == 0:
            c["options"] = dict(RAE_SETS[k % 3])
            c["kind"] = "rae:" + c["kind"].split(":", 2)[2]
            for v in c["vars"]:
                v["bind"] = None
            out.append(c)
        k += 1
    return out


def corpus_cases(rng):
    """test/models/Delay.mo and DelayForLoop.mo re-expressed in the case language + no-delay model."""
    out = []
    vs = base_vars(rng) + [{"name": n, "kind": "plain", "vec": False, "bind": None} for n in ("y1", "y2")]
    c = {"N": N, "vars": vs, "kind": "corpus:Delay",
         "eqs": [["eq", ["v", "y1"], ["delay", ["v", "a1"], ["mul", ["num", 6], ["v", "p1"]]]],
                 ["eq", ["v", "y2"], ["delay", ["v", "a1"], ["num", 3600]]]]}
    c["points"] = gen_points(rng, c, 2)
    out.append(c)
    vs = base_vars(rng) + [{"name": n, "kind": "plain", "vec": True, "bind": None} for n in ("xv", "yv")]
    c = {"N": N, "vars": vs, "kind": "corpus:DelayForLoop",
         "eqs": [["for", 2, 3, [["eq", ["vi", "xv"], ["mul", ["mul", ["num", 5], ["vi", "uv"]], ["v", "p1"]]],
                                ["eq", ["vi", "yv"], ["delay", ["mul", ["mul", ["num", 3], ["vi", "av"]], ["v", "p1"]], ["v", "uf"]]]]]]}
    c["points"] = gen_points(rng, c, 2)
    out.append(c)
    c = {"N": N, "vars": base_vars(rng), "kind": "corpus:no-delay",
         "eqs": [["eq", ["der", "x1"], ["v", "u1"]], ["eq", ["v", "a1"], ["time"]]]}
    c["points"] = gen_points(rng, c, 1)
    out.append(c)
    return out


def known_cases():
    rng = __import__("random").Random(22)
    out = {}
    for tag, d, e in ((TAG_ACCEPT, ["vi", "av"], ["mul", ["vi", "av"], ["v", "p2"]]),
                      (TAG_FUNC, ["vi", "pv"], ["mul", ["vi", "av"], ["v", "p2"]])):
        vs = base_vars(rng) + [{"name": n, "kind": "plain", "vec": True, "bind": None} for n in ("yv1", "hv1")]
        c = {"N": N, "vars": vs, "kind": "known",
             "eqs": [["for", 2, 3, [["eq", ["vi", "hv1"], ["mul", ["vi", "uv"], ["v", "p2"]]],
                                    ["eq", ["vi", "yv1"], ["delay", e, d]]]]]}
        c["points"] = gen_points(rng, c, 1)
        out[tag] = c
    vs = base_vars(rng) + [{"name": "yv1", "kind": "plain", "vec": True, "bind": None}]
    c = {"N": N, "vars": vs, "kind": "known",
         "eqs": [["for", 2, 3, [["eq", ["vi", "yv1"], ["delay", ["mul", ["vi", "av"], ["v", "p2"]], ["v", "p1"]]]]]]}
    c["points"] = gen_points(rng, c, 1)
    out[TAG_ASSERT] = c
    vs = base_vars(rng) + [{"name": n, "kind": "plain", "vec": True, "bind": None} for n in ("yv1", "hv1")]
    c = {"N": N, "vars": vs, "kind": "known",
         "eqs": [["for", 2, 3, [["eq", ["vi", "hv1"], ["add", ["el", "pv", 2], ["v", "p2"]]],
                                ["eq", ["vi", "yv1"], ["delay", ["mul", ["vi", "av"], ["el", "pv", 2]], ["v", "p1"]]]]]]}
    c["points"] = gen_points(rng, c, 1)
    out[TAG_VEC] = c
    vs = base_vars(rng) + [{"name": "y1", "kind": "plain", "vec": False, "bind": None}]
    c = {"N": N, "vars": vs, "kind": "known", "options": {"cache": True},
         "eqs": [["eq", ["der", "x1"], ["sub", ["v", "u1"], ["v", "x1"]]],
                 ["eq", ["v", "y1"], ["delay", ["v", "x1"], ["el", "pv", 2]]]]}
    c["points"] = gen_points(rng, c, 1)
    out[TAG_CACHEVEC] = c
    for c in out.values():
        prune(rng, c, keep=0.0)
    vs = [{"name": n, "kind": k, "vec": False, "bind": None} for n, k in (("p1", "param"), ("u1", "input"), ("x1", "plain"), ("y1", "plain"))]
    c = {"N": N, "vars": vs, "kind": "known", "options": {"replace_parameter_values": True},
         "eqs": [["eq", ["der", "x1"], ["sub", ["v", "u1"], ["v", "x1"]]],
                 ["eq", ["v", "y1"], ["delay", ["v", "x1"], ["v", "p1"]]]]}
    c["points"] = gen_points(rng, c, 1)
    for pt in c["points"]:
        pt["vals"]["p1"] = [2]
    out[TAG_RPV] = c
    vs = [{"name": n, "kind": k, "vec": False, "bind": None} for n, k in (("p1", "param"), ("u1", "input"), ("x1", "plain"), ("y1", "plain"))]
    c = {"N": N, "vars": vs, "kind": "known", "options": {"reduce_affine_expression": True},
         "eqs": [["eq", ["der", "x1"], ["sub", ["v", "u1"], ["v", "x1"]]],
                 ["eq", ["v", "y1"], ["delay", ["mul", ["num", 5], ["v", "x1"]], ["v", "p1"]]]]}
    c["points"] = gen_points(rng, c, 1)
    out[TAG_RAE] = c
    return out


def malformed_case(rng):
    c = gen_model(rng, kind="malformed")
    c["malformed"] = True
    x = rng.random()
    if x < 0.4:
        c["eqs"].append(["eq", ["v", "a2"], ["delay", ["v", "undeclared_zz"], ["v", "p1"]]])
    elif x < 0.7:
        c["eqs"].append(["eq", ["v", "a2"], ["delay", ["v", "x1"], ["v", "undeclared_dur"]]])
    else:
        c["eqs"].append(["eq", ["v", "a2"], ["delay", ["v", "av"], ["v", "pv"]]])     # vector duration
    return c


# ---- the check --------------------------------------------------------------------------------------
def run_children(ctx, cases, workers=4):
    from concurrent.futures import ThreadPoolExecutor
    if len(cases) < 30:
        return core.run_child(ctx, "c22", cases, timeout=1500)
    step = (len(cases) + workers - 1) // workers
    chunks = [cases[i:i + step] for i in range(0, len(cases), step)]
    with ThreadPoolExecutor(max_workers=workers) as ex:
        parts = list(ex.map(lambda ch: core.run_child(ctx, "c22", ch, timeout=1500), chunks))
    return [r for p in parts for r in p]


def prepare(case):
    c = dict(case)
    c["text"] = to_text(case)
    return c


PREAMBLE = ("From Coq Require Import ZArith.\nFrom PV Require Import Model.C22_delay Model.C22_simplify.\n"
            "Import ListNotations.\n")


def run(ctx):
    t_props = time.time()
    core.check_props(ctx, "C22.v", THEOREMS)
    t_props = time.time() - t_props
    fps = {}
    for path, names in (("/src/pymoca/backends/casadi/model.py", {"_post_checks", "delay_arguments_function", "_symbols"}),
                        ("/src/pymoca/backends/casadi/generator.py", {"exitExpression", "exitForEquation", "ForLoop"}),
                        ("/src/pymoca/backends/casadi/api.py", {"_compile_model", "transfer_model"})):
        try:
            fps[path] = core.fingerprint(core.REPO + path, names)[0]
        except Exception as e:  # noqa
            fps[path] = "unreadable: %r" % e
    ctx.notes["source_fingerprint"] = fps

    cases = corpus_cases(ctx.rng) + category_cases(ctx.rng) + offset_cases(ctx.rng)
    n_fixed = len(cases)
    n_rand = ctx.scaled(100, 3000)
    for _ in range(n_rand):
        cases.append(gen_model(ctx.rng))
    cases += cache_cases(ctx.rng, ctx.scaled(14, 300))
    for _ in range(ctx.scaled(30, 600)):
        cases.append(gen_array_case(ctx.rng))
    cases += rae_cases(ctx.rng)
    cases += chain_table(ctx.rng)
    for _ in range(ctx.scaled(20, 800)):
        cases.append(gen_chain_case(ctx.rng))
    cases += option_table(ctx.rng)
    n_opt = ctx.scaled(25, 1200)
    for _ in range(n_opt):
        cases.append(gen_option_case(ctx.rng))
    for _ in range(ctx.scaled(8, 60)):
        cases.append(malformed_case(ctx.rng))
    cases = [prepare(c) for c in cases]
    t_child = time.time()
    results = run_children(ctx, cases)
    t_child = time.time() - t_child

    kinds, outcomes, cats = {}, {}, {}
    nontrivial = set()
    enc, idx = [], []
    n_del = 0
    for i, (c, r) in enumerate(zip(cases, results)):
        kk = c["kind"].split(":")[0] + (":" + c["kind"].split(":")[1] if c["kind"].startswith("table") else "")
        kinds[kk] = kinds.get(kk, 0) + 1
        if "crash" in r:
            core.violation(ctx, "impl-violation", {"input": c, "observed": r, "what": "child crashed"})
            continue
        st = r.get("status", "error")
        outcomes[st] = outcomes.get(st, 0) + 1
        v = judge(c, r)
        if v:
            core.report(ctx, v[0], v[1], {"input": c, "observed": r})
        if c.get("malformed"):
            continue
        info = analyse(c)
        n_del += info["n"]
        for x in info["reject_because"]:
            cats[x[2]] = cats.get(x[2], 0) + 1
        if info["n"] >= 1:
            nontrivial.add(c["text"])
        e = encode_case(c, r)
        if e is not None:
            enc.append(e)
            idx.append(i)
        elif not v and (modelled(c) or chain_modelled(c)) and r.get("status") != "error":
            core.violation(ctx, "impl-violation", {"input": c, "observed": r, "what": "observation has no model counterpart"})
    t_coq = time.time()
    bad = core.coq_eval_cases(ctx, "gen", PREAMBLE, "(model * list envd * obs) + (smodel * opts * list envd * obs)", enc,
                              "check_any", shard=48)
    t_coq = time.time() - t_coq
    ctx.notes["timing_s"] = {"props_recompile": round(t_props, 1), "implementation_children": round(t_child, 1), "coq_correspondence": round(t_coq, 1)}
    mism = list(range(len(enc))) if bad is None else bad
    ctx.oblige("correspondence:model-vs-transfer_model", not mism,
               "mismatching cases (indices into the case list): %s" % [idx[j] for j in mism[:10]])
    if mism and not ctx.violations:
        j = idx[mism[0]]
        core.violation(ctx, "correspondence-broken",
                       {"correspondence": "Model/C22_delay.v check_case vs transfer_model + delay_arguments_function",
                        "input": cases[j], "observed": results[j]}, no_input=True)

    known = core.load_known(ctx.pid)
    kcases = [prepare(e["replay"]["input"]) for e in known]
    kres = core.run_child(ctx, "c22", kcases) if kcases else []
    kverdict = {e["tag"]: judge(c, r) for e, c, r in zip(known, kcases, kres)}

    def still_fails(entry):
        v = kverdict.get(entry["tag"])
        return bool(v and v[0] == entry["tag"])
    core.replay_known(ctx, still_fails)

    ctx.cov["evaluations"] = len(cases)
    ctx.cov["distinct_nontrivial"] = len(nontrivial)
    ctx.cov["rule"] = ("%d fixed cases (3 corpus models + finite table: 24 duration shapes over every category x "
                       "{outside, inside a for-loop}) + %d random models (1-3 equations/loops with 1-2 delays each, "
                       "nested delays, delay of a delayed value, folded-away dependencies, loop-indexed durations, "
                       "loops with/without helper equation) + malformed; non-trivial = valid case with >= 1 delay, "
                       "distinct by text" % (n_fixed, n_rand))
    ctx.cov["samples"] = [cases[3]["text"], cases[n_fixed]["text"], cases[n_fixed + 1]["text"]]
    ctx.notes["input_distribution"] = {"kinds": kinds, "outcomes": outcomes, "delay_calls": n_del,
                                       "rejection_causes_by_category": cats, "encoded_for_coq": len(enc)}
    ctx.assumptions += [
        "default compiler options (no simplification); with simplification options an eliminated algebraic variable "
        "can turn into a parameter dependency before the check (observation, not claimed)",
        "'depends on' = occurrence of the symbol after constant folding; CasADi's own simplifier is richer than the "
        "model's norm (x - x, (a + p) - a ...), so the generator only emits durations / loop expressions whose exact "
        "polynomial dependency set equals the occurrence set after literal folding (x*0, 0*x, k op k)",
        "delayed expressions and durations are polynomial (+, -, *, unary -) over integer literals; valuations are "
        "small integers so float evaluation is exact",
        "inside for-loops: no delay call nested in the delayed expression of a loop delay; the loop index occurs in a "
        "delayed expression only together with an indexed variable",
    ]


def replay(ctx, path):
    rec = json.load(open(path))
    case = prepare(rec["input"])
    res = core.run_child(ctx, "c22", [case])[0]
    v = judge(case, res)
    print(case["text"])
    print("observed:", json.dumps(res)[:700])
    print("replay:", ("%s: %s" % v) if v else "property holds on this input")
    return 1 if v else 0
