"""C25 — ModelicaXML backend mirrors the flat model.

S1  element-constructor table read off generator.py by a fail-closed Python-ast probe, tied to the model's
    table inside coqc (run/C25/Tie_C25.v); the tie also says which of the two modelled variants of
    exitEquation (left operand moved / repaired) the source is.
S2  Props/C25.v (round trip unxml (gen c) = Some (norm c), injectivity, shape, refutation witness).
S3  generated Modelica models -> real generate() in a child -> (a) property oracle: an independent walk of
    the XML (parsed here with the stdlib expat parser) against the flat model the generator of the test
    case intended, (b) correspondence: Coq `gen` on the flat tree serialised from pymoca.tree.flatten
    equals the real output as a rose tree, and the Coq decoder run on the REAL output returns the
    normalised flat tree.
"""
import ast as pyast
import json
import os
import xml.etree.ElementTree as ET

from . import core
from .core import cq_bool, cq_list, cq_str

THEOREMS = ["C25_roundtrip", "C25_injective", "C25_class_shape", "C25_roundtrip_refuted", "C25_example"]
TAG_MOVED = "declaration-value-equation-left-operand-moved"
GEN_PY = "/src/pymoca/backends/xml/generator.py"
PREAMBLE = ("From Coq Require Import String List Bool.\nFrom PV Require Import Model.C25_xml.\n"
            "Import ListNotations.\nOpen Scope string_scope.\n")

# ---------------------------------------------------------------------------------------------
# S1: source probe (T10)
# ---------------------------------------------------------------------------------------------
EXPECTED_HANDLERS = ["exitClass", "exitClassModification", "exitComponentRef", "exitEquation", "exitExpression",
                     "exitFunction", "exitPrimary", "exitSymbol", "exitTree", "exitWhenEquation"]


def probe_source(path):
    """-> (rows, problems).  rows: [handler, [(tag, [(kw, const-or-None)])], [attrib keys], [[str lists]]]."""
    problems = []
    try:
        mod = pyast.parse(open(path).read())
    except (OSError, SyntaxError) as e:
        return [], ["cannot parse %s: %s" % (path, e)]
    classes = [n for n in mod.body if isinstance(n, pyast.ClassDef) and n.name == "XmlGenerator"]
    if len(classes) != 1:
        return [], ["class XmlGenerator not found exactly once"]
    e_alias = [n for n in mod.body if isinstance(n, pyast.Assign) and len(n.targets) == 1
               and isinstance(n.targets[0], pyast.Name) and n.targets[0].id == "E"]
    if len(e_alias) != 1 or pyast.dump(e_alias[0].value) != pyast.dump(pyast.parse("objectify.E").body[0].value):
        problems.append("module-level `E = objectify.E` not found")
    rows = []
    for fn in classes[0].body:
        if not isinstance(fn, pyast.FunctionDef):
            problems.append("unexpected class member %s" % type(fn).__name__)
            continue
        if fn.name == "__init__":
            continue
        if not fn.name.startswith("exit"):
            problems.append("handler %s is not an exit* handler (shape not recognised)" % fn.name)
            continue
        calls, keys, lists = [], [], []
        for node in pyast.walk(fn):
            if isinstance(node, pyast.Call):
                f = node.func
                if isinstance(f, pyast.Name) and f.id == "E":
                    if not node.args or not isinstance(node.args[0], pyast.Constant) or not isinstance(node.args[0].value, str):
                        problems.append("%s: E(...) with a non-constant tag" % fn.name)
                        continue
                    kws = []
                    for kw in node.keywords:
                        if kw.arg is None:
                            problems.append("%s: E(..., **kwargs)" % fn.name)
                            continue
                        v = kw.value.value if isinstance(kw.value, pyast.Constant) and isinstance(kw.value.value, str) else None
                        kws.append((kw.arg, v))
                    calls.append(((node.lineno, node.col_offset), node.args[0].value, kws))
                elif isinstance(f, pyast.Attribute) and f.attr in ("Element", "SubElement", "set", "insert", "remove",
                                                                  "replace", "addnext", "addprevious", "fromstring"):
                    problems.append("%s: call .%s(...) (shape not recognised)" % (fn.name, f.attr))
            elif isinstance(node, (pyast.Assign, pyast.AugAssign)):
                targets = node.targets if isinstance(node, pyast.Assign) else [node.target]
                for t in targets:
                    if isinstance(t, pyast.Subscript) and isinstance(t.value, pyast.Attribute) and t.value.attr == "attrib":
                        if isinstance(t.slice, pyast.Constant) and isinstance(t.slice.value, str):
                            keys.append(((node.lineno, node.col_offset), t.slice.value))
                        else:
                            problems.append("%s: .attrib[<non-constant>]" % fn.name)
                    elif isinstance(t, pyast.Attribute) and t.attr in ("text", "tail", "tag"):
                        problems.append("%s: assignment to .%s" % (fn.name, t.attr))
            elif isinstance(node, pyast.List) and node.elts and all(
                    isinstance(x, pyast.Constant) and isinstance(x.value, str) for x in node.elts):
                lists.append(((node.lineno, node.col_offset), [x.value for x in node.elts]))
        rows.append([fn.name, [(t, k) for _, t, k in sorted(calls, key=lambda c: c[0])],
                     [k for _, k in sorted(keys)], [l for _, l in sorted(lists, key=lambda c: c[0])]])
    rows.sort(key=lambda r: r[0])
    names = [r[0] for r in rows]
    if names != EXPECTED_HANDLERS:
        problems.append("handlers %s, expected %s" % (names, EXPECTED_HANDLERS))
    return rows, problems


def table_to_coq(rows):
    out = []
    for name, calls, keys, lists in rows:
        cs = cq_list(["(%s, %s)" % (cq_str(t), cq_list(["(%s, %s)" % (cq_str(k), "None" if v is None else "Some " + cq_str(v))
                                                        for k, v in kws])) for t, kws in calls])
        out.append("(%s, %s, %s, %s)" % (cq_str(name), cs, cq_list([cq_str(k) for k in keys]),
                                         cq_list([cq_list([cq_str(x) for x in l]) for l in lists])))
    return "Definition src_table : list handler_row :=\n  [ " + ";\n    ".join(out) + " ].\n"


def tie_table(ctx):
    """-> mv flag decided by the source (True / False) or None when the tie is broken."""
    path = core.REPO + GEN_PY
    rows, problems = probe_source(path)
    ctx.oblige("tie:T10-probe-shape-recognised", not problems, "; ".join(problems[:6]))
    text = (core.HEADER + PREAMBLE + table_to_coq(rows) +
            "Eval vm_compute in (table_eqb src_table (model_table true)).\n"
            "Eval vm_compute in (table_eqb src_table (model_table false)).\n")
    ok, out, err = core.coq_run(ctx, "Tie_C25", text, timeout=300)
    if not ok:
        ctx.oblige("tie:T10-table-equals-model-table", False, err[-800:])
        return None
    vals = core.coq_results(out)
    moved, fixed = (vals[-2] == "true"), (vals[-1] == "true")
    ctx.oblige("tie:T10-table-equals-model-table", moved != fixed,
               "source table matches neither model_table true nor model_table false" if not (moved or fixed) else "")
    ctx.notes["tie_table"] = {"handlers": len(rows), "constructors": sum(len(r[1]) for r in rows),
                              "variant": "moves_left_operand" if moved else ("repaired" if fixed else "unknown")}
    if moved == fixed:
        return None
    return moved


# ---------------------------------------------------------------------------------------------
# rose trees / the property oracle (independent of the Coq model and of pymoca)
# ---------------------------------------------------------------------------------------------
class NotMirrored(Exception):
    def __init__(self, tag, why):
        Exception.__init__(self, why)
        self.tag = tag
        self.why = why


def rose(el):
    for t in (el.text, el.tail):
        if t is not None and t.strip():
            raise NotMirrored("unexpected-text", "element <%s> carries text %r" % (el.tag, t.strip()[:40]))
    return [el.tag, [[k, v] for k, v in el.attrib.items()], [rose(c) for c in el]]


def parse_xml(text):
    """Well-formedness = the stdlib expat parser accepts the text."""
    try:
        return rose(ET.fromstring(text.encode("utf-8")))
    except ET.ParseError as e:
        raise NotMirrored("not-well-formed", "XML does not parse: %s" % e)


def unsupported(x):
    if isinstance(x, dict):
        if "unsupported" in x:
            return x["unsupported"]
        for v in x.values():
            u = unsupported(v)
            if u:
                return u
    elif isinstance(x, list):
        for v in x:
            u = unsupported(v)
            if u:
                return u
    return None


MODELICA_VARIABILITY = ("discrete", "parameter", "constant")


def _attrs(x):
    d = dict((k, v) for k, v in x[1])
    if len(d) != len(x[1]):
        raise NotMirrored("duplicate-attribute", "<%s> repeats an attribute" % x[0])
    return d


def m_expr(e, x, where):
    if "ref" in e:
        if x[0] != "local" or _attrs(x) != {"name": e["ref"]} or x[2]:
            raise NotMirrored("operand-mismatch", "%s: variable reference %s is rendered as %s" % (where, e["ref"], brief(x)))
    elif "lit" in e:
        if x[0] != "real" or _attrs(x) != {"value": e["lit"][1]} or x[2]:
            raise NotMirrored("operand-mismatch", "%s: literal %r is rendered as %s" % (where, e["lit"][1], brief(x)))
    else:
        n = len(e["args"])
        want = ("operator", {"name": e["op"]}) if n == 1 else ("apply", {"builtin": e["op"]})
        if x[0] != want[0] or _attrs(x) != want[1]:
            raise NotMirrored("operator-mismatch", "%s: %s with %d operand(s) is rendered as %s, expected <%s %s>"
                              % (where, e["op"], n, brief(x), want[0], want[1]))
        if len(x[2]) != n:
            raise NotMirrored("operand-count", "%s: %s has %d operands, XML has %d" % (where, e["op"], n, len(x[2])))
        for i, (a, c) in enumerate(zip(e["args"], x[2])):
            m_expr(a, c, "%s/%s[%d]" % (where, e["op"], i))


def brief(x):
    return "<%s %s> with %d child(ren)" % (x[0], dict((k, v) for k, v in x[1]), len(x[2]))


def m_eqn(q, x, where):
    if "eq" in q or "decl" in q:
        left = q["eq"][0] if "eq" in q else {"ref": q["decl"]}
        right = q["eq"][1] if "eq" in q else q["r"]
        if x[0] != "equal" or x[1]:
            raise NotMirrored("equation-mismatch", "%s: equation rendered as %s" % (where, brief(x)))
        if "decl" in q and len(x[2]) == 1:
            m_expr(right, x[2][0], where + "/rhs")       # something else wrong -> its own tag
            raise NotMirrored(TAG_MOVED, "%s: declaration equation %s = ... : <equal> holds only the right operand"
                              % (where, q["decl"]))
        if len(x[2]) != 2:
            raise NotMirrored("operand-count", "%s: <equal> has %d children" % (where, len(x[2])))
        m_expr(left, x[2][0], where + "/lhs")
        m_expr(right, x[2][1], where + "/rhs")
    elif "fun" in q:
        if x[0] != "apply" or _attrs(x) != {"builtin": q["fun"]}:
            raise NotMirrored("equation-mismatch", "%s: call equation %s rendered as %s" % (where, q["fun"], brief(x)))
        if len(x[2]) != len(q["args"]):
            raise NotMirrored("operand-count", "%s: %s(...) has %d arguments, XML has %d" % (where, q["fun"], len(q["args"]), len(x[2])))
        for i, (a, c) in enumerate(zip(q["args"], x[2])):
            m_expr(a, c, "%s/%s[%d]" % (where, q["fun"], i))
    elif "when" in q:
        ok = (x[0] == "when" and not x[1] and len(x[2]) == 2 and x[2][0][0] == "cond" and x[2][1][0] == "then"
              and not x[2][0][1] and not x[2][1][1] and len(x[2][0][2]) == 1)
        if not ok:
            raise NotMirrored("equation-mismatch", "%s: when-equation rendered as %s" % (where, brief(x)))
        m_expr(q["when"], x[2][0][2][0], where + "/cond")
        if len(x[2][1][2]) != len(q["body"]):
            raise NotMirrored("equation-count", "%s: when body has %d equations, XML has %d" % (where, len(q["body"]), len(x[2][1][2])))
        for i, (b, c) in enumerate(zip(q["body"], x[2][1][2])):
            m_eqn(b, c, "%s/then[%d]" % (where, i))
    else:
        raise NotMirrored("harness", "unknown equation kind %r" % (q,))


def m_component(s, x, where):
    a = _attrs(x)
    vs = [p for p in s["prefixes"] if p in MODELICA_VARIABILITY]
    want = {"name": s["name"]}
    if vs:
        want["variability"] = vs[0]
    if x[0] != "component" or a != want:
        raise NotMirrored("component-attributes", "%s: variable %s %s is rendered as %s, expected attributes %s"
                          % (where, s["prefixes"], s["name"], brief(x), want))
    kinds = [c[0] for c in x[2]]
    if sorted(kinds) != ["builtin", "modifier"]:
        raise NotMirrored("component-children", "%s: component %s has children %s" % (where, s["name"], kinds))
    b = x[2][kinds.index("builtin")]
    if _attrs(b) != {"name": s["type"]} or b[2]:
        raise NotMirrored("component-builtin", "%s: %s has type %s, XML says %s" % (where, s["name"], s["type"], brief(b)))
    m = x[2][kinds.index("modifier")]
    items = {}
    for it in m[2]:
        ia = _attrs(it)
        if it[0] != "item" or list(ia) != ["name"] or len(it[2]) != 1 or ia["name"] in items:
            raise NotMirrored("component-modifier", "%s: %s: modifier child %s" % (where, s["name"], brief(it)))
        items[ia["name"]] = it[2][0]
    for f in ("start", "value"):
        if s[f] is None:
            if f in items:
                raise NotMirrored("component-modifier", "%s: %s has no literal %s but XML has one" % (where, s["name"], f))
        else:
            if f not in items:
                raise NotMirrored("component-modifier", "%s: %s.%s = %r is missing" % (where, s["name"], f, s[f][1]))
            m_expr({"lit": s[f]}, items.pop(f), "%s/%s.%s" % (where, s["name"], f))
    if "fixed" in items:
        fx = items.pop("fixed")
        if fx != [("true" if s["fixed"] else "false"), [], []]:
            raise NotMirrored("component-modifier", "%s: %s.fixed=%s rendered as %s" % (where, s["name"], s["fixed"], brief(fx)))
    elif s["fixed"]:
        raise NotMirrored("component-modifier", "%s: %s.fixed=true is missing" % (where, s["name"]))
    if items:
        raise NotMirrored("component-modifier", "%s: %s has extra items %s" % (where, s["name"], sorted(items)))


def judge(flat, xml_text):
    """The property, on the implementation's output: well-formed; per flat class one classDefinition with one
    component per flat variable (name, builtin, variability, literal start/value, fixed) in order, and one
    <equation> with one element per flat equation, matching operator for operator, operand for operand, in
    order.  Returns None or (tag, why).  A declaration-value equation whose <equal> lost exactly its left
    operand gives TAG_MOVED, and only if nothing else is wrong."""
    moved = None
    try:
        root = parse_xml(xml_text)
        if root[0] != "modelica" or len(root[2]) != 1 or root[2][0][0] != "declarations":
            raise NotMirrored("skeleton", "root is %s" % brief(root))
        defs = root[2][0][2]
        if len(defs) != len(flat):
            raise NotMirrored("class-count", "%d classDefinition(s) for %d flat class(es)" % (len(defs), len(flat)))
        for c, d in zip(flat, defs):
            if d[0] != "classDefinition" or _attrs(d) != {"name": c["name"]} or len(d[2]) != 1 or d[2][0][0] != "class":
                raise NotMirrored("skeleton", "class %s rendered as %s" % (c["name"], brief(d)))
            kids = d[2][0][2]
            comps = [k for k in kids if k[0] == "component"]
            eqsec = [k for k in kids if k[0] == "equation"]
            if len(comps) + len(eqsec) != len(kids) or len(eqsec) != 1:
                raise NotMirrored("skeleton", "class %s has children %s" % (c["name"], [k[0] for k in kids]))
            if len(comps) != len(c["symbols"]):
                raise NotMirrored("component-count", "class %s: %d flat variables, %d <component>s (%s vs %s)" % (
                    c["name"], len(c["symbols"]), len(comps), [s["name"] for s in c["symbols"]],
                    [dict((k, v) for k, v in k_[1]).get("name") for k_ in comps]))
            for s, x in zip(c["symbols"], comps):
                m_component(s, x, c["name"])
            eqs = eqsec[0][2]
            if eqsec[0][1] or len(eqs) != len(c["equations"]):
                raise NotMirrored("equation-count", "class %s: %d flat equations, %d elements in <equation>" % (
                    c["name"], len(c["equations"]), len(eqs)))
            for i, (q, x) in enumerate(zip(c["equations"], eqs)):
                try:
                    m_eqn(q, x, "%s/equation[%d]" % (c["name"], i))
                except NotMirrored as e:
                    if e.tag != TAG_MOVED:
                        raise
                    moved = moved or e
    except NotMirrored as e:
        return (e.tag, e.why)
    if moved:
        return (moved.tag, moved.why)
    return None


# ---------------------------------------------------------------------------------------------
# generator of test models: an intended flat model + Modelica text that flattens to it
# ---------------------------------------------------------------------------------------------
REAL_LITS = ["0.5", "2.5", "1.0", "100.0", "1e-3", "1.5e10", "3", "0", "12", "2.50", "1e22", "0.1", "7.25e-2"]
INT_LITS = ["0", "1", "2", "7", "42", "1000"]
STR_LITS = ["q", "a b", "x<y", "a&b", "it's", "<tag>", "100%", "]]>", "a  b", " lead", "&amp;", "k=1;", ""]
FN1 = ["sin", "cos", "abs", "sqrt", "exp", "log", "tanh", "noEvent", "sign"]
FN2 = ["min", "max", "atan2", "mod", "smooth"]
FN3 = ["delay", "homotopy3"]
BIN = ["+", "-", "*", "/", "^"]
CMP = ["<", "<=", ">", ">=", "==", "<>"]


def lit_of(rng, ty):
    if ty == "Real":
        src = rng.choice(REAL_LITS)
        if src.isdigit():
            return src, {"lit": ["int", str(int(src))]}
        return src, {"lit": ["real", str(float(src))]}
    if ty == "Integer":
        src = rng.choice(INT_LITS)
        return src, {"lit": ["int", str(int(src))]}
    if ty == "Boolean":
        b = rng.random() < 0.5
        return ("true" if b else "false"), {"lit": ["bool", "True" if b else "False"]}
    s = rng.choice(STR_LITS)
    return '"%s"' % s, {"lit": ["str", s]}


class ExprGen:
    def __init__(self, rng, pools):
        self.rng = rng
        self.pools = pools      # type -> list of flat names usable here

    def wrap(self, src, spec):
        return src if ("ref" in spec or "lit" in spec) else "(%s)" % src

    def call(self, f, args):
        return "%s(%s)" % (f, ", ".join(a[0] for a in args)), {"op": f, "args": [a[1] for a in args]}

    def num(self, d):
        rng = self.rng
        r = rng.random()
        names = self.pools["Real"] + self.pools["Integer"]
        if d <= 0 or r < 0.28:
            x = rng.random()
            if names and x < 0.6:
                n = rng.choice(names)
                return n, {"ref": n}
            if x < 0.66:
                return "time", {"ref": "time"}
            return lit_of(rng, "Real" if rng.random() < 0.7 else "Integer")
        if r < 0.42:
            op = "-" if rng.random() < 0.8 else "+"
            a = self.num(d - 1)
            return "%s %s" % (op, self.wrap(*a)), {"op": op, "args": [a[1]]}
        if r < 0.58:
            return self.call(rng.choice(FN1), [self.num(d - 1)])
        if r < 0.68:
            return self.call(rng.choice(FN2), [self.num(d - 1), self.num(d - 1)])
        if r < 0.72:
            return self.call(rng.choice(FN3), [self.num(d - 1), self.num(d - 2), self.num(d - 2)])
        if r < 0.75 and self.pools["Real"]:
            n = rng.choice(self.pools["Real"])
            return "der(%s)" % n, {"op": "der", "args": [{"ref": n}]}
        op = rng.choice(BIN)
        a, b = self.num(d - 1), self.num(d - 1)
        return "%s %s %s" % (self.wrap(*a), op, self.wrap(*b)), {"op": op, "args": [a[1], b[1]]}

    def chain(self, d):
        """3-4 terms of the SAME logical operator: left-nested (`a or b or c`, as the parser associates), right-nested
        (`a or (b or c)`), or with a chain of the other operator as one term (`a or b or (c and d and e)`)."""
        rng = self.rng
        op = rng.choice(["and", "or"])
        n = rng.randint(3, 4)
        terms = [self.boolean(min(d - 2, 0)) for _ in range(n)]
        if rng.random() < 0.35:
            other = "or" if op == "and" else "and"
            sub = [self.boolean(0) for _ in range(3)]
            src = "%s %s %s %s %s" % (self.wrap(*sub[0]), other, self.wrap(*sub[1]), other, self.wrap(*sub[2]))
            spec = {"op": other, "args": [{"op": other, "args": [sub[0][1], sub[1][1]]}, sub[2][1]]}
            terms[rng.randrange(n)] = (src, spec)
        if rng.random() < 0.55:      # left-nested, no parentheses between the terms
            src, spec = self.wrap(*terms[0]), terms[0][1]
            for t in terms[1:]:
                src = "%s %s %s" % (src, op, self.wrap(*t))
                spec = {"op": op, "args": [spec, t[1]]}
            return src, spec
        src, spec = self.wrap(*terms[-1]), terms[-1][1]
        for t in reversed(terms[:-1]):
            src = "%s %s (%s)" % (self.wrap(*t), op, src)
            spec = {"op": op, "args": [t[1], spec]}
        return src, spec

    def boolean(self, d):
        rng = self.rng
        r = rng.random()
        if d <= 0 or r < 0.2:
            if self.pools["Boolean"] and rng.random() < 0.6:
                n = rng.choice(self.pools["Boolean"])
                return n, {"ref": n}
            return lit_of(rng, "Boolean")
        if r < 0.35:
            a = self.boolean(d - 1)
            return "not %s" % self.wrap(*a), {"op": "not", "args": [a[1]]}
        if r < 0.47:
            return self.chain(d)
        if r < 0.55:
            op = rng.choice(["and", "or"])
            a, b = self.boolean(d - 1), self.boolean(d - 1)
            return "%s %s %s" % (self.wrap(*a), op, self.wrap(*b)), {"op": op, "args": [a[1], b[1]]}
        op = rng.choice(CMP)      # (0-argument calls such as initial() are not accepted by pymoca's parser)
        a, b = self.num(d - 1), self.num(d - 1)
        return "%s %s %s" % (self.wrap(*a), op, self.wrap(*b)), {"op": op, "args": [a[1], b[1]]}


NAMES = ["x", "y", "z", "v", "w", "u", "p", "k", "n", "b", "s", "d", "h", "q1", "q2", "T_in", "_r", "alpha", "m2", "Vol"]


def gen_class(rng, cname, opts, used, extern=None, depth=3):
    """One class: declarations + equations over its own variables (and `extern`: flat names of instance
    variables by type).  Returns dict with 'decls' (source lines), 'eqs' (source lines), 'symbols', 'equations'."""
    nv = rng.randint(2, opts.get("nvars", 6))
    syms, decls = [], []
    pools = {"Real": [], "Integer": [], "Boolean": [], "String": []}
    if extern:
        for t in pools:
            pools[t] += extern.get(t, [])
    pool_names = [n for n in NAMES if n not in used]
    rng.shuffle(pool_names)
    for _ in range(nv):
        name = pool_names.pop()
        used.add(name)
        ty = rng.choice(["Real"] * 6 + ["Integer"] * 2 + ["Boolean"] * 2 + ["String"])
        var = rng.choice({"Real": [None] * 5 + ["parameter", "parameter", "constant", "discrete"],
                          "Integer": [None, "parameter", "constant", "discrete", "discrete"],
                          "Boolean": [None, None, "parameter", "discrete"],
                          "String": [None, "parameter", "constant"]}[ty])
        caus = rng.choice([None] * 4 + ["input", "output"]) if var != "constant" else None
        prefixes = [p for p in (var, caus) if p]
        s = {"name": name, "type": ty, "prefixes": prefixes, "start": None, "value": None, "fixed": False}
        mods = []
        if var != "constant" and rng.random() < 0.4:
            src, sp = lit_of(rng, ty)
            s["start"] = sp["lit"]
            mods.append("start=%s" % src)
            if rng.random() < 0.4:
                s["fixed"] = rng.random() < 0.7
                mods.append("fixed=%s" % ("true" if s["fixed"] else "false"))
        elif rng.random() < 0.08:
            s["fixed"] = True
            mods.append("fixed=true")
        if ty in ("Real", "Integer") and rng.random() < 0.1:
            mods.append("min=0")
        if ty == "Real" and rng.random() < 0.08:
            mods.append("nominal=10.0")
        valsrc = None
        if var in ("parameter", "constant"):
            if rng.random() < 0.85:
                valsrc, sp = lit_of(rng, ty)
                s["value"] = sp["lit"]
        elif opts.get("decl") and caus != "input" and rng.random() < 0.45:
            valsrc, sp = lit_of(rng, ty)
            s["value"] = sp["lit"]          # becomes a declaration-value equation when flattened
        decls.append("  %s%s %s%s%s;" % ("".join(p + " " for p in prefixes), ty, name,
                                          "(%s)" % ", ".join(mods) if mods else "",
                                          " = %s" % valsrc if valsrc is not None else ""))
        syms.append(s)
        if var not in ("parameter", "constant") or rng.random() < 0.7:
            pools[ty].append(name)
        elif ty in pools:
            pools[ty].append(name)
    g = ExprGen(rng, pools)
    eqs, eqsrc = [], []
    discrete_targets = []
    for s in syms:
        var = [p for p in s["prefixes"] if p in MODELICA_VARIABILITY]
        if var and var[0] in ("parameter", "constant"):
            continue
        if "input" in s["prefixes"] or s["value"] is not None:
            continue
        if var == ["discrete"] or s["type"] == "Integer":
            discrete_targets.append(s)
            continue
        if rng.random() < 0.15:
            continue
        if s["type"] == "Real":
            rhs = g.num(depth)
            if rng.random() < 0.35:
                eqsrc.append("  der(%s) = %s;" % (s["name"], rhs[0]))
                eqs.append({"eq": [{"op": "der", "args": [{"ref": s["name"]}]}, rhs[1]]})
            elif rng.random() < 0.15:
                lhs = g.num(1)
                eqsrc.append("  %s = %s;" % (lhs[0], rhs[0]))
                eqs.append({"eq": [lhs[1], rhs[1]]})
            else:
                eqsrc.append("  %s = %s;" % (s["name"], rhs[0]))
                eqs.append({"eq": [{"ref": s["name"]}, rhs[1]]})
        elif s["type"] == "Boolean":
            rhs = g.boolean(depth)
            eqsrc.append("  %s = %s;" % (s["name"], rhs[0]))
            eqs.append({"eq": [{"ref": s["name"]}, rhs[1]]})
        else:
            src, sp = lit_of(rng, "String")
            eqsrc.append("  %s = %s;" % (s["name"], src))
            eqs.append({"eq": [{"ref": s["name"]}, sp]})
    if discrete_targets or rng.random() < 0.25:
        cond = g.chain(2) if rng.random() < 0.35 else g.boolean(2)
        body, bsrc = [], []
        for s in discrete_targets:
            rhs = g.boolean(1) if s["type"] == "Boolean" else g.num(2)
            if rng.random() < 0.5 and s["type"] != "Boolean":
                rhs = ("pre(%s) + %s" % (s["name"], g.wrap(*rhs)),
                       {"op": "+", "args": [{"op": "pre", "args": [{"ref": s["name"]}]}, rhs[1]]})
            bsrc.append("    %s = %s;" % (s["name"], rhs[0]))
            body.append({"eq": [{"ref": s["name"]}, rhs[1]]})
        reals = [s["name"] for s in syms if s["type"] == "Real" and not s["prefixes"]]
        if reals and rng.random() < 0.6:
            n = rng.choice(reals)
            rhs = g.num(1)
            bsrc.append("    reinit(%s, %s);" % (n, rhs[0]))
            body.append({"fun": "reinit", "args": [{"ref": n}, rhs[1]]})
        if body:
            eqsrc.append("  when %s then\n%s\n  end when;" % (cond[0], "\n".join(bsrc)))
            eqs.append({"when": cond[1], "body": body})
    if rng.random() < 0.15:
        c = g.boolean(2)
        src, sp = lit_of(rng, "String")
        eqsrc.append("  assert(%s, %s);" % (c[0], src))
        eqs.append({"fun": "assert", "args": [c[1], sp]})
    return {"name": cname, "decls": decls, "eqsrc": eqsrc, "symbols": syms, "equations": eqs}


def rename_expr(e, f):
    if "ref" in e:
        return {"ref": f(e["ref"])}
    if "lit" in e:
        return e
    return {"op": e["op"], "args": [rename_expr(a, f) for a in e["args"]]}


def rename_eqn(q, f):
    if "eq" in q:
        return {"eq": [rename_expr(q["eq"][0], f), rename_expr(q["eq"][1], f)]}
    if "fun" in q:
        return {"fun": q["fun"], "args": [rename_expr(a, f) for a in q["args"]]}
    return {"when": rename_expr(q["when"], f), "body": [rename_eqn(b, f) for b in q["body"]]}


def refs_under_der(e, inside, acc):
    if "ref" in e:
        if inside:
            acc.add(e["ref"])
    elif "op" in e:
        for a in e["args"]:
            refs_under_der(a, inside or e["op"] == "der", acc)


def eqn_exprs(q):
    if "eq" in q:
        return list(q["eq"])
    if "decl" in q:
        return [q["r"]]
    if "fun" in q:
        return list(q["args"])
    out = [q["when"]]
    for b in q["body"]:
        out += eqn_exprs(b)
    return out


def finish_flat(name, symbols, equations, initial=()):
    """What tree.flatten does after flatten_class: declaration values of non-parameter/constant variables
    become equations appended in symbol order (tree.py add_state_value_equations); differentiated variables get
    the 'state' prefix (annotate_states)."""
    syms = [dict(s, prefixes=list(s["prefixes"])) for s in symbols]
    eqs = list(equations)
    for s in syms:
        if s["value"] is not None and not ({"parameter", "constant"} & set(s["prefixes"])):
            eqs.append({"decl": s["name"], "r": {"lit": s["value"]}})
            s["value"] = None
    acc = set()
    for q in list(eqs) + list(initial):
        for e in eqn_exprs(q):
            refs_under_der(e, False, acc)
    for s in syms:
        if s["name"] in acc and "state" not in s["prefixes"]:
            s["prefixes"].append("state")
    return {"name": name, "symbols": syms, "equations": eqs}


def gen_model(rng, opts):
    used = set()
    if opts.get("hier"):
        sub = gen_class(rng, "Sub", dict(opts, nvars=4), used, depth=2)
        subnames = {s["name"] for s in sub["symbols"]}
        insts = ["a%d" % (i + 1) for i in range(rng.randint(1, 2))]
        extern = {"Real": [], "Integer": [], "Boolean": [], "String": []}
        inst_decl, inst_syms, inst_eqs = {}, {}, []
        for a in insts:
            mods = []
            syms = []
            for s in sub["symbols"]:
                t = dict(s, name="%s.%s" % (a, s["name"]), prefixes=[p for p in s["prefixes"] if p not in ("input", "output")])
                if s["value"] is not None and rng.random() < 0.35:
                    src, sp = lit_of(rng, s["type"])
                    t["value"] = sp["lit"]
                    mods.append("%s=%s" % (s["name"], src))
                elif s["start"] is not None and rng.random() < 0.25:
                    src, sp = lit_of(rng, s["type"])
                    t["start"] = sp["lit"]
                    mods.append("%s(start=%s)" % (s["name"], src))
                syms.append(t)
                if "constant" not in s["prefixes"]:
                    # (a dotted reference to a constant of an instance makes flatten's ConstantReferenceApplier
                    # add a second symbol; not this property's business)
                    extern[s["type"]].append(t["name"])
            inst_decl[a] = "  Sub %s%s;" % (a, "(%s)" % ", ".join(mods) if mods else "")
            inst_syms[a] = syms
            inst_eqs += [rename_eqn(q, lambda n, a=a: "%s.%s" % (a, n) if n in subnames else n) for q in sub["equations"]]
        top = gen_class(rng, "M", opts, used, extern=extern)
        # interleave the instance declarations with M's own declarations
        slots = list(zip(top["decls"], [[s] for s in top["symbols"]]))
        for a in insts:
            slots.insert(rng.randint(0, len(slots)), (inst_decl[a], inst_syms[a]))
        # equations of the instances come first, in symbol (= declaration) order of the instances
        order = [a for d, _ in slots for a in insts if d == inst_decl[a]]
        inst_eqs = []
        for a in order:
            inst_eqs += [rename_eqn(q, lambda n, a=a: "%s.%s" % (a, n) if n in subnames else n) for q in sub["equations"]]
        text = ("model Sub\n%s\nequation\n%s\nend Sub;\n\nmodel M\n%s\nequation\n%s\nend M;\n"
                % ("\n".join(sub["decls"]), "\n".join(sub["eqsrc"]), "\n".join(d for d, _ in slots), "\n".join(top["eqsrc"])))
        flat = finish_flat("M", [s for _, ss in slots for s in ss], inst_eqs + top["equations"])
    else:
        top = gen_class(rng, "M", opts, used)
        text = "model M\n%s\nequation\n%s\nend M;\n" % ("\n".join(top["decls"]), "\n".join(top["eqsrc"]))
        flat = finish_flat("M", top["symbols"], top["equations"])
    return {"text": text, "cls": "M", "flat": [flat], "stream": opts["stream"]}


def class_text(c):
    return "model M\n%s\nequation\n%s\nend M;\n" % ("\n".join(c["decls"]), "\n".join(c["eqsrc"]))


def py_value(lit):
    kind, text = lit
    return {"int": int, "real": float, "bool": lambda t: t == "True", "str": str}[kind](text)


def gen_edit_session(rng):
    """generate / edit the SAME tree in place through the ast API / generate again, several times."""
    used = set()
    base = gen_class(rng, "M", {"nvars": 4}, used, depth=2)
    donor = gen_class(rng, "M", {"nvars": 4}, used, depth=2)        # disjoint names
    syms = [dict(x, prefixes=list(x["prefixes"])) for x in base["symbols"]]
    eqs = list(base["equations"])
    steps = [{"do": "parse", "slot": "t", "text": class_text(base)}, {"do": "parse", "slot": "d", "text": class_text(donor)}]

    def export():
        steps.append({"do": "export", "slot": "t", "content": len(steps), "expect": [finish_flat("M", syms, eqs)]})
    export()
    free_syms = list(donor["symbols"])
    used_eqs = set()
    direct = set()
    for _ in range(rng.randint(3, 6)):
        # a parsed declaration keeps start/value as a modification that flatten re-applies: setting the attribute
        # is an effective edit only where the declaration has no such modification (or we set it ourselves before)
        can = {"start": [x for x in syms if x["start"] is None or (x["name"], "start") in direct],
               "value": [x for x in syms if ({"parameter", "constant"} & set(x["prefixes"]))
                         and (x["value"] is None or (x["name"], "value") in direct)]}
        ops = ["set_prefixes"] + (["set_start"] * 2 if can["start"] else [])
        if free_syms:
            ops += ["add_symbol"] * 2
        free_eqs = [j for j in range(len(donor["equations"])) if j not in used_eqs]
        if free_eqs:
            ops += ["add_equation"] * 2
        if len(eqs) > 1:
            ops.append("remove_equation")
        if can["value"]:
            ops += ["set_value"] * 3
        op = rng.choice(ops)
        if op == "add_symbol":
            x = free_syms.pop(rng.randrange(len(free_syms)))
            syms.append(dict(x, prefixes=list(x["prefixes"])))
            steps.append({"do": "add_symbol", "slot": "t", "donor": "d", "name": x["name"]})
        elif op == "add_equation":
            j = rng.choice(free_eqs)        # (the same Equation object twice would be a shared AST node)
            used_eqs.add(j)
            eqs.append(donor["equations"][j])
            steps.append({"do": "add_equation", "slot": "t", "donor": "d", "index": j})
        elif op == "remove_equation":
            j = rng.randrange(len(eqs))
            eqs.pop(j)
            steps.append({"do": "remove_equation", "slot": "t", "index": j})
        elif op == "set_prefixes":
            x = rng.choice(syms)
            x["prefixes"] = rng.choice([[], ["parameter"], ["discrete"], ["input"], ["constant"], ["parameter", "input"], ["discrete", "output"]])
            steps.append({"do": "set_prefixes", "slot": "t", "name": x["name"], "prefixes": x["prefixes"]})
        else:
            attr = "start" if op == "set_start" else "value"
            x = rng.choice(can[attr])
            direct.add((x["name"], attr))
            lit = lit_of(rng, x["type"])[1]["lit"]
            x[attr] = lit
            steps.append({"do": "set_attr", "slot": "t", "name": x["name"], "attr": attr, "v": py_value(lit)})
        export()
    return {"kind": "session", "cls": "M", "steps": steps, "stream": "session-edit"}


def gen_loop_session(rng, n_models, n_clones):
    """different models with the SAME class name exported one after another in one process, every tree dropped
    before the next one exists: freshly parsed texts, then deep copies of kept prototypes in rotation."""
    steps = []
    protos = []
    for i in range(n_models):
        r = rng.random()
        stream = "decl" if r < 0.2 else ("hier" if r < 0.4 else "plain")
        m = gen_model(rng, {"stream": stream, "decl": stream == "decl", "hier": stream == "hier", "nvars": rng.randint(2, 4)})
        protos.append(m)
        steps += [{"do": "parse", "slot": "t", "text": m["text"]},
                  {"do": "export", "slot": "t", "content": "m%d" % i, "expect": m["flat"]},
                  {"do": "drop", "slot": "t"}]
    keep = protos[:6]
    for i, m in enumerate(keep):
        steps.append({"do": "parse", "slot": "p%d" % i, "text": m["text"]})
    for k in range(n_clones):
        i = rng.randrange(len(keep))
        steps += [{"do": "clone", "slot": "t", "from": "p%d" % i},
                  {"do": "export", "slot": "t", "content": "m%d" % i, "expect": keep[i]["flat"]},
                  {"do": "drop", "slot": "t"}]
    return {"kind": "session", "cls": "M", "steps": steps, "stream": "session-loop"}


FIXED_CASES = [
    # (stream, text, intended flat or None)
    ("decl", "model M\n  Real x = 3;\nend M;\n",
     [{"name": "M", "symbols": [{"name": "x", "type": "Real", "prefixes": [], "start": None, "value": None, "fixed": False}],
       "equations": [{"decl": "x", "r": {"lit": ["int", "3"]}}]}]),
    ("decl", 'model M\n  String s = "q";\n  parameter Real p = 2.5;\nend M;\n',
     [{"name": "M", "symbols": [{"name": "s", "type": "String", "prefixes": [], "start": None, "value": None, "fixed": False},
                                {"name": "p", "type": "Real", "prefixes": ["parameter"], "start": None, "value": ["real", "2.5"], "fixed": False}],
       "equations": [{"decl": "s", "r": {"lit": ["str", "q"]}}]}]),
    ("plain", "model M\n  discrete input Real d(start=1);\n  constant Integer k = 3;\n  output Boolean b;\nequation\n"
              "  b = not (d > k and true);\nend M;\n",
     [{"name": "M", "symbols": [{"name": "d", "type": "Real", "prefixes": ["discrete", "input"], "start": ["int", "1"], "value": None, "fixed": False},
                                {"name": "k", "type": "Integer", "prefixes": ["constant"], "start": None, "value": ["int", "3"], "fixed": False},
                                {"name": "b", "type": "Boolean", "prefixes": ["output"], "start": None, "value": None, "fixed": False}],
       "equations": [{"eq": [{"ref": "b"}, {"op": "not", "args": [{"op": "and", "args": [
           {"op": ">", "args": [{"ref": "d"}, {"ref": "k"}]}, {"lit": ["bool", "True"]}]}]}]}]}]),
    ("plain", "model M\n  Real x(start=1.0, fixed=true);\n  Real y;\nequation\n  der(x) = -x;\n  y = x - (y - 1) - 2;\nend M;\n",
     [{"name": "M", "symbols": [{"name": "x", "type": "Real", "prefixes": ["state"], "start": ["real", "1.0"], "value": None, "fixed": True},
                                {"name": "y", "type": "Real", "prefixes": [], "start": None, "value": None, "fixed": False}],
       "equations": [{"eq": [{"op": "der", "args": [{"ref": "x"}]}, {"op": "-", "args": [{"ref": "x"}]}]},
                     {"eq": [{"ref": "y"}, {"op": "-", "args": [{"op": "-", "args": [{"ref": "x"}, {"op": "-", "args": [{"ref": "y"}, {"lit": ["int", "1"]}]}]},
                                                                {"lit": ["int", "2"]}]}]}]}]),
]

# models outside the backend's subset (no handler / silently ignored constructs): outcomes are recorded only
OUTSIDE = [
    ("if-expression", "model M\n  Real x;\nequation\n  x = if time > 1 then 1 else 2;\nend M;\n"),
    ("array", "model M\n  Real x[2];\nequation\n  x = {1, 2};\nend M;\n"),
    ("negative-start", "model M\n  Real x(start=-1);\nequation\n  x = 1;\nend M;\n"),
    ("expression-value", "model M\n  parameter Real k = 2;\n  parameter Real p = 2*k;\n  Real x;\nequation\n  x = p;\nend M;\n"),
    ("elsewhen", "model M\n  discrete Real d;\n  Real x;\nequation\n  x = time;\n  when x > 1 then\n    d = 1;\n  elsewhen x > 2 then\n    d = 2;\n  end when;\nend M;\n"),
    ("initial-equation", "model M\n  Real x;\ninitial equation\n  x = 1;\nequation\n  der(x) = -x;\nend M;\n"),
    ("for-equation", "model M\n  Real x[3];\nequation\n  for i in 1:3 loop\n    x[i] = i;\n  end for;\nend M;\n"),
    ("if-equation", "model M\n  Real x;\n  parameter Boolean c = true;\nequation\n  if c then\n    x = 1;\n  else\n    x = 2;\n  end if;\nend M;\n"),
    ("algorithm", "model M\n  Real x;\nalgorithm\n  x := 1;\nend M;\n"),
    ("user-function", "function f\n  input Real a;\n  output Real b;\nalgorithm\n  b := a*2;\nend f;\n\nmodel M\n  Real x;\nequation\n  x = f(3) + f(x);\nend M;\n"),
]

CORPUS_MODELS = [("Noise.mo", "Noise"), ("SimpleCircuit.mo", "SimpleCircuit"), ("BouncingBall.mo", "BouncingBall"),
                 ("Estimator.mo", "Estimator"), ("Spring.mo", "Spring"), ("SpringSystem.mo", "SpringSystem"),
                 ("Aircraft.mo", "Aircraft"), ("Connector.mo", "Connector"), ("BuiltinFunctions.mo", "BuiltinFunctions"),
                 ("Inheritance.mo", "Sub"), ("NestedClasses.mo", "C2"), ("DuplicateState.mo", "DuplicateState"),
                 ("StateAnnotator.mo", "StateAnnotator"), ("ParameterAttributes.mo", "ParameterAttributes")]


# ---------------------------------------------------------------------------------------------
# Coq encoding
# ---------------------------------------------------------------------------------------------
KIND = {"int": "KInt", "real": "KReal", "bool": "KBool", "str": "KStr"}


def enc_lit(l):
    return "None" if l is None else "(Some (%s, %s))" % (KIND[l[0]], cq_str(l[1]))


def enc_expr(e):
    if "ref" in e:
        return "(Ref %s)" % cq_str(e["ref"])
    if "lit" in e:
        return "(Lit %s %s)" % (KIND[e["lit"][0]], cq_str(e["lit"][1]))
    return "(Op %s %s)" % (cq_str(e["op"]), cq_list([enc_expr(a) for a in e["args"]]))


def enc_eqn(q):
    if "eq" in q:
        return "(Equal %s %s)" % (enc_expr(q["eq"][0]), enc_expr(q["eq"][1]))
    if "decl" in q:
        return "(DeclEq %s %s)" % (cq_str(q["decl"]), enc_expr(q["r"]))
    if "fun" in q:
        return "(FunEq %s %s)" % (cq_str(q["fun"]), cq_list([enc_expr(a) for a in q["args"]]))
    return "(When %s %s)" % (enc_expr(q["when"]), cq_list([enc_eqn(b) for b in q["body"]]))


def enc_flat(flat):
    cs = []
    for c in flat:
        syms = ["(Sym %s %s %s %s %s %s)" % (cq_str(s["name"]), cq_str(s["type"]), cq_list([cq_str(p) for p in s["prefixes"]]),
                                             enc_lit(s["start"]), enc_lit(s["value"]), cq_bool(s["fixed"]))
                for s in c["symbols"]]
        cs.append("(Cls %s %s %s)" % (cq_str(c["name"]), cq_list(syms), cq_list([enc_eqn(q) for q in c["equations"]])))
    return cq_list(cs)


def enc_xml(x):
    return "(Node %s %s %s)" % (cq_str(x[0]), cq_list(["(%s, %s)" % (cq_str(k), cq_str(v)) for k, v in x[1]]),
                                cq_list([enc_xml(c) for c in x[2]]))


def strip_flat(flat):
    return [{"name": c["name"], "symbols": c["symbols"], "equations": c["equations"]} for c in flat]


def ascii_only(x):
    return all(ord(ch) < 128 for ch in json.dumps(x, ensure_ascii=False))


# ---------------------------------------------------------------------------------------------
def strip_session(x):
    """what the child gets / what a replay file holds: the steps without the expected flat models"""
    return {"kind": "session", "cls": x["cls"],
            "steps": [{k: v for k, v in st.items() if k != "expect"} for st in x["steps"]]}


def behavioural_variant(ctx):
    """Does the real generator lose the left operand of a declaration-value equation?  (True/False/None)"""
    case = {"text": FIXED_CASES[0][1], "cls": "M"}
    r = core.run_child(ctx, "c25", [case])[0]
    if "xml" not in r or "flat" not in r:
        return None
    v = judge(strip_flat(r["flat"]), r["xml"])
    if v is None:
        return False
    return True if v[0] == TAG_MOVED else None


def run(ctx):
    core.check_props(ctx, "C25.v", THEOREMS)
    fp, _ = core.fingerprint(core.REPO + GEN_PY, {"XmlGenerator", "generate"})
    ctx.notes["source_fingerprint"] = {"xml/generator.py:XmlGenerator+generate": fp}
    mv_src = tie_table(ctx)
    mv_beh = behavioural_variant(ctx)
    ctx.oblige("tie:variant-of-exitEquation-agrees-with-behaviour", mv_src is not None and mv_src == mv_beh,
               "source table says moves_left_operand=%s, probe `Real x = 3;` says %s" % (mv_src, mv_beh))
    mv = mv_beh if mv_beh is not None else (mv_src if mv_src is not None else True)
    ctx.notes["moves_left_operand"] = mv

    # ---- cases
    cases = []
    for stream, text, flat in FIXED_CASES:
        cases.append({"text": text, "cls": "M", "flat": flat, "stream": stream})
    n_gen = ctx.scaled(150, 1800)
    for i in range(n_gen):
        r = ctx.rng.random()
        stream = "decl" if r < 0.25 else ("hier" if r < 0.5 else "plain")
        opts = {"stream": stream, "decl": stream == "decl" or (stream == "hier" and ctx.rng.random() < 0.3),
                "hier": stream == "hier", "nvars": ctx.rng.randint(2, 7)}
        cases.append(gen_model(ctx.rng, opts))
    for label, text in OUTSIDE:
        cases.append({"text": text, "cls": "M", "flat": None, "stream": "outside:" + label})
    for fn, cls in CORPUS_MODELS:
        p = os.path.join(core.REPO, "test", "models", fn)
        try:
            cases.append({"text": open(p).read(), "cls": cls, "flat": None, "stream": "corpus:" + fn})
        except OSError:
            pass
    sessions = [gen_edit_session(ctx.rng) for _ in range(ctx.scaled(8, 120))]
    sessions += [gen_loop_session(ctx.rng, ctx.scaled(16, 60), ctx.scaled(40, 200)) for _ in range(ctx.scaled(1, 6))]
    results = core.run_child(ctx, "c25", [{"text": c["text"], "cls": c["cls"]} for c in cases], timeout=1500)
    sres = core.run_child(ctx, "c25", [strip_session(x) for x in sessions], timeout=1500)
    # every export of a session is one more (expected flat model, result) pair, with the whole session as its input
    n_single = len(cases)
    id_reuse = 0
    for x, r in zip(sessions, sres):
        exps = [st for st in x["steps"] if st["do"] == "export"]
        recs = r.get("exports")
        if recs is None or len(recs) != len(exps):
            core.report(ctx, "session-raised", "a multi-export session failed in the child: %s" % json.dumps(r)[:300],
                        {"input": {"session": strip_session(x), "cls": x["cls"]}, "stream": x["stream"], "observed": r})
            continue
        for k, (st, rec) in enumerate(zip(exps, recs)):
            id_reuse += bool(rec.get("tid_seen_before"))
            cases.append({"text": "(export %d of a %s)" % (k, x["stream"]), "cls": x["cls"], "flat": st["expect"],
                          "stream": x["stream"], "session": x, "export": k})
            results.append(rec)

    # ---- (a) oracle, (b) correspondence inputs
    enc, enc_idx = [], []
    spec_mismatch, outcomes, dist = [], {}, {}
    nontrivial = set()
    n_judged = 0
    for i, (c, r) in enumerate(zip(cases, results)):
        st = c["stream"].split(":")[0]
        dist[st] = dist.get(st, 0) + 1
        payload = {"input": {"text": c["text"], "cls": c["cls"], "flat": c["flat"]}, "stream": c["stream"]}
        if "session" in c:
            payload = {"input": {"session": strip_session(c["session"]), "cls": c["cls"], "export": c["export"],
                                 "flat": c["flat"]}, "stream": c["stream"]}
        in_subset = c["flat"] is not None
        if "xml" not in r or "flat" not in r:
            key = "%s:%s" % (c["stream"], r.get("gen_exc") or r.get("flat_exc") or r.get("exc") or r.get("parse") or r.get("crash"))
            outcomes[key] = outcomes.get(key, 0) + 1
            if in_subset:
                core.report(ctx, "generator-raised", "generate() failed on a model of the subset: %s" % json.dumps(r)[:300],
                            dict(payload, observed=r))
            continue
        cflat = strip_flat(r["flat"])
        u = unsupported(cflat)
        if in_subset:
            if cflat != c["flat"]:
                spec_mismatch.append(i)
            refs = [c["flat"]] + ([cflat] if cflat != c["flat"] and not u else [])
        else:
            key = "%s:%s" % (c["stream"], "generated (%s)" % (u or "all nodes supported"))
            outcomes[key] = outcomes.get(key, 0) + 1
            if u:
                continue
            refs = [cflat]
        for ref in refs:
            n_judged += 1
            v = judge(ref, r["xml"])
            if v:
                core.report(ctx, v[0], v[1], dict(payload, observed_xml=r["xml"], reference=ref))
                break
        if not u and ascii_only([cflat, r["xml"]]) and not (c["stream"] == "session-loop" and c["export"] >= ctx.scaled(6, 40)):
            try:
                obs = parse_xml(r["xml"])
            except NotMirrored:
                continue
            enc.append("(%s, %s, %s)" % (cq_bool(mv), enc_flat(cflat), enc_xml(obs)))
            enc_idx.append(i)
        if in_subset and len(c["flat"][0]["equations"]) >= 2 and "session" not in c:
            nontrivial.add(c["text"])
    ctx.oblige("harness:intended-flat-model-equals-pymoca-flatten", not spec_mismatch,
               "cases %s; first: %s" % (spec_mismatch[:5], json.dumps({"text": cases[spec_mismatch[0]]["text"],
                                                                       "intended": cases[spec_mismatch[0]]["flat"],
                                                                       "flatten": strip_flat(results[spec_mismatch[0]]["flat"])})[:1500]
                                        if spec_mismatch else ""))
    shard = max(10, min(150, -(-len(enc) // 4)))
    bad = core.coq_eval_cases(ctx, "xml", PREAMBLE, "bool * flat * xml", enc, "check_case", shard=shard, timeout=1500)
    ctx.oblige("correspondence:model-gen-vs-generate()", bad == [],
               "mismatching cases: %s" % ([enc_idx[j] for j in bad][:10] if bad else bad))
    if bad and not [v for v in ctx.violations if not v["no_input"]]:
        j = enc_idx[bad[0]]
        core.violation(ctx, "correspondence-broken",
                       {"correspondence": "Model/C25_xml.v gen (mv=%s) vs generate()" % mv,
                        "input": {"text": cases[j]["text"], "cls": cases[j]["cls"], "flat": cases[j]["flat"]},
                        "observed_xml": results[j]["xml"]}, no_input=True)

    # ---- S4
    def still_fails(e):
        rep = e.get("replay") or {}
        r = core.run_child(ctx, "c25", [{"text": rep["text"], "cls": rep["cls"]}])[0]
        if "xml" not in r or "flat" not in r:
            return None
        v = judge(strip_flat(r["flat"]), r["xml"])
        return bool(v and v[0] == e.get("tag"))
    core.replay_known(ctx, still_fails)

    ctx.cov["evaluations"] = len(cases)
    ctx.cov["distinct_nontrivial"] = len(nontrivial)
    ctx.cov["rule"] = ("%d generated Modelica models (plain / with declaration values / with 1-2 instances of a sub-model and "
                       "modifications), %d fixed, %d out-of-subset probes, %d files of test/models; each run through the real "
                       "parse+generate; oracle judgements: %d; Coq-evaluated correspondence cases: %d; non-trivial = in-subset "
                       "model with >= 2 flat equations, distinct texts" % (n_gen, len(FIXED_CASES), len(OUTSIDE),
                                                                           len(CORPUS_MODELS), n_judged, len(enc)))
    ctx.cov["samples"] = [cases[len(FIXED_CASES)]["text"], cases[len(FIXED_CASES) + 1]["text"]]
    ctx.cov["rule"] += ("; plus %d multi-export sessions in one process (%d exports: generate / in-place edit through the ast "
                        "API / generate on one tree; different models of the same class name parsed or cloned, exported and "
                        "dropped in turn), each export judged against the flat model of the tree passed in at that step; "
                        "exports whose tree object had the id of an earlier, different tree: %d"
                        % (len(sessions), len(cases) - n_single, id_reuse))
    ctx.notes["input_distribution"] = {"streams": dist, "outside_and_corpus_outcomes": outcomes,
                                       "session_exports": len(cases) - n_single, "tree_id_reused_with_other_content": id_reuse}
    ctx.assumptions += [
        "lxml serialises the element tree faithfully (escaping is lxml's); the rose tree is re-read with the stdlib expat parser",
        "the subset: scalar variables of builtin type with literal start/value/fixed, equations over references, literals, "
        "Expression nodes, call equations and single-branch when-equations; if-expressions, arrays, for/if-equations, "
        "elsewhen branches, algorithm sections and initial equations have no handler (KeyError/AttributeError or silently "
        "not emitted) and are outside it",
        "literal kinds are not represented in the XML (every Primary is <real value=str(v)>); the theorems are up to norm",
    ]


def replay(ctx, path):
    rec = json.load(open(path))
    inp = rec.get("input") or rec.get("replay")
    if "session" in inp:
        r = core.run_child(ctx, "c25", [inp["session"]])[0]
        if "exports" not in r:
            print("replay: the session failed in the child:", json.dumps(r)[:300])
            return 1
        for k, e in enumerate(r["exports"]):
            if "xml" not in e or "flat" not in e:
                print("replay: export %d: generate()/flatten failed: %s" % (k, json.dumps(e)[:200]))
                return 1
            refs = ([inp["flat"]] if k == inp.get("export") and inp.get("flat") else []) + [strip_flat(e["flat"])]
            for ref in refs:
                v = None if unsupported(ref) else judge(ref, e["xml"])
                if v:
                    print("replay: export %d of the session does not mirror the tree passed in [%s]: %s" % (k, v[0], v[1]))
                    return 1
        print("replay: every export of the session mirrors the tree passed in at that step")
        return 0
    r = core.run_child(ctx, "c25", [{"text": inp["text"], "cls": inp["cls"]}])[0]
    if "xml" not in r or "flat" not in r:
        print("replay: generate()/flatten failed:", json.dumps(r)[:300])
        return 1 if inp.get("flat") is not None or rec.get("tag") == "generator-raised" else 0
    refs = ([inp["flat"]] if inp.get("flat") else []) + [strip_flat(r["flat"])]
    for ref in refs:
        if unsupported(ref):
            continue
        v = judge(ref, r["xml"])
        if v:
            listed = [e.get("tag") for e in core.load_known(ctx.pid)]
            if v[0] in listed and rec.get("tag") != v[0]:
                # the recorded violation is gone; what remains on this input is a listed known finding
                print("replay: recorded violation %r does not reproduce; listed known finding [%s] does: %s"
                      % (rec.get("tag"), v[0], v[1]))
                return 0
            print("replay: property violated [%s]: %s" % v)
            return 1
    print("replay: property holds on this model")
    return 0
