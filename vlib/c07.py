"""C07 — hierarchical flattening instantiates every component once.

Shared with C08: library rendering, the independent reference instantiation (`reference`), the
canonical form of the implementation's flat model, the Coq encoding and the generator helpers.

Library (JSON): {"classes": [cls], "top": "M"}
  cls  = {"name", "kind": model|package|type, "classes": [cls], "extends": [{"base": [names], "mods": [mod]}],
          "symbols": [sym], "eqs": [[expr, expr]]}
  sym  = {"name", "type": [names], "prefixes": [str], "dims": [int], "mods": [mod], "value": expr|None}
  mod  = {"path": [names], "args": [mod]|None, "value": expr|None}        a.b(args) = value
  expr = ["num", n] | ["bool", b] | ["str", s] | ["ref", [names], [idx]] | ["op", o, [args]]
"""
import json
import time
from concurrent.futures import ThreadPoolExecutor

from . import core
from .core import cq_list, cq_pos

THEOREMS = ["C07a_names", "C07b_prefixes", "C07c_extends_merge", "C07d_rename", "C07_refines_flat",
            "C07_refines_flat_real", "C07_refuted_definition_order", "C07_refines_flat_example", "C07_refines_extends", "C07_refines_extends_real", "C07_refines_extends_example", "C07_definition_order_irrelevant_toplevel", "C07_refines_extends_toplevel", "C07_lex_consistent", "C07_refines_extends_packages", "C07_toplevel_is_package_library", "C07_refines_packages_example", "C07_flatten_extends_elems", "C07_refines_partial", "C07_refuted_shadowing", "C07_example"]

ATTRS = ["value", "min", "max", "start", "fixed", "nominal", "unit", "quantity", "displayUnit"]
BUILTIN = ("Real", "Integer", "String", "Boolean")
KNOWN_SHADOW = "inherited-type-resolved-in-deriving-scope"


# ---------------------------------------------------------------------------
# rendering
# ---------------------------------------------------------------------------
def r_expr(e):
    t = e[0]
    if t == "num":
        return str(e[1])
    if t == "bool":
        return "true" if e[1] else "false"
    if t == "str":
        return '"%s"' % e[1]
    if t == "ref":
        s = ".".join(e[1])
        if e[2]:
            s += "[%s]" % ", ".join(str(i) for i in e[2])
        return s
    if t == "op":
        if len(e[2]) == 1:
            return "(%s%s)" % (e[1], r_expr(e[2][0]))
        return "(%s %s %s)" % (r_expr(e[2][0]), e[1], r_expr(e[2][1]))
    raise ValueError(e)


def r_mod(m):
    s = ".".join(m["path"])
    if m.get("args") is not None:
        s += "(%s)" % ", ".join(r_mod(a) for a in m["args"])
    if m.get("value") is not None:
        s += " = " + r_expr(m["value"])
    return s


def r_mods(mods):
    return "(%s)" % ", ".join(r_mod(m) for m in mods) if mods else ""


def r_class(c, ind=""):
    out = []
    if c["kind"] == "type":
        e = c["extends"][0]
        out.append("%stype %s = %s%s;" % (ind, c["name"], ".".join(e["base"]), r_mods(e["mods"])))
        return out
    out.append("%s%s %s" % (ind, c["kind"], c["name"]))
    for n in c.get("classes", []):
        out += r_class(n, ind + "  ")
    for e in c.get("extends", []):
        out.append("%s  extends %s%s;" % (ind, ".".join(e["base"]), r_mods(e["mods"])))
    for s in c.get("symbols", []):
        pre = " ".join(s.get("prefixes", []))
        dims = "[%s]" % ", ".join(str(d) for d in s["dims"]) if s.get("dims") else ""
        val = " = " + r_expr(s["value"]) if s.get("value") is not None else ""
        out.append("%s  %s%s %s%s%s%s;" % (ind, pre + " " if pre else "", ".".join(s["type"]), s["name"], dims,
                                           r_mods(s.get("mods", [])), val))
    if c.get("eqs"):
        out.append(ind + "equation")
        for l, r in c["eqs"]:
            out.append("%s  %s = %s;" % (ind, r_expr(l), r_expr(r)))
    out.append("%send %s;" % (ind, c["name"]))
    return out


def render(lib):
    lines = []
    for c in lib["classes"]:
        lines += r_class(c)
    return "\n".join(lines) + "\n"


# ---------------------------------------------------------------------------
# independent reference: Modelica instantiation written from the property text
#   * one variable per elementary leaf, named by its instance path
#   * types are looked up in the class that DECLARES the component
#   * outermost modification wins; dotted and nested spellings mean the same
#   * a modification expression is resolved in the instance where it is written
#   * input/output survive only on top-level components, other prefixes are kept
# ---------------------------------------------------------------------------
class Reject(Exception):
    """the library is not valid Modelica for the reference (the implementation may do anything
    but silently produce a model: see judge)"""


class Node:
    def __init__(self, cls, parent):
        self.cls, self.parent = cls, parent
        self.kids = {c["name"]: Node(c, self) for c in cls.get("classes", [])}

    def path(self):
        return [] if self.parent is None else self.parent.path() + [self.cls["name"]]


def root_node(lib):
    return Node({"name": "<root>", "kind": "package", "classes": lib["classes"]}, None)


def bases(node, seen=()):
    out = []
    for e in node.cls.get("extends", []):
        if e["base"][0] in BUILTIN:
            continue
        b = lookup_class(node, e["base"], inherited=False)
        if b is None:
            raise Reject("base class %s not found from %s" % (".".join(e["base"]), ".".join(node.path())))
        if b in seen or b is node:
            raise Reject("cyclic extends")
        out.append((e, b))
    return out


def member_class(node, name, depth=0):
    """class `name` declared in node or inherited by it"""
    if depth > 20:
        raise Reject("cyclic extends")
    if name in node.kids:
        return node.kids[name]
    for _, b in bases(node):
        r = member_class(b, name, depth + 1)
        if r is not None:
            return r
    return None


def merged_classes(node, depth=0):
    """nested classes of a class in pymoca's dictionary order: the bases' (in extends order) first, then own"""
    out = []
    if depth > 20:
        return out

    def put(x):
        for i, y in enumerate(out):
            if y.cls["name"] == x.cls["name"]:
                out[i] = x
                return
        out.append(x)
    for _, b in bases(node):
        for x in merged_classes(b, depth + 1):
            put(x)
    for x in node.kids.values():
        put(x)
    return out


def lookup_class(node, ref, inherited=True):
    """Modelica lookup of a (dotted) class name from inside `node`: first name in node (declared or
    inherited) then in the lexically enclosing classes; the rest as members of what was found."""
    n = node
    first = None
    while n is not None:
        first = member_class(n, ref[0]) if inherited else n.kids.get(ref[0])
        if first is None and not inherited:
            # extends clauses: the class's own (non-inherited) elements then enclosing scopes; the
            # enclosing scopes are searched with their inherited elements
            inherited = True
        if first is not None:
            break
        n = n.parent
    if first is None:
        return None
    for name in ref[1:]:
        first = member_class(first, name)
        if first is None:
            return None
    return first


def new_mod():
    return {"value": None, "sub": {}}


def raw_refs(e, out):
    if e[0] == "ref":
        out.append(e)
    elif e[0] == "op":
        for a in e[2]:
            raw_refs(a, out)
    return out


def collect_names(node, out, depth):
    """names of all components of a class, inherited ones included"""
    if depth > 20:
        return
    out.update(s["name"] for s in node.cls.get("symbols", []))
    for _, b in bases(node):
        collect_names(b, out, depth + 1)


def count_levels(outer, decl, alias):
    """how many of the three sources (enclosing/extends modifiers, declaration, type definition) say
    something about this leaf"""
    def nonempty(t):
        return t is not None and (t["value"] is not None or bool(t["sub"]))
    return int(nonempty(outer)) + int(nonempty(decl)) + int(nonempty(alias))


def mod_tree(mods, env, into=None):
    """modifier list written in instance `env` -> tree; a.b(c = 1) and a.b.c = 1 give the same tree"""
    t = into or new_mod()
    for m in mods:
        n = t
        for name in m["path"]:
            n = n["sub"].setdefault(name, new_mod())
        if m.get("value") is not None:
            if n["value"] is not None:
                raise Reject("duplicate modification")
            n["value"] = (m["value"], env, len(m["path"]) >= 2)
        if m.get("args"):
            n["nested"] = True
            mod_tree(m["args"], env, n)
    return t


def merge(outer, inner):
    if outer is None:
        return inner
    if inner is None:
        return outer
    t = {"value": outer["value"] if outer["value"] is not None else inner["value"], "sub": {},
         "nested": outer.get("nested") or inner.get("nested"),
         "dotted_any": bool(outer.get("dotted_any") or inner.get("dotted_any")
                            or any(v is not None and v[2] for v in (outer["value"], inner["value"])))}
    for k in list(inner["sub"]) + [k for k in outer["sub"] if k not in inner["sub"]]:
        t["sub"][k] = merge(outer["sub"].get(k), inner["sub"].get(k))
    return t


def reference(lib):
    """-> {"vars": {name: {...}}, "order": [names], "eqs": [[l, r] with flat refs], "flags": {...}}"""
    root = root_node(lib)
    top = root.kids.get(lib["top"])
    if top is None:
        raise Reject("no top class")
    variables, order, eqs = {}, [], []
    flags = {"shadow_paths": [], "dotted_attr": [], "scope_clash": [], "alias2": [], "pre_alias": [], "prefixed_twice": [], "late_paths": [],
             "nested_spelling": False, "mod_levels": {}, "depth": 0, "instances": {}, "inherited": 0, "aliases": 0, "arrays": 0,
             "multi_extends": 0, "nested_class_use": 0, "enclosing_extends": 0}
    pending = []        # (kind, where, expr, env) resolved after all variables are known
    decl_seen = {}

    def elementary(node, tref, declaring):
        """-> (builtin name, alias modifier tree innermost-first) or None when tref is a structured class"""
        if tref[0] in BUILTIN and len(tref) == 1:
            return tref[0], None, 0
        c = lookup_class(declaring, tref)
        if c is None:
            raise Reject("class %s not found from %s" % (".".join(tref), ".".join(declaring.path())))
        if c.cls["kind"] == "type":
            e = c.cls["extends"][0]
            base, inner, n = elementary(c, e["base"], c)
            flags["aliases"] += 1
            return base, merge(mod_tree(e["mods"], None), inner), n + 1
        return None

    def inst(node, prefix, mods, depth, chain):
        flags["depth"] = max(flags["depth"], depth)
        key = ".".join(node.path())
        flags["instances"][key] = flags["instances"].get(key, 0) + 1
        if len(chain) > 12:
            raise Reject("recursive instantiation")
        classes_seen = {}
        elem_names = set()
        collect_names(node, elem_names, 0)

        def elements(n, mods, deriving, seen):
            bs = bases(n, seen)
            elem_names.update(s_["name"] for s_ in n.cls.get("symbols", []))
            for k in n.kids:
                if classes_seen.setdefault(k, n.kids[k]) is not n.kids[k]:
                    raise Reject("class %s declared twice among own and inherited elements" % k)
            if len(bs) > 1:
                flags["multi_extends"] += 1
            for e, b in bs:
                if b.parent is not None and b.parent is not n.parent and b.parent in ancestors(n):
                    flags["enclosing_extends"] += 1
                elements(b, merge(mods, mod_tree(e["mods"], prefix)), deriving, seen + (n,))
            for s in n.cls.get("symbols", []):
                if n is not deriving:
                    flags["inherited"] += 1
                    # does the lookup of the type from the deriving class differ? (only used to
                    # classify a disagreement, never to decide it)
                    if s["type"][0] not in BUILTIN:
                        a, b_ = lookup_class(n, s["type"]), lookup_class(deriving, s["type"])
                        if a is not b_:
                            flags["shadow_paths"].append(".".join(prefix + [s["name"]]))
                component(n, s, mods)
            for l, r in n.cls.get("eqs", []):
                pending.append(("eq", None, (l, r), prefix))

        def component(n, s, mods):
            name = prefix + [s["name"]]
            # an element inherited more than once (diamond, or two bases declaring it identically) counts once
            sig = json.dumps([s["type"], s.get("prefixes"), s.get("dims"), s.get("mods"), s.get("value")], sort_keys=True)
            key_ = ".".join(name)
            if key_ in decl_seen:
                if decl_seen[key_] == sig:
                    flags["repeated_elements"] = flags.get("repeated_elements", 0) + 1
                    return
                raise Reject("conflicting declarations of %s" % key_)
            decl_seen[key_] = sig
            decl = mod_tree(s.get("mods", []), prefix)
            if s.get("value") is not None:
                decl["value"] = (s["value"], prefix, False)
            outer = mods["sub"].get(s["name"]) if mods else None
            m = merge(outer, decl)
            el = elementary(n, s["type"], n)
            if el is not None:
                base, alias, nalias = el
                if nalias >= 2 and any(k != "value" for k in m["sub"]):
                    flags["alias2"].append(".".join(name))
                if nalias >= 1 and outer is not None and any(
                        x.parent is not None and x.parent.parent is not None and x.parent.cls["kind"] != "package"
                        for x in chain):
                    flags["pre_alias"].append(".".join(name))
                levels = set()
                m = merge(m, alias)
                pre = [p for p in s.get("prefixes", []) if prefix == [] or p not in ("input", "output")]
                flat = ".".join(name)
                if flat in variables:
                    raise Reject("duplicate element %s" % flat)
                v = {"type": base, "prefixes": pre, "dims": list(s.get("dims", [])), "attrs": {}}
                if s.get("dims"):
                    flags["arrays"] += 1
                for a, sub in m["sub"].items():
                    if a not in ATTRS or a == "value" or sub["sub"]:
                        raise Reject("modification of unknown attribute %s of %s" % (a, flat))
                    if sub["value"] is not None:
                        pending.append(("attr", (flat, a), sub["value"][0], sub["value"][1]))
                        if sub["value"][2] or sub.get("dotted_any"):
                            flags["dotted_attr"].append(flat)
                        if sub["value"][1] is not None and sub["value"][1] != prefix:
                            heads = [x[1][0] for x in raw_refs(sub["value"][0], [])]
                            if any(h in elem_names for h in heads):
                                flags["scope_clash"].append(flat)
                if m["value"] is not None:
                    pending.append(("attr", (flat, "value"), m["value"][0], m["value"][1]))
                flags["mod_levels"][flat] = count_levels(outer, decl, alias)
                variables[flat] = v
                order.append(flat)
                return
            c = lookup_class(n, s["type"])
            if c.parent is not None and c.parent.parent is not None and c.parent.cls["kind"] != "package":
                flags["nested_class_use"] += 1
            # (classification only) pymoca's definition-order rule: inside nested class N of an instance E, a
            # class of E that comes at or after N in E's dictionary was not instantiated yet
            for k_ in range(len(chain) - 1):
                mc = merged_classes(chain[k_])
                if chain[k_ + 1] in mc and c in mc and mc.index(c) >= mc.index(chain[k_ + 1]):
                    flags["late_paths"].append(".".join(name))
            if s.get("dims"):
                raise Reject("array of components (outside the property's quantifier)")
            if m["value"] is not None:
                raise Reject("value modification of a structured component")
            if m.get("nested"):
                flags["nested_spelling"] = True
            used = set()
            inst_sub(c, name, m, depth + 1, chain + (c,), used)

        def inst_sub(c, name, m, depth, chain, used):
            before = set(variables)
            inst(c, name, m, depth, chain)
            # every modifier must hit an element
            have = set(x[len(".".join(name)) + 1:].split(".")[0] for x in variables if x not in before)
            for k in m["sub"]:
                if k not in have:
                    raise Reject("modified element %s.%s does not exist" % (".".join(name), k))

        elements(node, mods, node, ())

    def ancestors(n):
        out = []
        while n is not None:
            out.append(n)
            n = n.parent
        return out

    inst(top, [], new_mod(), 1, (top,))

    def resolve(e, env, where):
        t = e[0]
        if t == "ref":
            if env is None:
                raise Reject("reference in a type definition")
            flat = ".".join(env + e[1])
            if flat not in variables:
                raise Reject("reference %s written in instance '%s' denotes no variable (%s)"
                             % (".".join(e[1]), ".".join(env), where))
            return ["ref", flat, list(e[2])]
        if t == "op":
            return ["op", e[1], [resolve(a, env, where) for a in e[2]]]
        return list(e)

    sp_ = flags["shadow_paths"]
    shadow_eqs, shadow_images, shadow_raw = set(), set(), set()

    def image(e, env):
        """the equation as the implementation leaves it when the shadowed component is no leaf: references to it
        stay as written, the others are renamed"""
        if e[0] == "ref":
            flat = ".".join(env + e[1])
            if under(flat, sp_) or any(p.startswith(flat + ".") for p in sp_):
                shadow_raw.add(".".join(e[1]))
                return ["ref", ".".join(e[1]), list(e[2])]
            return ["ref", flat, list(e[2])]
        if e[0] == "op":
            return ["op", e[1], [image(a, env) for a in e[2]]]
        return list(e)

    for kind, where, e, env in pending:
        if kind == "eq":
            eqs.append([resolve(e[0], env, "equation"), resolve(e[1], env, "equation")])
            if sp_ and any(under(".".join(env + x[1]), sp_) for x in raw_refs(e[0], []) + raw_refs(e[1], [])):
                shadow_eqs.add(json.dumps(eqs[-1]))
                shadow_images.add(json.dumps([image(e[0], env), image(e[1], env)]))
        else:
            r = resolve(e, env, "modification of %s.%s" % where)
            variables[where[0]]["attrs"][where[1]] = r
            # (classification only) would the flat reference also exist with an enclosing instance
            # prefix put in front of it once more?
            parts = where[0].split(".")[:-1]
            for i in range(1, len(parts) + 1):
                pre = ".".join(parts[:i])
                if any(pre + "." + x in variables for x in refs_of(r, [])):
                    flags["prefixed_twice"].append(where[0])
    # conventions of the flat form (not part of the property): a declaration value of a non-parameter
    # is an equation; an unconnected flow variable is zero (C09's rule)
    for name in order:
        v = variables[name]
        if "flow" in v["prefixes"]:
            eqs.append([["ref", name, []], ["num", 0]])
    for name in order:
        v = variables[name]
        if "value" in v["attrs"] and not ({"parameter", "constant"} & set(v["prefixes"])):
            eqs.append([["ref", name, []], v["attrs"].pop("value")])
        if v["attrs"].get("fixed") == ["bool", False]:
            del v["attrs"]["fixed"]
    flags["shadow_eqs"] = shadow_eqs | shadow_images
    flags["shadow_raw"] = shadow_raw
    return {"vars": variables, "order": order, "eqs": eqs, "flags": flags}


# ---------------------------------------------------------------------------
# canonical form of the implementation's result, and the oracle
# ---------------------------------------------------------------------------
UNFLAT = []


def canon_expr(t):
    """child tree -> reference-style tree (refs as [ref, dotted, idx]); raises ValueError on junk"""
    k = t[0]
    if k == "ref":
        idx = []
        for i in t[2]:
            if i[0] != "num" or not isinstance(i[1], int):
                raise ValueError("non-literal index")
            idx.append(i[1])
        if t[3]:
            UNFLAT.append(t[1])
        return ["ref", t[1], idx]
    if k == "op":
        return ["op", t[1], [canon_expr(a) for a in t[2]]]
    if k in ("num", "bool", "str"):
        return [k, t[1]]
    raise ValueError("unexpected node %s" % k)


def canon_result(res):
    syms, names = {}, []
    for name, ty, pre, dims, attrs, pend, sname in res["symbols"]:
        if sname != name:
            raise ValueError("symbol key %s differs from symbol name %s" % (name, sname))
        if pend:
            raise ValueError("%d unapplied modification(s) left on %s" % (pend, name))
        d = []
        for x in dims:
            if x[0] != "num":
                raise ValueError("non-literal dimension")
            d.append(x[1])
        syms[name] = {"type": ty, "prefixes": list(pre), "dims": d,
                      "attrs": {a: canon_expr(v) for a, v in attrs.items()}}
        names.append(name)
    eqs = []
    for e in res["eqs"]:
        if e[0] != "eq":
            raise ValueError("non-equation %s" % e[0])
        eqs.append([canon_expr(e[1]), canon_expr(e[2])])
    return syms, names, eqs


def refs_of(e, out):
    if e[0] == "ref":
        out.append(e[1])
    elif e[0] == "op":
        for a in e[2]:
            refs_of(a, out)
    return out


def compare(ref, res):
    """-> list of (where, message) differences between the reference and the implementation"""
    diffs = []
    if "symbols" not in res:
        return [("<flatten>", "flatten failed on a valid library: %s" % json.dumps(res)[:200])]
    del UNFLAT[:]
    try:
        syms, names, eqs = canon_result(res)
    except ValueError as ex:
        return [("<form>", str(ex))]
    for r in sorted(set(UNFLAT)):
        diffs.append((r, "reference %s was left un-flattened" % r))
    for n in ref["order"]:
        if n not in syms:
            diffs.append((n, "no flat variable for leaf component %s" % n))
    for n in names:
        if n not in ref["vars"]:
            diffs.append((n, "flat variable %s corresponds to no leaf component" % n))
    if len(set(names)) != len(names):
        diffs.append(("<names>", "duplicate flat variable"))
    for n in ref["order"]:
        if n not in syms:
            continue
        a, b = ref["vars"][n], syms[n]
        if a["type"] != b["type"]:
            diffs.append((n, "%s has type %s, declared type is %s" % (n, b["type"], a["type"])))
        if sorted(a["prefixes"]) != sorted(b["prefixes"]):
            diffs.append((n, "%s has prefixes %s, expected %s" % (n, b["prefixes"], a["prefixes"])))
        if a["dims"] != b["dims"]:
            diffs.append((n, "%s has dimensions %s, expected %s" % (n, b["dims"], a["dims"])))
        for att in ATTRS:
            x, y = a["attrs"].get(att), b["attrs"].get(att)
            if x != y:
                diffs.append((n, "%s.%s is %s, the outermost applicable modification gives %s"
                              % (n, att, "unset" if y is None else r_flat(y), "unset" if x is None else r_flat(x)),
                              (refs_of(x, []) if x else []) + (refs_of(y, []) if y else []), "attr"))
    want = sorted(json.dumps(e) for e in ref["eqs"])
    got = sorted(json.dumps(e) for e in eqs)
    if want != got:
        for e in sorted(set(want)):
            if want.count(e) > got.count(e):
                ee = json.loads(e)
                diffs.append((eq_owner(ee), "equation %s = %s is missing from the flat model" % (r_flat(ee[0]), r_flat(ee[1])),
                              refs_of(ee[0], []) + refs_of(ee[1], []), "eq", e))
        for e in sorted(set(got)):
            if got.count(e) > want.count(e):
                ee = json.loads(e)
                diffs.append((eq_owner(ee), "flat model has the equation %s = %s that no instance contains"
                              % (r_flat(ee[0]), r_flat(ee[1])), refs_of(ee[0], []) + refs_of(ee[1], []), "eq", e))
    for e in eqs:
        for r in refs_of(e[0], []) + refs_of(e[1], []):
            if r not in syms:
                diffs.append((eq_owner(e), "equation refers to %s which is no flat variable" % r,
                              refs_of(e[0], []) + refs_of(e[1], []), "eq", json.dumps(e)))
    return diffs


def eq_owner(e):
    r = refs_of(e[0], []) + refs_of(e[1], [])
    return r[0] if r else "<eq>"


def r_flat(e):
    if e[0] == "ref":
        return e[1] + ("[%s]" % ",".join(map(str, e[2])) if e[2] else "")
    if e[0] == "op":
        return "(" + (" %s " % e[1]).join(r_flat(a) for a in e[2]) + ")" if len(e[2]) > 1 else "(%s%s)" % (e[1], r_flat(e[2][0]))
    return str(e[1])


def under(name, paths):
    return any(name == p or name.startswith(p + ".") for p in paths)


KNOWN_DOTTED = "dotted-attribute-modification-becomes-value"
KNOWN_SCOPE = "attribute-modification-resolved-in-component-scope"
KNOWN_ALIAS2 = "alias-of-alias-attribute-modification-dropped"
KNOWN_PRE = "modified-alias-component-of-nested-class-rejected"
KNOWN_TWICE = "flattened-reference-prefixed-twice"
KNOWN_LATE = "nested-class-defined-after-user-resolved-lexically"


def judge_all(lib, res):
    """-> list of (tag, why), at most one per tag.  A difference is attributed to a recorded defect only
    when it lies exactly on a leaf (or below a component) that the reference flagged with that defect's
    input shape; any other difference is tagged flat-model-differs / valid-library-rejected."""
    try:
        ref = reference(lib)
    except Reject:
        return []                # outside the reference's subset (invalid Modelica): no verdict
    fl = ref["flags"]
    if "symbols" not in res:
        exc = res.get("exc")
        why = "flatten failed on a valid library: %s: %s" % (exc, str(res.get("msg", res))[:160].replace("\n", " / "))
        if exc == "IndexError" and fl["nested_spelling"]:
            return []            # nested spelling through a structured component is rejected: allowed
        if fl["late_paths"] and not fl["shadow_paths"]:
            return [(KNOWN_LATE, why)]
        if fl["shadow_paths"]:
            # the wrongly resolved class is missing (ClassNotFoundError), lacks the modified element
            # (ModificationTargetNotFound), is an alias instead of a model or vice versa (Exception / IndexError)
            return [(KNOWN_SHADOW, why)]
        if exc in ("IndexError", "Exception") and fl["pre_alias"]:
            return [(KNOWN_PRE, why)]
        return [("valid-library-rejected", why)]
    out = {}
    for d in compare(ref, res):
        where, msg = d[0], d[1]
        involved = [where] + (list(d[2]) if len(d) > 2 else [])
        sparents = [".".join(x.split(".")[:-1]) for x in fl["shadow_paths"]]
        if (len(d) > 4 and d[4] in fl["shadow_eqs"]) or (where in fl["shadow_raw"] and "un-flattened" in msg) or \
                any(under(w, fl["shadow_paths"]) for w in involved) or (fl["shadow_paths"] and ("un-flattened" in msg or "no flat variable" in msg
                                      or any(w not in ref["vars"] for w in involved[1:]))) or \
                (len(d) == 3 and any(q == "" or any(under(w, [q]) for w in involved) for q in sparents)):
            # the shadowed component itself, or an equation of the instance that declares it
            tag = KNOWN_SHADOW
        elif any(under(w, fl["late_paths"]) for w in involved) or \
                (fl["late_paths"] and ("un-flattened" in msg or "no flat variable" in msg
                                       or any(w not in ref["vars"] for w in involved[1:]))) or \
                ((len(d) == 3 or (len(d) > 3 and d[3] == "eq")) and any(q == "" or any(under(w, [q]) for w in involved)
                                     for q in [".".join(x.split(".")[:-1]) for x in fl["late_paths"]])):
            tag = KNOWN_LATE
        elif where in fl["dotted_attr"]:
            tag = KNOWN_DOTTED
        elif where in fl["alias2"]:
            tag = KNOWN_ALIAS2
        elif where in fl["scope_clash"]:
            tag = KNOWN_SCOPE
        elif where in fl["prefixed_twice"]:
            tag = KNOWN_TWICE
        else:
            tag = "flat-model-differs"
        out.setdefault(tag, msg)
    return sorted(out.items(), key=lambda kv: kv[0] != "flat-model-differs")


def judge(lib, res):
    v = judge_all(lib, res)
    return v[0] if v else None


# ---------------------------------------------------------------------------
# Coq encoding
# ---------------------------------------------------------------------------
RESERVED = {"Real": 1, "Integer": 2, "Boolean": 3, "String": 4, "value": 5, "min": 6, "max": 7, "start": 8,
            "fixed": 9, "nominal": 10, "unit": 11, "quantity": 12, "displayUnit": 13, "__value": 14,
            "__builtin": 15, "type": 16, "model": 17, "package": 18, "input": 19, "output": 20,
            "parameter": 21, "constant": 22, "discrete": 23, "flow": 24, "class": 25, "block": 26, "record": 27,
            "state": 28, "+": 30, "-": 31, "*": 32, "/": 33}
ERR = {"ClassNotFoundError": "ClassNotFound", "IndexError": "IndexErr", "ModificationTargetNotFound": "ModTargetNotFound",
       "KeyError": "KeyErr", "Exception": "OtherExc",
       "RecursionError": "OutOfFuel"}      # unbounded class recursion: the model runs out of fuel


class Ids:
    def __init__(self):
        self.m = dict(RESERVED)
        self.next = 40

    def __call__(self, name):
        if name not in self.m:
            self.m[name] = self.next
            self.next += 1
        return cq_pos(self.m[name])

    def path(self, names):
        return cq_list([self(n) for n in names])


class Unencodable(Exception):
    pass


def enc_expr(ids, e, flat=False):
    t = e[0]
    if t == "num":
        if not isinstance(e[1], int) or isinstance(e[1], bool):
            raise Unencodable("non-integer literal %r" % (e[1],))
        return "(ENum %s)" % core.cq_Z(e[1])
    if t == "bool":
        return "(EBool %s)" % core.cq_bool(e[1])
    if t == "str":
        return "(EStr %s)" % ids("str:" + e[1])
    if t == "ref":
        names = e[1].split(".") if flat else e[1]
        return "(ERef %s %s)" % (ids.path(names), cq_list([core.cq_Z(i) for i in e[2]]))
    if t == "op":
        return "(EOp %s %s)" % (ids(e[1]), cq_list([enc_expr(ids, a, flat) for a in e[2]]))
    raise Unencodable("node %s" % t)


def enc_mod(ids, m):
    vals = []
    if m.get("args") is not None:
        vals.append("MClass %s" % cq_list([enc_mod(ids, a) for a in m["args"]]))
    if m.get("value") is not None:
        vals.append("MExpr %s" % enc_expr(ids, m["value"]))
    return "(MArg None %s %s)" % (ids.path(m["path"]), cq_list(vals))


def enc_sym(ids, s):
    mods = [enc_mod(ids, m) for m in s.get("mods", [])]
    if s.get("value") is not None:
        mods.append("(MArg None [%s] [MExpr %s])" % (ids("value"), enc_expr(ids, s["value"])))
    return "(mkSym %s %s %s %s %s)" % (ids(s["name"]), ids.path(s["type"]), ids.path(s.get("prefixes", [])),
                                       cq_list([core.cq_Z(d) for d in s.get("dims", [])]), cq_list(mods))


def enc_class(ids, c):
    exts = ["(%s, %s)" % (ids.path(e["base"]), cq_list([enc_mod(ids, m) for m in e["mods"]]))
            for e in c.get("extends", [])]
    eqs = ["(%s, %s)" % (enc_expr(ids, l), enc_expr(ids, r)) for l, r in c.get("eqs", [])]
    return "(CDef %s %s %s %s %s %s)" % (
        ids(c["name"]), ids(c["kind"]), cq_list([enc_class(ids, n) for n in c.get("classes", [])]),
        cq_list(exts), cq_list([enc_sym(ids, s) for s in c.get("symbols", [])]), cq_list(eqs))


def enc_outcome(ids, res):
    if "symbols" not in res:
        if res.get("exc") in ERR:
            return "(OErr %s)" % ERR[res["exc"]]
        raise Unencodable("outcome %s" % json.dumps(res)[:120])
    syms = []
    for name, ty, pre, dims, attrs, pend, _ in res["symbols"]:
        ds = []
        for d in dims:
            if d[0] != "num" or not isinstance(d[1], int):
                raise Unencodable("dimension")
            ds.append(core.cq_Z(d[1]))
        at = []
        for a in ATTRS:
            if a in attrs:
                at.append("(%s, %s)" % (ids(a), enc_expr(ids, child_expr(attrs[a]), flat=True)))
        if not ty or ty.startswith("<"):
            raise Unencodable("type of %s" % name)
        syms.append("(%s, %s, %s, %s, %s, %s)" % (ids.path(name.split(".")), ids.path(ty.split(".")), ids.path(pre),
                                                  cq_list(ds), cq_list(at), core.cq_nat(pend)))
    eqs = []
    for e in res["eqs"]:
        if e[0] != "eq":
            raise Unencodable("non-equation")
        eqs.append("(%s, %s)" % (enc_expr(ids, child_expr(e[1]), flat=True), enc_expr(ids, child_expr(e[2]), flat=True)))
    return "(OFlat %s %s)" % (cq_list(syms), cq_list(eqs))


def child_expr(t):
    """child tree -> [ref, dotted, idx] form WITHOUT demanding that the reference was flattened"""
    k = t[0]
    if k == "ref":
        idx = []
        for i in t[2]:
            if i[0] != "num" or not isinstance(i[1], int):
                raise Unencodable("index")
            idx.append(i[1])
        return ["ref", t[1], idx]
    if k == "op":
        return ["op", t[1], [child_expr(a) for a in t[2]]]
    if k in ("num", "bool", "str"):
        return [k, t[1]]
    raise Unencodable("node %s" % k)


def encode_case(lib, res):
    ids = Ids()
    return "(%s, %s, %s)" % (cq_list([enc_class(ids, c) for c in lib["classes"]]), ids.path([lib["top"]]),
                             enc_outcome(ids, res))


PREAMBLE = "From Coq Require Import List ZArith.\nImport ListNotations.\nFrom PV Require Import Lib.ClassTree Model.C07_flatten.\n"
CASE_TYPE = "list cdef * path * outcome"


# ---------------------------------------------------------------------------
# generator
# ---------------------------------------------------------------------------
def num(n):
    return ["num", n]


def ref(*names, idx=()):
    return ["ref", list(names), list(idx)]


def mk_sym(name, ty, prefixes=(), dims=(), mods=(), value=None):
    return {"name": name, "type": list(ty), "prefixes": list(prefixes), "dims": list(dims), "mods": list(mods),
            "value": value}


def mk_mod(path, args=None, value=None):
    return {"path": list(path), "args": args, "value": value}


def mk_class(name, kind="model", classes=(), extends=(), symbols=(), eqs=()):
    return {"name": name, "kind": kind, "classes": list(classes), "extends": list(extends),
            "symbols": list(symbols), "eqs": list(eqs)}


def mk_alias(name, base, mods=()):
    return mk_class(name, "type", extends=[{"base": list(base), "mods": list(mods)}])


class Info:
    """what the generator knows about a generated class"""

    def __init__(self, cls, where):
        self.cls = cls
        self.where = where              # [] top level, ["P"] inside package P
        self.names = set()              # all element names (own + inherited)
        self.reals = []                 # (relative path, dims) of continuous Real leaves, own + inherited + sub
        self.params = []                # relative paths of Real parameters
        self.depth = 1
        self.baseset = set()            # names of all (transitive) bases
        self.subs = []                  # (component name, Info) own + inherited


def class_ref(frm, info):
    """how to name class `info` from a class located at `frm`"""
    if info.where and info.where != frm[:len(info.where)]:
        return info.where + [info.cls["name"]]
    return [info.cls["name"]]


VAR_NAMES = ["x", "y", "z", "u", "w", "v", "h", "q", "r", "s"]
PAR_NAMES = ["k", "p", "g", "c0", "tau"]
COMP_NAMES = ["a", "b", "c", "d", "e", "f", "m1", "m2"]


def fresh(rng, pool, used):
    cand = [n for n in pool if n not in used]
    if not cand:
        i = 1
        while "%s%d" % (pool[0], i) in used:
            i += 1
        return "%s%d" % (pool[0], i)
    return rng.choice(cand[:4])


def term(rng, info, exclude=None):
    """a Real-valued reference to a variable of the class being generated"""
    pool = [r for r in info.reals + [(p, []) for p in info.params] if r[0] != exclude]
    if not pool:
        return num(rng.randint(0, 9))
    p, dims = rng.choice(pool)
    return ref(*p, idx=[rng.randint(1, d) for d in dims])


def rhs(rng, info, exclude=None):
    x = rng.random()
    if x < 0.3:
        return term(rng, info, exclude)
    if x < 0.75:
        return ["op", rng.choice("+-*"), [term(rng, info, exclude), rng.choice([num(rng.randint(1, 9)), term(rng, info, exclude)])]]
    if x < 0.85:
        return ["op", "-", [term(rng, info, exclude)]]
    return ["op", "+", [["op", "*", [num(rng.randint(2, 5)), term(rng, info, exclude)]], term(rng, info, exclude)]]


def add_elementary(rng, info, aliases, frm, top=False, n=None):
    c = info.cls
    for _ in range(n if n is not None else rng.randint(1, 3)):
        x = rng.random()
        prefixes, dims, mods, value = [], [], [], None
        ty = ["Real"]
        if aliases and rng.random() < 0.3:
            al = rng.choice(aliases)
            ty = class_ref(frm, al)
        if x < 0.25:
            name = fresh(rng, PAR_NAMES, info.names)
            prefixes = [rng.choice(["parameter", "parameter", "constant"])]
            value = num(rng.randint(1, 9))
            if rng.random() < 0.3:
                mods.append(mk_mod([rng.choice(["min", "max", "nominal"])], value=num(rng.randint(0, 20))))
            info.params.append([name])
        else:
            name = fresh(rng, VAR_NAMES, info.names)
            if x < 0.45:
                prefixes = [rng.choice(["input", "output"])]
            elif x < 0.5:
                prefixes = ["discrete"]
            elif x < 0.53 and ty == ["Real"]:
                prefixes = ["flow"]
            if rng.random() < 0.25:
                dims = [rng.randint(2, 3)] + ([rng.randint(2, 3)] if rng.random() < 0.2 else [])
            if rng.random() < 0.35:
                mods.append(mk_mod(["start"], value=num(rng.randint(0, 9))))
                if rng.random() < 0.3:
                    mods.append(mk_mod(["fixed"], value=["bool", rng.random() < 0.7]))
            if rng.random() < 0.15 and not dims:
                value = rhs(rng, info) if rng.random() < 0.6 else num(rng.randint(0, 9))
            if rng.random() < 0.08 and ty == ["Real"]:
                mods.append(mk_mod(["unit"], value=["str", rng.choice(["m", "kg", "m/s"])]))
            if "flow" not in prefixes:
                info.reals.append(([name], dims))
        info.names.add(name)
        c["symbols"].append(mk_sym(name, ty, prefixes, dims, mods, value))


def add_component(rng, info, sub, frm, cname=None):
    name = cname or fresh(rng, COMP_NAMES, info.names)
    info.names.add(name)
    mods = []
    if sub.params and rng.random() < 0.35:
        p = rng.choice(sub.params)
        v = num(rng.randint(10, 30)) if rng.random() < 0.6 or not info.params else ref(*rng.choice(info.params))
        mods.append(mk_mod(p, value=v))
    info.cls["symbols"].append(mk_sym(name, class_ref(frm, sub), mods=mods))
    info.reals += [([name] + p, d) for p, d in sub.reals]
    info.params += [[name] + p for p in sub.params]
    info.depth = max(info.depth, sub.depth + 1)
    info.subs.append((name, sub))


def add_extends(rng, info, base, frm):
    info.cls["extends"].append({"base": class_ref(frm, base), "mods": []})
    info.names |= base.names
    info.reals += base.reals
    info.params += base.params
    info.depth = max(info.depth, base.depth)
    info.baseset |= base.baseset | {base.cls["name"]}
    info.subs += base.subs


def add_eqs(rng, info, n=None):
    for _ in range(n if n is not None else rng.randint(1, 3)):
        if not info.reals:
            return
        p, dims = rng.choice(info.reals)
        lhs = ref(*p, idx=[rng.randint(1, d) for d in dims])
        info.cls["eqs"].append([lhs, rhs(rng, info, exclude=p)])


def can_extend(info, base):
    return not (info.names & base.names) and not (info.baseset & (base.baseset | {base.cls["name"]})) \
        and base.cls["name"] not in info.baseset


def gen_case(rng, shape=None):
    shape = shape or rng.choice(["plain", "plain", "extends", "extends", "package", "nested", "shadow", "deep",
                                 "inherit-nested", "diamond"])
    if shape == "inherit-nested":
        return gen_inherit_nested(rng)
    if shape == "diamond":
        return gen_diamond(rng)
    top_classes, pkg_classes = [], []
    infos, aliases = [], []
    # type aliases
    for i in range(rng.choice([0, 1, 1, 2])):
        name = ["T", "U"][i]
        where = ["P"] if shape in ("package", "shadow") and rng.random() < 0.5 else []
        mods = []
        for a in rng.sample(["min", "max", "start", "nominal"], rng.randint(0, 2)):
            mods.append(mk_mod([a], value=num(rng.randint(0, 50))))
        al = Info(mk_alias(name, ["Real"], mods), where)
        aliases.append(al)
        (pkg_classes if where else top_classes).append(al.cls)
    nclasses = rng.randint(2, 5) if shape != "deep" else rng.randint(3, 4)
    for i in range(nclasses):
        name = "ABCDE"[i]
        where = ["P"] if shape in ("package", "shadow") and rng.random() < 0.5 else []
        if where and rng.random() < 0.35 and not any(x.cls["name"] == "M" for x in infos):
            name = "M"          # simple names are reused: P.M below the top-level model M (scopes need full paths)
        info = Info(mk_class(name), where)
        frm = where + [name]
        # extends (before own elements, so that names stay disjoint)
        if infos and shape in ("extends", "package", "shadow", "nested", "deep") and rng.random() < 0.6:
            for base in rng.sample(infos, min(len(infos), rng.choice([1, 1, 2]))):
                if can_extend(info, base) and base.depth <= 3:
                    add_extends(rng, info, base, frm)
        vis_aliases = [a for a in aliases]
        add_elementary(rng, info, vis_aliases, frm)
        # sub-components
        cands = [s for s in infos if s.depth <= (2 if shape != "deep" else 3) and s.cls["name"] not in info.baseset]
        if cands and rng.random() < (0.9 if shape == "deep" else 0.55):
            for _ in range(rng.choice([1, 1, 2])):
                sub = rng.choice(cands if shape != "deep" else cands[-2:])
                if info.depth <= 3 and sub.depth <= 2 or shape == "deep" and sub.depth <= 3:
                    add_component(rng, info, sub, frm)
        # nested class definition used by a local component (and inherited by deriving classes)
        if shape == "nested" and rng.random() < 0.7:
            nname = "N%s" % name
            n = Info(mk_class(nname), frm)
            nfrm = frm + [nname]
            if infos and rng.random() < 0.4:
                base = rng.choice(infos)
                if base.depth <= 2:
                    add_extends(rng, n, base, nfrm)        # extends of a class of an enclosing scope
            add_elementary(rng, n, vis_aliases, nfrm, n=rng.randint(1, 2))
            add_eqs(rng, n, 1)
            info.cls["classes"].append(n.cls)
            n.where = frm                                   # only nameable from inside `name`
            sname = fresh(rng, COMP_NAMES, info.names)
            info.names.add(sname)
            info.cls["symbols"].append(mk_sym(sname, [nname]))
            info.reals += [([sname] + p, d) for p, d in n.reals]
            info.params += [[sname] + p for p in n.params]
            info.depth = max(info.depth, n.depth + 1)
            info.names.add(nname)
        add_eqs(rng, info)
        infos.append(info)
        (pkg_classes if where else top_classes).append(info.cls)
    # top model
    m = Info(mk_class("M"), [])
    if shape in ("extends", "shadow", "nested") and rng.random() < 0.6:
        for base in rng.sample(infos, min(len(infos), rng.choice([1, 2]))):
            if can_extend(m, base) and base.depth <= 3:
                add_extends(rng, m, base, ["M"])
    add_elementary(rng, m, aliases, ["M"], top=True, n=rng.randint(1, 3))
    for _ in range(rng.randint(1, 3)):
        cands = [s for s in infos if s.depth <= 3 and s.cls["name"] not in m.baseset]
        if cands:
            add_component(rng, m, rng.choice(cands[-3:]), ["M"])
    if shape == "shadow":
        # a class of the same name as one used inside package P, visible from M but not meant by P's classes
        used = [c for c in pkg_classes if c["kind"] != "package"]
        victims = [c["name"] for c in used if c["name"] != "M" and any(s["type"] == [c["name"]] for o in pkg_classes for s in o.get("symbols", []))]
        if victims and not any(c["name"] == victims[0] for c in top_classes):
            v = rng.choice(victims)
            if rng.random() < 0.5:
                top_classes.append(mk_alias(v, ["Integer"], [mk_mod(["max"], value=num(77))]))
            else:
                top_classes.append(mk_class(v, symbols=[mk_sym("zz", ["Real"])]))
    add_eqs(rng, m, rng.randint(1, 3))
    classes = list(top_classes)
    if pkg_classes:
        classes.insert(rng.randint(0, len(classes)), mk_class("P", "package", classes=pkg_classes))
    classes.append(m.cls)
    lib = {"classes": classes, "top": "M", "shape": shape}
    lib["text"] = render(lib)
    return lib


def gen_inherit_nested(rng):
    """nested classes of M use, by simple name, a local class X and a type alias Cnt that M INHERITS from
    Base (same-named decoys at root level), in both definition orders of the nested classes"""
    decoys = rng.random() < 0.65
    classes = []
    X = mk_class("X", symbols=[mk_sym("k", ["Real"], ["parameter"], value=num(rng.randint(1, 9))), mk_sym("pb", ["Real"])],
                 eqs=[[ref("pb"), ref("k")]])
    cnt_base = rng.choice(["Integer", "Real"])
    base_syms = [mk_sym("bx", ["X"])] if rng.random() < 0.5 else []
    base_syms.append(mk_sym("g", ["Real"], ["parameter"], value=num(3)))
    Base = mk_class("Base", classes=[X, mk_alias("Cnt", [cnt_base], [mk_mod(["min"], value=num(1))] if rng.random() < 0.5 else [])],
                    symbols=base_syms)
    helper = mk_class("Helper", symbols=[mk_sym("hp", ["X"])] + ([mk_sym("c", ["Cnt"], ["discrete"])] if rng.random() < 0.6 else []),
                      eqs=[[ref("hp", "pb"), num(rng.randint(1, 5))]] if rng.random() < 0.5 else [])
    inner_syms = [mk_sym("z", ["Real"])]
    uses = rng.choice(["helper", "x", "both", "cnt"])
    inner_eqs = []
    if uses in ("helper", "both"):
        inner_syms.append(mk_sym("h", ["Helper"]))
        inner_eqs.append([ref("z"), ref("h", "hp", "pb")])
    if uses in ("x", "both"):
        inner_syms.append(mk_sym("p", ["X"]))
        inner_eqs.append([ref("z"), ["op", "+", [ref("p", "pb"), num(1)]]])
    if uses == "cnt":
        inner_syms.append(mk_sym("n", ["Cnt"], ["discrete"]))
    inner = mk_class("Inner", symbols=inner_syms, eqs=inner_eqs)
    nested = [helper, inner] if rng.random() < 0.5 else [inner, helper]
    where_nested = rng.choice(["M", "M", "Base2"])
    m_syms = [mk_sym("i1", ["Inner"])] + ([mk_sym("i2", ["Inner"])] if rng.random() < 0.5 else []) \
        + ([mk_sym("h0", ["Helper"])] if rng.random() < 0.4 else []) + [mk_sym("w", ["Real"])]
    if decoys:
        classes.append(mk_class("X", symbols=[mk_sym("pr", ["Real"])], eqs=[[ref("pr"), num(0)]]))
        classes.append(mk_alias("Cnt", ["Real" if cnt_base == "Integer" else "Integer"], [mk_mod(["max"], value=num(77))]))
    classes.append(Base)
    if where_nested == "Base2":
        # the nested classes come from a second base: inherited users of inherited classes
        classes.append(mk_class("Base2", extends=[{"base": ["Base"], "mods": []}], classes=nested))
        M = mk_class("M", extends=[{"base": ["Base2"], "mods": []}], symbols=m_syms, eqs=[[ref("w"), ref("i1", "z")]])
    else:
        M = mk_class("M", extends=[{"base": ["Base"], "mods": []}], classes=nested, symbols=m_syms, eqs=[[ref("w"), ref("i1", "z")]])
    rng.shuffle(classes)
    classes.append(M)
    lib = {"classes": classes, "top": "M", "shape": "inherit-nested"}
    lib["text"] = render(lib)
    return lib


def gen_diamond(rng):
    """the same component reaches a class more than once: diamond inheritance (A extends B and C, both extend D) or
    two bases declaring a component identically; anywhere in the instance hierarchy"""
    classes = []
    dsyms = [mk_sym("x", ["Real"], dims=[2] if rng.random() < 0.3 else [])]
    if rng.random() < 0.6:
        dsyms.append(mk_sym("k", ["Real"], ["parameter"], value=num(rng.randint(1, 9))))
    structured = rng.random() < 0.4
    if structured:
        classes.append(mk_class("S", symbols=[mk_sym("v", ["Real"])], eqs=[[ref("v"), num(2)]]))
        dsyms.append(mk_sym("s", ["S"]))
    xr = ref("x", idx=[1]) if dsyms[0]["dims"] else ref("x")
    D = mk_class("D", symbols=dsyms, eqs=[[xr, num(rng.randint(1, 9))]] + ([[ref("s", "v"), xr]] if structured and rng.random() < 0.5 else []))
    same_decl = rng.random() < 0.35
    w = mk_sym("w", ["Real"], mods=[mk_mod(["start"], value=num(3))] if rng.random() < 0.5 else [])
    bsyms = [mk_sym("yb", ["Real"])] + ([dict(w)] if same_decl else [])
    csyms = [mk_sym("yc", ["Real"])] + ([json.loads(json.dumps(w))] if same_decl else [])
    kind = rng.choice(["diamond", "diamond", "samedecl", "deep"])
    if kind == "samedecl":
        B = mk_class("B", symbols=[mk_sym("yb", ["Real"]), dict(w)], eqs=[[ref("yb"), ref("w")]])
        C = mk_class("C", symbols=[mk_sym("yc", ["Real"]), json.loads(json.dumps(w))], eqs=[[ref("yc"), num(1)]])
        classes += [B, C]
    else:
        B = mk_class("B", extends=[{"base": ["D"], "mods": []}], symbols=bsyms, eqs=[[ref("yb"), xr]])
        mid = "D"
        if kind == "deep":
            classes.append(mk_class("D2", extends=[{"base": ["D"], "mods": []}], symbols=[mk_sym("d2", ["Real"])]))
            mid = "D2"
        C = mk_class("C", extends=[{"base": [mid], "mods": []}], symbols=csyms, eqs=[[ref("yc"), num(1)]])
        classes += [D, B, C]
    ext = [{"base": ["B"], "mods": []}, {"base": ["C"], "mods": []}]
    if rng.random() < 0.5:
        ext.reverse()
    A = mk_class("A", extends=ext, symbols=[mk_sym("z", ["Real"])], eqs=[[ref("z"), ["op", "+", [ref("yb"), ref("yc")]]]])
    place = rng.choice(["top", "component", "extends", "both"])
    rng.shuffle(classes)
    if place == "top":
        A["name"] = "M"
        classes.append(A)
    else:
        classes.append(A)
        msyms = [mk_sym("u", ["Real"], ["input"])]
        mext = []
        meqs = []
        if place in ("component", "both"):
            msyms += [mk_sym("a1", ["A"])] + ([mk_sym("a2", ["A"])] if rng.random() < 0.5 else [])
            meqs.append([ref("a1", "z"), ref("u")])
        if place in ("extends", "both"):
            mext = [{"base": ["A"], "mods": []}]
            meqs.append([ref("z"), ref("u")])
        classes.append(mk_class("M", extends=mext, symbols=msyms, eqs=meqs))
    lib = {"classes": classes, "top": "M", "shape": "diamond"}
    lib["text"] = render(lib)
    return lib


# hand-written corner cases (always run)
def fixed_cases():
    out = []
    A = mk_class("A", symbols=[mk_sym("x", ["Real"], ["input"]), mk_sym("y", ["Real"], ["output"]),
                               mk_sym("k", ["Real"], ["parameter"], value=num(2))],
                 eqs=[[ref("y"), ["op", "*", [ref("k"), ref("x")]]]])
    out.append({"classes": [A, mk_class("M", symbols=[mk_sym("a1", ["A"]), mk_sym("a2", ["A"]),
                                                       mk_sym("u", ["Real"], ["input"]), mk_sym("o", ["Real"], ["output"])],
                                        eqs=[[ref("a1", "x"), ref("u")], [ref("a2", "x"), ref("a1", "y")],
                                             [ref("o"), ref("a2", "y")]])], "top": "M", "shape": "fixed-io"})
    B1 = mk_class("B1", symbols=[mk_sym("x", ["Real"])], eqs=[[ref("x"), num(1)]])
    B2 = mk_class("B2", symbols=[mk_sym("y", ["Real"], dims=[2])], eqs=[[ref("y", idx=[1]), num(2)]])
    out.append({"classes": [B1, B2, mk_class("M", extends=[{"base": ["B1"], "mods": []}, {"base": ["B2"], "mods": []}],
                                              symbols=[mk_sym("z", ["Real"])],
                                              eqs=[[ref("z"), ["op", "+", [ref("x"), ref("y", idx=[2])]]]])],
                "top": "M", "shape": "fixed-multi-extends"})
    # the recorded defect: inherited `T t` is looked up from the deriving class
    P = mk_class("P", "package", classes=[mk_alias("T", ["Real"], [mk_mod(["min"], value=num(0))]),
                                          mk_class("B", symbols=[mk_sym("t", ["T"])])])
    out.append({"classes": [P, mk_alias("T", ["Integer"], [mk_mod(["max"], value=num(7))]),
                            mk_class("M", extends=[{"base": ["P", "B"], "mods": []}])], "top": "M",
                "shape": "fixed-shadow"})
    P2 = mk_class("P", "package", classes=[mk_class("T", symbols=[mk_sym("y", ["Real"])]),
                                           mk_class("B", symbols=[mk_sym("t", ["T"])])])
    out.append({"classes": [P2, mk_class("M", extends=[{"base": ["P", "B"], "mods": []}])], "top": "M",
                "shape": "fixed-shadow"})
    out.append({"classes": [P2, mk_class("M", symbols=[mk_sym("b", ["P", "B"])])], "top": "M", "shape": "fixed-package"})
    for c in out:
        c["text"] = render(c)
    return out


# ---------------------------------------------------------------------------
def run_children(ctx, module, cases, workers=3):
    if len(cases) < 60:
        return core.run_child(ctx, module, cases)
    n = (len(cases) + workers - 1) // workers
    chunks = [cases[i:i + n] for i in range(0, len(cases), n)]
    with ThreadPoolExecutor(max_workers=workers) as ex:
        parts = list(ex.map(lambda ch: core.run_child(ctx, module, ch, timeout=1500), chunks))
    return [r for p in parts for r in p]


def slim(lib):
    return {k: lib[k] for k in ("classes", "top", "shape", "text") if k in lib}


def correspondence(ctx, label, libs, results, name):
    """Coq model vs implementation on every case; returns the indices that mismatch"""
    enc, idx, unenc = [], [], []
    for i, (lib, r) in enumerate(zip(libs, results)):
        try:
            enc.append(encode_case(lib, r))
            idx.append(i)
        except Unencodable as ex:
            unenc.append((i, str(ex)))
    bad = core.coq_eval_cases(ctx, label, PREAMBLE, CASE_TYPE, enc, "check_case", shard=60)
    mism = list(range(len(libs))) if bad is None else sorted([idx[j] for j in bad] + [i for i, _ in unenc])
    ctx.oblige(name, not mism, "mismatching cases: %s; not encodable: %s" % (mism[:10], unenc[:3]))
    return mism


def spec_comparison(ctx, label, libs, results, judge_fn, name):
    """second comparison: the real flat model vs the Coq SPECIFICATION Lib/Inst.v `inst` (ordered variables,
    multiset of equations) on the libraries outside the recorded defect shapes: the implementation
    flattened them, the Python reference accepts them and finds no difference.  Returns (eligible, bad)."""
    elig = []
    for i, (lib, r) in enumerate(zip(libs, results)):
        if "symbols" not in r:
            continue
        try:
            reference(lib)
        except Reject:
            continue
        if judge_fn(lib, r):
            continue
        elig.append(i)
    enc, idx = [], []
    for i in elig:
        try:
            enc.append(encode_case(libs[i], results[i]))
            idx.append(i)
        except Unencodable:
            pass
    bad = core.coq_eval_cases(ctx, label, PREAMBLE, CASE_TYPE, enc, "check_spec", shard=60)
    mism = idx if bad is None else [idx[j] for j in bad]
    ctx.oblige(name, not mism, "inst differs from the real flat model on cases %s (of %d eligible)" % (mism[:10], len(idx)))
    if mism:
        ctx.notes["spec_mismatch_example"] = slim(libs[mism[0]])
    return len(idx), mism


def known_still_fails(ctx, module, judge_fn):
    def f(entry):
        lib = entry.get("replay", {}).get("case")
        if not lib:
            return None
        res = core.run_child(ctx, module, [{"text": lib["text"], "top": lib["top"]}])[0]
        return any(t == entry["tag"] for t, _ in judge_fn(lib, res))
    return f


def run(ctx):
    t0 = time.time()
    core.check_props(ctx, "C07.v", THEOREMS)
    timing = {"props_s": round(time.time() - t0, 1)}
    fp, _ = core.fingerprint(core.REPO + "/src/pymoca/tree.py",
                             {"flatten_extends", "build_instance_tree", "flatten_symbols", "ComponentRefFlattener"})
    ctx.notes["source_fingerprint"] = {"tree.py:flatten_extends+build_instance_tree+flatten_symbols+ComponentRefFlattener": fp}
    n_rand = ctx.scaled(260, 5000)
    shapes = ["plain", "extends", "package", "nested", "shadow", "deep", "inherit-nested", "diamond"]
    libs = fixed_cases()
    n_fixed = len(libs)
    for i in range(n_rand):
        libs.append(gen_case(ctx.rng, shapes[i % len(shapes)] if i % 2 == 0 else None))
    t0 = time.time()
    results = run_children(ctx, "c07", [{"text": l["text"], "top": l["top"]} for l in libs])
    timing["impl_s"] = round(time.time() - t0, 1)

    # (a) property oracle on the implementation (independent reference instantiation)
    t0 = time.time()
    dist = {"shapes": {}, "rejected_by_reference": 0, "impl_exceptions": {}}
    agg = {}
    nontrivial = set()
    for lib, r in zip(libs, results):
        dist["shapes"][lib["shape"]] = dist["shapes"].get(lib["shape"], 0) + 1
        if "exc" in r or "crash" in r:
            k = r.get("exc", "crash")
            dist["impl_exceptions"][k] = dist["impl_exceptions"].get(k, 0) + 1
        try:
            rf = reference(lib)
        except Reject:
            dist["rejected_by_reference"] += 1
            rf = None
        if rf:
            fl = rf["flags"]
            for k in ("inherited", "aliases", "arrays", "multi_extends", "nested_class_use", "enclosing_extends"):
                if fl[k]:
                    agg["cases_with_" + k] = agg.get("cases_with_" + k, 0) + 1
            if fl["shadow_paths"]:
                agg["cases_with_shadow_sensitive_lookup"] = agg.get("cases_with_shadow_sensitive_lookup", 0) + 1
            if any(v > 1 for v in fl["instances"].values()):
                agg["cases_with_repeated_class"] = agg.get("cases_with_repeated_class", 0) + 1
            agg["depth_%d" % fl["depth"]] = agg.get("depth_%d" % fl["depth"], 0) + 1
            agg["variables"] = agg.get("variables", 0) + len(rf["order"])
            agg["equations"] = agg.get("equations", 0) + len(rf["eqs"])
            if len(rf["order"]) >= 4 and fl["depth"] >= 2:
                nontrivial.add(lib["text"])
        for tag, why in judge_all(lib, r):
            core.report(ctx, tag, why, {"case": slim(lib), "observed": r})
    timing["oracle_s"] = round(time.time() - t0, 1)

    # (b) correspondence: Coq model of flatten vs the implementation
    t0 = time.time()
    mism = correspondence(ctx, "flat", libs, results, "correspondence:model-vs-tree.flatten")
    timing["coq_eval_s"] = round(time.time() - t0, 1)
    if mism and not [v for v in ctx.violations if not v["no_input"]]:
        i = mism[0]
        core.violation(ctx, "correspondence-broken",
                       {"correspondence": "Model/C07_flatten.v check_case vs pymoca.tree.flatten",
                        "case": slim(libs[i]), "observed": results[i]}, no_input=True)
    t0 = time.time()
    n_spec, _ = spec_comparison(ctx, "spec", libs, results, judge_all, "spec:Lib/Inst.v-inst-vs-tree.flatten")
    timing["coq_spec_s"] = round(time.time() - t0, 1)
    ctx.notes["spec_comparison_cases"] = n_spec
    core.replay_known(ctx, known_still_fails(ctx, "c07", judge_all))
    ctx.notes["timing"] = timing
    ctx.cov["evaluations"] = len(libs)
    ctx.cov["distinct_nontrivial"] = len(nontrivial)
    ctx.cov["rule"] = ("generated Modelica libraries (%d random + %d fixed): 2-5 classes + top model M, component "
                       "hierarchies up to depth 4 with repeated classes, extends chains incl. multiple (diamond-free) "
                       "extends and extends from a nested class to a class of an enclosing scope, classes inside a "
                       "package P, nested class definitions used by local and inherited components, type aliases of "
                       "Real, scalar arrays (1-2 dims), parameter/constant/discrete/flow/input/output prefixes, "
                       "equations over own, inherited and sub-component variables; shape 'shadow' adds a same-named "
                       "class in the deriving scope.  non-trivial = reference has >= 4 variables and depth >= 2; "
                       "distinct = distinct text" % (n_rand, n_fixed))
    ctx.cov["samples"] = [libs[n_fixed]["text"], libs[n_fixed + 1]["text"], libs[n_fixed + 3]["text"]]
    dist["totals"] = agg
    dist["cases"] = len(libs)
    ctx.notes["input_distribution"] = dist
    ctx.assumptions += ASSUMPTIONS


ASSUMPTIONS = [
    "subset: no redeclare/replaceable, imports, inner/outer, functions, connectors (C09), algorithm sections, "
    "initial equations, if/for/when equations, der(); array indices and dimensions are integer literals; arrays of "
    "structured components are outside the quantifier",
    "the eager instantiation of every nested class (tree.py:403-426) is modelled by its effect on lookup (a nested "
    "class found through an instance has the instance chain as parents, its extends clauses the lexical chain), not "
    "as a second pass over already built instance classes; class-targeted modifications are not modelled",
    "conventions of the flat form applied on both sides of the oracle: a declaration value of a non-parameter is an "
    "equation (add_state_value_equations), an unconnected flow variable gets `= 0` (C09's rule)",
    "the Coq specification Lib/Inst.v `inst` is compared with the real flat model (ordered variables, multiset of "
    "equations) only on libraries outside the recorded defect shapes (implementation succeeded, Python reference "
    "accepts and finds no difference); on the others the model-vs-code comparison alone ties the theorems",
    "the oracle compares variables as a name-indexed set and equations as a multiset of trees; the correspondence "
    "compares ordered lists; the text renderer, the child-side serialiser and the name splitting at '.' are trusted",
]


def replay(ctx, path):
    rec = json.load(open(path))
    lib = rec["case"]
    res = core.run_child(ctx, "c07", [{"text": lib["text"], "top": lib["top"]}])[0]
    v = judge_all(lib, res)
    for tag, why in v:
        print("replay: %s: %s" % (tag, why))
    if not v:
        print("replay: property holds on this library")
    return 1 if v else 0
