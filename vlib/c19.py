"""C19 — cached and code-generated models equal fresh compiles.

S2  Props/C19.v (round trip load (save m) on the Gallina model of save_model/load_model).
S3  generated Modelica models (parameter-dependent attributes, array parameters and array variables,
    aliases, delays, string parameters, Integer/Boolean variables) under several simplification option
    sets + corpus models from test/models -> real transfer_model in a child, three times per case:
    fresh (cache off), first (compiles + saves), loaded (must be served from the cache file).
    (a) ORACLE  = the property itself: observation(fresh) == observation(loaded) (names, order, shapes,
        python types, per-variable aliases, attribute kinds, attribute values at three parameter
        valuations, outputs, delay states, strings, alias relation, canonical_signed, the four functions
        and the delay arguments at two dyadic points);
    (b) CORRESPONDENCE = what the real save_model stored (dependency matrices, delay dependency lists)
        and what the real load_model reconstructed (attribute kinds and values, delay durations) vs the
        Coq model evaluated by vm_compute on the attribute expressions of the real saved model.
    Also: affine-only models with attributes that are PRODUCTS of distinct parameters (the affine rebuild of
    variable_metadata_function must not be taken), and request SEQUENCES on the same folder with option
    sets A then B (B adds/drops a key outside the default option dict, e.g. iterative_simplification): every
    call must equal a fresh compile with that call's options.
    Thorough tier also runs a few models with {"codegen": True} (compiled shared libraries)."""
import json
import os
from fractions import Fraction

from . import core
from .core import cq_bool, cq_list, cq_nat

THEOREMS = ["C19_roundtrip", "C19_classification_sound", "C19_delay_arguments", "C19_example"]
META_CATS = ["states", "alg_states", "inputs", "parameters", "constants"]
CATS = ["states", "der_states", "alg_states", "inputs", "parameters", "constants"]
PREAMBLE = ("From Coq Require Import List Bool Arith QArith Qcanon.\nFrom PV Require Import Model.C19_cache.\n"
            "Import ListNotations.\nOpen Scope nat_scope.\n"
            "Definition q (n : Z) (d : positive) : Qc := Q2Qc (Qmake n d).\n"
            "Definition c (n : Z) (d : positive) : expr := Const (q n d).\n"
            "Definition s (n : Z) (d : positive) : V := Some (q n d).\n")

OPTION_SETS = [
    {},
    {"expand_vectors": True},
    {"detect_aliases": True, "expand_vectors": True},
    {"replace_constant_values": True},
    {"eliminate_constant_assignments": True, "replace_constant_values": True},
    {"replace_parameter_expressions": True},
    {"resolve_parameter_values": True},
    {"replace_parameter_values": True, "expand_vectors": True},
    {"factor_and_simplify_equations": True},
    {"detect_aliases": True, "expand_vectors": True, "replace_constant_values": True,
     "eliminate_constant_assignments": True},
    {"check_balanced": False, "expand_vectors": True, "replace_parameter_expressions": True},
    {"detect_aliases": True, "expand_vectors": True, "allow_derivative_aliases": False},
]
CORPUS = ["ArrayExpand", "Interpolate", "ParameterAttributes", "Delay", "DelayForLoop", "Aircraft", "Spring",
          "Attributes", "Alias", "NegativeAlias", "Estimator", "Simplify", "SimplifyVector", "SmallNominal", "ForLoop",
          "MatrixExpressions", "IfElse", "BuiltinFunctions"]


# ---------------------------------------------------------------------------
# generator
# ---------------------------------------------------------------------------
def lit(rng):
    return rng.choice(["0.5", "1.5", "2.0", "2.5", "3.0", "0.25", "4.0", "1.25"])


def aexpr(rng, pool, consts):
    """attribute expression over scalar parameter expressions in `pool`"""
    form = rng.choice(["lit", "litexpr", "scale", "sum", "neg", "sq", "shift", "affine2", "elem", "scale", "sum"] +
                      (["const"] if consts else []))
    p = rng.choice(pool) if pool else None
    if form == "lit" or p is None:
        return lit(rng)
    if form == "litexpr":
        return rng.choice(["2*3.0", "1.5 + 2", "-(2.0 - 0.5)"])
    if form == "scale":
        return "%s*%s" % (lit(rng), p)
    if form == "sum":
        return "%s + %s" % (p, rng.choice(pool))
    if form == "neg":
        return "-%s" % p
    if form == "sq":
        return "%s*%s" % (p, rng.choice(pool))
    if form == "shift":
        return "%s + %s" % (p, lit(rng))
    if form == "affine2":
        return "2*%s - %s + 1" % (p, rng.choice(pool))
    if form == "const":
        return "%s + %s" % (rng.choice(consts), p)
    return p


def attrs_text(rng, pool, consts, dens, allow_fixed=True, each=False):
    items = []
    pre = "each " if each else ""
    for a in ("min", "max", "start", "nominal"):
        if rng.random() < dens:
            items.append("%s%s = %s" % (pre, a, aexpr(rng, pool, consts)))
    if allow_fixed and rng.random() < 0.12:
        items.append("%sfixed = true" % pre)
    return items


def gen_model(rng, opts):
    """-> (text, features)"""
    feats = []
    decl, eqs = [], []
    use_consts = bool(opts.get("replace_constant_values"))
    # ---- parameters
    pool = []
    np_ = rng.randint(1, 3)
    for i in range(1, np_ + 1):
        if rng.random() < 0.65:
            decl.append("parameter Real p%d = %s;" % (i, lit(rng)))
        else:
            decl.append("parameter Real p%d;" % i)
        pool.append("p%d" % i)
    arr = None
    if rng.random() < 0.45:
        kind = rng.choice(["v2", "v3", "m22", "m23"])
        if kind == "v2":
            decl.append("parameter Real pa[2] = {%s, %s};" % (lit(rng), lit(rng)))
            arr = ("pa", [2])
            pool += ["pa[1]", "pa[2]"]
        elif kind == "v3":
            decl.append("parameter Real pa[3] = {%s, %s, %s};" % (lit(rng), lit(rng), lit(rng)))
            arr = ("pa", [3])
            pool += ["pa[1]", "pa[3]"]
        elif kind == "m22":
            decl.append("parameter Real pm[2,2] = {{%s, %s}, {%s, %s}};" % tuple(lit(rng) for _ in range(4)))
            arr = ("pm", [2, 2])
            pool += ["pm[1,2]", "pm[2,1]"]
        else:
            decl.append("parameter Real pm[2,3] = {{%s, %s, %s}, {%s, %s, %s}};" % tuple(lit(rng) for _ in range(6)))
            arr = ("pm", [2, 3])
            pool += ["pm[1,3]", "pm[2,2]"]
        feats.append("array-parameter")
    if rng.random() < 0.3:
        decl.append("parameter Real q = %s;" % rng.choice(["2*p1 + 1", "p1*p1", "-p1"]))
        pool.append("q")
        feats.append("parameter-expression-value")
    ipar = None
    if rng.random() < 0.35:
        decl.append("parameter Integer n = %d;" % rng.randint(1, 5))
        ipar = "n"
        feats.append("integer-parameter")
    if rng.random() < 0.3:
        decl.append('parameter String s = "%s";' % rng.choice(["abc", "some text", ""]))
        feats.append("string-parameter")
    if rng.random() < 0.15:
        decl.append('constant String sc = "k";')
        feats.append("string-constant")
    consts = []
    if rng.random() < 0.5:
        decl.append("constant Real c = %s;" % lit(rng))
        consts.append("c")
    aconsts = consts if use_consts else []
    dens = rng.choice([0.2, 0.4, 0.6])
    # ---- inputs
    u = None
    if rng.random() < 0.55:
        fx = rng.random() < 0.5
        it = attrs_text(rng, pool, aconsts, dens * 0.5, allow_fixed=False)
        if fx:
            it.append("fixed = true")
        decl.append("input Real u%s;" % ("(%s)" % ", ".join(it) if it else ""))
        u = "u"
        feats.append("input")
    # ---- states
    ns = rng.randint(1, 2)
    for i in range(1, ns + 1):
        it = attrs_text(rng, pool, aconsts, dens)
        decl.append("Real x%d%s;" % (i, "(%s)" % ", ".join(it) if it else ""))
        rhs = "-%s*x%d + %s" % (rng.choice(pool), i, rng.choice(pool + [lit(rng)]))
        if u and i == 1:
            rhs += " + u"
        eqs.append("der(x%d) = %s;" % (i, rhs))
    # ---- array variable (declared early so that later variables come after it in alg_states)
    if rng.random() < 0.5:
        shape = rng.choice([[2], [3], [2, 2]])
        if arr and rng.random() < 0.6:
            shape = list(arr[1])
        n = shape[0] * (shape[1] if len(shape) > 1 else 1)
        it = attrs_text(rng, pool, aconsts, dens, allow_fixed=False, each=True)
        if arr and arr[1] == shape and rng.random() < 0.7:
            a = rng.choice(["min", "max", "nominal"])
            it = [x for x in it if not x.startswith("each " + a)] + ["%s = %s" % (a, arr[0])]
            feats.append("vector-valued-attribute")
        if len(shape) == 1 and rng.random() < 0.3:
            it = [x for x in it if not x.startswith("each start")] + ["start = {%s}" % ", ".join(lit(rng) for _ in range(n))]
        decl.append("Real v[%s]%s;" % (",".join(map(str, shape)), "(%s)" % ", ".join(it) if it else ""))
        if len(shape) == 1:
            for k in range(1, n + 1):
                eqs.append("v[%d] = %s*x1;" % (k, lit(rng)))
        else:
            for a in range(1, shape[0] + 1):
                for b in range(1, shape[1] + 1):
                    eqs.append("v[%d,%d] = %s*x1;" % (a, b, lit(rng)))
        feats.append("array-variable")
    # ---- algebraic variables
    na = rng.randint(0, 2)
    for i in range(1, na + 1):
        it = attrs_text(rng, pool, aconsts, dens)
        decl.append("Real y%d%s;" % (i, "(%s)" % ", ".join(it) if it else ""))
        eqs.append("y%d = %s*x1 + %s;" % (i, lit(rng), rng.choice(pool + consts + [lit(rng)])))
    if rng.random() < 0.3:
        it = []
        if rng.random() < 0.7:
            it.append("min = %s" % (ipar or "1"))
        if rng.random() < 0.4:
            it.append("max = %s" % ("2*n" if ipar else "7"))
        decl.append("Integer k%s;" % ("(%s)" % ", ".join(it) if it else ""))
        eqs.append("k = 2;")
        feats.append("integer-variable")
    if rng.random() < 0.2:
        decl.append("Boolean b;")
        eqs.append("b = true;")
        feats.append("boolean-variable")
    # ---- aliases
    if rng.random() < 0.55:
        tgt = rng.choice(["x1"] + ["y%d" % i for i in range(1, na + 1)])
        sign = rng.choice(["", "-"])
        it = attrs_text(rng, pool, aconsts, dens)
        decl.append("Real w%s;" % ("(%s)" % ", ".join(it) if it else ""))
        eqs.append("w = %s%s;" % (sign, tgt))
        feats.append("alias" + ("-negative" if sign else ""))
        if rng.random() < 0.3:
            decl.append("Real w2;")
            eqs.append("w2 = %sw;" % rng.choice(["", "-"]))
    # ---- delays
    if rng.random() < 0.45:
        durs = ["2.5", "3*p1", "%s + 1" % rng.choice(pool[:np_]), "%s*%s" % (lit(rng), rng.choice(pool[:np_]))]
        if u and "fixed = true" in [d for d in decl if d.startswith("input")][0]:
            durs.append("u + 1")
        if consts:
            durs.append("c")
        nd = rng.randint(1, 3)
        for i in range(1, nd + 1):
            decl.append("Real z%d;" % i)
            eqs.append("z%d = delay(%s, %s);" % (i, rng.choice(["x1", "2*x1", "x1 + 1"]), rng.choice(durs)))
        feats.append("delay-%d" % nd)
    # ---- outputs
    if rng.random() < 0.4:
        decl.append("output Real o;")
        eqs.append("o = %s;" % rng.choice(["x1", "2*x1"]))
        feats.append("output")
    text = "model M\n  " + "\n  ".join(decl) + "\nequation\n  " + "\n  ".join(eqs) + "\nend M;\n"
    return text, feats


def gen_affine_product(rng):
    """A model whose attributes use only operations that variable_metadata_function accepts as affine
    (+, -, unary -, c*p with c != 2, p/c), so that the A*p+b rebuild is in play, plus one or two attributes
    that are PRODUCTS of 2-3 distinct parameters (affine in each parameter separately, not jointly)."""
    np_ = rng.randint(2, 4)
    ps = ["p%d" % i for i in range(1, np_ + 1)]
    decl = ["parameter Real %s%s;" % (p, " = %s" % lit(rng) if rng.random() < 0.6 else "") for p in ps]

    def aff():
        a, b = rng.sample(ps, 2)
        return rng.choice([lit(rng), "%s + %s" % (a, b), "-%s" % a, "%s + %s" % (a, lit(rng)), "%s - %s" % (a, b),
                           "3*%s" % a, "0.5*%s + %s" % (a, b), "%s/4" % a, a])

    def prod():
        k = rng.choice([2, 2, 3]) if np_ >= 3 else 2
        t = "*".join(rng.sample(ps, k))
        return rng.choice([t, t, "%s + %s" % (t, rng.choice(ps)), "%s*%s" % (rng.choice(["3", "0.5"]), t)])

    nprod = rng.choice([0, 1, 1, 1, 2])
    names = ["x1", "y1", "y2"][:rng.randint(2, 3)]
    slots = [(v, a) for v in names for a in ("min", "max", "start", "nominal")]
    rng.shuffle(slots)
    chosen = slots[:rng.randint(2, 6)]
    attrs = {}
    for k, (v, a) in enumerate(chosen):
        attrs.setdefault(v, []).append("%s = %s" % (a, prod() if k < nprod else aff()))
    eqs = ["der(x1) = -%s*x1 + %s;" % (ps[0], ps[1])]
    for v in names[1:]:
        eqs.append("%s = %s*x1 + %s;" % (v, rng.choice(["3", "0.5"]), rng.choice(ps)))
    for v in names:
        decl.append("Real %s%s;" % (v, "(%s)" % ", ".join(attrs[v]) if v in attrs else ""))
    text = "model M\n  " + "\n  ".join(decl) + "\nequation\n  " + "\n  ".join(eqs) + "\nend M;\n"
    return text, ["affine-only"] + (["parameter-product-attribute"] if nprod else [])


# constants that differ as doubles but print alike with 6 significant digits; a plain literal becomes a python
# float attribute, a literal EXPRESSION stays a constant ca.MX attribute (MX_INDEPENDENT, read back from the
# metadata function on load)
NEAR_DUP = [
    ["0.333333", "1/3", "0.3333333"],
    ["0.666667", "2/3"],
    ["0.142857", "1/7", "2/14.0000001"],
    ["1234567.9", "3703703.7/3", "1234567.91"],
    ["1.41421", "sqrt(2)", "2/sqrt(2)"],
    ["0.1", "0.3/3", "1/10.0000001"],
    ["2.71828", "exp(1)"],
]


def gen_near_dup(rng):
    ps = ["p1", "p2"]
    decl = ["parameter Real p1 = %s;" % lit(rng), "parameter Real p2;"]
    names = ["u1", "x1", "y1", "y2", "y3"][:rng.randint(3, 5)]
    slots = [(v, a) for v in names for a in ("min", "max", "start", "nominal")]
    rng.shuffle(slots)
    attrs = {}
    for grp in rng.sample(NEAR_DUP, rng.randint(1, 2)):
        members = list(grp)
        rng.shuffle(members)
        for mbr in members[:rng.randint(2, len(members))]:
            v, a = slots.pop()
            attrs.setdefault(v, []).append("%s = %s" % (a, mbr))
    for _ in range(rng.randint(0, 2)):
        v, a = slots.pop()
        attrs.setdefault(v, []).append("%s = %s" % (a, rng.choice(["p1 + p2", "3*p1", lit(rng), "p1*p2"])))
    eqs = ["der(x1) = -p1*x1 + %s;" % ("u1" if "u1" in names else "p2")]
    for v in names:
        pre = "input " if v == "u1" else ""
        decl.append("%sReal %s%s;" % (pre, v, "(%s)" % ", ".join(attrs[v]) if v in attrs else ""))
        if v.startswith("y"):
            eqs.append("%s = %s*x1 + p2;" % (v, rng.choice(["3", "0.5"])))
    text = "model M\n  " + "\n  ".join(decl) + "\nequation\n  " + "\n  ".join(eqs) + "\nend M;\n"
    return text, ["near-duplicate-constants"]


def gen_nonsmooth(rng):
    """min / max / abs / if-else in equations and in parameter-dependent attributes; some parameters have no
    value (NaN by default) - the functions and attributes are compared at NaN and +-inf points as well"""
    decl = ["parameter Real lo = %s;" % lit(rng), "parameter Real hi%s;" % (" = %s" % lit(rng) if rng.random() < 0.4 else ""),
            "input Real u;"]
    a1 = rng.choice(["min(lo, hi)", "max(lo, hi)", "abs(lo - hi)", "min(lo, 2.5)", "max(hi, 0.5) + lo"])
    a2 = rng.choice(["max(lo, hi)", "min(hi, 1.5)", "abs(hi)", "min(lo, hi) + 1"])
    decl.append("Real x(%s = %s);" % (rng.choice(["min", "max", "nominal"]), a1))
    decl.append("Real y%s;" % ("(%s = %s)" % (rng.choice(["min", "max", "start"]), a2) if rng.random() < 0.6 else ""))
    eqs = ["der(x) = u - %s;" % rng.choice(["x", "min(x, lo)", "abs(x)"]),
           "y = %s;" % rng.choice(["min(x, hi)", "max(x, hi)", "min(x, u) + max(lo, hi)", "abs(x - hi)"])]
    if rng.random() < 0.7:
        decl.append("Real w;")
        eqs.append("w = if x %s hi then %s else %s;" % (rng.choice([">", "<", ">=", "<="]), rng.choice(["1.0", "x", "lo"]),
                                                      rng.choice(["2.0", "hi", "x + 1"])))
    text = "model M\n  " + "\n  ".join(decl) + "\nequation\n  " + "\n  ".join(eqs) + "\nend M;\n"
    return text, ["nonsmooth"]


NONSMOOTH_DIRECTED = ("min-max-ifelse-with-unset-parameter", {}, """model M
  parameter Real lo = 1.0;
  parameter Real hi;
  input Real u;
  Real x(max = min(lo, hi));
  Real y;
  Real w;
equation
  der(x) = u - x;
  y = min(x, hi);
  w = if x > hi then 1.0 else 2.0;
end M;
""")


# ---------------------------------------------------------------------------
# S1: fail-closed probe of the compiler flags in _codegen_model
# ---------------------------------------------------------------------------
SAFE_CFLAGS = {"-O0", "-O1", "-O2", "-Os", "-Og", "-g", "-fPIC", "-fpic", "-Wall", "-w", "-pipe",
               "/O1", "/O2", "/Od", "/wd4101", "/D_UCRT_NOISY_NAN", "/DLL"}


def probe_codegen_flags(repo):
    """-> (ok, detail).  Every string that can reach the C compiler / linker through compiler_flags / linker_flags
    must be a known value-preserving flag (no -ffast-math, -Ofast, -O3, -funsafe-math-optimizations, -march=...)."""
    import ast
    try:
        tree = ast.parse(open(os.path.join(repo, "src/pymoca/backends/casadi/api.py")).read())
    except (OSError, SyntaxError) as e:
        return False, "cannot parse api.py: %s" % e
    fn = [n for n in tree.body if isinstance(n, ast.FunctionDef) and n.name == "_codegen_model"]
    if len(fn) != 1:
        return False, "_codegen_model not found"
    flags, problems, calls = [], [], 0
    for n in ast.walk(fn[0]):
        if isinstance(n, (ast.Assign, ast.AugAssign, ast.AnnAssign)):
            targets = n.targets if isinstance(n, ast.Assign) else [n.target]
            if any(isinstance(t, ast.Name) and t.id in ("compiler_flags", "linker_flags") for t in targets):
                if isinstance(n, ast.Assign) and isinstance(n.value, ast.List) and \
                        all(isinstance(e, ast.Constant) and isinstance(e.value, str) for e in n.value.elts):
                    flags += [e.value for e in n.value.elts]
                else:
                    problems.append("line %d: flags are not a list of string literals" % n.lineno)
        if isinstance(n, ast.Call):
            name = ast.unparse(n.func)
            if name in ("compiler.compile", "compiler.link"):
                calls += 1
                for kw in n.keywords:
                    if kw.arg in ("extra_postargs", "extra_preargs") and ast.unparse(kw.value) not in ("compiler_flags", "linker_flags"):
                        problems.append("line %d: %s=%s" % (n.lineno, kw.arg, ast.unparse(kw.value)))
            if name.endswith((".append", ".extend", ".insert")) and ("compiler_flags" in name or "linker_flags" in name):
                problems.append("line %d: flags modified in place" % n.lineno)
            if name in ("os.environ.setdefault", "os.putenv") or "set_executable" in name:
                problems.append("line %d: compiler environment changed" % n.lineno)
    bad = [f for f in flags if f not in SAFE_CFLAGS]
    if bad:
        problems.append("flags outside the value-preserving set: %s" % bad)
    if calls != 2 or not flags:
        problems.append("expected one compiler.compile and one compiler.link call and literal flag lists (calls=%d)" % calls)
    return not problems, "; ".join(problems) or "flags %s" % sorted(set(flags))


def probe_save_order(repo):
    """-> (ok, detail).  Fail-closed: in save_model the cache file is removed, under `if compiler_options["codegen"]`,
    BEFORE the loop that rebuilds the shared libraries with _codegen_model, and written only after that loop."""
    import ast
    try:
        tree = ast.parse(open(os.path.join(repo, "src/pymoca/backends/casadi/api.py")).read())
    except (OSError, SyntaxError) as e:
        return False, "cannot parse api.py: %s" % e
    fn = [n for n in tree.body if isinstance(n, ast.FunctionDef) and n.name == "save_model"]
    if len(fn) != 1:
        return False, "save_model not found"
    pos = {"db_file": None, "remove": None, "codegen": None, "write": None}
    for i, st in enumerate(fn[0].body):
        src = ast.unparse(st)
        if isinstance(st, ast.Assign) and ast.unparse(st.targets[0]) == "db_file":
            if ast.unparse(st.value) != "os.path.join(model_folder, model_name + '.pymoca_cache')" or pos["db_file"] is not None:
                return False, "db_file is not os.path.join(model_folder, model_name + '.pymoca_cache') assigned once"
            pos["db_file"] = i
        calls = [ast.unparse(c.func) for c in ast.walk(st) if isinstance(c, ast.Call)]
        if "_codegen_model" in calls and pos["codegen"] is None:
            pos["codegen"] = i
        if isinstance(st, ast.If) and ast.unparse(st.test) == "compiler_options['codegen']" and not st.orelse \
                and any(isinstance(c, ast.Call) and ast.unparse(c) in ("os.remove(db_file)", "os.unlink(db_file)")
                        for c in ast.walk(st)) and pos["remove"] is None:
            # the removal must be unconditional inside the branch (a `with contextlib.suppress(FileNotFoundError)` is fine)
            inner = st.body
            if len(inner) == 1 and isinstance(inner[0], ast.With) and \
                    ast.unparse(inner[0].items[0].context_expr) == "contextlib.suppress(FileNotFoundError)":
                inner = inner[0].body
            if len(inner) == 1 and isinstance(inner[0], ast.Expr) and ast.unparse(inner[0]) in ("os.remove(db_file)", "os.unlink(db_file)"):
                pos["remove"] = i
        if "open" in calls and "db_file" in src and pos["write"] is None and "pickle.dump" in src:
            pos["write"] = i
    if None in pos.values():
        return False, "not recognised: %s" % {k: v for k, v in pos.items()}
    if not (pos["db_file"] < pos["remove"] < pos["codegen"] < pos["write"]):
        return False, "order of (db_file, remove, codegen loop, write) is %s" % pos
    return True, "remove@%d < codegen-loop@%d < write@%d (statement indices in save_model)" % (pos["remove"], pos["codegen"], pos["write"])


INTERRUPTED = ("interrupted-codegen-save", {}, {"replace_constant_values": True}, """model M
  parameter Real k = 2.0;
  constant Real c = 3.0;
  Real x(start = 1.0, max = 5.0*k);
  Real y;
equation
  der(x) = -k*c*x;
  y = c*x + k;
end M;
""")


SEQ_BASE = {"eliminate_constant_assignments": True, "factor_and_simplify_equations": True,
            "replace_constant_expressions": True, "replace_constant_values": True, "detect_aliases": True}
# options that Model.simplify reads with options.get() and that are NOT in the default option dictionary
EXTRA_KEYS = ["iterative_simplification"]


def gen_chain(rng):
    """equations that need a second simplification pass: a constant assignment that turns another equation
    into an alias / constant only after the first pass"""
    n = rng.randint(1, 3)
    decl = ["Real x(start = 0);", "Real z;", "Real f;", "Real g;"] + ["Real h%d;" % i for i in range(1, n + 1)]
    eqs = ["der(x) = %s + z;" % rng.choice(["10", "2.5", "x"]), "f = 0;", "g = %s;" % rng.choice(["1", "2.5", "4"]),
           "f = (z - h1);"]
    for i in range(1, n):
        eqs.append("h%d = h%d;" % (i, i + 1))
    eqs.append("h%d = g;" % n)
    if rng.random() < 0.5:
        decl.append("Real w;")
        eqs.append("w = %sz;" % rng.choice(["", "-"]))
    rng.shuffle(eqs)
    return "model M\n  " + "\n  ".join(decl) + "\nequation\n  " + "\n  ".join(eqs) + "\nend M;\n"


def gen_sequence(rng):
    text = gen_chain(rng)
    base = dict(SEQ_BASE)
    if rng.random() < 0.4:
        base.pop(rng.choice(sorted(base)))
    kind = rng.choice(["add-extra"] * 6 + ["drop-extra", "add-default", "same", "extra-false-true"])
    k = rng.choice(EXTRA_KEYS)
    if kind == "add-extra":
        steps = [base, dict(base, **{k: True})]
    elif kind == "drop-extra":
        steps = [dict(base, **{k: True}), base]
    elif kind == "add-default":
        steps = [base, dict(base, expand_vectors=True), dict(base, expand_vectors=True, **{k: True})]
    elif kind == "extra-false-true":
        steps = [dict(base, **{k: False}), dict(base, **{k: True})]
    else:
        steps = [dict(base, **{k: True}), dict(base, **{k: True})]
    return {"name": "M", "text": text, "steps": steps, "mode": "cache", "origin": "generated-sequence",
            "features": ["sequence:" + kind]}


DIRECTED_SEQ = [
    ("option-outside-defaults-added", [SEQ_BASE, dict(SEQ_BASE, iterative_simplification=True)], """model M
  Real x(start = 0);
  Real z;
  Real f;
  Real g;
  Real h;
equation
  der(x) = 10 + z;
  f = 0;
  g = 1;
  f = (z - h);
  h = g;
end M;
"""),
]


DIRECTED = [
    ("near-duplicate-constants", {}, """model M
  parameter Real area = 2.5;
  parameter Real hmax = 4.0;
  input Real qin(min = 0.0, max = 1/3);
  Real h(min = 0.0, max = hmax, nominal = 1234568.1);
  Real qout(min = 0.0, max = 0.333333, nominal = 3703703.7/3);
  Real v(max = area*hmax, start = 0.3333333);
equation
  area*der(h) = qin - qout;
  qout = 0.1*h;
  v = area*h;
end M;
"""),
    ("bilinear-attribute-in-affine-model", {}, """model M
  parameter Real area;
  parameter Real height = 2.0;
  parameter Real k = 3.0;
  Real v(min = 0.0, max = area*height, nominal = k);
  Real h(min = 0.0, max = height + 0.5);
  input Real q(fixed = true);
equation
  der(v) = q - k*h;
  v = area*h;
end M;
"""),
    ("trilinear-attribute-in-affine-model", {}, """model M
  parameter Real p1 = 1.5;
  parameter Real p2;
  parameter Real p3 = 0.5;
  Real x(min = -p1, max = p1*p2*p3 + p2, start = p2 - p3);
  Real y(nominal = p1 + 0.5);
equation
  der(x) = -p1*x + p2;
  y = 3*x + p3;
end M;
"""),
    # one per mechanism / mutant
    ("scalar-dependent-attributes", {}, """model M
  parameter Real p1 = 2.0;
  parameter Real p2;
  Real x(min = 2*p1, max = 10.0, start = p2, nominal = p1 + p2);
  Real y(min = 2*3.0, max = p1*p1, nominal = 4.0);
equation
  der(x) = -p1*x;
  y = x + p2;
end M;
"""),
    ("array-parameter", {}, """model M
  parameter Real pm[2,2] = {{1.0, 2.0}, {3.0, 4.0}};
  parameter Real p1;
  Real x(min = pm[1,2], max = p1);
equation
  der(x) = -pm[2,1]*x;
end M;
"""),
    ("array-variable-then-dependent-attribute", {}, """model M
  parameter Real p2;
  parameter Integer n = 3;
  parameter Real pa[2] = {1.0, 3.0};
  Real x;
  Real v[2](each min = -p2, max = pa);
  Integer k(min = n);
  Real y(nominal = 2*p2, fixed = true);
equation
  der(x) = -p2*x;
  v[1] = x;
  v[2] = pa[2]*x;
  k = 2;
  y = 3*x;
end M;
"""),
    ("fixed-nominal-python-values", {}, """model M
  parameter Real p1 = 2.0;
  input Real u(fixed = true, nominal = 3.0);
  Real x(fixed = true, nominal = 5.0, start = 1.0);
  Real y(nominal = p1);
equation
  der(x) = -p1*x + u;
  y = x;
end M;
"""),
    ("aliases", {"detect_aliases": True, "expand_vectors": True}, """model M
  parameter Real p1 = 2.0;
  Real x(min = 0.5);
  Real y(min = p1, max = 8.0);
  Real w(max = 2*p1);
  Real w2;
equation
  der(x) = -p1*x;
  y = x;
  w = -y;
  w2 = -w;
end M;
"""),
    ("delays-with-different-dependencies", {}, """model M
  parameter Real p1 = 2.0;
  parameter Real p2 = 3.0;
  constant Real c = 1.5;
  input Real u(fixed = true);
  Real x, z1, z2, z3, z4;
equation
  der(x) = -p1*x + u;
  z1 = delay(x, 3*p1);
  z2 = delay(2*x, p2 + 1);
  z3 = delay(x, 2.5);
  z4 = delay(x, p1 + p2 + u);
end M;
"""),
    ("strings-integer-boolean", {}, """model M
  parameter String s = "abc";
  constant String sc = "k";
  parameter Integer n = 3;
  parameter Real p1 = 1.5;
  Integer k(min = n, max = 2*n);
  Boolean b;
  Real x(max = p1);
  output Real o;
equation
  der(x) = -x;
  k = 2;
  b = true;
  o = 2*x;
end M;
"""),
    ("parameter-order", {}, """model M
  parameter Real p1 = 2.0;
  parameter Real p2 = 3.0;
  parameter Real p3;
  parameter Real q = 2*p1 + 1;
  Real x(min = p1, max = p2, start = p3, nominal = q);
equation
  der(x) = p1*x - p2 + p3;
end M;
"""),
]


def corpus_cases():
    out = []
    d = os.path.join(core.REPO, "test", "models")
    for name in CORPUS:
        p = os.path.join(d, name + ".mo")
        if os.path.exists(p):
            out.append({"name": name, "text": open(p).read(), "opts": {}, "mode": "cache", "origin": "corpus"})
    for name, opts in (("ParameterAttributes", {"detect_aliases": True, "expand_vectors": True}),
                       ("ArrayExpand", {"expand_vectors": True}), ("DelayForLoop", {"expand_vectors": True})):
        p = os.path.join(d, name + ".mo")
        if os.path.exists(p):
            out.append({"name": name, "text": open(p).read(), "opts": opts, "mode": "cache", "origin": "corpus"})
    return out


# ---------------------------------------------------------------------------
# property oracle: observation(fresh) == observation(loaded)
# ---------------------------------------------------------------------------
def close(a, b):
    if isinstance(a, (int, float)) and isinstance(b, (int, float)) and not isinstance(a, bool) and not isinstance(b, bool):
        return abs(a - b) <= 1e-9 * max(1.0, abs(a), abs(b))
    return a == b


def diff(a, b, path=""):
    """first difference between two observations, or None.  Attribute values are compared EXACTLY (the doubles
    survive JSON unchanged); function values with a relative tolerance of 1e-9 (NaN and +-inf are the strings
    "nan", "inf", "-inf" and compare by equality)."""
    if isinstance(a, dict) and isinstance(b, dict):
        for k in sorted(set(a) | set(b)):
            if k in ("type", "msg"):
                continue
            if k == "shape" and a.get("k") == "mx":
                continue            # a scalar MX attribute of an array variable may come back broadcast
            if k not in a or k not in b:
                return "%s/%s: present only on one side" % (path, k)
            r = diff(a[k], b[k], path + "/" + str(k))
            if r:
                return r
        return None
    if isinstance(a, list) and isinstance(b, list):
        if len(a) != len(b):
            return "%s: %d vs %d entries (%s vs %s)" % (path, len(a), len(b), json.dumps(a)[:120], json.dumps(b)[:120])
        for i, (x, y) in enumerate(zip(a, b)):
            r = diff(x, y, path + "/" + str(i))
            if r:
                return r
        return None
    if not (a == b if "/attrs/" in path else close(a, b)):
        return "%s: fresh %s, cached %s" % (path, json.dumps(a)[:160], json.dumps(b)[:160])
    return None


def degenerate(res):
    """the FRESH model itself cannot build one of its four functions (then save_model cannot store it);
    not a cache matter"""
    return [k for k, v in res.get("fresh", {}).get("functions", {}).items() if "exc" in v]


def judge_sequence(case, res):
    for k, (opts, rec) in enumerate(zip(case["steps"], res["steps"])):
        where = "request %d (options %s)" % (k + 1, json.dumps(opts, sort_keys=True))
        if "interrupted" in case:
            where = ("load with options %s after a complete codegen save with them and a codegen save with options %s that was "
                     "killed (rc %s) after the last _codegen_model call (cache file present afterwards: %s)"
                     % (json.dumps(opts, sort_keys=True), json.dumps(case["interrupted"]["opts_b"], sort_keys=True),
                        res.get("step2_rc"), res.get("cache_file_after_interrupted_save")))
        if "fresh_exc" in rec:
            for key in ("a", "b"):
                if rec.get(key + "_exc") != rec["fresh_exc"]:
                    return ("exception-differs", "%s: fresh compile raises %s, the %s call %s"
                            % (where, rec["fresh_exc"], res["mode"], rec.get(key + "_exc") or "succeeds"))
            continue
        if [f for f, v in rec["fresh"]["functions"].items() if "exc" in v]:
            continue
        for key in ("a", "b"):
            if key + "_exc" in rec:
                return ("raises", "%s: call %s raised %s (%s); the uncached compile succeeds"
                        % (where, key, rec[key + "_exc"], rec.get(key + "_msg")))
            d = diff(rec["fresh"], rec[key])
            if d:
                stale = rec[key + "_compiles"] == 0
                return ("stale-cache-served" if stale and key == "a" else "differs-from-fresh",
                        "%s: the model returned by call %s (%s) differs from a fresh compile with these options: %s"
                        % (where, key, "served from the cache file of an earlier request" if stale and key == "a"
                           else "compiles: %d" % rec[key + "_compiles"], d))
        if rec["b_compiles"] != 0 or rec["b"]["type"] != "CachedModel":
            return ("cache-not-used", "%s: the repeated call did not serve the cache" % where)
    return None


def judge(case, res):
    """None | (tag, why)"""
    if "harness" in res:
        return ("harness", res["harness"])
    if "steps" in res:
        return judge_sequence(case, res)
    if "crash" in res:
        return ("crash", "child died with rc=%s on this model: %s" % (res["crash"], res.get("stderr", "")[-200:]))
    if "exc" in res:
        # the observation of a returned model raised: the real code misbehaves on this input
        return ("observation-raises", "observing the returned models raised %s: %s" % (res["exc"], res.get("msg")))
    if "fresh_exc" in res:
        if res.get("first_exc") != res["fresh_exc"]:
            return ("exception-differs", "fresh compile raises %s but the caching call %s"
                    % (res["fresh_exc"], res.get("first_exc") or "succeeds"))
        return None
    if "first_exc" in res:
        if degenerate(res):
            return None
        return ("save-raises", "compiling with %s=True raised %s (%s); the uncached compile succeeds"
                % (res["mode"], res["first_exc"], res.get("first_msg")))
    if not res.get("first_equals_fresh"):
        return ("first-differs", "the model returned by the compiling call with %s=True differs from the uncached compile" % res["mode"])
    if "loaded_exc" in res:
        return ("load-raises", "loading the %s raised %s: %s" % ("compiled libraries" if res["mode"] == "codegen" else "cached model",
                                                                 res["loaded_exc"], res.get("loaded_msg")))
    if res.get("loaded_compiles") != 0 or res["loaded"]["type"] != "CachedModel":
        return ("cache-not-used", "the second call did not serve the cache (compile calls: %s, type %s)"
                % (res.get("loaded_compiles"), res["loaded"]["type"]))
    d = diff(res["fresh"], res["loaded"])
    if d:
        top = d.split(":")[0].strip("/").split("/")
        tag = top[0]
        if tag in CATS:
            tag = "variables:" + (top[2] if len(top) > 2 else "list")
        elif tag == "functions" and len(top) > 1:
            tag = "function:" + top[1]
        return ("differs:" + tag, d)
    return None


# ---------------------------------------------------------------------------
# Coq encoding
# ---------------------------------------------------------------------------
class Skip(Exception):
    pass


def cq_q(x, fn):
    fr = Fraction(x)
    if fr.denominator > 2 ** 80 or abs(fr.numerator) > 2 ** 100:
        raise Skip("not a small dyadic")
    return "(%s (%d)%%Z %d%%positive)" % (fn, fr.numerator, fr.denominator)


def cq_V(x):
    if x == "nan":
        return "None"
    if x in ("inf", "-inf"):
        raise Skip("infinite value")
    return cq_q(x, "s")


def cq_expr(a):
    k = a[0]
    if k == "par":
        return "(Sym %s)" % cq_nat(a[1])
    if k == "const":
        return cq_q(a[1], "c")
    un = {"neg": "Neg", "sq": "Sq", "twice": "Twice"}
    bi = {"add": "Add", "sub": "Sub", "mul": "Mul", "fmin": "Fmin", "fmax": "Fmax"}
    if k in un:
        return "(%s %s)" % (un[k], cq_expr(a[1]))
    return "(%s %s %s)" % (bi[k], cq_expr(a[1]), cq_expr(a[2]))


def par_valuation(n, t):      # must agree with vlib/impl/c19.py
    return [(((k * 5 + t * 3) % 7) + 1) / 2.0 * (-1 if (t == 1 and k % 2 == 1) else 1) for k in range(n)]


def encode(case, res):
    """Gallina term of type `case`, or raises Skip"""
    toks = {}

    def tok(x):
        key = json.dumps(x, sort_keys=True)
        if key == json.dumps(["NoneType", "None"]):
            return 0
        return toks.setdefault(key, len(toks) + 1)

    fresh, loaded = res["fresh"], res["loaded"]
    DEP = {0: "NOT_MX", 1: "MX_DEPENDENT", 2: "MX_INDEPENDENT"}

    def enc_var(v, asts):
        attrs = []
        for j, ao in enumerate(v["attrs"]):
            ast = asts[j] if asts is not None else None
            if ao["k"] == "py":
                if ast is not None:
                    raise Skip("kind mismatch between observation and translation")
                attrs.append("Py %s" % cq_nat(tok([ao["t"], ao["v"]])))
            else:
                if not isinstance(ast, list):
                    raise Skip("attribute expression outside the AST: %s" % ast)
                attrs.append("MX %s" % cq_list([cq_expr(a) for a in ast]))
        return "(Var %s (%s, %s) %s %s %s)" % (cq_nat(tok(v["name"])), cq_nat(v["shape"][0]), cq_nat(v["shape"][1]),
                                               cq_nat(tok(v["ptype"])), cq_nat(tok(v["aliases"])), cq_list(attrs))

    meta = []
    for cat in META_CATS:
        if len(res["attr_ast"][cat]) != len(fresh[cat]):
            raise Skip("translation length")
        meta.append(cq_list([enc_var(v, res["attr_ast"][cat][i][1]) for i, v in enumerate(fresh[cat])]))
    der = cq_list([enc_var(v, None) for v in fresh["der_states"]])
    dast = res.get("delay_ast")
    have_delays = bool(dast) and len(dast) == len(loaded["delay_arguments"]) and \
        all(isinstance(x, list) for x in loaded["delay_arguments"])
    delays = cq_list(["(CNaN, %s)" % cq_expr(a) for a in dast]) if have_delays else "[]"
    model = "(Model %s %s %s %s %s %s %s)" % (
        cq_list(meta), der, cq_nat(tok(fresh["outputs"])), cq_nat(tok(fresh["delay_states"])),
        cq_nat(tok([fresh["string_parameters"], fresh["string_constants"]])), cq_nat(tok(fresh["alias_relation"])), delays)
    npar = sum(v["shape"][0] * v["shape"][1] for v in fresh["parameters"])
    vals = cq_list([cq_list([cq_V(x) for x in par_valuation(npar, t)]) for t in range(3)])
    odep = cq_list([cq_list([cq_list([DEP[x] for x in row]) for row in res["db"]["dep"][cat]]) for cat in META_CATS])
    oattrs = []
    for cat in META_CATS:
        vs = []
        for v in loaded[cat]:
            row = []
            for ao in v["attrs"]:
                if ao["k"] == "py":
                    row.append("(true, [])")
                else:
                    if not isinstance(ao["vals"], list):
                        raise Skip("loaded attribute has free symbols")
                    row.append("(false, %s)" % cq_list([cq_list([cq_V(x) for x in vv]) for vv in ao["vals"][:3]]))
            vs.append(cq_list(row))
        oattrs.append(cq_list(vs))
    if have_delays:
        nsym = 1 + sum(len(fresh[c]) for c in CATS)
        oddep = cq_list([cq_list([cq_nat(i) for i in d]) for d in res["db"]["delay_dep"]])
        dpts = cq_list([cq_list([cq_V((((i * 3 + t * 5) % 11) + 1) / 4.0) for i in range(nsym)]) for t in range(2)])
        odur = cq_list([cq_list([cq_V(da[t][1][0]) for da in loaded["delay_arguments"]]) for t in range(2)])
    else:
        oddep, dpts, odur = "[]", "[[]; []]", "[[]; []]"
    def stat(v):
        return "(%s, (%s, %s), %s, %s)" % (cq_nat(tok(v["name"])), cq_nat(v["shape"][0]), cq_nat(v["shape"][1]),
                                           cq_nat(tok(v["ptype"])), cq_nat(tok(v["aliases"])))

    ostat = cq_list([cq_list([stat(v) for v in loaded[cat]]) for cat in META_CATS])
    oder = cq_list([stat(v) for v in loaded["der_states"]])
    otoks = "(%s, %s, %s, %s)" % (cq_nat(tok(loaded["outputs"])), cq_nat(tok(loaded["delay_states"])),
                                  cq_nat(tok([loaded["string_parameters"], loaded["string_constants"]])),
                                  cq_nat(tok(loaded["alias_relation"])))
    return "(%s, %s, %s, %s, (%s, %s, %s), (%s, %s, %s))" % (model, vals, odep, cq_list(oattrs), oddep, dpts, odur,
                                                             ostat, oder, otoks)


# ---------------------------------------------------------------------------
def run_parallel(ctx, cases, workers=4, timeout=1500):
    from concurrent.futures import ThreadPoolExecutor
    workers = max(1, min(workers, len(cases) // 4 or 1))
    parts = [list(range(w, len(cases), workers)) for w in range(workers)]
    with ThreadPoolExecutor(max_workers=workers) as ex:
        outs = list(ex.map(lambda p: core.run_child(ctx, "c19", [cases[i] for i in p], timeout=timeout), parts))
    results = [None] * len(cases)
    for p, o in zip(parts, outs):
        for i, r in zip(p, o):
            results[i] = r
    return results


def build_cases(ctx):
    cases = [{"name": "M", "text": t, "opts": o, "mode": "cache", "origin": "directed:" + n} for n, o, t in DIRECTED]
    cases += corpus_cases()
    for n, steps, t in DIRECTED_SEQ:
        cases.append({"name": "M", "text": t, "steps": steps, "mode": "cache", "origin": "directed-sequence:" + n})
    for i in range(ctx.scaled(7, 150)):
        text, feats = gen_affine_product(ctx.rng)
        cases.append({"name": "M", "text": text, "opts": ctx.rng.choice([{}, {}, {"expand_vectors": True},
                                                                          {"replace_constant_values": True}]),
                      "mode": "cache", "origin": "generated-affine", "features": feats})
    for i in range(ctx.scaled(5, 100)):
        cases.append(gen_sequence(ctx.rng))
    n_, o_, t_ = NONSMOOTH_DIRECTED
    cases.append({"name": "M", "text": t_, "opts": o_, "mode": "cache", "origin": "directed:" + n_})
    for i in range(ctx.scaled(5, 100)):
        text, feats = gen_near_dup(ctx.rng)
        cases.append({"name": "M", "text": text, "opts": ctx.rng.choice([{}, {}, {"expand_vectors": True}]),
                      "mode": "cache", "origin": "generated-neardup", "features": feats})
    for i in range(ctx.scaled(4, 80)):
        text, feats = gen_nonsmooth(ctx.rng)
        cases.append({"name": "M", "text": text, "opts": ctx.rng.choice([{}, {}, {"expand_vectors": True}]),
                      "mode": "cache", "origin": "generated-nonsmooth", "features": feats})
    n_gen = ctx.scaled(24, 1000)
    for i in range(n_gen):
        opts = dict(OPTION_SETS[i % len(OPTION_SETS)] if ctx.rng.random() < 0.8 else ctx.rng.choice(OPTION_SETS))
        text, feats = gen_model(ctx.rng, opts)
        cases.append({"name": "M", "text": text, "opts": opts, "mode": "cache", "origin": "generated", "features": feats})
    n_cg = ctx.scaled(0, 4)
    for i in range(n_cg):
        n, o, t = DIRECTED[[5, 8, 1, 0][i % 4]]
        cases.append({"name": "M", "text": t, "opts": o, "mode": "codegen", "origin": "directed-codegen:" + n})
    if n_cg or not ctx.notes.get("codegen_flags_probe_ok", True):
        # thorough tier; or the flag probe failed: one compiled model evaluated at NaN / inf points so that a
        # value-changing compiler flag shows up as a concrete failing input
        cases.append({"name": "M", "text": t_, "opts": o_, "mode": "codegen", "origin": "directed-codegen:" + n_})
    if n_cg or not ctx.notes.get("save_order_probe_ok", True):
        # thorough tier; or the order probe failed: complete codegen save with A, codegen save with B killed after the
        # last _codegen_model call, load with A - in separate processes, on one folder
        n, oa, ob, t = INTERRUPTED
        cases.append({"name": "M", "text": t, "steps": [oa], "interrupted": {"opts_b": ob}, "mode": "codegen",
                      "origin": "directed-interrupted:" + n})
    if n_cg:
        text, feats = gen_nonsmooth(ctx.rng)
        cases.append({"name": "M", "text": text, "opts": {}, "mode": "codegen", "origin": "generated-nonsmooth-codegen",
                      "features": feats})
        n, steps, t = DIRECTED_SEQ[0]
        cases.append({"name": "M", "text": t, "steps": steps, "mode": "codegen", "origin": "directed-sequence-codegen:" + n})
    return cases


def run(ctx):
    from concurrent.futures import ThreadPoolExecutor
    fp, n = core.fingerprint(core.REPO + "/src/pymoca/backends/casadi/api.py", {"save_model", "load_model", "_codegen_model"})
    ctx.notes["source_fingerprint"] = {"api.py:save_model,load_model,_codegen_model": fp}
    ok, detail = probe_codegen_flags(core.REPO)
    ctx.notes["codegen_flags_probe_ok"] = ok
    ctx.notes["codegen_flags_probe"] = detail
    ctx.oblige("tie:codegen-compiler-flags-are-value-preserving(api.py _codegen_model)", ok, detail)
    ok, detail = probe_save_order(core.REPO)
    ctx.notes["save_order_probe_ok"] = ok
    ctx.notes["save_order_probe"] = detail
    ctx.oblige("tie:save_model-removes-the-cache-file-before-rebuilding-the-libraries(api.py save_model)", ok, detail)
    cases = build_cases(ctx)
    with ThreadPoolExecutor(max_workers=1) as ex:
        fut = ex.submit(run_parallel, ctx, cases)
        core.check_props(ctx, "C19.v", THEOREMS)
        results = fut.result()
    # (a) oracle
    stats = {"served_from_cache": 0, "fresh_raises": 0, "fresh_function_unbuildable": 0, "codegen": 0,
             "mx_dependent_attrs": 0, "mx_independent_attrs": 0, "with_delays": 0, "with_aliases": 0,
             "array_variables": 0, "array_parameters": 0}
    feats = {}
    nontrivial = set()
    for c, r in zip(cases, results):
        for f in c.get("features", []):
            feats[f] = feats.get(f, 0) + 1
        v = judge(c, r)
        if v:
            tag, why = v
            if tag == "harness":
                ctx.oblige("harness:child", False, why)
                continue
            core.report(ctx, tag, why, {"input": {k: c[k] for k in ("name", "text", "opts", "steps", "interrupted", "mode") if k in c},
                                        "why": why})
        if "steps" in r:
            stats["sequences"] = stats.get("sequences", 0) + 1
            fr = [json.dumps(x.get("fresh"), sort_keys=True) for x in r["steps"]]
            if len(set(fr)) > 1:
                stats["sequences_where_options_change_the_model"] = stats.get("sequences_where_options_change_the_model", 0) + 1
                nontrivial.add(json.dumps([c["text"], c["steps"], c["mode"]], sort_keys=True))
            stats["sequence_calls_served_from_cache"] = stats.get("sequence_calls_served_from_cache", 0) + sum(
                1 for x in r["steps"] for key in ("a", "b") if x.get(key + "_compiles") == 0 and key in x)
            continue
        if "fresh_exc" in r:
            stats["fresh_raises"] += 1
        elif "first_exc" in r and degenerate(r):
            stats["fresh_function_unbuildable"] += 1
        if "loaded" in r and r.get("loaded_compiles") == 0:
            stats["served_from_cache"] += 1
            stats["codegen"] += c["mode"] == "codegen"
            dep = [x for cat in META_CATS for row in r["db"]["dep"][cat] for x in row]
            stats["mx_dependent_attrs"] += dep.count(1)
            stats["mx_independent_attrs"] += dep.count(2)
            stats["with_delays"] += bool(r["fresh"]["delay_states"])
            stats["with_aliases"] += bool(r["fresh"]["alias_relation"])
            stats["array_variables"] += any(v_["shape"] != [1, 1] for cat in ("states", "alg_states") for v_ in r["fresh"][cat])
            stats["array_parameters"] += any(v_["shape"] != [1, 1] for v_ in r["fresh"]["parameters"])
            if dep.count(1) + dep.count(2) > 0 or r["fresh"]["delay_states"]:
                nontrivial.add(json.dumps([c["text"], c["opts"], c["mode"]], sort_keys=True))
    # (b) correspondence
    enc, idx, skipped = [], [], {}
    for i, (c, r) in enumerate(zip(cases, results)):
        if "loaded" not in r or "attr_ast" not in r or "dep" not in r.get("db", {}):
            continue
        try:
            enc.append(encode(c, r))
            idx.append(i)
        except Skip as e:
            k = str(e).split(":")[0]
            skipped[k] = skipped.get(k, 0) + 1
    bad = core.coq_eval_cases(ctx, "cache", PREAMBLE, "case", enc, "check_case", shard=ctx.scaled(16, 60)) if enc else []
    mism = [idx[j] for j in bad] if bad is not None else idx
    ctx.oblige("correspondence:model-vs-save_model/load_model", bad is not None and not mism and len(enc) >= min(10, len(cases) // 3),
               "mismatching cases: %s; encoded %d of %d" % (mism[:10], len(enc), len(cases)))
    if mism and not ctx.violations:
        i = mism[0]
        core.violation(ctx, "correspondence-broken",
                       {"correspondence": "Model/C19_cache.v check_case vs save_model/load_model",
                        "input": {k: cases[i][k] for k in ("name", "text", "opts", "mode") if k in cases[i]},
                        "stored": results[i].get("db"), "attr_ast": results[i].get("attr_ast")}, no_input=True)
    core.replay_known(ctx, lambda e: None)
    ctx.cov["evaluations"] = len(cases)
    ctx.cov["distinct_nontrivial"] = len(nontrivial)
    ctx.cov["rule"] = ("%d directed models (one per mechanism/mutant) + %d corpus models from test/models + generated models "
                       "under %d option sets + affine-only models with attributes that are products of 2-3 distinct "
                       "parameters; each case = fresh compile, compile+save, load; + request SEQUENCES on one folder (option "
                       "sets A then B, incl. keys outside the default option dict such as iterative_simplification; every "
                       "call must equal a fresh compile with ITS options); non-trivial = served from the cache and the "
                       "saved model has at least one MX attribute or a delay, or a sequence whose option sets give "
                       "different models; distinct by (text, options, mode)"
                       % (len(DIRECTED) + len(DIRECTED_SEQ), len(corpus_cases()), len(OPTION_SETS)))
    gen = [c for c in cases if c["origin"] == "generated"]
    ctx.cov["samples"] = [{"opts": c["opts"], "text": c["text"]} for c in gen[:2]] + \
        [{"steps": c["steps"], "text": c["text"]} for c in cases if c["origin"] == "generated-sequence"][:1]
    ctx.notes["input_distribution"] = {"cases": len(cases), "generator_features": feats, "observed": stats,
                                       "correspondence_cases": len(enc), "correspondence_skipped": skipped}
    ctx.assumptions += [
        "pickling of CasADi Functions, CodeGenerator + the C compiler + ca.external are trusted to produce functions that "
        "evaluate like the original (Section variables pkm/pkd with exactly that contract); the oracle nevertheless "
        "compares all four functions numerically at two dyadic points per case",
        "attribute values are compared after broadcasting a one-element value to the symbol's shape (as "
        "variable_metadata_function does); a scalar MX attribute of an array variable comes back from the cache as a vector "
        "of equal entries",
        "the Coq model covers attribute expressions built from + - * neg sq fmin fmax over the flattened parameter vector "
        "with finite constants; cases outside it are judged by the oracle only (counted in correspondence_skipped)",
        "models whose FRESH compile cannot build one of its own functions (e.g. a delay duration depending on an "
        "eliminated parameter) are outside the claim: save_model raises the same error",
    ]


def replay(ctx, path):
    rec = json.load(open(path))
    case = rec.get("input")
    if case is None:
        print("replay: no input in %s (broken obligations: %s)" % (path, rec.get("broken")))
        return 1
    res = core.run_child(ctx, "c19", [case], timeout=900)[0]
    v = judge(case, res)
    print("replay:", ("[%s] %s" % v).replace("\n", " ") if v else "property holds on this model")
    return 1 if v else 0
