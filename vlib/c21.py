"""C21 — an interrupted or in-progress cache write never breaks later loads."""
import ast
import builtins
import json
import pickle
import re
import time
from concurrent.futures import ThreadPoolExecutor

from . import core
from .core import cq_bool, cq_list, cq_nat

THEOREMS = ["C21_dump_accepted", "C21_prefix_eof", "C21_crash", "C21_crash_point", "C21_reader_partial",
            "C21_two_callers_partial", "C21_writer_two_readers_partial",
            "C21_two_writers_single_write", "C21_hole_at_opcode_boundary", "C21_torn_same_stream_partial",
            "C21_phase3_shape_sweep", "C21_torn_unaligned_refuted", "C21_mixture_refuted",
            "C21_crash_codegen", "C21_codegen_old_order_refuted", "C21_reader_vs_removal",
            "C21_chunked_file_shape", "C21_two_writers_chunked_same_stream",
            "C21_fixed_routes", "C21_history_example", "C21_unrouted_refuted"]

API = "/src/pymoca/backends/casadi/api.py"
KINDS = ["EOFError", "UnpicklingError", "RuntimeDeser", "RuntimeOther", "FileNotFoundError",
         "InvalidCacheError", "OtherError"]
PREAMBLE = ("From Coq Require Import List Bool.\nImport ListNotations.\n"
            "From PV Require Import Lib.Prefix Model.C21_crash.\nRequire Import RunC21.Gen_C21.\n")
MODEL_LEN = 28          # length (dump (db_of _ _ _)) in Model/C21_crash.v (checked in Tie_C21.v)
NOCUT = 1000

# ---------------------------------------------------------------------------------------------
# models (small, compile in ~10 ms once the parser cache is warm); @N@ is rewritten by `edit`
# ---------------------------------------------------------------------------------------------
MODELS = {
    "Spring": """model Spring
    Real x, v_x;
    parameter Real c = 0.1;
    parameter Real k = 2;
equation
    der(x) = v_x;
    der(v_x) = -k*x - c*v_x + @N@;
end Spring;
""",
    "Tank": """model Tank
    input Real q;
    output Real y;
    Real h(start=1.0, min=0, max=10);
    Real a;
    constant Real g = 9.81;
    parameter Real A = 2.0;
equation
    A*der(h) = q - g*0.01*h + @N@;
    a = h;
    y = a * 2;
end Tank;
""",
    "Tiny": """model Tiny
    Real x;
equation
    x = 1 + @N@;
end Tiny;
""",
}
OPTSETS = [
    {"cache": True},
    {"cache": True, "replace_parameter_values": True},
    {"cache": True, "detect_aliases": True},
    {"cache": True, "replace_constant_values": True},
]


# ---------------------------------------------------------------------------------------------
# S1: fail-closed ast probe of the exception routing in api.py  ->  Gen_C21.v
# ---------------------------------------------------------------------------------------------
def _resolve(node):
    s = ast.unparse(node)
    if not re.match(r"^[A-Za-z_][\w.]*$", s):
        return None
    if s == "InvalidCacheError":
        return "ICE"
    ns = dict(vars(builtins))
    ns.update({"pickle": pickle, "PickleError": pickle.PickleError, "UnpicklingError": pickle.UnpicklingError})
    try:
        c = eval(s, {"__builtins__": {}}, ns)  # dotted name only (regex above)
    except Exception:
        return None
    return c if isinstance(c, type) and issubclass(c, BaseException) else None


def _caught_kinds(typ):
    if typ is None:
        return list(KINDS)
    nodes = typ.elts if isinstance(typ, ast.Tuple) else [typ]
    pyc = {"EOFError": EOFError, "UnpicklingError": pickle.UnpicklingError, "RuntimeDeser": RuntimeError,
           "RuntimeOther": RuntimeError, "FileNotFoundError": FileNotFoundError}
    out = []
    for k in KINDS:
        for n in nodes:
            c = _resolve(n)
            if c is None:
                continue
            if c == "ICE":
                hit = (k == "InvalidCacheError")
            elif k in pyc:
                hit = issubclass(pyc[k], c)
            else:                                   # InvalidCacheError(Exception), OtherError ~ any Exception
                hit = c in (Exception, BaseException)
            if hit:
                out.append(k)
                break
    return out


def _is_logging(stmt):
    return (isinstance(stmt, ast.Expr) and isinstance(stmt.value, ast.Call)
            and ast.unparse(stmt.value.func).startswith("logger."))


def _strip(body):
    out = []
    for s in body:
        if _is_logging(s) or isinstance(s, ast.Pass):
            continue
        if isinstance(s, ast.Expr) and isinstance(s.value, ast.Constant):
            continue
        if isinstance(s, ast.If) and not s.orelse and all(_is_logging(x) for x in s.body):
            continue
        out.append(s)
    return out


def _raises_invalid(s):
    return (isinstance(s, ast.Raise) and isinstance(s.exc, ast.Call)
            and ast.unparse(s.exc.func) == "InvalidCacheError")


def _load_action(h):
    body = _strip(h.body)
    if len(body) == 1 and _raises_invalid(body[0]):
        return "ARaiseInvalid"
    if (len(body) == 1 and isinstance(body[0], ast.If) and len(_strip(body[0].body)) == 1
            and _raises_invalid(_strip(body[0].body)[0]) and len(body[0].orelse) == 1
            and isinstance(body[0].orelse[0], ast.Raise) and body[0].orelse[0].exc is None
            and h.name and re.search(r"\bstr\(%s\)" % h.name, ast.unparse(body[0].test))
            and "eserializ" in ast.unparse(body[0].test)):
        return "ACondDeser"
    return "AOther"


def _transfer_action(h):
    if any(isinstance(n, ast.Raise) for s in h.body for n in ast.walk(s)):
        return "TOther"
    body = _strip(h.body)
    if len(body) != 3:
        return "TOther"
    a, b, c = body
    ok = (isinstance(a, ast.Assign) and len(a.targets) == 1 and isinstance(a.targets[0], ast.Name)
          and isinstance(a.value, ast.Call) and ast.unparse(a.value.func) == "_compile_model"
          and isinstance(b, ast.Expr) and isinstance(b.value, ast.Call) and ast.unparse(b.value.func) == "save_model"
          and isinstance(c, ast.Return) and isinstance(c.value, ast.Name) and c.value.id == a.targets[0].id)
    return "TRecompile" if ok else "TOther"


def extract_tables(path):
    """Returns (tables, problems).  tables = {"load": [[kinds, action]...], "transfer": [...]}.
    Anything unexpected leaves the table empty (routes_ok then fails: fail closed)."""
    tree = ast.parse(open(path).read())
    funcs = {n.name: n for n in tree.body if isinstance(n, ast.FunctionDef)}
    classes = {n.name: n for n in tree.body if isinstance(n, ast.ClassDef)}
    problems = []
    t = {"load": [], "transfer": []}
    ice = classes.get("InvalidCacheError")
    if ice is None or [ast.unparse(b) for b in ice.bases] != ["Exception"]:
        problems.append("InvalidCacheError is not a direct subclass of Exception")
        return t, problems

    def calls(node, name):
        return any(isinstance(n, ast.Call) and ast.unparse(n.func) == name for n in ast.walk(node))

    lm = funcs.get("load_model")
    tries = [n for n in ast.walk(lm) if isinstance(n, ast.Try) and any(calls(s, "pickle.load") for s in n.body)] if lm else []
    n_loads = sum(1 for n in ast.walk(lm) if isinstance(n, ast.Call) and ast.unparse(n.func) == "pickle.load") if lm else 0
    if len(tries) > 1 or n_loads != 1:
        problems.append("load_model: expected exactly one pickle.load (in at most one try), found %d in %d" % (n_loads, len(tries)))
    else:
        for tr in tries:
            if tr.finalbody or tr.orelse:
                problems.append("load_model: try around pickle.load has else/finally")
            for h in tr.handlers:
                t["load"].append([_caught_kinds(h.type), _load_action(h)])
    tm = funcs.get("transfer_model")
    tries = [n for n in ast.walk(tm) if isinstance(n, ast.Try) and any(
        isinstance(s, ast.Return) and isinstance(s.value, ast.Call) and ast.unparse(s.value.func) == "load_model"
        for s in n.body)] if tm else []
    if len(tries) != 1:
        problems.append("transfer_model: expected exactly one try around `return load_model(...)`, found %d" % len(tries))
    else:
        if tries[0].finalbody or tries[0].orelse:
            problems.append("transfer_model: try has else/finally")
        for h in tries[0].handlers:
            t["transfer"].append([_caught_kinds(h.type), _transfer_action(h)])
    if problems:
        t = {"load": [], "transfer": []}
    return t, problems


def codegen_remove_first(path):
    """fail-closed: True only if save_model removes the cache file (os.remove/os.unlink of the name that is later
    opened for writing) in a statement that precedes the loop calling _codegen_model"""
    tree = ast.parse(open(path).read())
    fn = [n for n in tree.body if isinstance(n, ast.FunctionDef) and n.name == "save_model"]
    if len(fn) != 1:
        return False
    body = fn[0].body
    loop = [i for i, st in enumerate(body) if isinstance(st, (ast.For, ast.While)) and any(
        isinstance(n, ast.Call) and ast.unparse(n.func) == "_codegen_model" for n in ast.walk(st))]
    opens = [ast.unparse(n.args[0]) for st in body for n in ast.walk(st)
             if isinstance(n, ast.Call) and ast.unparse(n.func) == "open" and n.args
             and any("w" in ast.unparse(x) for x in n.args[1:2])]
    if len(loop) != 1 or len(set(opens)) != 1:
        return False
    for st in body[:loop[0]]:
        for n in ast.walk(st):
            if (isinstance(n, ast.Call) and ast.unparse(n.func) in ("os.remove", "os.unlink") and n.args
                    and ast.unparse(n.args[0]) == opens[0]):
                # must not be guarded by anything but the codegen option itself
                if isinstance(st, ast.If) and 'compiler_options["codegen"]' not in ast.unparse(st.test).replace("'", '"'):
                    return False
                return True
    return False


def gen_text(t):
    def hs(rows):
        return cq_list(["(%s, %s)" % (cq_list(k), a) for k, a in rows])
    return (PREAMBLE.replace("Require Import RunC21.Gen_C21.\n", "")
            + "(* generated from %s on every run *)\n" % API
            + "Definition tbl : tables := Tables %s %s.\n" % (hs(t["load"]), hs(t["transfer"]))
            + "Definition cg_remove_first : bool := %s.\n" % cq_bool(t.get("cg_remove_first", False)))


TIE = PREAMBLE + """From PV Require Import Proofs.C21_crash Props.C21.
(* side condition of C21_crash / C21_crash_point / C21_reader_partial on the table extracted from api.py *)
Lemma tie_routes : routes_ok tbl = true.
Proof. vm_compute. reflexivity. Qed.
Lemma tie_model_len : length (dump (db_of 3 5 7)) = %d.
Proof. vm_compute. reflexivity. Qed.
Theorem C21_crash_here (h : list op) : all_good tbl w0 h.
Proof. exact (C21_crash tbl h tie_routes). Qed.
Print Assumptions C21_crash_here.
""" % MODEL_LEN

TIE_CG = PREAMBLE + """From PV Require Import Proofs.C21_crash Proofs.C21_codegen Props.C21.
(* the step order of save_model in codegen mode, extracted from api.py, is the one C21_crash_codegen is about *)
Lemma tie_cg_order : cg_remove_first = true.
Proof. vm_compute. reflexivity. Qed.
"""


# ---------------------------------------------------------------------------------------------
# oracle (independent of the Coq model)
# ---------------------------------------------------------------------------------------------
def transfers_of(op, r):
    """the transfer results contained in one op result, with a label"""
    if op[0] in ("transfer", "crash"):
        return [("", r)]
    if op[0] == "reader":
        return [("reader ", r["reader"]), ("writer ", r["writer"])]
    if op[0] == "two":
        return [("caller A ", r["A"]), ("caller B ", r["B"])]
    if op[0] == "gap":
        return [("caller A (writer B removed the cache file: %s) " % r.get("events"), r["A"])]
    if op[0] == "reader2":
        return [("reader A ", r["A"]), ("reader B ", r["B"]), ("writer ", r["writer"])]
    return []


def judge_transfer(r):
    if r["out"] == "Died":
        return None, None
    if r["out"] == "Hang":
        return "hang", "transfer_model did not return (%s)" % r.get("msg")
    if r["out"] == "Raised":
        return "raised:%s" % r.get("exc"), "transfer_model raised %s: %s" % (r.get("exc"), r.get("msg"))
    if not r.get("sig_ok"):
        return "wrong-model", ("transfer_model (%s) returned a model that differs from a fresh compile of the current "
                               "sources: %s" % (r["out"], r.get("sig_error") or json.dumps(r.get("sig"))[:300]))
    return None, None


def judge(case, res):
    """first (op index, tag, why) that violates the property, or None"""
    if "results" not in res:
        return 0, "harness:%s" % (res.get("exc") or res.get("crash")), "history could not be run: %s" % json.dumps(res)[:300]
    for i, (op, r) in enumerate(zip(case["ops"], res["results"])):
        for lbl, tr in transfers_of(op, r):
            tag, why = judge_transfer(tr)
            if tag:
                return i, tag, "op %d %s: %s%s" % (i, op, lbl, why)
    return None


# ---------------------------------------------------------------------------------------------
# Coq encoding (abstraction of real offsets onto the model's 28-symbol stream)
# ---------------------------------------------------------------------------------------------
def _eof(tr):
    return cq_bool(tr.get("pl") == "EOFError")


def _steps(j, fired):
    if not fired:
        return NOCUT
    if j <= 1:
        return j
    return 2 + ((j - 2) % (MODEL_LEN - 2))          # 1..MODEL_LEN-2 bytes written: a proper prefix


OBS = {"Loaded": "OLoaded", "Recompiled": "ORecompiled", "Raised": "ORaised", "Died": "ODied", "Hang": "ORaised"}


def encode(case, res):
    ops, obs = [], []
    for op, r in zip(case["ops"], res["results"]):
        if op[0] == "edit":
            ops.append("Edit"); obs.append("[]")
        elif op[0] == "bump":
            ops.append("Bump"); obs.append("[]")
        elif op[0] == "transfer":
            ops.append("Transfer %s %s" % (cq_nat(op[1]), _eof(r)))
            obs.append("[%s]" % OBS[r["out"]])
        elif op[0] == "crash":
            ops.append("CrashT %s %s %s" % (cq_nat(op[1]), _eof(r), cq_nat(_steps(op[2], r["out"] == "Died"))))
            obs.append("[%s]" % OBS[r["out"]])
        elif op[0] == "cut":
            if r["size"] is None or r["k"] >= r["size"]:
                j = NOCUT
            elif r["k"] == 0:
                j = 0
            else:
                j = 1 + ((r["k"] - 1) % (MODEL_LEN - 2))
            ops.append("Cut %s" % cq_nat(j)); obs.append("[]")
        elif op[0] == "reader":
            ops.append("Reader %s %s %s %s" % (cq_nat(op[1]), _eof(r["writer"]), _eof(r["reader"]),
                                               cq_nat(_steps(op[2], r["fired"]))))
            obs.append("[%s; %s]" % (OBS[r["reader"]["out"]], OBS[r["writer"]["out"]]))
        elif op[0] == "two":
            lastb = not (r["save_order"] and r["save_order"][-1] == "A")
            ops.append("Two %s %s %s %s %s" % (cq_nat(op[1]), cq_nat(op[2]), _eof(r["A"]), _eof(r["B"]), cq_bool(lastb)))
            obs.append("[%s; %s]" % (OBS[r["A"]["out"]], OBS[r["B"]["out"]]))
        elif op[0] == "gap":
            ops.append("Gap %s %s %s %s" % (cq_nat(op[1]), _eof(r["A"]), cq_bool(bool(r["late"])), cq_bool(bool(r["savedfirst"]))))
            obs.append("[%s; %s]" % (OBS[r["A"]["out"]], OBS.get(r["B"]["out"], "ORaised")))
        elif op[0] == "reader2":
            ops.append("Reader2 %s %s %s %s %s" % (cq_nat(op[1]), _eof(r["writer"]), _eof(r["A"]), _eof(r["B"]),
                                                   cq_nat(_steps(op[2], r["fired"]))))
            obs.append("[%s; %s; %s]" % (OBS[r["A"]["out"]], OBS[r["B"]["out"]], OBS[r["writer"]["out"]]))
    return "(%s, %s)" % (cq_list(ops), cq_list(obs))


# ---------------------------------------------------------------------------------------------
# generators
# ---------------------------------------------------------------------------------------------
def mk(name, ops, optsets=None):
    return {"kind": "history", "name": name, "template": MODELS[name], "optsets": optsets or OPTSETS, "ops": ops}


def sweep_history(name, o, offsets):
    ops = [["transfer", o]]
    for k in offsets:
        ops += [["cut", k], ["transfer", o]]
    ops.append(["transfer", o])
    return mk(name, ops)


def boundary_offsets(info):
    n = info["n"]
    s = set(range(0, 13)) | {n - 1, n - 2, n - 3, n // 2, 8192, 8191, 8193, 4096}
    for pos, ln in info["frames"]:
        for d in range(-2, 12):
            s.add(pos + d)
        for d in range(-2, 3):
            s.add(pos + 9 + ln + d)
    return sorted(k for k in s if 0 <= k < n)


def _interleavings(a, b):
    if not a or not b:
        return [a + b]
    return [a[0] + x for x in _interleavings(a[1:], b)] + [b[0] + x for x in _interleavings(a, b[1:])]


# both callers finish load_model first (either order), then handler / compile / save steps in any interleaving
SCHEDULES = [st + x for st in ("AB", "BA") for x in _interleavings("AAA", "BBB")]
LOCKSTEP = "ABABABAB"

# where the caller stands when the writer's removal of the cache file happens: not started, after its first
# existence/mtime test of the cache file, at os.walk (all tests done), at its open, after load_model returned
GAP_POSITIONS = [None, "tested", "walk", "open", "loaded", "saved"]


def gap_schedule(pos):
    return ([["A", pos]] if pos else []) + [["B", "removed"], ["A", "end"], ["B", "end"]]


SPECIAL_J = [0, 1, 2, 3, 4, 10, 11, 12, 13, 100, 4097, 8193, 8194, 9000, 30000]


def random_history(rng, name):
    used = rng.sample(range(len(OPTSETS)), rng.choice([1, 1, 2, 2, 3]))
    ops = []
    for _ in range(rng.randint(4, 11)):
        x = rng.random()
        o = rng.choice(used)
        j = rng.choice(SPECIAL_J) if rng.random() < 0.5 else rng.randint(2, 9500)
        if x < 0.30:
            ops.append(["transfer", o])
        elif x < 0.52:
            ops.append(["crash", o, j])
        elif x < 0.68:
            ops.append(["cut", rng.choice([0, 1, 2, 3, 10, 11, 12, -1, -2, -10, 8192]) if rng.random() < 0.5 else rng.randint(0, 9500)])
        elif x < 0.76:
            ops.append(["reader", o, j])
        elif x < 0.84:
            ops.append(["two", o, rng.choice(used), rng.choice(SCHEDULES)])
        elif x < 0.87:
            ops.append(["reader2", o, j, rng.choice(SCHEDULES)])
        elif x < 0.90:
            ops.append(["gap", o, gap_schedule(rng.choice(GAP_POSITIONS)) if rng.random() < 0.7
                        else ["A"] * rng.randint(0, 5) + [["B", "removed"]] + [rng.choice("AB") for _ in range(3)]])
        elif x < 0.95:
            ops.append(["edit"])
        else:
            ops.append(["bump"])
    for o in used:
        ops += [["transfer", o], ["transfer", o]]
    return mk(name, ops)


def fixed_histories(rng, thorough):
    out = []
    names = sorted(MODELS)
    js = [0, 1, 2, 3, 12, 13, 5000] if thorough else [0, 1, 2, 13, 5000]
    for mi, name in enumerate(names if thorough else names[:1]):
        # every write step around the open/truncate and the first/last bytes, then two transfers
        for j in js:
            out.append(mk(name, [["transfer", 0], ["edit"], ["crash", 0, j], ["transfer", 0], ["transfer", 0]]))
            out.append(mk(name, [["crash", 0, j], ["transfer", 0], ["transfer", 0]]))
            out.append(mk(name, [["transfer", 0], ["edit"], ["reader", 0, j], ["transfer", 0]]))
            out.append(mk(name, [["reader", 0, j], ["transfer", 0]]))
    for mi, name in enumerate(names):
        # crash while switching option sets, then both option sets again
        out.append(mk(name, [["transfer", 0], ["crash", 1, 700], ["transfer", 0], ["transfer", 1], ["transfer", 1]]))
        # stale + truncated, version change + truncated
        out.append(mk(name, [["transfer", 0], ["cut", 100], ["edit"], ["transfer", 0], ["transfer", 0]]))
        out.append(mk(name, [["transfer", 0], ["bump"], ["cut", 0], ["transfer", 0], ["transfer", 0]]))
        # two callers that both see the same unusable cache before either recovers
        scheds = [LOCKSTEP] + (SCHEDULES if thorough else rng.sample(SCHEDULES, 3))
        for i, sc in enumerate(scheds):
            k = [4000, 0, 1, 11, -1][i % 5]
            out.append(mk(name, [["transfer", 0], ["cut", k], ["two", 0, 0, sc], ["transfer", 0]]))
        sc = rng.choice(SCHEDULES)
        out.append(mk(name, [["crash", 0, 1], ["two", 0, 0, LOCKSTEP], ["transfer", 0]]))
        out.append(mk(name, [["crash", 0, 5000], ["two", 0, 0, sc], ["transfer", 0]]))
        out.append(mk(name, [["transfer", 0], ["edit"], ["two", 0, 0, LOCKSTEP], ["transfer", 0]]))      # stale
        out.append(mk(name, [["transfer", 0], ["bump"], ["two", 0, 0, sc], ["transfer", 0]]))          # version
        out.append(mk(name, [["two", 0, 0, LOCKSTEP], ["transfer", 0]]))                                # no file
        out.append(mk(name, [["transfer", 0], ["cut", 3000], ["two", 0, 1, sc], ["transfer", 0], ["transfer", 1]]))
        out.append(mk(name, [["transfer", 0], ["cut", 3000], ["two", 1, 0, LOCKSTEP], ["transfer", 1], ["transfer", 0]]))
        out.append(mk(name, [["transfer", 0], ["two", 0, 1, sc], ["transfer", 1]]))                    # A loads, B recompiles
        # a caller overlapping a codegen writer's removal of the cache file: removal after i steps of the caller
        # (0 before it starts, 1 after its existence/mtime test, 2 at os.walk, 3 at its open, 4 after load_model);
        # the writer needs 7 steps up to the removal (its own mtime test, walk, open, loaded, compile, save, removed)
        for pos in GAP_POSITIONS:
            out.append(mk(name, [["transfer", 0], ["gap", 0, gap_schedule(pos)], ["transfer", 0]]))
        out.append(mk(name, [["transfer", 0], ["cut", 2000], ["gap", 0, gap_schedule("tested")], ["transfer", 0]]))
        # the caller has to recompile (no / stale / cut cache) and the writer's removal falls after its save_model
        out.append(mk(name, [["gap", 0, gap_schedule("saved")], ["transfer", 0]]))
        out.append(mk(name, [["transfer", 0], ["edit"], ["gap", 0, gap_schedule("saved")], ["transfer", 0]]))
        # a writer in the middle of its write and two readers
        for j in ([1, 2, 3000] if thorough else [1, 3000]):
            out.append(mk(name, [["transfer", 0], ["edit"], ["reader2", 0, j, LOCKSTEP], ["transfer", 0]]))
        out.append(mk(name, [["reader2", 0, 2, sc], ["transfer", 0]]))
    return out


def run_children(ctx, cases, workers=4):
    """core.run_child on <= 4 interleaved shards in parallel (each shard is one child process)"""
    if len(cases) < 2 * workers and workers > 2:
        return core.run_child(ctx, "c21", cases, timeout=3000)
    shards = [cases[i::workers] for i in range(workers)]
    with ThreadPoolExecutor(max_workers=workers) as ex:
        parts = list(ex.map(lambda s: core.run_child(ctx, "c21", s, timeout=3000), shards))
    out = [None] * len(cases)
    for w, part in enumerate(parts):
        for i, r in enumerate(part):
            out[w + i * workers] = r
    return out


CODEGEN_SCENARIO = {"kind": "codegen-scenario", "name": "Tank", "template": MODELS["Tank"],
                    "o1": {"codegen": True}, "o2": {"codegen": True, "replace_parameter_values": True}}


ALL_ROUNDS = [[1, "orig"], [3, "orig"], [2, "orig"], [2, "new"], [1, "new"], [3, "new"], [4, "orig"]]
LIGHT_ROUNDS = [[1, "orig"], [3, "new"], [4, "orig"]]


def run_codegen_scenario(ctx, sc, rounds=None):
    """transfer(o1) completes.  Then per round [k, cont]: a transfer with the OTHER option set is killed after k of
    the four libraries (k = 4: at the open of the cache file); then a transfer with the current ("orig") or the
    other ("new") option set is judged against a fresh compile.  Every step in its own process (dlopen caches).
    Stops at the first violation.  Returns (tag, why, trace); trace = [[step, opts id, k, result], ...]."""
    import tempfile
    rounds = rounds if rounds is not None else sc.get("rounds") or [[4, "orig"]]
    d = tempfile.mkdtemp(prefix="cg_", dir=ctx.tmp)
    opts = {1: sc["o1"], 2: sc["o2"]}

    def step(phase, oid, k=None):
        c = {"kind": "codegen", "phase": phase, "dir": d, "name": sc["name"], "template": sc["template"],
             "opts": opts[oid], "k": k}
        return core.run_child(ctx, "c21", [c], timeout=900)[0]
    trace = []
    cur = 1
    r = step("complete", cur)
    trace.append(["complete", cur, None, r])
    if r.get("out") != "Model":
        return "harness:codegen", "scenario could not be set up: %s" % json.dumps(r)[:300], trace
    for k, cont in rounds:
        other = 3 - cur
        r = step("kill", other, k)
        trace.append(["kill", other, k, r])
        if r.get("out") != "Died":
            return "harness:codegen", "kill step did not die: %s" % json.dumps(r)[:300], trace
        oid = cur if cont == "orig" else other
        r = step("check", oid)
        trace.append(["check", oid, None, r])
        what = ("codegen mode: a save for options o%d was killed after %s; then transfer_model(o%d, the %s options)"
                % (other, "%d of the 4 libraries" % k if k < 4 else "the libraries, at the open of the cache file", oid,
                   "previous" if cont == "orig" else "same new"))
        if r.get("out") == "Raised":
            return "codegen:raised:%s" % r.get("exc"), "%s raised %s: %s" % (what, r.get("exc"), r.get("msg")), trace
        if r.get("out") not in ("Loaded", "Recompiled"):
            return "harness:codegen", json.dumps(r)[:300], trace
        if not r.get("sig_ok"):
            return ("codegen:stale-cache-new-libs",
                    "%s served (%s) a cache file with libraries of another option set: residual %s, fresh compile %s"
                    % (what, r["out"], json.dumps(r.get("sig"))[:120], json.dumps(r.get("ref"))[:120]), trace)
        cur = oid
    return None, None, trace


def encode_cg(trace, remove_first):
    """the scenario as a history of Model Part 4 (kill after k libraries = 1 + k steps when the cache file is
    removed first, else k)"""
    ops, obs = [], []
    for kind, oid, k, r in trace:
        if kind == "kill":
            ops.append("CCrashT %s true %s" % (cq_nat(oid), cq_nat(k + 1 if remove_first else k)))
            obs.append("[ODied]")
        else:
            ops.append("CTransfer %s true" % cq_nat(oid))
            obs.append("[%s]" % OBS.get("Recompiled" if r.get("out") == "Model" else r.get("out"), "ORaised"))
    return "(%s, %s)" % (cq_list(ops), cq_list(obs))


O_PLAIN = {"cache": True}
O_RPV = {"cache": True, "replace_parameter_values": True}
# A: load, open, 5 of 6 write calls...; see vlib/impl/c21.py do_torn for the step numbering
TORN_SAME = {"kind": "torn", "n": 200, "oa": O_PLAIN, "ob": O_PLAIN, "schedule": "AB" + "AAAAA" + "BBBB" + "AAAAA"}
TORN_DIFF = {"kind": "torn", "n": 200, "oa": O_PLAIN, "ob": O_RPV, "schedule": "AB" + "AAAAA" + "BBBBB" + "AAAAA"}


def judge_torn(case, r):
    if "readers" not in r:
        return "harness:torn", json.dumps(r)[:300]
    same = case["oa"] == case["ob"]
    kind = "same-options" if same else "different-options"
    for nm in ("rA", "rB", "fA", "fB"):
        x = r["readers"].get(nm) or r["final"].get(nm)
        when = "at the torn point" if nm[0] == "r" else "after both saves completed"
        if x["out"] == "Raised":
            return ("torn:%s:raised:%s" % (kind, x.get("exc")),
                    "two concurrent saves (%s, %d write calls each) and a third transfer_model %s: raised %s: %s"
                    % (kind, len(r["write_calls"]["A"]), when, x.get("exc"), x.get("msg")))
        if not x.get("sig_ok"):
            return ("torn:%s:wrong-model" % kind,
                    "two concurrent saves (%s) and a third transfer_model %s: wrong model (%s)" % (kind, when, x["out"]))
    return None, None


def minimise(ctx, case, idx):
    """try the 3-op replay [transfer; cut k; transfer] / [crash; transfer] first, else the history prefix"""
    ops = case["ops"][:idx + 1]
    cands = []
    last = ops[-1]
    if last[0] == "gap":
        cands.append([last])
        cands.append([["transfer", last[1]], last])
        cands.append([["transfer", last[1]], ["edit"], last])
    if last[0] in ("two", "reader2"):
        o = last[1]
        cands.append([last])
        for prev in reversed(ops[:-1]):
            if prev[0] == "cut":
                cands.append([["transfer", o], prev, last])
                break
            if prev[0] == "crash":
                cands.append([prev, last])
                break
        cands.append([["transfer", o], ["edit"], last])
    if last[0] == "transfer":
        for prev in reversed(ops[:-1]):
            if prev[0] == "cut":
                cands.append([["transfer", last[1]], prev, last])
                break
            if prev[0] == "crash":
                cands.append([prev, last])
                cands.append([["transfer", last[1]], ["edit"], prev, last])
                break
            if prev[0] in ("transfer", "reader"):
                break
    for c in cands:
        cc = dict(case, ops=c)
        r = core.run_child(ctx, "c21", [cc])[0]
        if judge(cc, r) is not None:
            return cc, r
    return dict(case, ops=ops), None


# ---------------------------------------------------------------------------------------------
def run(ctx):
    ph = ctx.notes.setdefault("phase_wall_s", {})
    t0 = time.time()
    src = core.REPO + API
    fp, _n = core.fingerprint(src, {"save_model", "load_model", "transfer_model", "InvalidCacheError"})
    ctx.notes["source_fingerprint"] = {"api.py:save_model,load_model,transfer_model,InvalidCacheError": fp}

    # ---- S1: tables (fail-closed ast probe) -------------------------------------------------
    try:
        tables, problems = extract_tables(src)
    except Exception as e:  # noqa  (fail closed)
        tables, problems = {"load": [], "transfer": []}, ["probe failed: %r" % e]
    try:
        tables["cg_remove_first"] = codegen_remove_first(src)
    except Exception as e:  # noqa
        tables["cg_remove_first"] = False
        problems.append("codegen order probe failed: %r" % e)
    ctx.notes["routing_tables"] = tables
    ctx.oblige("probe:exception-routing-extracted", not problems, "; ".join(problems))

    def stage_props():
        core.check_props(ctx, "C21.v", THEOREMS)
        ph["props"] = round(time.time() - t0, 1)

    def stage_tie():
        ok, out, err = core.coq_run(ctx, "Gen_C21", gen_text(tables))
        ctx.oblige("tie:Gen_C21 compiles", ok, err[-800:])
        ok, out, err = core.coq_run(ctx, "Tie_C21", TIE)
        ctx.oblige("tie:routes_ok(extracted table) [side condition of C21_crash/C21_crash_point/C21_reader_partial]",
                   ok and "Closed under the global context" in out, (err or out)[-800:])
        ok, out, err = core.coq_run(ctx, "TieCG_C21", TIE_CG)
        ctx.oblige("tie:codegen save order = remove cache file first [side condition of C21_crash_codegen]", ok, err[-600:])
        ph["tie"] = round(time.time() - t0, 1)

    # ---- F: real pickle.load at every truncation offset (quick: every offset of one file, boundaries +
    #      2000 random offsets of the others) ---------------------------------------------------
    pairs = [("Tiny", 0), ("Spring", 0), ("Tank", 2)]
    if ctx.tier == "thorough":
        pairs += [("Spring", 1), ("Tank", 0), ("Tank", 3)]
    sweep_cases = [{"kind": "sweep", "name": n, "template": MODELS[n], "opts": OPTSETS[o],
                    "sample": None if (ctx.tier == "thorough" or i == 0) else 2000,
                    "seed": ctx.rng.randrange(1 << 30)} for i, (n, o) in enumerate(pairs)]

    def stage_F():
        r = run_children(ctx, sweep_cases, workers=2)
        ph["F"] = round(time.time() - t0, 1)
        return r

    with ThreadPoolExecutor(max_workers=3) as ex:
        futs = [ex.submit(stage_props), ex.submit(stage_tie), ex.submit(stage_F)]
        for f in futs[:2]:
            f.result()
        sweeps = futs[2].result()
    info = {}
    f_bad = []
    n_off = 0
    for (n, o), s in zip(pairs, sweeps):
        if "rle" not in s:
            f_bad.append("%s/%d: %s" % (n, o, json.dumps(s)[:200]))
            continue
        info[(n, o)] = s
        n_off += s["checked"]
        for start, cls in s["rle"]:
            if (start < s["n"] and cls not in ("EOFError", "UnpicklingError")) or (start == s["n"] and cls != "OK"):
                f_bad.append("%s/%d offset %d: %s" % (n, o, start, cls))
    ctx.oblige("F:pickle.load on every proper prefix raises EOFError/UnpicklingError (the model's EOF class), "
               "complete file loads", not f_bad, "; ".join(f_bad[:5]))
    w_bad = ["%s/%d: %s" % (k[0], k[1], v.get("write_calls")) for k, v in info.items() if len(v.get("write_calls", [])) != 1
             or v["write_calls"][0] != v["n"]]
    ctx.oblige("W:save_model delivers the whole stream of these cache files in ONE write call "
               "[assumption `whole` of C21_two_writers_single_write]", not w_bad, "; ".join(w_bad))
    ctx.notes["F_sweep"] = {"%s/%d" % k: {"n": v["n"], "frames": v["frames"], "rle": v["rle"][:12]} for k, v in info.items()}

    # ---- H: histories on the real transfer_model ---------------------------------------------
    cases = []
    n_spread = ctx.scaled(25, 500)
    full_pair = ("Tiny", 0)
    for (n, o), s in info.items():
        if ctx.tier == "thorough" and (n, o) == full_pair:
            offs = list(range(s["n"]))
        else:
            offs = sorted(set(boundary_offsets(s)) | set(ctx.rng.sample(range(s["n"]), min(n_spread, s["n"]))))
        for i in range(0, len(offs), 25):
            cases.append(sweep_history(n, o, offs[i:i + 25]))
    n_sweep_cases = len(cases)
    fixed = fixed_histories(ctx.rng, ctx.tier == "thorough")
    cases += fixed
    n_rand = ctx.scaled(36, 600)
    names = sorted(MODELS)
    for i in range(n_rand):
        cases.append(random_history(ctx.rng, names[i % len(names)]))
    results = run_children(ctx, cases)

    ph["H"] = round(time.time() - t0, 1)
    # (a) oracle
    n_transfers = 0
    dist = {"Loaded": 0, "Recompiled": 0, "Raised": 0, "Died": 0, "Hang": 0}
    opcount = {}
    pl_classes = {}
    nontrivial = set()
    situ_bad = []
    for c, r in zip(cases, results):
        for op in c["ops"]:
            opcount[op[0]] = opcount.get(op[0], 0) + 1
        if "results" in r:
            for op, rr in zip(c["ops"], r["results"]):
                for _l, tr in transfers_of(op, rr):
                    n_transfers += 1
                    dist[tr["out"]] += 1
                    pl_classes[str(tr.get("pl"))] = pl_classes.get(str(tr.get("pl")), 0) + 1
                    if tr.get("pl") not in (None, "OK", "EOFError", "UnpicklingError", "RuntimeError"):
                        situ_bad.append("%s %s: pickle.load raised %s" % (c["name"], op, tr.get("pl")))
                if op[0] == "cut" and rr.get("size") is not None and rr["k"] < rr["size"]:
                    nontrivial.add((c["name"], "cut", rr["k"], rr["size"]))
                if op[0] in ("crash", "reader", "reader2") and rr.get("fired"):
                    nontrivial.add((c["name"], op[0], op[1], op[2]))
                if op[0] == "gap" and rr.get("removed"):
                    nontrivial.add((c["name"], "gap", op[1], json.dumps(op[2])))
                if op[0] in ("two", "reader2") and "Recompiled" in (rr["A"]["out"], rr["B"]["out"]):
                    nontrivial.add((c["name"], op[0], op[1], op[2], op[3]))
        v = judge(c, r)
        if v:
            idx, tag, why = v
            if len([x for x in ctx.violations if not x["no_input"]]) >= core.MAX_REPLAYS:
                continue
            small, small_r = minimise(ctx, c, idx)
            obs_r = small_r if small_r is not None else r
            observed = obs_r["results"][len(small["ops"]) - 1] if "results" in obs_r else obs_r
            core.report(ctx, tag, why, {"input": small, "observed": observed,
                                        "found_in_history": c["ops"][:idx + 1] if small["ops"] != c["ops"][:idx + 1] else None})
    ctx.oblige("F-in-situ:every pickle.load failure inside load_model is in the model's classes", not situ_bad,
               "; ".join(situ_bad[:5]))

    ph["oracle"] = round(time.time() - t0, 1)
    # (b) correspondence, evaluated inside Coq on the extracted table
    idx = [i for i, r in enumerate(results) if "results" in r]
    enc = [encode(cases[i], results[i]) for i in idx]
    shard = max(40, (len(enc) + 3) // 4)
    bad = core.coq_eval_cases(ctx, "hist", PREAMBLE, "list op * list (list obs)", enc, "check_case tbl", shard=shard)
    mism = list(range(len(cases))) if bad is None else [idx[j] for j in bad]
    harness_fail = [i for i, r in enumerate(results) if "results" not in r]
    ctx.oblige("correspondence:model-vs-transfer_model(outcome class per op)", not mism and not harness_fail,
               "mismatching histories: %s; not run: %s" % (mism[:10], [results[i] for i in harness_fail[:2]]))
    if mism and not ctx.violations:
        core.violation(ctx, "correspondence-broken",
                       {"correspondence": "Model/C21_crash.v check_case tbl vs transfer_model",
                        "input": cases[mism[0]], "observed": results[mism[0]],
                        "encoded": encode(cases[mism[0]], results[mism[0]]) if "results" in results[mism[0]] else None},
                       no_input=True)

    ph["corr"] = round(time.time() - t0, 1)
    # broken tie / probe but no failing history found above: direct search on the offsets the tables speak about
    # ---- torn files: two real saves with several write calls each, a third caller at a fixed point ------------
    torn_cases = [dict(TORN_SAME), dict(TORN_DIFF)]
    if ctx.tier == "thorough":
        # search for the model's refutations (C21_mixture_refuted / C21_torn_unaligned_refuted) on the real code:
        # A has done `na` of its 6 write calls when B opens, B does `nb`, then A finishes; same and different options
        for na, nb in [(1, 1), (2, 1), (3, 2), (5, 1), (5, 3), (5, 5), (4, 6), (6, 2)]:
            sch = "AB" + "A" * (1 + na) + "B" * (1 + nb) + "AAAAAA"
            torn_cases.append(dict(TORN_DIFF, schedule=sch))
            torn_cases.append(dict(TORN_SAME, schedule=sch))
    torn_res = core.run_child(ctx, "c21", torn_cases, timeout=1200)
    ctx.notes["torn"] = [{"case": {k: c[k] for k in ("n", "oa", "ob", "schedule")}, "result": r} for c, r in zip(torn_cases, torn_res)]
    for c, r in zip(torn_cases, torn_res):
        tag, why = judge_torn(c, r)
        if tag:
            core.report(ctx, tag, why, {"input": c, "observed": r.get("readers", r)})

    # ---- codegen mode: three gcc builds; thorough, or when the order side condition is broken --------------
    cg_broken = any(n.startswith("tie:codegen") for n in ctx.broken)
    if ctx.tier == "thorough" or cg_broken:
        rounds = ALL_ROUNDS if cg_broken else LIGHT_ROUNDS
        tag, why, trace = run_codegen_scenario(ctx, CODEGEN_SCENARIO, rounds)
        ctx.notes["codegen_scenario"] = {"tag": tag, "trace": trace}
        if tag:
            done = sum(1 for t in trace if t[0] == "kill")
            core.report(ctx, tag, why, {"input": dict(CODEGEN_SCENARIO, rounds=rounds[:done]), "observed": trace[-1][3]})
        if not (tag or "").startswith("harness"):
            enc = encode_cg(trace, bool(tables.get("cg_remove_first")))
            bad = core.coq_eval_cases(ctx, "cg", PREAMBLE, "list cop * list (list obs)", [enc], "check_cg_case cg_remove_first tbl")
            ctx.oblige("correspondence:codegen-model-vs-transfer_model", bad == [], "scenario %s" % enc)

    def still_fails(e):
        rp = e["replay"]
        if rp.get("kind") == "torn":
            return judge_torn(rp, core.run_child(ctx, "c21", [rp], timeout=1200)[0])[0] == e["tag"]
        if rp.get("kind") == "codegen-scenario":
            if ctx.tier != "thorough":
                return None                      # three gcc builds: replayed in the thorough tier only
            return ctx.notes.get("codegen_scenario", {}).get("tag") == e["tag"]
        return judge(rp, core.run_child(ctx, "c21", [rp])[0]) is not None
    core.replay_known(ctx, still_fails)

    ctx.cov["evaluations"] = n_transfers
    ctx.cov["distinct_nontrivial"] = len(nontrivial)
    ctx.cov["rule"] = ("transfer_model calls judged against a fresh compile; histories = offset sweeps [transfer; (cut k; transfer)*] "
                       "(%d histories; %s), fixed crash/reader scenarios (%d), random histories of edit/bump/transfer/"
                       "crash/cut/reader/two-callers/writer+two-readers over %d models x %d option sets (%d); non-trivial = distinct (model, cut offset, "
                       "file size) with a real truncation or (model, op, options, write step) where the interrupted "
                       "write actually fired" % (n_sweep_cases,
                                                 "every byte offset of %s/%d + boundaries + %d random offsets of the others" % (full_pair + (n_spread,))
                                                 if ctx.tier == "thorough" else "offsets 0-12, frame boundaries, buffer boundaries, file end, %d random per file" % n_spread,
                                                 len(fixed), len(MODELS), len(OPTSETS), n_rand))
    ctx.cov["samples"] = [cases[0]["ops"][:7], fixed[2]["ops"], cases[-1]["ops"]]
    ctx.notes["input_distribution"] = {"ops": opcount, "transfer_outcomes": dist, "pickle_load_classes": pl_classes,
                                       "histories": len(cases), "F_offsets": n_off,
                                       "cache_file_sizes": {"%s/%d" % k: v["n"] for k, v in info.items()}}
    ctx.trusted.append("fail-closed Python ast probe of api.py (handlers around pickle.load and around `return load_model`), "
                       "class resolution by issubclass in the harness interpreter")
    ctx.assumptions += [
        "a crashed or concurrent write leaves a PREFIX of the byte stream (POSIX append-order writes of one open file); torn "
        "non-prefix states, two concurrent writers with different option sets, a corrupted shared library (codegen mode) "
        "and mtime_check=False are not modelled",
        "real pickle is abstracted by an online decoder for a pickle-shaped mini format; the tie is F (exception class of the real "
        "pickle.load at every truncation offset of real cache files lies in {EOFError, UnpicklingError}) and H (outcome class of "
        "the real transfer_model per op equals the model's on the table extracted from api.py)",
        "mtimes: the harness stamps the cache file with the logical clock after each op, every edit gets a later mtime (C20's premise)",
        "codegen mode (shared libraries overwritten before the cache file) is not in the Coq model; one real scenario (write for "
        "other options killed between the libraries and the cache file, then the old options again) runs in the thorough tier only",
    ]


def replay(ctx, path):
    rec = json.load(open(path))
    case = rec.get("input") or rec.get("replay")
    if case.get("kind") == "torn":
        tag, why = judge_torn(case, core.run_child(ctx, "c21", [case], timeout=1200)[0])
        print("replay:", ("VIOLATED [%s] %s" % (tag, why)) if tag else "property holds on the torn-file scenario")
        return 1 if tag else 0
    if case.get("kind") == "codegen-scenario":
        tag, why, _r = run_codegen_scenario(ctx, case)      # rounds from the replay file (default: kill at the cache open)
        print("replay:", ("VIOLATED [%s] %s" % (tag, why)) if tag else "property holds on the codegen scenario")
        return 1 if tag else 0
    res = core.run_child(ctx, "c21", [case])[0]
    v = judge(case, res)
    print("replay:", ("VIOLATED %s" % v[2]) if v else "property holds on this history",
          "| ops =", case["ops"], "| model =", case["name"])
    return 1 if v else 0
