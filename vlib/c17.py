"""C17 — alias relation is a signed equivalence under any operation history."""
import json

from . import core
from .core import cq_bool, cq_list, cq_nat, cq_pos

THEOREMS = ["C17_aliases_closure", "C17_canonical_consistent", "C17_invariants", "C17_legal_example",
            "C17_history_invariants", "C17_remove", "C17_copy_independent", "C17_copy_equal",
            "C17_heap_refines", "C17_heap_same_length", "C17_heap_sharing", "C17_heap_copy_fresh",
            "C17_shallow_copy_refuted", "C17_heap_example"]


def tog(v):
    return v[1:] if v.startswith("-") else "-" + v


# ---- independent reference (the property's spec): signed closure of live pairs ----
class Ref:
    def __init__(self, pairs=None):
        self.pairs = list(pairs or [])

    def cls(self, k):
        seen = {k}
        todo = [k]
        while todo:
            x = todo.pop()
            for a, b in self.pairs:
                for p, q in ((a, b), (b, a), (tog(a), tog(b)), (tog(b), tog(a))):
                    if p == x and q not in seen:
                        seen.add(q)
                        todo.append(q)
        return seen

    def legal(self, a, b):
        return tog(b) not in self.cls(a) and a != tog(b)

    def add(self, a, b):
        self.pairs.append((a, b))

    def remove_class(self, a):
        c = self.cls(a)
        c = c | {tog(x) for x in c}
        self.pairs = [(p, q) for p, q in self.pairs if p not in c and q not in c]

    def copy(self):
        return Ref(self.pairs)


def gen_history(rng, nvars, nops, max_rel=4):
    names = ["v%d" % i for i in range(1, nvars + 1)]
    U = names + ["-" + n for n in names]
    refs = [Ref()]
    ops = []
    for _ in range(nops):
        r = rng.randrange(len(refs))
        x = rng.random()
        if x < 0.72:
            for _try in range(20):
                a, b = rng.choice(U), rng.choice(U)
                if refs[r].legal(a, b):
                    ops.append(["add", r, a, b])
                    refs[r].add(a, b)
                    break
        elif x < 0.86:
            # removal of an arbitrary unsigned or signed name (only canonical ones take effect)
            a = rng.choice(names if rng.random() < 0.85 else U)
            ops.append(["remove", r, a])
            # the reference is updated in judge() once the implementation says whether it was canonical
        elif len(refs) < max_rel:
            ops.append(["copy", r])
            refs.append(refs[r].copy())
        # keep the generator's reference in sync only approximately for removes: rebuilt in judge()
    return {"universe": U, "ops": ops}


def judge(case, res):
    """Property oracle on the implementation's observations (independent of the Coq model).
    Returns None if the property holds on this history, else a description."""
    U = case["universe"]
    refs = [Ref()]
    for i, op in enumerate(case["ops"]):
        if op[0] == "add":
            if not refs[op[1]].legal(op[2], op[3]):
                return None  # outside the property's quantifier from here on
            refs[op[1]].add(op[2], op[3])
        elif op[0] == "remove":
            if res["effective"][i]:
                refs[op[1]].remove_class(op[2])
        else:
            refs.append(refs[op[1]].copy())
        snap = res["trace"][i]
        if len(snap) != len(refs):
            return "step %d: %d relations, expected %d" % (i, len(snap), len(refs))
        for ri, (ref, ob) in enumerate(zip(refs, snap)):
            classes = {}
            for ui, u in enumerate(U):
                want = sorted(ref.cls(u))
                got, can = ob["q"][ui]
                if got != want:
                    return "step %d rel %d: aliases(%s)=%s, signed closure gives %s" % (i, ri, u, got, want)
                classes[u] = (tuple(want), can)
            # canonical consistency
            for u in U:
                cu = classes[u][1]
                for v in classes[u][0]:
                    if v in classes and classes[v][1] != cu:
                        return "step %d rel %d: canonical_signed(%s)=%s but alias %s has %s" % (i, ri, u, cu, v, classes[v][1])
                ct = classes[tog(u)][1]
                if ct[0] != cu[0] or ct[1] != -cu[1]:
                    return "step %d rel %d: canonical_signed(%s)=%s vs negation %s" % (i, ri, u, cu, ct)
                member = cu[0] if cu[1] == 1 else "-" + cu[0]
                if member not in classes[u][0]:
                    return "step %d rel %d: canonical %s of %s is not an alias of it" % (i, ri, cu, u)
            # iteration: one entry per non-trivial class (class and its mirror count once)
            nontrivial = set()
            for u in U:
                c = classes[u][0]
                if len(c) > 1:
                    mirror = tuple(sorted(tog(x) for x in c))
                    nontrivial.add(min(c, mirror))
            if len(ob["iter"]) != len(nontrivial):
                return "step %d rel %d: iteration yields %d entries, %d non-trivial classes" % (i, ri, len(ob["iter"]), len(nontrivial))
            for c, als in ob["iter"]:
                if sorted(als + [c]) != sorted(ref.cls(c)):
                    return "step %d rel %d: iteration entry %s -> %s is not the class minus the representative" % (i, ri, c, als)
    return None


# ---- Coq encoding -----------------------------------------------------------
def sv(ids, s):
    neg = s.startswith("-")
    return "(%s, %s)" % (cq_bool(neg), cq_pos(ids[s[1:] if neg else s]))


def legal_prefix(case, res):
    """Number of leading operations that form a LEGAL history given what the implementation reported about
    each remove (a remove of a non-canonical name is a no-op, so an add the generator believed legal after it
    may relate a variable to its own negation).  The property and the model's theorems quantify over legal
    histories only; the correspondence is evaluated on that prefix."""
    refs = [Ref()]
    for i, op in enumerate(case["ops"]):
        if op[0] == "add":
            if op[1] >= len(refs) or not refs[op[1]].legal(op[2], op[3]):
                return i
            refs[op[1]].add(op[2], op[3])
        elif op[0] == "remove":
            if op[1] < len(refs) and i < len(res.get("effective", [])) and res["effective"][i]:
                refs[op[1]].remove_class(op[2])
        else:
            if op[1] >= len(refs):
                return i
            refs.append(refs[op[1]].copy())
    return len(case["ops"])


def encode_case(case, res):
    k = legal_prefix(case, res)
    if k < len(case["ops"]):
        case = dict(case, ops=case["ops"][:k])
        res = dict(res, trace=res["trace"][:k], ids=res["ids"][:k])
    names = sorted({u.lstrip("-") for u in case["universe"]})
    ids = {n: i + 1 for i, n in enumerate(names)}
    U = cq_list([sv(ids, u) for u in case["universe"]])
    ops = []
    for op in case["ops"]:
        if op[0] == "add":
            ops.append("Add %s %s %s" % (cq_nat(op[1]), sv(ids, op[2]), sv(ids, op[3])))
        elif op[0] == "remove":
            ops.append("Remove %s %s" % (cq_nat(op[1]), sv(ids, op[2])))
        else:
            ops.append("Copy %s" % cq_nat(op[1]))
    obs = []
    for snap in res["trace"]:
        rels = []
        for ob in snap:
            q = cq_list(["(%s, (%s, %s))" % (cq_list([sv(ids, a) for a in al]), cq_pos(ids[c[0]]), cq_bool(c[1] == -1))
                         for al, c in ob["q"]])
            cvs = cq_list([cq_pos(ids[c]) for c in ob["cv"]])
            rels.append("(%s, %s)" % (q, cvs))
        obs.append(cq_list(rels))
    # identity partition of the stored set objects, per step and relation (heap-level tie)
    ids = cq_list([cq_list([cq_list([cq_nat(x) for x in row]) for row in step]) for step in res["ids"]])
    return "(%s, %s, %s, %s)" % (U, cq_list(ops), cq_list(obs), ids)


PREAMBLE = ("From stdpp Require Import gmap.\n"
            "From PV Require Import Lib.Closure Model.C17_alias Model.C17_heap.\n")


def run_cases(ctx, cases, label):
    """Returns (results, value-level mismatches, heap-level mismatches, impl failures).
    One Coq evaluation checks both models (check_case_both); only failing cases are re-evaluated
    to attribute the failure to the value-level or the heap-level model."""
    results = core.run_child(ctx, "c17", cases)
    enc = []
    bad_impl = []
    unenc = []
    for i, (c, r) in enumerate(zip(cases, results)):
        if "trace" not in r or "ids" not in r:
            bad_impl.append((i, r))
            enc.append(None)
        else:
            try:
                enc.append(encode_case(c, r))
            except (KeyError, IndexError, TypeError, ValueError):
                # the observation is not expressible in the model's vocabulary (e.g. a signed
                # name reported as canonical variable): a correspondence mismatch, and the
                # property oracle (judge) decides on the same observation
                enc.append(None)
                unenc.append(i)
    idx = [i for i, e in enumerate(enc) if e is not None]
    bad = core.coq_eval_cases(ctx, label, PREAMBLE, "hcase", [enc[i] for i in idx], "check_case_both", shard=120)
    if bad is None:
        return results, list(range(len(cases))), list(range(len(cases))), bad_impl
    mism = [idx[j] for j in bad]
    if not mism:
        return results, unenc, unenc, bad_impl
    sub = mism[:40]
    bad_v = core.coq_eval_cases(ctx, label + "_v", PREAMBLE, "hcase", [enc[i] for i in sub], "check_case_value", shard=120)
    bad_h = core.coq_eval_cases(ctx, label + "_h", PREAMBLE, "hcase", [enc[i] for i in sub], "check_case_heap", shard=120)
    mism_v = mism if bad_v is None else [sub[j] for j in bad_v]
    mism_h = mism if bad_h is None else [sub[j] for j in bad_h]
    return results, mism_v + unenc, mism_h + unenc, bad_impl


def small_exhaustive(depth):
    """All add/remove/copy histories of the given length over names x,y (both signs), one start relation;
    illegal adds are skipped by the generator."""
    U = ["x", "y", "z", "-x", "-y", "-z"]
    adds = [("add", a, b) for a in U for b in U if a.lstrip("-") != b.lstrip("-")]
    alphabet = adds + [("remove", "x"), ("remove", "y"), ("copy",)]
    out = []

    def rec(prefix, refs, d):
        if d == 0:
            out.append({"universe": U, "ops": list(prefix)})
            return
        for sym in alphabet:
            for r in range(len(refs)):
                if sym[0] == "add":
                    if not refs[r].legal(sym[1], sym[2]):
                        continue
                    nr = [x.copy() for x in refs]
                    nr[r].add(sym[1], sym[2])
                    rec(prefix + [["add", r, sym[1], sym[2]]], nr, d - 1)
                elif sym[0] == "remove":
                    nr = [x.copy() for x in refs]
                    nr[r].remove_class(sym[1])  # approximation (only used to keep later adds legal)
                    rec(prefix + [["remove", r, sym[1]]], nr, d - 1)
                else:
                    if len(refs) >= 2:
                        continue
                    rec(prefix + [["copy", r]], [x.copy() for x in refs] + [refs[r].copy()], d - 1)
    rec([], [Ref()], depth)
    return out


def run(ctx):
    core.check_props(ctx, "C17.v", THEOREMS)
    fp, n = core.fingerprint(core.REPO + "/src/pymoca/backends/casadi/alias_relation.py", {"AliasRelation"})
    ctx.notes["source_fingerprint"] = {"alias_relation.py:AliasRelation": fp}
    n_rand = ctx.scaled(250, 4000)
    cases = []
    # corpus first
    try:
        cases += json.load(open(core.VERIF + "/corpus/C17/cases.json"))
    except OSError:
        pass
    n_corpus = len(cases)
    for _ in range(n_rand):
        cases.append(gen_history(ctx.rng, ctx.rng.randint(2, 6), ctx.rng.randint(3, ctx.scaled(30, 80))))
    ex = small_exhaustive(2)
    if ctx.tier == "thorough":
        ex3 = small_exhaustive(3)
        ctx.rng.shuffle(ex3)
        ex += ex3[:6000]
    cases += ex
    results, mism, mism_h, bad_impl = run_cases(ctx, cases, "hist")
    ctx.oblige("correspondence:model-vs-AliasRelation", not mism and not bad_impl,
               "mismatching cases: %s; impl failures: %s" % (mism[:10], bad_impl[:3]))
    ctx.oblige("correspondence:heap-model-vs-AliasRelation(values+object-identity)", not mism_h and not bad_impl,
               "mismatching cases: %s; impl failures: %s" % (mism_h[:10], bad_impl[:3]))
    # oracle on every case (cheap): independent spec
    nontrivial = set()
    opcount = {"add": 0, "remove": 0, "copy": 0}
    eff_removes = 0
    for i, (c, r) in enumerate(zip(cases, results)):
        for op in c["ops"]:
            opcount[op[0]] += 1
        if "trace" not in r:
            core.violation(ctx, "impl-violation", {"history": c, "observed": r,
                                                   "expected": "no exception on a legal history"})
            continue
        eff_removes += sum(1 for o, e in zip(c["ops"], r["effective"]) if o[0] == "remove" and e)
        why = judge(c, r)
        if why:
            core.violation(ctx, "impl-violation", {"history": c, "why": why})
        if len(c["ops"]) >= 2:
            nontrivial.add(json.dumps(c["ops"]))
    if mism and not ctx.violations:
        # correspondence broke but the oracle found no property violation
        core.violation(ctx, "correspondence-broken",
                       {"correspondence": "Model/C17_alias.v check_case vs AliasRelation",
                        "first_mismatching_history": cases[mism[0]],
                        "observed": results[mism[0]]}, no_input=True)
    if mism_h and not ctx.violations:
        # the heap-level model (object sharing) no longer describes the code, values still right
        core.violation(ctx, "heap-correspondence-broken",
                       {"correspondence": "Model/C17_heap.v check_case_heap vs AliasRelation "
                                          "(aliases()/canonical values and identity partition of the stored set objects)",
                        "first_mismatching_history": cases[mism_h[0]],
                        "observed": results[mism_h[0]]}, no_input=True)
    ctx.cov["evaluations"] = len(cases)
    ctx.cov["distinct_nontrivial"] = len(nontrivial)
    ctx.cov["rule"] = ("random legal add/remove/copy histories over 2-6 names x both signs and up to 4 relations "
                       "(%d), all histories of length 2%s over {x,y,z} x signs x <=2 relations (%d), corpus (%d); "
                       "non-trivial = at least 2 ops, distinct op lists" % (n_rand, " (+ sample of length 3)" if ctx.tier == "thorough" else "", len(ex), n_corpus))
    ctx.cov["samples"] = [cases[n_corpus]["ops"][:8], ex[len(ex) // 2]["ops"]]
    ctx.notes["input_distribution"] = {"ops": opcount, "effective_removes": eff_removes,
                                       "histories": len(cases)}
    ctx.assumptions += [
        "two models: value level (copy() is the identity on values) and heap level (Model/C17_heap.v: shared mutable "
        "set objects, in-place |=, per-key copies in copy()); C17_heap_refines proves the heap level refines the value "
        "level in lock-step for every legal add/remove/copy history, C17_shallow_copy_refuted that a pointer-sharing "
        "copy() does not; the heap model is tied to the code by comparing, after every op, aliases()/canonical values "
        "AND the identity partition (id()) of the set objects stored in _aliases within and across relations",
        "KeyError paths of remove() (self._aliases[a], del) are defaulted in both models; an exception on a generated "
        "history is reported as an implementation violation",
        "the closure theorem C17_aliases_closure is proved for add-histories; for histories with remove/copy the "
        "invariants (C17_history_invariants) and the exact effect of remove (C17_remove) are proved, and the "
        "closure-minus-removed-classes reading is validated against the independent reference on every generated history",
    ]


def replay(ctx, path):
    rec = json.load(open(path))
    case = rec.get("history") or rec.get("first_mismatching_history")
    res = core.run_child(ctx, "c17", [case])[0]
    why = judge(case, res) if "trace" in res else "exception %s" % res
    print("replay:", why or "property holds on this history")
    return 1 if why else 0
