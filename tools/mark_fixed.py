#!/venv/bin/python
"""mark_fixed.py PID TAG COMMIT : move a known.d entry to findings/known_findings.json as a 'fixed' record."""
import json, sys, os
pid, tag, commit = sys.argv[1:4]
kd = '/verif/findings/known.d/%s.json' % pid
ents = json.load(open(kd))
hit = [e for e in ents if e.get('tag') == tag]
assert hit, "no such tag"
rest = [e for e in ents if e.get('tag') != tag]
if rest:
    json.dump(rest, open(kd, 'w'), indent=1)
else:
    os.unlink(kd)
p = '/verif/findings/known_findings.json'
d = json.load(open(p))
what = hit[0]['what'].split('; proposed repair')[0].split('; repair proposed')[0]
d['findings'].append({"property": pid, "status": "fixed", "commit": commit, "tag": tag, "what": what,
                      "replay": hit[0].get('replay'),
                      "line": "fixed: property=%s %s %s" % (pid, commit, what)})
json.dump(d, open(p, 'w'), indent=1)
print("ok")
