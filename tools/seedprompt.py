#!/venv/bin/python
import json, sys, subprocess
pid = sys.argv[1]; n = sys.argv[2] if len(sys.argv) > 2 else "3"
p = [json.loads(l) for l in open('/verif/properties.jsonl') if json.loads(l)['id'] == pid][0]
wt = "/tmp/seed_%s" % pid
subprocess.run(["git", "-C", "/repo", "worktree", "add", "--detach", wt, "HEAD"], check=True, capture_output=True)
t = open('/verif/notes/SEED_PROMPT.md').read()
for k, v in {"{WT}": wt, "{N}": n, "{PID}": pid, "{TITLE}": p['title'], "{STATEMENT}": p['statement'],
             "{QUANT}": p['quantifier']['text'], "{FILES}": ", ".join(p['anchors']['files'])}.items():
    t = t.replace(k, v)
import glob, os
prev = []
for m in sorted(glob.glob('/verif/seeded/%s/*/meta.json' % pid)):
    d = json.load(open(m))
    prev.append("- %s: %s (needs: %s)" % (os.path.basename(os.path.dirname(m)), (d.get('summary') or '')[:300], (d.get('needs') or '')[:200]))
if prev:
    start = len(prev) + 1
    t = t.replace("m<i>/", "m<i>/ (number them from m%d upwards)" % start)
    t += ("\n\nChanges that were ALREADY produced for this property in an earlier round — do NOT repeat these or close "
          "variants of them; find different code sites, mechanisms and triggering conditions:\n" + "\n".join(prev) + "\n")
    t += "\nNever use `git stash` (shared between worktrees); use `git apply` / `git checkout -- .` only.\n"
open("/tmp/seed_prompt_%s.txt" % pid, "w").write(t)
print("/tmp/seed_prompt_%s.txt" % pid)
