#!/venv/bin/python
import json, sys, subprocess
pid = sys.argv[1]; n = sys.argv[2] if len(sys.argv) > 2 else "3"
p = [json.loads(l) for l in open('/verif/properties.jsonl') if json.loads(l)['id'] == pid][0]
wt = "/tmp/seed_%s" % pid
subprocess.run(["git", "-C", "/repo", "worktree", "add", "--detach", wt, "HEAD"], check=True, capture_output=True)
t = open('/verif/notes/SEED_PROMPT.md').read()
for k, v in {"{WT}": wt, "{N}": n, "{PID}": pid, "{TITLE}": p['title'], "{STATEMENT}": p['statement'],
             "{QUANT}": p['quantifier']['text'], "{FILES}": ", ".join(p['anchors']['files'])}.items():
    t = t.replace(k, v)
open("/tmp/seed_prompt_%s.txt" % pid, "w").write(t)
print("/tmp/seed_prompt_%s.txt" % pid)
