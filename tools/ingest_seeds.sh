#!/bin/bash
# test every new /tmp/seed_out_Cxx/mN (with patch.diff + demo.py + meta.json) not yet under /verif/seeded
cd /verif
for d in /tmp/seed_out_C*/m*; do
  [ -f "$d/patch.diff" ] && [ -f "$d/demo.py" ] && [ -f "$d/meta.json" ] || continue
  p=$(basename $(dirname $d)); p=${p#seed_out_}; m=$(basename $d)
  [ -d "/verif/seeded/$p/$m" ] && continue
  tools/try_seed.py $p $d 2>&1 | grep -v ^WARNING
done
