#!/venv/bin/python
"""Run the pinned suite in a repo dir (default /repo) and compare with BASELINE.json stable_pass."""
import json, subprocess, sys, tempfile, os, xml.etree.ElementTree as ET
repo = sys.argv[1] if len(sys.argv) > 1 else "/repo"
b = json.load(open('/root/.vp/BASELINE.json'))
fd, jx = tempfile.mkstemp(suffix=".xml"); os.close(fd)
env = dict(os.environ, PYTHONPATH="%s/src:%s" % (repo, repo))
env.pop("PYMOCA_VERIF", None)
subprocess.run(["/venv/bin/python", "-m", "pytest", "-q", "-p", "no:cacheprovider", "--timeout=900",
                "--continue-on-collection-errors", "--junitxml=" + jx], cwd=repo, env=env,
               stdout=subprocess.DEVNULL, stderr=subprocess.DEVNULL)
res = {}
for tc in ET.parse(jx).iter('testcase'):
    res[tc.get('classname') + '::' + tc.get('name')] = not any(c.tag in ('failure', 'error', 'skipped') for c in tc)
os.unlink(jx)
miss = [n for n in b['stable_pass'] if not res.get(n)]
print("stable_pass missing: %s ; passed %d of %d" % (miss, sum(res.values()), len(res)))
sys.exit(1 if miss else 0)
