#!/venv/bin/python
"""try_seed.py PID SRC_DIR [NAME]
Confirm a seeded change (SRC_DIR has patch.diff, demo.py, meta.json) in a scratch worktree of /repo HEAD:
 1. demo passes on clean HEAD, 2. patch applies, 3. demo fails with patch, 4. pinned suite stable_pass still passes,
 5. run ./check PID (quick) with VERIF_REPO=<worktree> and record the outcome.
Keeps it as /verif/seeded/PID/NAME/ with results in meta.json.  Never touches /repo's working tree."""
import json, os, shutil, subprocess, sys, time
pid, src = sys.argv[1], sys.argv[2].rstrip("/")
name = sys.argv[3] if len(sys.argv) > 3 else os.path.basename(src)
wt = "/tmp/seedrun_%s_%s" % (pid, name)
subprocess.run(["git", "-C", "/repo", "worktree", "remove", "--force", wt], capture_output=True)
subprocess.run(["git", "-C", "/repo", "worktree", "add", "--detach", wt, "HEAD"], check=True, capture_output=True)
head = subprocess.run(["git", "-C", "/repo", "rev-parse", "--short", "HEAD"], capture_output=True, text=True).stdout.strip()
env = dict(os.environ, PYTHONPATH="%s/src:%s:%s/tools" % (wt, wt, wt), PYTHONHASHSEED="0")
def demo():
    p = subprocess.run(["/venv/bin/python", os.path.join(src, "demo.py")], env=env, capture_output=True, text=True, timeout=900, cwd=wt)
    return p.returncode, (p.stdout + p.stderr)[-600:]
res = {"repo_head": head}
try:
    rc0, out0 = demo()
    res["demo_clean_rc"] = rc0
    ap = subprocess.run(["git", "-C", wt, "apply", os.path.join(os.path.abspath(src), "patch.diff")], capture_output=True, text=True)
    res["patch_applies"] = ap.returncode == 0
    if ap.returncode != 0:
        res["apply_err"] = ap.stderr[-400:]
    else:
        rc1, out1 = demo()
        res["demo_patched_rc"] = rc1
        res["demo_patched_out"] = out1[-300:]
        s = subprocess.run(["/verif/tools/suite.py", wt], capture_output=True, text=True)
        res["suite"] = s.stdout.strip().splitlines()[-1] if s.stdout.strip() else s.stderr[-200:]
        res["suite_ok"] = s.returncode == 0
        t0 = time.time()
        c = subprocess.run(["./check", pid, "--tier", "quick"], cwd="/verif", env=dict(os.environ, VERIF_REPO=wt),
                           capture_output=True, text=True, timeout=3600)
        lines = [l for l in c.stdout.splitlines() if l.startswith(("VIOLATION", "KNOWN-FINDING", pid + ":"))]
        res["check_rc"] = c.returncode
        res["check_wall_s"] = round(time.time() - t0, 1)
        res["check_lines"] = lines[:8]
        res["detected"] = c.returncode != 0 and any(l.startswith("VIOLATION") for l in lines)
        res["detected_with_concrete_replay"] = any(l.startswith("VIOLATION") and "no-failing-input-found" not in l for l in lines)
        # keep evidence of this run out of the committed evidence: restore from git afterwards
        subprocess.run(["git", "-C", "/verif", "checkout", "--", "evidence/%s.json" % pid], capture_output=True)
finally:
    subprocess.run(["git", "-C", "/repo", "worktree", "remove", "--force", wt], capture_output=True)
dst = "/verif/seeded/%s/%s" % (pid, name)
os.makedirs(dst, exist_ok=True)
for f in ("patch.diff", "demo.py"):
    if os.path.abspath(src) != os.path.abspath(dst):
        shutil.copy(os.path.join(src, f), os.path.join(dst, f))
try:
    meta = json.load(open(os.path.join(src, "meta.json")))
except Exception:
    meta = {}
meta["property"] = pid
if "confirmed" in meta and meta["confirmed"] != res:
    meta.setdefault("earlier_runs", []).append(meta["confirmed"])
meta["confirmed"] = res
meta["what_was_run"] = ("scratch worktree of /repo HEAD; demo.py on clean tree (must exit 0) and with patch.diff applied (must exit !=0); "
                        "tools/suite.py (131 stable_pass tests); VERIF_REPO=<worktree> ./check %s --tier quick" % pid)
json.dump(meta, open(os.path.join(dst, "meta.json"), "w"), indent=1)
ok = res.get("demo_clean_rc") == 0 and res.get("patch_applies") and res.get("demo_patched_rc", 0) != 0 and res.get("suite_ok")
print("%s/%s valid_seed=%s detected=%s concrete=%s | %s" % (pid, name, bool(ok), res.get("detected"), res.get("detected_with_concrete_replay"), res.get("check_lines", [])[-1:] ))
