(* Lock.v — SQLite's rollback-journal file-lock protocol, as one decision table.

   Every connection holds one of five levels on the database file.  An operation of a
   connection is decided from its own level and the levels of the OTHER connections on the
   same file:  Grant (with the new level), Block (the busy handler is invoked: the statement
   waits, nothing changes except that a committing writer keeps PENDING), or Busy
   (SQLITE_BUSY is returned at once, without the busy handler: a SHARED holder inside a
   transaction asking for RESERVED while another connection is at RESERVED or above —
   SQLite's deadlock avoidance).

   The table is compared with the real sqlite3 library on every run of ./check C02
   (two real connections, every holder level x operation; vlib/c02.py part (ii)). *)
From Coq Require Import List Bool Arith Lia.
Import ListNotations.

Inductive lvl := Unl | Sh | Res | Pen | Exc.

Definition lvl_rank (l : lvl) : nat :=
  match l with Unl => 0 | Sh => 1 | Res => 2 | Pen => 3 | Exc => 4 end.
Definition geb (l m : lvl) : bool := Nat.leb (lvl_rank m) (lvl_rank l).
Definition is_sh (l : lvl) : bool := match l with Sh => true | _ => false end.

(* operations, as the pager sees them *)
Inductive lop :=
| LRead (intx : bool)      (* a statement that reads; intx: inside BEGIN..COMMIT (the lock is kept) *)
| LWrite (intx : bool)     (* a statement that writes; outside a transaction it also commits *)
| LBeginImm                (* BEGIN IMMEDIATE *)
| LCommit.                 (* COMMIT / end of transaction *)

Inductive lres := Grant (l : lvl) | Block (l : lvl) | Busy.

Definition any_geb (m : lvl) (others : list lvl) : bool := existsb (fun l => geb l m) others.
Definition any_sh (others : list lvl) : bool := existsb is_sh others.

Definition acquire (mine : lvl) (others : list lvl) (op : lop) : lres :=
  match op with
  | LRead intx =>
      if geb mine Sh then Grant mine
      else if any_geb Pen others then Block mine
      else Grant (if intx then Sh else Unl)
  | LBeginImm =>
      if geb mine Res then Grant mine
      else if any_geb Res others then Block mine
      else Grant Res
  | LWrite intx =>
      if geb mine Res then Grant mine
      else if any_geb Res others then (if is_sh mine then Busy else Block mine)
      else if intx then Grant Res
      else (* autocommit write: RESERVED, then EXCLUSIVE, then release; a failed attempt rolls back *)
        if any_sh others then Block mine else Grant Unl
  | LCommit =>
      if geb mine Res then (if any_sh others then Block Pen else Grant Unl)
      else Grant Unl
  end.

(* ---- the abstract lock layer: mutual exclusion and the two facts the program level uses ---- *)

(* at most one connection at RESERVED or above *)
Fixpoint writers (ls : list lvl) : nat :=
  match ls with [] => 0 | l :: ls' => (if geb l Res then 1 else 0) + writers ls' end.

Lemma any_geb_Res_writers others : any_geb Res others = false -> writers others = 0.
Proof.
  induction others as [|l ls IH]; simpl; intros H; [reflexivity|].
  apply orb_false_iff in H. destruct H as [H1 H2]. rewrite H1. simpl. auto.
Qed.

(* a granted or blocked operation never creates a second writer *)
Theorem acquire_mutex mine others op :
  writers (mine :: others) <= 1 ->
  match acquire mine others op with
  | Grant l | Block l => writers (l :: others) <= 1
  | Busy => True
  end.
Proof.
  intros H. destruct op as [intx|intx| |]; unfold acquire.
  - destruct (geb mine Sh) eqn:E1; [exact H|].
    destruct (any_geb Pen others); [exact H|].
    destruct mine; try discriminate E1. destruct intx; exact H.
  - destruct (geb mine Res) eqn:E1; [exact H|].
    destruct (any_geb Res others) eqn:E2.
    + destruct (is_sh mine); [exact I|exact H].
    + apply any_geb_Res_writers in E2.
      destruct intx; [simpl; lia|].
      destruct (any_sh others); [exact H|]. simpl. lia.
  - destruct (geb mine Res) eqn:E1; [exact H|].
    destruct (any_geb Res others) eqn:E2; [exact H|].
    apply any_geb_Res_writers in E2. simpl. lia.
  - destruct (geb mine Res) eqn:E1.
    + destruct (any_sh others).
      * simpl in *. rewrite E1 in H. exact H.
      * simpl in *. rewrite E1 in H. lia.
    + simpl in *. rewrite E1 in H. lia.
Qed.

(* SQLITE_BUSY without waiting is only ever returned to a SHARED holder that asks to write *)
Theorem busy_only_on_upgrade mine others op :
  acquire mine others op = Busy -> mine = Sh /\ exists intx, op = LWrite intx.
Proof.
  destruct op as [intx|intx| |]; unfold acquire; intros H.
  - destruct (geb mine Sh); [discriminate|]. destruct (any_geb Pen others); discriminate.
  - destruct (geb mine Res); [discriminate|].
    destruct (any_geb Res others).
    + destruct mine; simpl in H; try discriminate. split; eauto.
    + destruct intx; [discriminate|]. destruct (any_sh others); discriminate.
  - destruct (geb mine Res); [discriminate|]. destruct (any_geb Res others); discriminate.
  - destruct (geb mine Res); [|discriminate]. destruct (any_sh others); discriminate.
Qed.
