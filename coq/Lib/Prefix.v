(* Lib/Prefix — online decoders and truncated inputs (used by C21).
   An online decoder is a step function over a control state that consumes its input left to
   right and can only succeed by executing its terminator on the last symbol it reads.
   Kernel lemma: on every proper prefix of an accepted input the decoder ends in EOF — it never
   returns a value and never reports a format error.  stdlib only. *)
From Coq Require Import List Arith Lia.
Import ListNotations.

Section Online.
  Variables (byte st val : Type).
  Inductive res := Done (v : val) | More (s : st) | Fail.
  Variable step : st -> byte -> res.     (* what one input symbol does *)

  Inductive out := Value (v : val) (rest : list byte) | EOF | Bad.

  Fixpoint run (s : st) (inp : list byte) : out :=
    match inp with
    | [] => EOF
    | b :: inp' =>
        match step s b with
        | Done v => Value v inp'
        | More s' => run s' inp'
        | Fail => Bad
        end
    end.

  (* the stream was written by an encoder whose output is accepted with nothing left over *)
  Definition accepted (s : st) (inp : list byte) (v : val) := run s inp = Value v [].

  Lemma prefix_eof : forall inp s v pre suf,
    accepted s inp v -> inp = pre ++ suf -> suf <> [] -> run s pre = EOF.
  Proof.
    induction inp as [|b inp IH]; intros s v pre suf Hacc Heq Hsuf.
    - unfold accepted in Hacc. cbn in Hacc. discriminate.
    - destruct pre as [|b' pre]; [reflexivity|].
      cbn in Heq. injection Heq as Hb Heq. subst b'.
      unfold accepted in Hacc. cbn in Hacc |- *.
      destruct (step s b) as [v'|s'|] eqn:E.
      + injection Hacc as _ Hrest. subst inp.
        destruct pre; destruct suf; try discriminate. congruence.
      + eapply IH; eauto.
      + discriminate.
  Qed.

  (* a loader that maps EOF to "invalid cache, recompile" never returns a value and never
     propagates an error on a truncated file *)
  Inductive load_out := Loaded (v : val) | Recompile | Raise.
  Variable route : out -> load_out.
  Hypothesis route_eof : route EOF = Recompile.
  Theorem truncated_recompiles inp s v pre suf :
    accepted s inp v -> inp = pre ++ suf -> suf <> [] -> route (run s pre) = Recompile.
  Proof. intros. erewrite prefix_eof; eauto. Qed.
End Online.

Arguments Done {st val} v.
Arguments More {st val} s.
Arguments Fail {st val}.
Arguments Value {byte val} v rest.
Arguments EOF {byte val}.
Arguments Bad {byte val}.
Arguments run {byte st val} step s inp.
Arguments accepted {byte st val} step s inp v.
Arguments prefix_eof {byte st val} step inp s v pre suf.
