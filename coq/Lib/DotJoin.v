(* Flattened names: a path of name segments joined with a separator character.
   For segments that are non-empty and do not contain the separator, `join` is injective, and
   "p is a proper prefix of q on segments" is exactly "join q starts with join p ++ [sep]".
   (Without the trailing separator the string test is wrong: see Proofs/C09_names.v.) *)
From stdpp Require Import list.

Section DotJoin.
  Context {A : Type} (sep : A).

  Definition seg_ok (s : list A) : Prop := s ≠ [] ∧ sep ∉ s.
  Definition path_ok (p : list (list A)) : Prop := Forall seg_ok p.


  Fixpoint join (p : list (list A)) : list A :=
    match p with
    | [] => []
    | s :: t => s ++ match t with [] => [] | _ => sep :: join t end
    end.

  Definition rest (t : list (list A)) : list A := match t with [] => [] | _ => sep :: join t end.

  Lemma join_cons s t : join (s :: t) = s ++ rest t.
  Proof. reflexivity. Qed.

  Lemma rest_ne t : t ≠ [] → rest t = sep :: join t.
  Proof. by destruct t. Qed.

  Lemma join_app p q : p ≠ [] → q ≠ [] → join (p ++ q) = join p ++ sep :: join q.
  Proof.
    induction p as [|s t IH]; intros Hp Hq; [done|].
    change ((s :: t) ++ q) with (s :: (t ++ q)). rewrite !join_cons.
    destruct t as [|s' t].
    - change ([] ++ q) with q. change (rest []) with (@nil A).
      rewrite (rest_ne q) by done. by rewrite app_nil_r.
    - rewrite (rest_ne ((s' :: t) ++ q)) by done. rewrite IH by done.
      rewrite (rest_ne (s' :: t)) by done. by rewrite <- app_assoc.
  Qed.

  Lemma join_snoc p x : p ≠ [] → join (p ++ [x]) = join p ++ sep :: x.
  Proof. intros Hp. rewrite join_app by done. simpl. by rewrite app_nil_r. Qed.

  (* a tail is empty or starts with the separator *)
  Definition tailform (r : list A) : Prop := r = [] ∨ ∃ r0, r = sep :: r0.

  Lemma tailform_rest t : tailform (rest t).
  Proof. destruct t; [by left|right; eauto]. Qed.

  Lemma head_split s s' r r' :
    sep ∉ s → sep ∉ s' → tailform r → tailform r' → s ++ r = s' ++ r' → s = s' ∧ r = r'.
  Proof.
    revert s'. induction s as [|a s IH]; intros s' Hs Hs' Hr Hr' E.
    - destruct s' as [|a' s']; [done|]. simpl in E. exfalso.
      destruct Hr as [->|[r0 ->]]; [done|]. injection E as <- _. apply Hs'. by left.
    - destruct s' as [|a' s'].
      + simpl in E. exfalso. destruct Hr' as [->|[r0 ->]]; [done|].
        injection E as -> _. apply Hs. by left.
      + simpl in E. injection E as -> E.
        destruct (IH s') as [-> ->]; try done.
        * intros Hin. apply Hs. by right.
        * intros Hin. apply Hs'. by right.
  Qed.

  Lemma join_nil_inv p : path_ok p → join p = [] → p = [].
  Proof.
    destruct p as [|s t]; [done|]. intros Hok E. exfalso.
    apply Forall_cons in Hok as [[Hne _] _]. rewrite join_cons in E.
    apply app_eq_nil in E as [E _]. done.
  Qed.

  Lemma rest_inj_join t t' : rest t = rest t' → (t = [] ∧ t' = []) ∨ (t ≠ [] ∧ t' ≠ [] ∧ join t = join t').
  Proof.
    destruct t, t'; simpl; intros E; try done; [by left|].
    right. injection E as E. done.
  Qed.

  Theorem join_inj p q : path_ok p → path_ok q → join p = join q → p = q.
  Proof.
    revert q. induction p as [|s t IH]; intros q Hp Hq E.
    - symmetry. apply join_nil_inv; done.
    - destruct q as [|s' t']; [by apply join_nil_inv in E|].
      apply Forall_cons in Hp as [[_ Hs] Ht]. apply Forall_cons in Hq as [[_ Hs'] Ht'].
      rewrite !join_cons in E.
      apply head_split in E as [-> E]; try done; try apply tailform_rest.
      f_equal. apply rest_inj_join in E as [[-> ->]|(_ & _ & E)]; [done|]. by apply IH.
  Qed.

  (* startswith(join p + sep) is the proper-prefix test on segments *)
  Theorem prefix_sep_iff p q :
    path_ok p → path_ok q → p ≠ [] →
    (join p ++ [sep]) `prefix_of` join q ↔ ∃ r, r ≠ [] ∧ q = p ++ r.
  Proof.
    intros Hp Hq Hne. split.
    - revert q Hq. induction p as [|s t IH]; [done|]. intros q Hq [k E].
      destruct q as [|s' t'].
      { simpl in E. destruct s; simpl in E; [destruct t|]; done. }
      apply Forall_cons in Hp as [[_ Hs] Ht]. apply Forall_cons in Hq as [[_ Hs'] Ht'].
      rewrite !join_cons, <- !app_assoc in E. symmetry in E.
      apply head_split in E as [-> E]; try done; try apply tailform_rest.
      2:{ destruct t; simpl; right; eauto. }
      destruct t as [|s2 t].
      + simpl in E. destruct t' as [|s3 t']; [done|]. exists (s3 :: t'). done.
      + destruct t' as [|s3 t']; [done|]. simpl in E. injection E as E.
        destruct (IH Ht ltac:(done) (s3 :: t') Ht') as (r & Hr & ->).
        { exists k. rewrite <- app_assoc. done. }
        exists r. done.
    - intros (r & Hr & ->). exists (join r). rewrite join_app by done.
      by rewrite <- app_assoc.
  Qed.
End DotJoin.
