(* ObjGraph — the object graph of pymoca class trees, shared by C06 and C05.
   Definitions only (plus nothing that can break): proofs live in Proofs/C06_deepcopy.v.

   A *world* is the list of live class trees (index 0 = the parsed tree; every
   copy.deepcopy appends one).  A Python Class object is addressed by
   (tree index, path of class names from the root of that tree); the attribute
   `parent` and the per-instance `__deepcopy__` hook are stored as addresses, so object
   identity ("who is whose parent", "whose bound method does a copy carry") is explicit.
   A tree is the finite map path -> node, kept as an association list in an order in
   which every class follows its owner (the order in which deepcopy reaches them). *)
From Coq Require Import List Arith Bool.
Import ListNotations.

Definition key := nat.                    (* class name *)
Definition path := list key.
Definition addr : Type := nat * path.

Definition path_dec : forall a b : path, {a = b} + {a <> b} := list_eq_dec Nat.eq_dec.
Definition addr_dec : forall a b : addr, {a = b} + {a <> b}.
Proof. decide equality. apply path_dec. apply Nat.eq_dec. Defined.
Definition oaddr_dec : forall a b : option addr, {a = b} + {a <> b}.
Proof. decide equality. apply addr_dec. Defined.

(* content of a class that the AST edit API changes: symbol names, number of equations *)
Record cdata := CD { syms : list nat; neqs : nat }.
Definition cdata_dec : forall a b : cdata, {a = b} + {a <> b}.
Proof. decide equality. apply Nat.eq_dec. apply (list_eq_dec Nat.eq_dec). Defined.

Record info := Info {
  dat : cdata;
  par : option addr;     (* Class.parent *)
  hk  : option addr      (* None: no per-instance __deepcopy__ (or one bound to the object itself);
                            Some h: instance attribute bound to the object at h *)
}.

Definition tree := list (path * info).
Definition world := list tree.

Fixpoint assoc {B} (p : path) (t : list (path * B)) : option B :=
  match t with
  | [] => None
  | (q, i) :: t' => if path_dec p q then Some i else assoc p t'
  end.

Definition get (w : world) (a : addr) : option info :=
  match nth_error w (fst a) with Some t => assoc (snd a) t | None => None end.

(* strip p q = Some r  iff  q = p ++ r *)
Fixpoint strip (p q : path) : option path :=
  match p, q with
  | [], _ => Some q
  | x :: p', y :: q' => if Nat.eqb x y then strip p' q' else None
  | _ :: _, [] => None
  end.

(* the classes owned (transitively) by the class at path p, with paths relative to it *)
Fixpoint sub (p : path) (t : tree) : list (path * info) :=
  match t with
  | [] => []
  | (q, i) :: t' => match strip p q with Some r => (r, i) :: sub p t' | None => sub p t' end
  end.

Fixpoint set_nth {A} (n : nat) (x : A) (l : list A) : list A :=
  match n, l with
  | _, [] => []
  | O, _ :: l' => x :: l'
  | S n', y :: l' => y :: set_nth n' x l'
  end.

Definition upd_tree (w : world) (ti : nat) (f : tree -> tree) : world :=
  match nth_error w ti with Some t => set_nth ti (f t) w | None => w end.

(* ---- navigation: everything class lookup can do from a class -------------------
   ast.py:629-693 _find_class: `self.classes[name]` (Down) and `self.parent._find_class` (Up). *)
Inductive step := Up | Down (k : key).

Definition nav1 (w : world) (a : addr) (s : step) : option addr :=
  match s with
  | Up => match get w a with Some i => par i | None => None end
  | Down k => let a' := (fst a, snd a ++ [k]) in
              match get w a' with Some _ => Some a' | None => None end
  end.

Fixpoint nav (w : world) (a : addr) (ss : list step) : option addr :=
  match ss with
  | [] => Some a
  | s :: ss' => match nav1 w a s with Some a' => nav w a' ss' | None => None end
  end.

(* what a lookup path starting at class a gets to see *)
Definition see (w : world) (a : addr) (ss : list step) : option cdata :=
  match nav w a ss with
  | Some a' => match get w a' with Some i => Some (dat i) | None => None end
  | None => None
  end.
