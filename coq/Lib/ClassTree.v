(* Lib/ClassTree.v — data types shared by C07 / C08: libraries of nested Modelica classes as pymoca's
   parser produces them (ast.Class / ast.Symbol / ast.ClassModificationArgument / expressions),
   ordered dictionaries with OrderedDict.update semantics, and pymoca's class lookup
   (ast.py:629-723, Class._find_class / find_class) over a chain of frames.
   Definitions only (executable); lemmas live in Proofs/C07_flatten.v, Proofs/C08_modify.v. *)
From Coq Require Import List ZArith Bool PArith.
Import ListNotations.

Definition ident := positive.
Definition path := list ident.          (* a dotted name a.b.c, innermost last *)

(* ---- reserved identifiers (the harness maps source names to positives; user names start at 40) *)
Definition iReal : ident := 1%positive.
Definition iInteger : ident := 2%positive.
Definition iBoolean : ident := 3%positive.
Definition iString : ident := 4%positive.
Definition aValue : ident := 5%positive.
Definition aMin : ident := 6%positive.
Definition aMax : ident := 7%positive.
Definition aStart : ident := 8%positive.
Definition aFixed : ident := 9%positive.
Definition aNominal : ident := 10%positive.
Definition aUnit : ident := 11%positive.
Definition aQuantity : ident := 12%positive.
Definition aDisplayUnit : ident := 13%positive.
Definition iValueSym : ident := 14%positive.   (* "__value" *)
Definition kBuiltin : ident := 15%positive.    (* class type "__builtin" *)
Definition kType : ident := 16%positive.       (* class type "type" *)
Definition kModel : ident := 17%positive.
Definition kPackage : ident := 18%positive.
Definition pInput : ident := 19%positive.
Definition pOutput : ident := 20%positive.
Definition pParam : ident := 21%positive.
Definition pConstant : ident := 22%positive.
Definition pDiscrete : ident := 23%positive.
Definition pFlow : ident := 24%positive.

(* ast.Class.BUILTIN (ast.py:604) and ast.Symbol.ATTRIBUTES (ast.py:405-415), in source order *)
Definition BUILTIN : list ident := [iReal; iInteger; iString; iBoolean].
Definition ATTRIBUTES : list ident :=
  [aValue; aMin; aMax; aStart; aFixed; aNominal; aUnit; aQuantity; aDisplayUnit].

Fixpoint path_eqb (a b : path) : bool :=
  match a, b with
  | [], [] => true
  | x :: a', y :: b' => Pos.eqb x y && path_eqb a' b'
  | _, _ => false
  end.

Definition mem_id (x : ident) (l : list ident) : bool := existsb (Pos.eqb x) l.
Definition mem_path (x : path) (l : list path) : bool := existsb (path_eqb x) l.
Definition head_id (p : path) : ident := match p with x :: _ => x | [] => xH end.

(* ---- expressions (ast.Primary / ComponentRef / Expression).  A reference is its dotted name
   (name + child chain) with the literal indices of all parts concatenated. *)
Inductive expr :=
| ENum (z : Z)
| EBool (b : bool)
| EStr (s : ident)
| ERef (p : path) (idx : list Z)
| EOp (o : ident) (args : list expr).

Fixpoint list_eqb {A} (eqb : A -> A -> bool) (a b : list A) : bool :=
  match a, b with
  | [], [] => true
  | x :: a', y :: b' => eqb x y && list_eqb eqb a' b'
  | _, _ => false
  end.

Fixpoint expr_eqb (a b : expr) {struct a} : bool :=
  match a, b with
  | ENum x, ENum y => Z.eqb x y
  | EBool x, EBool y => Bool.eqb x y
  | EStr x, EStr y => Pos.eqb x y
  | ERef p i, ERef q j => path_eqb p q && list_eqb Z.eqb i j
  | EOp o l, EOp o' l' =>
      Pos.eqb o o' &&
      (fix go (l l' : list expr) : bool :=
         match l, l' with
         | [], [] => true
         | x :: r, y :: r' => expr_eqb x y && go r r'
         | _, _ => false
         end) l l'
  | _, _ => false
  end.

Definition eqn := (expr * expr)%type.
Definition eqn_eqb (a b : eqn) : bool := expr_eqb (fst a) (fst b) && expr_eqb (snd a) (snd b).

(* ---- modifications: ClassModificationArgument(scope, value = ElementModification(component,
   modifications)); an element of `modifications` is an expression or a ClassModification *)
Inductive marg := MArg (scope : option path) (target : path) (mods : list mval)
with mval := MExpr (e : expr) | MClass (args : list marg).

Definition m_scope (a : marg) := match a with MArg s _ _ => s end.
Definition m_target (a : marg) := match a with MArg _ t _ => t end.
Definition m_mods (a : marg) := match a with MArg _ _ m => m end.

(* ---- parsed classes *)
Record sym := mkSym {
  s_name : ident;
  s_type : path;                (* type specifier, possibly dotted *)
  s_prefixes : list ident;
  s_dims : list Z;              (* literal array dimensions *)
  s_mods : list marg            (* class_modification.arguments (a declaration `= v` is `value = v`,
                                   parser.py:703-719); None and [] behave alike *)
}.

Inductive cdef :=
  CDef (name : ident) (kind : ident) (classes : list cdef)
       (exts : list (path * list marg)) (syms : list sym) (eqs : list eqn).

Definition c_name (c : cdef) := match c with CDef n _ _ _ _ _ => n end.
Definition c_kind (c : cdef) := match c with CDef _ k _ _ _ _ => k end.
Definition c_classes (c : cdef) := match c with CDef _ _ cs _ _ _ => cs end.
Definition c_exts (c : cdef) := match c with CDef _ _ _ e _ _ => e end.
Definition c_syms (c : cdef) := match c with CDef _ _ _ _ s _ => s end.
Definition c_eqs (c : cdef) := match c with CDef _ _ _ _ _ e => e end.

(* ---- ordered dictionaries: d[k] = v keeps the position of an existing key *)
Section OD.
  Context {A K : Type} (key : A -> K) (keqb : K -> K -> bool).
  Fixpoint od_set (x : A) (l : list A) : list A :=
    match l with
    | [] => [x]
    | y :: l' => if keqb (key y) (key x) then x :: l' else y :: od_set x l'
    end.
  Definition od_update (l new : list A) : list A := fold_left (fun acc x => od_set x acc) new l.
  Fixpoint od_get (k : K) (l : list A) : option A :=
    match l with
    | [] => None
    | y :: l' => if keqb (key y) k then Some y else od_get k l'
    end.
End OD.

(* ---- class lookup.  An entry is a class together with the dotted path of its LEXICAL parent in
   the library (needed because extends clauses are always resolved from the original class object,
   whose .parent is the original parent, tree.py:277).  A frame is the `classes` dictionary of one
   class of the .parent chain together with that class's name (None for the root). *)
Record entry := mkEntry { e_def : cdef; e_lex : path }.
Record frame := mkFrame {
  f_owner : option ident;      (* name of the class owning this `classes` dictionary, None for the root *)
  f_inst : bool;               (* true: the dictionary of an InstanceClass (its nested classes were
                                  instantiated eagerly, tree.py:403-426); false: of a parsed class *)
  f_entries : list entry;
  f_limit : option nat         (* only used by the model of pymoca's definition-order rule: when the nested
                                  class that owns this parent chain was instantiated eagerly, the entries at
                                  index >= limit of this InstanceClass dictionary were still parsed classes *)
}.
Definition scope := list frame.

Definition e_key (e : entry) : ident := c_name (e_def e).
Definition entries_of (lex : path) (cs : list cdef) : list entry := map (fun c => mkEntry c lex) cs.
Definition own_frame (c : cdef) (lex : path) : frame :=
  mkFrame (Some (c_name c)) false (entries_of (lex ++ [c_name c]) (c_classes c)) None.

(* full_reference (ast.py:759-771): names along the parent chain, root excluded *)
Fixpoint scope_ref (S : scope) : path :=
  match S with
  | [] => []
  | f :: S' => match f_owner f with Some n => scope_ref S' ++ [n] | None => scope_ref S' end
  end.

(* self.classes[n]._find_class(rest, search_parent=False) on original classes: own classes only *)
Fixpoint descend (c : cdef) (lex : path) (rest : path) {struct rest} : option (cdef * path) :=
  match rest with
  | [] => Some (c, lex)
  | n :: rest' =>
      match od_get c_name Pos.eqb n (c_classes c) with
      | Some c' => descend c' (lex ++ [c_name c]) rest'
      | None => None
      end
  end.

(* frames between the found class and the frame it was found in, innermost first *)
Fixpoint descend_frames (c : cdef) (lex : path) (rest : path) {struct rest} : list frame :=
  match rest with
  | [] => []
  | n :: rest' =>
      match od_get c_name Pos.eqb n (c_classes c) with
      | Some c' => descend_frames c' (lex ++ [c_name c]) rest' ++ [own_frame c lex]
      | None => []
      end
  end.

(* _find_class (ast.py:629-693) without imports / encapsulated: look the first name up in the
   innermost frame; if it (or the rest of a dotted name below it) is missing, continue in the parent.
   Result: the class, its lexical parent path, the frames of its .parent chain, and whether the first
   name was found in the dictionary of an InstanceClass. *)
Fixpoint lookup (S : scope) (ref : path) {struct S} : option (cdef * path * scope * bool) :=
  match ref with
  | [] => None
  | n :: rest =>
      match S with
      | [] => None
      | fr :: S' =>
          match od_get e_key Pos.eqb n (f_entries fr) with
          | Some e =>
              match descend (e_def e) (e_lex e) rest with
              | Some (c, lex) => Some (c, lex, descend_frames (e_def e) (e_lex e) rest ++ S, f_inst fr)
              | None => lookup S' ref
              end
          | None => lookup S' ref
          end
      end
  end.

(* the original (lexical) frames of the class whose dotted path is `p`, innermost first *)
Fixpoint lex_frames_from (root : list cdef) (lex : path) (cs : list cdef) (p : path) (acc : scope)
  {struct p} : scope :=
  match p with
  | [] => acc
  | n :: p' =>
      match od_get c_name Pos.eqb n cs with
      | Some c => lex_frames_from root (lex ++ [n]) (c_classes c) p' (own_frame c lex :: acc)
      | None => acc
      end
  end.

Definition lex_scope (root : list cdef) (p : path) : scope :=
  lex_frames_from root [] root p [mkFrame None false (entries_of [] root) None].

(* the synthesized class of find_class(check_builtin_classes=True), ast.py:702-714 *)
Definition builtin_class (t : ident) : cdef :=
  CDef t kBuiltin [] [] [mkSym iValueSym [t] [] [] []] [].
