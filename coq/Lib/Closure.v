(* Merge-by-relabelling over gmap K (gset K) computes the equivalence closure of the pair list.
   Used by C17 (signed alias relation) and C09 (connection sets). *)
From stdpp Require Import gmap.

Section Closure.
  Context `{Countable K}.
  Notation cmap := (gmap K (gset K)).
  Definition cls (m : cmap) (k : K) : gset K := default {[k]} (m !! k).
  Definition relabel (A : gset K) (m : cmap) : cmap :=
    set_fold (fun v acc => <[v := A]> acc) m A.
  Definition merge (m : cmap) (a b : K) : cmap := relabel (cls m a ∪ cls m b) m.

  Lemma relabel_lookup_aux (A : gset K) (m : cmap) k (Y : gset K) :
    let r : cmap := set_fold (fun v (acc : cmap) => <[v := A]> acc) m Y in
    (k ∈ Y → r !! k = Some A) ∧ (k ∉ Y → r !! k = m !! k).
  Proof.
    apply (set_fold_ind_L (fun r X => (k ∈ X → r !! k = Some A) ∧ (k ∉ X → r !! k = m !! k))).
    - split; [set_solver|done].
    - intros x X r Hx [IH1 IH2]. cbn beta. split.
      + intros [->%elem_of_singleton|Hk]%elem_of_union.
        * by rewrite lookup_insert.
        * destruct (decide (k = x)) as [->|Hne]; [by rewrite lookup_insert|].
          rewrite lookup_insert_ne by done. auto.
      + intros Hk. rewrite lookup_insert_ne by set_solver. apply IH2. set_solver.
  Qed.

  Lemma relabel_lookup A m k :
    relabel A m !! k = if decide (k ∈ A) then Some A else m !! k.
  Proof.
    destruct (relabel_lookup_aux A m k A) as [H1 H2]. unfold relabel.
    case_decide; auto.
  Qed.

  Lemma cls_relabel A m k :
    cls (relabel A m) k = if decide (k ∈ A) then A else cls m k.
  Proof. unfold cls. rewrite relabel_lookup. by case_decide. Qed.

  Definition inv (m : cmap) : Prop :=
    (∀ k, k ∈ cls m k) ∧ (∀ k v, v ∈ cls m k → cls m v = cls m k).

  Lemma inv_empty : inv ∅.
  Proof. split; intros; unfold cls in *; rewrite ?lookup_empty in *; simpl in *; set_solver. Qed.

  Lemma cls_merge m a b k : inv m →
    cls (merge m a b) k = if decide (k ∈ cls m a ∪ cls m b) then cls m a ∪ cls m b else cls m k.
  Proof. intros _. unfold merge. apply cls_relabel. Qed.

  Lemma merge_inv m a b : inv m → inv (merge m a b).
  Proof.
    intros [Hr Hc]. split.
    - intros k. rewrite cls_merge by (split; done). case_decide; [done|apply Hr].
    - intros k v. rewrite !cls_merge by (split; done).
      case_decide as Hk; intros Hv.
      + rewrite decide_True by done. done.
      + case_decide as Hv'; [|by apply Hc].
        exfalso. apply Hk. apply elem_of_union in Hv' as [Hv'|Hv'].
        * apply elem_of_union_l. rewrite <- (Hc _ _ Hv'). rewrite (Hc _ _ Hv). apply Hr.
        * apply elem_of_union_r. rewrite <- (Hc _ _ Hv'). rewrite (Hc _ _ Hv). apply Hr.
  Qed.

  Inductive eqv (P : list (K * K)) : K → K → Prop :=
  | eqv_pair a b : (a, b) ∈ P → eqv P a b
  | eqv_refl a : eqv P a a
  | eqv_sym a b : eqv P a b → eqv P b a
  | eqv_trans a b c : eqv P a b → eqv P b c → eqv P a c.

  Definition run (P : list (K * K)) : cmap := fold_left (fun m '(a, b) => merge m a b) P ∅.

  Lemma eqv_mono P Q a b : P ⊆ Q → eqv P a b → eqv Q a b.
  Proof. intros HPQ. induction 1; eauto using eqv. Qed.

  Lemma run_snoc P a b : run (P ++ [(a, b)]) = merge (run P) a b.
  Proof. unfold run. by rewrite fold_left_app. Qed.

  Lemma run_inv P : inv (run P).
  Proof.
    induction P as [|[a b] P IH] using rev_ind; [apply inv_empty|].
    rewrite run_snoc. by apply merge_inv.
  Qed.

  Theorem run_closure P k v : v ∈ cls (run P) k ↔ eqv P k v.
  Proof.
    revert k v. induction P as [|[a b] P IH] using rev_ind; intros k v.
    - unfold run, cls; simpl. rewrite lookup_empty; simpl. split.
      + intros ->%elem_of_singleton. apply eqv_refl.
      + induction 1 as [x y Hxy|x|x y _ IH'|x y z _ IH1 _ IH2]; [by apply elem_of_nil in Hxy|set_solver..].
    - rewrite run_snoc. pose proof (run_inv P) as [Hr Hc].
      rewrite cls_merge by (split; done). split.
      + case_decide as Hk.
        * intros Hv.
          assert (∀ x, x ∈ cls (run P) a ∪ cls (run P) b → eqv (P ++ [(a, b)]) a x) as Hax.
          { intros x [Hx|Hx]%elem_of_union.
            - eapply eqv_mono; [|by apply IH]. set_solver.
            - apply (eqv_trans _ _ b); [apply eqv_pair; set_solver|].
              eapply eqv_mono; [|by apply IH]. set_solver. }
          eapply eqv_trans; [apply eqv_sym, Hax, Hk|apply Hax, Hv].
        * intros Hv. eapply eqv_mono; [|by apply IH]. set_solver.
      + (* closure ⊆ classes: show membership relation is an equivalence containing the pairs *)
        set (m' := merge (run P) a b).
        assert (Hinv' : inv m') by (apply merge_inv; split; done).
        destruct Hinv' as [Hr' Hc'].
        assert (Hcls : ∀ x, cls m' x = if decide (x ∈ cls (run P) a ∪ cls (run P) b)
                                        then cls (run P) a ∪ cls (run P) b else cls (run P) x)
          by (intros; apply cls_merge; split; done).
        rewrite <- Hcls.
        induction 1 as [x y Hxy|x|x y _ IH'|x y z _ IH1 _ IH2].
        * apply elem_of_app in Hxy as [Hxy|Hxy].
          -- (* old pair: monotonicity *)
             assert (y ∈ cls (run P) x) as Hold by (apply IH; by constructor).
             rewrite Hcls. case_decide as Hx; [|done].
             apply elem_of_union in Hx as [Hx|Hx].
             ++ apply elem_of_union_l. rewrite <- (Hc _ _ Hx). done.
             ++ apply elem_of_union_r. rewrite <- (Hc _ _ Hx). done.
          -- apply elem_of_list_singleton in Hxy as [= -> ->].
             rewrite Hcls. rewrite decide_True by (apply elem_of_union_l, Hr).
             apply elem_of_union_r, Hr.
        * apply Hr'.
        * rewrite (Hc' _ _ IH'). apply Hr'.
        * rewrite <- (Hc' _ _ IH1). done.
  Qed.
End Closure.
