(* C03 — the SPECIFICATION side: source trees, the printer that follows the grammar levels of the
   Modelica specification (B.2.7), the `resign` normal form, and exact evaluation.  Definitions only. *)
From Coq Require Import List Arith ZArith QArith Qcanon Bool.
From PV Require Import Model.C03_prec.
Import ListNotations.
Local Open Scope nat_scope.

(* Grammar levels of the Modelica specification, a larger number binds tighter:
     1 expression (if-then-else)      2 logical_expression (or)     3 logical_term (and)
     4 logical_factor (not)           5 relation                    6 arithmetic_expression (+ - and the unary sign)
     7 term (mul, div)                     8 factor (^)                  9 primary
   0 = an `expression` position (top, inside parentheses, if-parts). *)
Inductive atom := AVar (x : positive) | ANum (n : numtok) | ABool (b : bool) | AStr (raw : string).
Inductive sexpr :=
  | SAtom (a : atom)
  | SPar (e : sexpr)                 (* a redundant pair of parentheses written in the source *)
  | SUn (o : sym) (e : sexpr)        (* o in + - not *)
  | SBin (o : sym) (l r : sexpr)     (* o binary or ^ .^ *)
  | SIf (c t : sexpr) (elifs : list (sexpr * sexpr)) (e : sexpr)   (* if c then t {elseif c' then b'} else e *)
  | SCall (f : fname) (args : list sexpr).                         (* f(e1, ..., en), n >= 1; arguments are expressions *)

Definition is_sign (o : sym) : bool := match o with SPlus | SMinus => true | _ => false end.
Definition is_mul (o : sym) : bool := match o with SMul | SDiv | SEMul | SEDiv => true | _ => false end.
Definition is_pow (o : sym) : bool := match o with SPow | SEPow => true | _ => false end.
Definition is_rel (o : sym) : bool := match o with SLt | SLe | SGt | SGe | SEq | SNe => true | _ => false end.

(* level of a binary operator; 0 = not a binary operator *)
Definition blev (o : sym) : nat :=
  match o with
  | SOr => 2 | SAnd => 3
  | SLt | SLe | SGt | SGe | SEq | SNe => 5
  | SPlus | SMinus | SEPlus | SEMinus => 6
  | SMul | SDiv | SEMul | SEDiv => 7
  | SPow | SEPow => 8
  | SNot => 0
  end.
(* level required of the left / right operand: + - * / and or are left-associative,
   relations and ^ are non-associative *)
Definition lq (o : sym) : nat := if is_rel o then 6 else if is_pow o then 9 else blev o.
Definition rq (o : sym) : nat := if is_pow o then 9 else S (blev o).
(* unary operators: own level and level required of the operand
   (logical_factor = [not] relation;  arithmetic_expression = [add_op] term ...) *)
Definition ulev (o : sym) : nat := match o with SNot => 4 | SPlus | SMinus => 6 | _ => 0 end.
Definition uq (o : sym) : nat := match o with SNot => 5 | SPlus | SMinus => 7 | _ => 0 end.

Definition is_unop (o : sym) : bool := match o with SNot | SPlus | SMinus => true | _ => false end.
Definition is_binop (o : sym) : bool := negb (blev o =? 0).
Fixpoint wf (e : sexpr) : bool :=
  match e with
  | SAtom _ => true
  | SPar e => wf e
  | SUn o e => is_unop o && wf e
  | SBin o l r => is_binop o && wf l && wf r
  | SIf c t el e => wf c && wf t && forallb (fun p => let '(c', b') := p in wf c' && wf b') el && wf e
  | SCall f args => negb (match args with [] => true | _ => false end) && forallb wf args
  end.

Definition atok (a : atom) : tok :=
  match a with AVar x => TId x | ANum n => TNum n | ABool true => TTrue | ABool false => TFalse | AStr s => TStr s end.
Definition paren (ts : list tok) : list tok := TLp :: ts ++ [TRp].
Definition ftoks (f : fname) : list tok := match f with FDer => [TDer; TLp] | FName x => [TId x; TLp] end.
Fixpoint join (l : list (list tok)) : list tok :=      (* comma separated *)
  match l with [] => [] | [x] => x | x :: r => x ++ TComma :: join r end.

(* print e in a position that requires level q: minimal parentheses, plus the SPar ones *)
Fixpoint pr (q : nat) (e : sexpr) : list tok :=
  match e with
  | SAtom a => [atok a]
  | SPar e => paren (pr 0 e)
  | SUn o e =>
      let body := TSym o :: pr (uq o) e in
      if q <=? ulev o then body else paren body
  | SBin o l r =>
      let body := pr (lq o) l ++ TSym o :: pr (rq o) r in
      if q <=? blev o then body else paren body
  | SIf c t el e =>
      let body := TIf :: pr 0 c ++ TThen :: pr 0 t
                  ++ concat (map (fun p => let '(c', b') := p in TElseif :: pr 0 c' ++ TThen :: pr 0 b') el)
                  ++ TElse :: pr 0 e in
      if q <=? 1 then body else paren body
  | SCall f args => ftoks f ++ join (map (pr 0) args) ++ [TRp]      (* a primary: never parenthesised *)
  end.

Definition aexpr (a : atom) : expr :=
  match a with
  | AVar x => Var x | ANum n => Lit (num_value n) | ABool b => Lit (VBool b) | AStr s => Lit (str_value s)
  end.

(* the intended tree: parentheses dropped *)
Fixpoint strip (e : sexpr) : expr :=
  match e with
  | SAtom a => aexpr a
  | SPar e => strip e
  | SUn o e => Un o (strip e)
  | SBin o l r => Bin o (strip l) (strip r)
  | SIf c t el e => IfE (strip c :: map (fun p => let '(c', _) := p in strip c') el)
                        (strip t :: map (fun p => let '(_, b') := p in strip b') el ++ [strip e])
  | SCall f args => Call f (map strip args)
  end.

(* the tree the pymoca grammar builds: a unary sign written directly in front of an unparenthesised
   product  - a * b * c  is attached to the left-most factor  ((-a) * b) * c.
   rs pend e: tree of e with a pending sign `pend` to attach. *)
Definition wrap (pend : option sym) (x : expr) : expr := match pend with Some o => Un o x | None => x end.
Fixpoint rs (pend : option sym) (e : sexpr) : expr :=
  match e with
  | SAtom a => wrap pend (aexpr a)
  | SPar e1 => wrap pend (rs None e1)
  | SUn o e1 => wrap pend (if is_sign o then rs (Some o) e1 else Un o (rs None e1))
  | SBin m l r => if is_mul m then Bin m (rs pend l) (rs None r)
                  else wrap pend (Bin m (rs None l) (rs None r))
  | SIf c t el e => wrap pend (IfE (rs None c :: map (fun p => let '(c', _) := p in rs None c') el)
                                   (rs None t :: map (fun p => let '(_, b') := p in rs None b') el ++ [rs None e]))
  | SCall f args => wrap pend (Call f (map (rs None) args))
  end.
Definition resign (e : sexpr) : expr := rs None e.

(* induction principle for the nested lists *)
Section SexprInd.
  Variable P : sexpr -> Prop.
  Hypothesis HAtom : forall a, P (SAtom a).
  Hypothesis HPar : forall e, P e -> P (SPar e).
  Hypothesis HUn : forall o e, P e -> P (SUn o e).
  Hypothesis HBin : forall o l r, P l -> P r -> P (SBin o l r).
  Hypothesis HIf : forall c t el e, P c -> P t -> Forall (fun p => P (fst p) /\ P (snd p)) el -> P e -> P (SIf c t el e).
  Hypothesis HCall : forall f args, Forall P args -> P (SCall f args).
  Fixpoint sexpr_ind' (e : sexpr) : P e :=
    match e with
    | SAtom a => HAtom a
    | SPar e1 => HPar e1 (sexpr_ind' e1)
    | SUn o e1 => HUn o e1 (sexpr_ind' e1)
    | SBin o l r => HBin o l r (sexpr_ind' l) (sexpr_ind' r)
    | SIf c t el e1 =>
        HIf c t el e1 (sexpr_ind' c) (sexpr_ind' t)
            ((fix go (l : list (sexpr * sexpr)) : Forall (fun p => P (fst p) /\ P (snd p)) l :=
                match l with
                | [] => Forall_nil _
                | p :: l' => Forall_cons p (conj (sexpr_ind' (fst p)) (sexpr_ind' (snd p))) (go l')
                end) el)
            (sexpr_ind' e1)
    | SCall f args =>
        HCall f args ((fix go (l : list sexpr) : Forall P l :=
                         match l with [] => Forall_nil _ | x :: l' => Forall_cons x (sexpr_ind' x) (go l') end) args)
    end.
End SexprInd.

(* T2 side condition: the listener table re-read from parser.py is the one the theorems are stated for *)
Definition ltable_eq_dec : forall a b : ltable, {a = b} + {a <> b}.
Proof. repeat decide equality. Defined.
Definition listener_ok (lt : ltable) : bool := if ltable_eq_dec lt std_lt then true else false.

(* ---- exact evaluation: rationals and Booleans; type errors and strings are VErr (strict) ---- *)
Inductive val := VQ (q : Qc) | VB (b : bool) | VErr.

Definition qpow (x y : Qc) : val :=
  match Qden (this y) with
  | xH => match Qnum (this y) with
          | Z0 => VQ 1
          | Zpos p => VQ (Qcpower x (Pos.to_nat p))
          | Zneg p => VQ (/ Qcpower x (Pos.to_nat p))
          end
  | _ => VErr
  end%Qc.

Definition ev_un (o : sym) (v : val) : val :=
  match o, v with
  | SPlus, VQ x => VQ x
  | SMinus, VQ x => VQ (- x)%Qc
  | SNot, VB b => VB (negb b)
  | _, _ => VErr
  end.
Definition ev_bin (o : sym) (a b : val) : val :=
  match a, b with
  | VQ x, VQ y =>
      match o with
      | SPlus | SEPlus => VQ (x + y)%Qc
      | SMinus | SEMinus => VQ (x - y)%Qc
      | SMul | SEMul => VQ (x * y)%Qc
      | SDiv | SEDiv => VQ (x / y)%Qc
      | SPow | SEPow => qpow x y
      | SLt => VB (negb (Qle_bool (this y) (this x)))
      | SLe => VB (Qle_bool (this x) (this y))
      | SGt => VB (negb (Qle_bool (this x) (this y)))
      | SGe => VB (Qle_bool (this y) (this x))
      | SEq => VB (Qeq_bool (this x) (this y))
      | SNe => VB (negb (Qeq_bool (this x) (this y)))
      | _ => VErr
      end
  | VB x, VB y =>
      match o with SAnd => VB (x && y) | SOr => VB (x || y) | _ => VErr end
  | _, _ => VErr
  end.

Section Eval.
  Variable rho : positive -> val.              (* values of the variables *)
  Variable fn : fname -> list val -> val.      (* functions are uninterpreted *)
  Definition ev_lit (v : value) : val :=
    match v with VInt n => VQ (Q2Qc (inject_Z (Z.of_N n))) | VReal q => VQ (Q2Qc q) | VBool b => VB b | VStr _ => VErr end.
  Fixpoint ev_if (cs bs : list val) : val :=
    match cs, bs with
    | VB true :: _, b :: _ => b
    | VB false :: cs', _ :: bs' => ev_if cs' bs'
    | [], [b] => b
    | _, _ => VErr
    end.
  Fixpoint eval (e : expr) : val :=
    match e with
    | Var x => rho x
    | Lit v => ev_lit v
    | Un o a => ev_un o (eval a)
    | Bin o a b => ev_bin o (eval a) (eval b)
    | Call f l => fn f (map eval l)
    | IfE cs bs => ev_if (map eval cs) (map eval bs)
    end.
End Eval.
