(* Lib/Inst.v — the SPECIFICATION of flattening for C07 / C08, written from the property text
   (not from pymoca's code): a short declarative instantiation.

   * one variable per elementary leaf component, named by its dotted instance path;
   * the type of a component is looked up in the scope of the class that DECLARES it: that class's own
     and inherited nested classes, then the scope in which that class itself was found;
   * input/output survive only on top-level components, every other prefix is kept;
   * the equations of every instance, inherited ones included, with each reference renamed to the flat
     name of the leaf it denotes (a name p written in instance i denotes the leaf i.p);
   * modifiers form a spelling-independent list of (target path, expression, instance where written):
     a.b(c = e) and a.b.c = e are the same entry; the OUTERMOST entry for a target wins (enclosing
     component over declaration, extends clause over base class, declaration over type definition);
     an expression is resolved in the instance where it was written.

   Executable (option type, explicit fuel for the class recursion) so that it can be evaluated on the
   generated libraries next to the real flat model.  Definitions only. *)
From Coq Require Import List ZArith Bool PArith.
From PV Require Import Lib.ClassTree.
Import ListNotations.

Record flatvar := mkVar {
  v_name : path;
  v_type : path;
  v_prefixes : list ident;
  v_dims : list Z;
  v_attrs : list (ident * expr * option path)   (* attribute, expression, instance in which the expression
                                                   still has to be resolved (None: resolved / literal) *)
}.

(* ---- modifiers *)
Definition mentry := (path * expr * option path)%type.

Fixpoint flat_arg (env : option path) (a : marg) : list mentry :=
  match a with
  | MArg _ t ms =>
      flat_map (fun v => match v with
                         | MExpr e => [(t, e, env)]
                         | MClass l => map (fun en => match en with (p, e, w) => (t ++ p, e, w) end)
                                           (flat_map (flat_arg env) l)
                         end) ms
  end.

Definition flat_args (env : option path) (l : list marg) : list mentry := flat_map (flat_arg env) l.

(* the modifiers of component n *)
Definition sub_mods (n : ident) (ms : list mentry) : list mentry :=
  flat_map (fun en => match en with
                      | (h :: r, e, w) => if Pos.eqb h n then [(r, e, w)] else []
                      | _ => []
                      end) ms.

(* outermost entry for attribute a of a leaf; `x = e` is the attribute `value` *)
Definition attr_lookup (a : ident) (ms : list mentry) : option mentry :=
  find (fun en => match en with (p, _, _) => path_eqb p [a] || (Pos.eqb a aValue && path_eqb p []) end) ms.

Definition leaf_attrs (ms : list mentry) : list (ident * expr * option path) :=
  flat_map (fun a => match attr_lookup a ms with Some (_, e, w) => [(a, e, w)] | None => [] end) ATTRIBUTES.

(* ---- references *)
Fixpoint resolve (leaves : list path) (env : path) (e : expr) : expr :=
  match e with
  | ERef p idx => if mem_path (env ++ p) leaves then ERef (env ++ p) idx else e
  | EOp o args => EOp o (map (resolve leaves env) args)
  | _ => e
  end.

Definition resolve_eqn leaves env (q : eqn) : eqn := (resolve leaves env (fst q), resolve leaves env (snd q)).

Definition resolve_var (leaves : list path) (env : path) (v : flatvar) : flatvar :=
  mkVar (v_name v) (v_type v) (v_prefixes v) (v_dims v)
        (map (fun aew => match aew with
                         | (a, e, Some w) => if path_eqb w env then (a, resolve leaves env e, None) else aew
                         | _ => aew
                         end) (v_attrs v)).

(* ---- prefixes *)
Definition is_io (x : ident) : bool := Pos.eqb x pInput || Pos.eqb x pOutput.
Definition drop_io (prefix : path) (pre : list ident) : list ident :=
  match prefix with [] => pre | _ => filter (fun x => negb (is_io x)) pre end.

(* variables form an ordered map keyed by name *)
Definition v_update (l new : list flatvar) : list flatvar := od_update v_name path_eqb l new.
Definition add_dims (d : list Z) (v : flatvar) : flatvar :=
  mkVar (v_name v) (v_type v) (v_prefixes v) (d ++ v_dims v) (v_attrs v).

(* ---- scopes: own and inherited nested classes of c, then the scope S in which c was found *)
Fixpoint all_classes (fuel : nat) (c : cdef) (lex : path) (S : scope) : list entry :=
  let own := entries_of (lex ++ [c_name c]) (c_classes c) in
  match fuel with
  | O => od_update e_key Pos.eqb [] own
  | S f =>
      let inherited :=
        fold_left (fun acc e =>
                     if mem_id (head_id (fst e)) BUILTIN then acc
                     else match lookup (own_frame c lex :: S) (fst e) with
                          | Some (bc, blex, bS, _) => od_update e_key Pos.eqb acc (all_classes f bc blex bS)
                          | None => acc
                          end) (c_exts c) [] in
      od_update e_key Pos.eqb inherited own
  end.

Definition class_scope (fuel : nat) (c : cdef) (lex : path) (S : scope) : scope :=
  mkFrame (Some (c_name c)) false (all_classes fuel c lex S) None :: S.

(* an elementary type: a built-in, or a `type` class extending one; the modifiers of the type
   definitions come with it, outermost definition first.  Some None = a structured class. *)
Fixpoint elem_type (fuel : nat) (S : scope) (tref : path) : option (option (path * list mentry)) :=
  if mem_id (head_id tref) BUILTIN then Some (Some (tref, []))
  else match fuel with
       | O => None
       | S f =>
           match lookup S tref with
           | None => None
           | Some (tc, tlex, tS, _) =>
               if Pos.eqb (c_kind tc) kType then
                 match c_exts tc with
                 | [(bref, bmods)] =>
                     match elem_type f (class_scope f tc tlex tS) bref with
                     | Some (Some (t, am)) => Some (Some (t, flat_args None bmods ++ am))
                     | Some None => Some None
                     | None => None
                     end
                 | _ => Some None
                 end
               else Some None
           end
       end.

(* ---- instantiation *)
(* the elements of a class: its components, inherited ones first (bases in the order of the extends clauses),
   as an ordered map keyed by the component name — an element that is inherited twice or declared again
   counts once.  Each element remembers the scope of the class that DECLARES it and the modifiers that
   apply to it (from outside, then the extends clauses on the way, outermost first). *)
Definition elem := (sym * scope * list mentry)%type.
Definition el_sym (e : elem) : sym := fst (fst e).
Definition el_scope (e : elem) : scope := snd (fst e).
Definition el_mods (e : elem) : list mentry := snd e.
Definition el_name (e : elem) : ident := s_name (el_sym e).
Definition e_update (l new : list elem) : list elem := od_update el_name Pos.eqb l new.

Fixpoint elems (fuel : nat) (c : cdef) (lex : path) (S : scope) (prefix : path) (mods : list mentry)
  : option (list elem * list eqn) :=
  match fuel with
  | O => None
  | S f =>
      let inherited :=
        fold_left (fun acc e =>
                     match acc with
                     | None => None
                     | Some (els, raw) =>
                         if mem_id (head_id (fst e)) BUILTIN then acc
                         else match lookup (own_frame c lex :: S) (fst e) with
                              | None => None
                              | Some (bc, blex, bS, _) =>
                                  match elems f bc blex bS prefix (mods ++ flat_args (Some prefix) (snd e)) with
                                  | None => None
                                  | Some (bels, braw) => Some (e_update els bels, raw ++ braw)
                                  end
                              end
                     end) (c_exts c) (Some ([], [])) in
      match inherited with
      | None => None
      | Some (els, raw) =>
          Some (e_update els (map (fun s => (s, class_scope f c lex S, mods)) (c_syms c)), raw ++ c_eqs c)
      end
  end.

Section InstElems.
  Variable rec : cdef -> path -> scope -> path -> list mentry -> option (list flatvar * list eqn).   (* a whole sub-instance *)
  Variable ety : scope -> path -> option (option (path * list mentry)).
  Variable prefix : path.         (* the instance *)

  Fixpoint inst_elems (els : list elem) (vs : list flatvar) (es : list eqn) : option (list flatvar * list eqn) :=
    match els with
    | [] => Some (vs, es)
    | (s, sc, mods) :: els' =>
        let name := prefix ++ [s_name s] in
        let m := sub_mods (s_name s) mods ++ flat_args (Some prefix) (s_mods s) in
        let pre := drop_io prefix (s_prefixes s) in
        match ety sc (s_type s) with
        | None => None
        | Some (Some (t, am)) =>
            inst_elems els' (v_update vs [mkVar name t pre (s_dims s) (leaf_attrs (m ++ am))]) es
        | Some None =>
            match lookup sc (s_type s) with
            | None => None
            | Some (tc, tlex, tS, _) =>
                match rec tc tlex tS name m with
                | None => None
                | Some (svs, ses) => inst_elems els' (v_update vs (map (add_dims (s_dims s)) svs)) (es ++ ses)
                end
            end
        end
    end.
End InstElems.

(* a whole instance: its elements are instantiated in order (a leaf becomes a variable, a structured
   component a sub-instance); then the references written in this instance — in its equations, inherited
   ones included, and in the modifier expressions written in it — are resolved with its leaves *)
Fixpoint inst_go (fuel : nat) (c : cdef) (lex : path) (S : scope) (prefix : path) (mods : list mentry)
  : option (list flatvar * list eqn) :=
  match fuel with
  | O => None
  | S f =>
      match elems f c lex S prefix mods with
      | None => None
      | Some (els, raw) =>
          match inst_elems (inst_go f) (elem_type f) prefix els [] [] with
          | None => None
          | Some (vs, es) =>
              let leaves := map v_name vs in
              Some (map (resolve_var leaves prefix) vs, es ++ map (resolve_eqn leaves prefix) raw)
          end
      end
  end.

(* ---- the flat model.  Two conventions of the flat form (not part of the property): a declaration value
   of a variable that is neither parameter nor constant is an equation; a flow variable that no connect
   clause mentions is zero (C09's rule; this subset has no connect clauses). *)
Definition attr_value (v : flatvar) : option expr :=
  match find (fun aew => match aew with (a, _, _) => Pos.eqb a aValue end) (v_attrs v) with
  | Some (_, e, _) => Some e
  | None => None
  end.
Definition is_variable (v : flatvar) : bool :=
  negb (mem_id pParam (v_prefixes v) || mem_id pConstant (v_prefixes v)).
Definition conv_eqs (vs : list flatvar) : list eqn :=
  flat_map (fun v => if mem_id pFlow (v_prefixes v) then [(ERef (v_name v) [], ENum 0)] else []) vs ++
  flat_map (fun v => match attr_value v with
                     | Some e => if is_variable v then [(ERef (v_name v) [], e)] else []
                     | None => []
                     end) vs.
Definition conv_var (v : flatvar) : flatvar :=
  if is_variable v
  then mkVar (v_name v) (v_type v) (v_prefixes v) (v_dims v)
             (filter (fun aew => match aew with (a, _, _) => negb (Pos.eqb a aValue) end) (v_attrs v))
  else v.

Definition INST_FUEL : nat := 64.

Definition inst (root : list cdef) (top : path) : option (list flatvar * list eqn) :=
  match lookup (lex_scope root []) top with
  | None => None
  | Some (c, lex, Sp, _) =>
      match inst_go INST_FUEL c lex Sp [] [] with
      | None => None
      | Some (vs, es) => Some (map conv_var vs, es ++ conv_eqs vs)
      end
  end.
