(* C23 — proofs about Model/C23_index.v *)
From Coq Require Import ZArith List Bool Lia ZifyBool.
From PV Require Import Model.C23_index.
Import ListNotations.
Open Scope Z_scope.

(* ---- small list facts ------------------------------------------------------------------- *)
Lemma mapM_wrap_ok n l : Forall (fun k => 0 <= k < n) l -> mapM (ca_wrap n) l = Ok l.
Proof.
  induction 1 as [|x l Hx _ IH]; cbn [mapM]; [reflexivity|].
  unfold ca_wrap at 1.
  destruct ((x <? - n) || (n <=? x)) eqn:E; [lia|].
  destruct (x <? 0) eqn:E2; [lia|]. rewrite IH. reflexivity.
Qed.

Lemma all_in_Forall n l : all_in n l = true <-> Forall (fun k => 1 <= k <= n) l.
Proof.
  unfold all_in. rewrite forallb_forall, Forall_forall.
  split; intros H x Hx; specialize (H x Hx); unfold in1n in *; lia.
Qed.

Lemma all_in_false n l : all_in n l = false <-> ~ Forall (fun k => 1 <= k <= n) l.
Proof.
  rewrite <- all_in_Forall.
  destruct (all_in n l); split; intros H; try reflexivity; try discriminate;
    try (intro; discriminate).
  exfalso; apply H; reflexivity.
Qed.

Lemma map_pred_succ l : map (fun k => k + 1) (map (fun k => k - 1) l) = l.
Proof. rewrite map_map. rewrite <- (map_id l) at 2. apply map_ext. intros; lia. Qed.

(* ---- pyrange ----------------------------------------------------------------------------- *)
Lemma in_pyrange s e st k :
  In k (pyrange s e st) <-> exists i, 0 <= i < pylen s e st /\ k = s + i * st.
Proof.
  unfold pyrange. rewrite in_map_iff. split.
  - intros (j & <- & Hj). apply in_seq in Hj. exists (Z.of_nat j). split; [lia|reflexivity].
  - intros (i & Hi & ->). exists (Z.to_nat i). split.
    + rewrite Z2Nat.id by lia. reflexivity.
    + apply in_seq. lia.
Qed.

Lemma Forall_pyrange (P : Z -> Prop) s e st :
  (forall i, 0 <= i < pylen s e st -> P (s + i * st)) -> Forall P (pyrange s e st).
Proof.
  intros H. apply Forall_forall. intros k Hk. apply in_pyrange in Hk.
  destruct Hk as (i & Hi & ->). auto.
Qed.

Lemma pylen_shift d s e st : pylen (s + d) (e + d) st = pylen s e st.
Proof.
  unfold pylen.
  replace (e + d - (s + d)) with (e - s) by lia.
  replace (s + d - (e + d)) with (s - e) by lia.
  destruct (0 <? st); [|destruct (st <? 0)];
    destruct (s + d <? e + d) eqn:A, (s <? e) eqn:B; try lia; try reflexivity;
    destruct (e + d <? s + d) eqn:C, (e <? s) eqn:D; try lia; reflexivity.
Qed.

Lemma pyrange_shift d s e st :
  map (fun k => k + d) (pyrange s e st) = pyrange (s + d) (e + d) st.
Proof.
  unfold pyrange. rewrite map_map, pylen_shift. apply map_ext. intros; lia.
Qed.

Lemma pyrange_nil s e st : pylen s e st <= 0 -> pyrange s e st = [].
Proof. intros H. unfold pyrange. replace (Z.to_nat (pylen s e st)) with 0%nat by lia. reflexivity. Qed.

Lemma pylen_1 s e : pylen s e 1 = Z.max 0 (e - s).
Proof.
  unfold pylen. change (0 <? 1) with true. cbv iota.
  destruct (s <? e) eqn:E; [|lia]. rewrite Z.div_1_r. lia.
Qed.

Lemma pylen_nonneg s e st : 0 <= pylen s e st.
Proof.
  unfold pylen. destruct (0 <? st) eqn:A.
  - destruct (s <? e) eqn:B; [|lia]. apply Z.div_pos; lia.
  - destruct (st <? 0) eqn:C; [|lia]. destruct (e <? s) eqn:B; [|lia]. apply Z.div_pos; lia.
Qed.

(* head and last of a non-empty progression *)
Lemma last_map_seq (f : nat -> Z) k d : last (map f (seq 0 (S k))) d = f k.
Proof. rewrite seq_S, map_app. cbn [map]. apply last_last. Qed.

Lemma pyrange_cons s e st :
  0 < pylen s e st ->
  exists tl, pyrange s e st = s :: tl /\
             last (pyrange s e st) s = s + (pylen s e st - 1) * st.
Proof.
  intros H. unfold pyrange.
  destruct (Z.to_nat (pylen s e st)) as [|k] eqn:E; [lia|].
  split with (map (fun i => s + Z.of_nat i * st) (seq 1 k)). split.
  - cbn [seq map]. f_equal. lia.
  - rewrite last_map_seq. f_equal. f_equal. lia.
Qed.

(* every element of a progression lies between its first and its last element *)
Lemma prog_between s st L i :
  0 <= i < L ->
  Z.min s (s + (L - 1) * st) <= s + i * st <= Z.max s (s + (L - 1) * st).
Proof.
  intros H. destruct (Z_le_gt_dec 0 st).
  - assert (0 <= i * st) by (apply Z.mul_nonneg_nonneg; lia).
    assert (i * st <= (L - 1) * st) by (apply Z.mul_le_mono_nonneg_r; lia). lia.
  - assert (i * st <= 0) by (apply Z.mul_nonneg_nonpos; lia).
    assert ((L - 1) * st <= i * st) by (apply Z.mul_le_mono_nonpos_r; lia). lia.
Qed.

Lemma mul_pos st L : 0 < st -> 0 < L -> 0 <= (L - 1) * st.
Proof. intros. apply Z.mul_nonneg_nonneg; lia. Qed.
Lemma mul_neg st L : st < 0 -> 0 < L -> (L - 1) * st <= 0.
Proof. intros. apply Z.mul_nonneg_nonpos; lia. Qed.

(* ---- scalar subscripts --------------------------------------------------------------------- *)
Lemma index_int c n i : index c n (Int i) = modelica n (Int i).
Proof.
  cbn [index modelica]. unfold guard, all_in, in1n. cbn [forallb].
  destruct ((i <=? 0) || (n <? i)) eqn:E.
  - destruct ((1 <=? i) && (i <=? n) && true) eqn:F; [lia|reflexivity].
  - destruct ((1 <=? i) && (i <=? n) && true) eqn:F; [|lia].
    unfold ca_wrap. destruct ((i - 1 <? - n) || (n <=? i - 1)) eqn:G; [lia|].
    destruct (i - 1 <? 0) eqn:G2; [lia|]. cbn [rmap shift1 map]. do 2 f_equal. lia.
Qed.

(* ---- CasADi slices with normalised arguments -------------------------------------------- *)
Lemma ca_slice_nn n p q st : 0 <= p -> 0 <= q -> st <> 0 ->
  ca_slice n (Some p) (Some q) st =
    if n <? q then ErrB else
    if ((p <=? q) && (st <? 0)) || ((q <=? p) && (0 <? st)) then Ok [] else
    if n <=? p then ErrB else mapM (ca_wrap n) (pyrange p q st).
Proof.
  intros Hp Hq Hst. unfold ca_slice. cbv beta iota zeta.
  destruct (st =? 0) eqn:Z0; [lia|].
  destruct (p <? 0) eqn:A; [lia|]. destruct (q <? 0) eqn:B; [lia|].
  cbv iota. rewrite A. reflexivity.
Qed.

Lemma ca_slice_neg_none n p st : 0 <= p -> st < 0 ->
  ca_slice n (Some p) None st =
    if n <? -1 then ErrB else
    if ((p <=? -1) && (st <? 0)) || ((-1 <=? p) && (0 <? st)) then Ok [] else
    if n <=? p then ErrB else mapM (ca_wrap n) (pyrange p (-1) st).
Proof.
  intros Hp Hst. unfold ca_slice. cbv beta iota zeta.
  destruct (st =? 0) eqn:Z0; [lia|].
  destruct (p <? 0) eqn:A; [lia|]. destruct (st <? 0) eqn:B; [|lia].
  cbv iota. rewrite A. reflexivity.
Qed.

(* ---- slices, as coded: a:b with 1 <= a and 0 <= b <= n ------------------------------------ *)
Lemma ca_slice_pos n p q :
  0 <= p -> 0 <= q <= n ->
  shift1 (ca_slice n (Some p) (Some q) 1) = Ok (pyrange (p + 1) (q + 1) 1).
Proof.
  intros Hp Hq. rewrite ca_slice_nn by lia.
  change (1 <? 0) with false. change (0 <? 1) with true.
  destruct (n <? q) eqn:C; [lia|].
  rewrite andb_false_r, andb_true_r, orb_false_l.
  destruct (q <=? p) eqn:D.
  - cbn [shift1 rmap map]. rewrite pyrange_nil; [reflexivity|]. rewrite pylen_1. lia.
  - destruct (n <=? p) eqn:F; [lia|].
    rewrite mapM_wrap_ok.
    + cbn [shift1 rmap]. rewrite pyrange_shift. reflexivity.
    + apply Forall_pyrange. intros i Hi. rewrite pylen_1 in Hi. lia.
Qed.

Lemma guard_range_ok n a b :
  1 <= a -> b <= n -> guard n (pyrange a (b + 1) 1) = Ok (pyrange a (b + 1) 1).
Proof.
  intros Ha Hb. unfold guard.
  replace (all_in n (pyrange a (b + 1) 1)) with true; [reflexivity|].
  symmetry. apply all_in_Forall. apply Forall_pyrange. intros i Hi. rewrite pylen_1 in Hi. lia.
Qed.

(* ---- slices, repaired code: any step ------------------------------------------------------- *)
Lemma pylen_recompute_pos a st L :
  0 < st -> 0 < L -> pylen (a - 1) (a + (L - 1) * st) st = L.
Proof.
  intros Hs HL. unfold pylen. destruct (0 <? st) eqn:A; [|lia].
  pose proof (mul_pos st L Hs HL).
  destruct (a - 1 <? a + (L - 1) * st) eqn:B; [|lia].
  replace (a + (L - 1) * st - (a - 1) + st - 1) with (L * st) by lia.
  apply Z.div_mul. lia.
Qed.

Lemma pylen_recompute_neg a st L :
  st < 0 -> 0 < L -> pylen (a - 1) (a + (L - 1) * st - 2) st = L.
Proof.
  intros Hs HL. unfold pylen. destruct (0 <? st) eqn:A; [lia|].
  destruct (st <? 0) eqn:A2; [|lia].
  pose proof (mul_neg st L Hs HL).
  destruct (a + (L - 1) * st - 2 <? a - 1) eqn:B; [|lia].
  replace (a - 1 - (a + (L - 1) * st - 2) - st - 1) with (L * - st) by lia.
  apply Z.div_mul. lia.
Qed.

(* the slice the repaired code hands to CasADi selects exactly the progression a, a+st, ... *)
Lemma progression_via_casadi n a st L q :
  st <> 0 -> 0 < L -> pylen (a - 1) q st = L ->
  (forall i, 0 <= i < L -> 1 <= a + i * st <= n) ->
  shift1 (mapM (ca_wrap n) (pyrange (a - 1) q st)) =
  Ok (map (fun i => a + Z.of_nat i * st) (seq 0 (Z.to_nat L))).
Proof.
  intros Hst HL Hlen Hin. rewrite mapM_wrap_ok.
  - cbn [shift1 rmap]. f_equal. unfold pyrange. rewrite map_map, Hlen.
    apply map_ext. intros; lia.
  - apply Forall_pyrange. rewrite Hlen. intros i Hi. specialize (Hin i Hi). lia.
Qed.

Lemma slice_checked c n a b st :
  chk_slice c = true -> st <> 0 -> 0 <= n ->
  slice_path c n a b st = guard n (mrange a st b).
Proof.
  intros Hc Hst Hn. unfold slice_path, mrange. rewrite Hc.
  destruct (st =? 0) eqn:Z0; [lia|]. cbv zeta.
  set (e := b + sgn1 st). set (L := pylen a e st).
  destruct (Z_le_gt_dec L 0) as [HL|HL].
  - (* empty range *)
    rewrite (pyrange_nil a e st HL). unfold guard. cbn [all_in forallb].
    rewrite ca_slice_nn by lia.
    destruct (n <? 0) eqn:A; [lia|].
    change (1 <? 0) with false. change (0 <? 1) with true. change (0 <=? 0) with true.
    reflexivity.
  - assert (HLpos : 0 < pylen a e st) by (fold L; lia).
    destruct (pyrange_cons a e st HLpos) as (tl & Hcons & Hlast).
    fold L in Hlast. set (pl := a + (L - 1) * st) in *.
    assert (Hbetween : forall i, 0 <= i < L -> Z.min a pl <= a + i * st <= Z.max a pl)
      by (intros; apply prog_between; assumption).
    assert (Hmem_a : In a (pyrange a e st)).
    { apply in_pyrange. exists 0. fold L. split; lia. }
    assert (Hmem_pl : In pl (pyrange a e st)).
    { apply in_pyrange. exists (L - 1). fold L. split; [lia|reflexivity]. }
    rewrite Hcons. cbv beta iota. rewrite <- Hcons. rewrite Hlast.
    destruct ((Z.min a pl <? 1) || (n <? Z.max a pl)) eqn:Chk.
    + (* an endpoint is outside: ValueError, and the guard fails too *)
      unfold guard. replace (all_in n (pyrange a e st)) with false; [reflexivity|].
      symmetry. apply all_in_false. rewrite Forall_forall. intros H.
      pose proof (H a Hmem_a). pose proof (H pl Hmem_pl). lia.
    + (* all selected elements inside 1..n *)
      assert (Hin : forall i, 0 <= i < L -> 1 <= a + i * st <= n).
      { intros i Hi. specialize (Hbetween i Hi). lia. }
      assert (Hall : Forall (fun k => 1 <= k <= n) (pyrange a e st)).
      { apply Forall_pyrange. fold L. exact Hin. }
      unfold guard. replace (all_in n (pyrange a e st)) with true
        by (symmetry; apply all_in_Forall; exact Hall).
      assert (Ha : 1 <= a <= n) by lia. assert (Hpl : 1 <= pl <= n) by lia.
      unfold pyrange. fold L.
      unfold sgn1. destruct (0 <? st) eqn:Pos.
      * (* positive step: slice(a-1, pl, st) *)
        replace (pl - 1 + 1) with pl by lia.
        destruct (pl <? 0) eqn:N1; [lia|].
        rewrite ca_slice_nn by lia.
        destruct (n <? pl) eqn:N3; [lia|].
        destruct (st <? 0) eqn:N4; [lia|]. rewrite Pos.
        rewrite andb_false_r, andb_true_r, orb_false_l.
        assert (a <= pl) by (pose proof (mul_pos st L ltac:(lia) ltac:(lia)); subst pl; lia).
        destruct (pl <=? a - 1) eqn:N5; [lia|].
        destruct (n <=? a - 1) eqn:N6; [lia|].
        apply progression_via_casadi; try assumption; try lia.
        subst pl. apply pylen_recompute_pos; lia.
      * (* negative step: slice(a-1, pl-2 or None, st) *)
        assert (Neg : st < 0) by lia.
        assert (pl <= a) by (pose proof (mul_neg st L Neg ltac:(lia)); subst pl; lia).
        assert (HL' : pylen (a - 1) (pl - 2) st = L) by (subst pl; apply pylen_recompute_neg; lia).
        destruct (pl - 1 + -1 <? 0) eqn:N1.
        -- assert (pl = 1) by lia.
           rewrite ca_slice_neg_none by lia.
           destruct (n <? -1) eqn:N3; [lia|].
           destruct (st <? 0) eqn:N4; [|lia]. rewrite Pos.
           rewrite andb_true_r, andb_false_r, orb_false_r.
           destruct (a - 1 <=? -1) eqn:N5; [lia|].
           destruct (n <=? a - 1) eqn:N6; [lia|].
           apply progression_via_casadi; try assumption; try lia.
           replace (-1) with (pl - 2) by lia. exact HL'.
        -- rewrite ca_slice_nn by lia.
           replace (pl - 1 + -1) with (pl - 2) by lia.
           destruct (n <? pl - 2) eqn:N3; [lia|].
           destruct (st <? 0) eqn:N4; [|lia]. rewrite Pos.
           rewrite andb_true_r, andb_false_r, orb_false_r.
           destruct (a - 1 <=? pl - 2) eqn:N5; [lia|].
           destruct (n <=? a - 1) eqn:N6; [lia|].
           apply progression_via_casadi; try assumption; try lia.
Qed.

(* ---- loops --------------------------------------------------------------------------------- *)
(* when every index is inside 1..n CasADi returns exactly those elements *)
Lemma loop_tail_ok n idx :
  Forall (fun k => 1 <= k <= n) idx ->
  shift1 (mapM (ca_wrap n) (map (fun k => k - 1) idx)) = Ok idx.
Proof.
  intros H. rewrite mapM_wrap_ok.
  - cbn [shift1 rmap]. rewrite map_pred_succ. reflexivity.
  - rewrite Forall_map. eapply Forall_impl; [|exact H]. cbn beta. intros; lia.
Qed.

(* the implementation's outcome agrees with the specification, except that a legal EMPTY
   selection may be refused with a backend error (a map over zero loop values) *)
Definition agrees (impl spec : res (list Z)) : Prop :=
  impl = spec \/ (spec = Ok [] /\ impl = ErrB).

Lemma loopF_checked c n a stop st f bare :
  chk_loop c = true -> st <> 0 ->
  let values := pyrange a (if mod3 c then stop + sgn1 st else stop + st) st in
  agrees (loop_pathF c n a stop st f bare) (guard n (map f values)).
Proof.
  intros Hc Hst values. unfold loop_pathF. fold values. rewrite Hc.
  destruct (st =? 0) eqn:Z0; [lia|].
  destruct (negb bare && negb (empty_ok c) && match values with [] => true | _ => false end) eqn:E.
  - right. destruct values; [|rewrite andb_false_r in E; discriminate]. split; reflexivity.
  - left. cbn [andb]. unfold guard.
    destruct (all_in n (map f values)) eqn:A; cbn [negb]; [|reflexivity].
    apply loop_tail_ok. apply all_in_Forall. exact A.
Qed.

Lemma loop_checked c n a stop st off :
  chk_loop c = true -> st <> 0 ->
  let values := pyrange a (if mod3 c then stop + sgn1 st else stop + st) st in
  agrees (loop_path c n a stop st off) (guard n (map (fun v => v + off) values)).
Proof. intros Hc Hst. exact (loopF_checked c n a stop st (fun v => v + off) (off =? 0) Hc Hst). Qed.

(* with the empty-range repair the loop path is exactly the guarded Modelica selection *)
Lemma loopF_checked_exact c n a stop st f bare :
  chk_loop c = true -> empty_ok c = true -> st <> 0 ->
  loop_pathF c n a stop st f bare =
  guard n (map f (pyrange a (if mod3 c then stop + sgn1 st else stop + st) st)).
Proof.
  intros Hc He Hst. unfold loop_pathF. cbv zeta. rewrite Hc, He.
  destruct (st =? 0) eqn:Z0; [lia|].
  cbn [negb]. rewrite andb_false_r. cbn [andb]. unfold guard.
  destruct (all_in n (map f
             (pyrange a (if mod3 c then stop + sgn1 st else stop + st) st))) eqn:A;
    cbn [negb]; [|reflexivity].
  apply loop_tail_ok. apply all_in_Forall. exact A.
Qed.

Lemma loop_checked_exact c n a stop st off :
  chk_loop c = true -> empty_ok c = true -> st <> 0 ->
  loop_path c n a stop st off =
  guard n (map (fun v => v + off) (pyrange a (if mod3 c then stop + sgn1 st else stop + st) st)).
Proof. intros Hc He Hst. exact (loopF_checked_exact c n a stop st (fun v => v + off) (off =? 0) Hc He Hst). Qed.

Lemma loopF_in_range c n a b f bare :
  (forall i, a <= i <= b -> 1 <= f i <= n) -> (bare = true \/ a <= b) ->
  loop_pathF c n a b 1 f bare = guard n (map f (mrange a 1 b)).
Proof.
  intros Hin Hne. unfold loop_pathF, mrange. change (1 =? 0) with false. cbv iota.
  replace (if mod3 c then b + sgn1 1 else b + 1) with (b + 1)
    by (unfold sgn1; change (0 <? 1) with true; destruct (mod3 c); reflexivity).
  unfold sgn1. change (0 <? 1) with true. cbv iota. cbv zeta.
  assert (Hall : Forall (fun k => 1 <= k <= n) (map f (pyrange a (b + 1) 1))).
  { rewrite Forall_map. apply Forall_pyrange. intros i Hi. rewrite pylen_1 in Hi.
    apply Hin. lia. }
  destruct (negb bare && negb (empty_ok c) && match pyrange a (b + 1) 1 with [] => true | _ => false end) eqn:E.
  - exfalso. destruct Hne as [->|Hab]; [cbn in E; discriminate|].
    destruct (pyrange_cons a (b + 1) 1) as (tl & Hc & _); [rewrite pylen_1; lia|].
    rewrite Hc in E. rewrite andb_false_r in E. discriminate.
  - unfold guard. replace (all_in n (map f (pyrange a (b + 1) 1))) with true
      by (symmetry; apply all_in_Forall; exact Hall).
    rewrite andb_false_r. apply loop_tail_ok. exact Hall.
Qed.

Lemma loop_in_range c n a b off :
  (forall i, a <= i <= b -> 1 <= i + off <= n) -> (off = 0 \/ a <= b) ->
  loop_path c n a b 1 off = guard n (map (fun v => v + off) (mrange a 1 b)).
Proof.
  intros Hin Hne. unfold loop_path. apply (loopF_in_range c n a b (fun v => v + off) (off =? 0)).
  - exact Hin.
  - destruct Hne as [->|H]; [left; reflexivity|right; exact H].
Qed.

(* ---- the subscript classes ------------------------------------------------------------------ *)
Definition in_range (n : Z) (u : sub) : Prop :=
  match u with
  | Int _ => True
  | Colon => True
  | Sl a b => 1 <= a /\ 0 <= b <= n
  | LoopV a b off => (forall i, a <= i <= b -> 1 <= i + off <= n) /\ (off = 0 \/ a <= b)
  | LoopX a b e => (forall i, a <= i <= b -> 1 <= leval e i <= n) /\ (is_var e = true \/ a <= b)
  | Sl3 _ _ _ => False
  | LoopV3 _ _ _ _ => False
  | LoopX3 _ _ _ _ => False
  end.

Lemma colon_unchecked n : 0 <= n -> shift1 (ca_slice n None None 1) = Ok (mrange 1 1 n).
Proof.
  intros Hn. unfold ca_slice, mrange, sgn1. cbv beta iota zeta. change (1 =? 0) with false.
  change (1 <? 0) with false. change (0 <? 1) with true. cbv iota.
  destruct (n <? n) eqn:A; [lia|]. change (0 <? 0) with false. cbv iota.
  rewrite andb_false_r, andb_true_r, orb_false_l.
  destruct (n <=? 0) eqn:B.
  - cbn [shift1 rmap map]. rewrite pyrange_nil; [reflexivity|]. rewrite pylen_1. lia.
  - rewrite mapM_wrap_ok.
    + cbn [shift1 rmap]. rewrite pyrange_shift. reflexivity.
    + apply Forall_pyrange. intros i Hi. rewrite pylen_1 in Hi. lia.
Qed.

Lemma guard_colon n : guard n (mrange 1 1 n) = Ok (mrange 1 1 n).
Proof.
  unfold mrange, sgn1. change (0 <? 1) with true. cbv iota. apply guard_range_ok; lia.
Qed.

(* whatever the configuration: in-range two-part subscripts select the Modelica elements *)
Lemma index_in_range c n u : 0 <= n -> in_range n u -> index c n u = modelica n u.
Proof.
  intros Hn H. destruct u as [i| |a b|a b c3|a b off|a b c3 off|a b e|a b c3 e]; cbn [in_range] in H; try contradiction.
  - apply index_int.
  - cbn [index modelica]. destruct (chk_slice c) eqn:Hc.
    + rewrite slice_checked by (assumption || lia). apply guard_colon.
    + apply colon_unchecked. exact Hn.
  - cbn [index modelica]. destruct (chk_slice c) eqn:Hc.
    + apply slice_checked; (assumption || lia).
    + unfold slice_path. rewrite Hc. destruct H as (Ha & Hb).
      rewrite ca_slice_pos by lia. replace (a - 1 + 1) with a by lia.
      unfold mrange, sgn1. change (0 <? 1) with true. cbv iota.
      symmetry. apply guard_range_ok; lia.
  - cbn [index modelica]. destruct H as (H1 & H2). apply loop_in_range; assumption.
  - cbn [index modelica]. destruct H as (H1 & H2). apply loopF_in_range; assumption.
Qed.

(* repaired code: every subscript *)
Definition wf (c : cfg) (u : sub) : Prop :=
  step_of u <> 0 /\ (three_part u = true -> mod3 c = true).

Lemma index_checked c n u :
  chk_slice c = true -> chk_loop c = true -> wf c u -> 0 <= n ->
  agrees (index c n u) (modelica n u).
Proof.
  intros Hs Hl (Hstep & H3) Hn.
  destruct u as [i| |a b|a b c3|a b off|a b c3 off|a b e|a b c3 e]; cbn [step_of three_part] in *.
  - left. apply index_int.
  - left. cbn [index modelica]. rewrite Hs. rewrite slice_checked by (assumption || lia).
    apply guard_colon.
  - left. cbn [index modelica]. apply slice_checked; (assumption || lia).
  - left. cbn [index modelica]. rewrite (H3 eq_refl). apply slice_checked; assumption.
  - cbn [index modelica]. pose proof (loop_checked c n a b 1 off Hl ltac:(lia)) as H.
    cbv zeta in H. unfold mrange.
    replace (if mod3 c then b + sgn1 1 else b + 1) with (b + sgn1 1) in H
      by (unfold sgn1; change (0 <? 1) with true; destruct (mod3 c); reflexivity).
    exact H.
  - cbn [index modelica]. rewrite (H3 eq_refl).
    pose proof (loop_checked c n a c3 b off Hl Hstep) as H.
    cbv zeta in H. rewrite (H3 eq_refl) in H. exact H.
  - cbn [index modelica]. pose proof (loopF_checked c n a b 1 (leval e) (is_var e) Hl ltac:(lia)) as H.
    cbv zeta in H. unfold mrange.
    replace (if mod3 c then b + sgn1 1 else b + 1) with (b + sgn1 1) in H
      by (unfold sgn1; change (0 <? 1) with true; destruct (mod3 c); reflexivity).
    exact H.
  - cbn [index modelica]. rewrite (H3 eq_refl).
    pose proof (loopF_checked c n a c3 b (leval e) (is_var e) Hl Hstep) as H.
    cbv zeta in H. rewrite (H3 eq_refl) in H. exact H.
Qed.

Lemma two_part_wf c u : three_part u = false -> wf c u.
Proof.
  intros H. split; [destruct u; cbn in *; (discriminate || lia)|rewrite H; discriminate].
Qed.

Lemma index_checked_exact c n u :
  chk_slice c = true -> chk_loop c = true -> empty_ok c = true -> wf c u -> 0 <= n ->
  index c n u = modelica n u.
Proof.
  intros Hs Hl He (Hstep & H3) Hn.
  destruct u as [i| |a b|a b c3|a b off|a b c3 off|a b e|a b c3 e]; cbn [step_of three_part] in *.
  - apply index_int.
  - cbn [index modelica]. rewrite Hs. rewrite slice_checked by (assumption || lia).
    apply guard_colon.
  - cbn [index modelica]. apply slice_checked; (assumption || lia).
  - cbn [index modelica]. rewrite (H3 eq_refl). apply slice_checked; assumption.
  - cbn [index modelica]. pose proof (loop_checked_exact c n a b 1 off Hl He ltac:(lia)) as H.
    unfold mrange.
    replace (if mod3 c then b + sgn1 1 else b + 1) with (b + sgn1 1) in H
      by (unfold sgn1; change (0 <? 1) with true; destruct (mod3 c); reflexivity).
    exact H.
  - cbn [index modelica]. rewrite (H3 eq_refl).
    pose proof (loop_checked_exact c n a c3 b off Hl He Hstep) as H.
    rewrite (H3 eq_refl) in H. exact H.
  - cbn [index modelica].
    pose proof (loopF_checked_exact c n a b 1 (leval e) (is_var e) Hl He ltac:(lia)) as H.
    unfold mrange.
    replace (if mod3 c then b + sgn1 1 else b + 1) with (b + sgn1 1) in H
      by (unfold sgn1; change (0 <? 1) with true; destruct (mod3 c); reflexivity).
    exact H.
  - cbn [index modelica]. rewrite (H3 eq_refl).
    pose proof (loopF_checked_exact c n a c3 b (leval e) (is_var e) Hl He Hstep) as H.
    rewrite (H3 eq_refl) in H. exact H.
Qed.

(* consequences of `agrees` *)
Lemma agrees_sound impl spec l : agrees impl spec -> impl = Ok l -> spec = Ok l.
Proof. intros [->|(-> & ->)] H; [exact H|discriminate]. Qed.

Lemma agrees_reject impl spec : agrees impl spec -> spec = ErrV -> impl = ErrV.
Proof. intros [->|(-> & ->)] H; [exact H|discriminate]. Qed.

Lemma agrees_complete impl spec l : agrees impl spec -> spec = Ok l -> l <> [] -> impl = Ok l.
Proof. intros [->|(-> & ->)] H Hl; [exact H|]. injection H as <-. contradiction. Qed.

(* two dimensions: an accepted pair of subscripts selects the product of the Modelica selections *)
Lemma index2_sound c n m u v l :
  chk_slice c = true -> chk_loop c = true -> wf c u -> wf c v -> 0 <= n -> 0 <= m ->
  index2 c n m u v = Ok l -> modelica2 n m u v = Ok l.
Proof.
  intros Hs Hl Hu Hv Hn Hm. unfold index2, modelica2.
  pose proof (index_checked c n u Hs Hl Hu Hn) as A1.
  pose proof (index_checked c m v Hs Hl Hv Hm) as A2.
  destruct ((is_loop u && (loop_step c u =? 0)) || (is_loop v && (loop_step c v =? 0))); [discriminate|].
  destruct (index c n u) as [l1| |] eqn:E1, (index c m v) as [l2| |] eqn:E2;
    try (destruct (Z.odd _); discriminate).
  rewrite (agrees_sound _ _ l1 A1 eq_refl), (agrees_sound _ _ l2 A2 eq_refl). auto.
Qed.

(* ---- subscripts on a scalar symbol ---------------------------------------------------------- *)
Lemma scalar_rejected c k u :
  (is_loop u = true -> loop_step c u <> 0) ->
  (bare_loop u = false \/ chk_scalar_loop c = true) ->
  index_scalar c k u = modelica_scalar u.
Proof.
  intros Hs Hb. unfold index_scalar, modelica_scalar.
  assert (E1 : is_loop u && (loop_step c u =? 0) = false).
  { destruct (is_loop u); [|reflexivity]. cbn [andb]. specialize (Hs eq_refl). lia. }
  rewrite E1.
  assert (E2 : bare_loop u && negb (chk_scalar_loop c) = false).
  { destruct Hb as [-> | ->]; [reflexivity|cbn [negb]; apply andb_false_r]. }
  rewrite E2. reflexivity.
Qed.

(* ---- several consecutive for-equations ------------------------------------------------------- *)
Lemma multi_checked_exact c n us :
  chk_slice c = true -> chk_loop c = true -> empty_ok c = true ->
  Forall (wf c) us -> 0 <= n ->
  index_multi c n us = modelica_multi n us.
Proof.
  intros Hs Hl He Hw Hn. unfold index_multi, modelica_multi. f_equal.
  apply map_ext_in. intros u Hu. rewrite Forall_forall in Hw.
  apply index_checked_exact; auto.
Qed.

(* ---- nested for-equations ------------------------------------------------------------------- *)
Lemma nested_checked_exact c n oa ob u shadow :
  chk_slice c = true -> chk_loop c = true -> empty_ok c = true -> wf c u -> 0 <= n ->
  index_nested c n oa ob u shadow = modelica_nested n oa ob u.
Proof.
  intros Hs Hl He Hw Hn. unfold index_nested, modelica_nested.
  rewrite (index_checked_exact c n u Hs Hl He Hw Hn). reflexivity.
Qed.

Lemma nested_rejected c n oa ob u shadow :
  chk_slice c = true -> chk_loop c = true -> empty_ok c = true -> wf c u -> 0 <= n ->
  modelica n u = ErrV -> index_nested c n oa ob u shadow = ErrV.
Proof.
  intros Hs Hl He Hw Hn H. rewrite (nested_checked_exact c n oa ob u shadow Hs Hl He Hw Hn).
  unfold modelica_nested. rewrite H. reflexivity.
Qed.

Lemma nested_accepted c n oa ob u shadow l :
  chk_slice c = true -> chk_loop c = true -> empty_ok c = true -> wf c u -> 0 <= n ->
  index_nested c n oa ob u shadow = Ok l ->
  exists l0, modelica n u = Ok l0 /\ l = repeat_app (outer_count oa ob) l0.
Proof.
  intros Hs Hl He Hw Hn H. rewrite (nested_checked_exact c n oa ob u shadow Hs Hl He Hw Hn) in H.
  unfold modelica_nested in H. destruct (modelica n u) as [l0| |]; try discriminate.
  cbn [rmap] in H. injection H as <-. exists l0. split; reflexivity.
Qed.
