(* C19 — proofs about Model/C19_cache.v: load (save m) is observationally m. *)
From Coq Require Import List Bool Arith QArith Qcanon Lia.
From PV Require Import Model.C19_cache.
Import ListNotations.
Open Scope nat_scope.

(* ---- evaluation depends only on the symbols that occur ------------------------------------ *)
Lemma eval_ext rho1 rho2 e :
  (forall i, In i (vars e) -> rho1 i = rho2 i) -> eval rho1 e = eval rho2 e.
Proof.
  induction e; cbn [eval vars]; intros H; try reflexivity.
  - apply H; left; reflexivity.
  - rewrite IHe by assumption; reflexivity.
  - rewrite IHe by assumption; reflexivity.
  - rewrite IHe by assumption; reflexivity.
  - rewrite IHe1, IHe2; auto; intros; apply H; apply in_or_app; auto.
  - rewrite IHe1, IHe2; auto; intros; apply H; apply in_or_app; auto.
  - rewrite IHe1, IHe2; auto; intros; apply H; apply in_or_app; auto.
  - rewrite IHe1, IHe2; auto; intros; apply H; apply in_or_app; auto.
  - rewrite IHe1, IHe2; auto; intros; apply H; apply in_or_app; auto.
Qed.

Lemma eval_closed rho1 rho2 e : vars e = [] -> eval rho1 e = eval rho2 e.
Proof. intros H; apply eval_ext; rewrite H; intros i []. Qed.

Lemma eval_subst rho s e : eval rho (subst s e) = eval (fun i => eval rho (s i)) e.
Proof.
  induction e; cbn [eval subst]; try reflexivity;
    try (rewrite IHe; reflexivity); rewrite IHe1, IHe2; reflexivity.
Qed.

Lemma eval_constv rho v : eval rho (constv v) = v.
Proof. destruct v; reflexivity. Qed.

Lemma has_sym_false e : has_sym e = false -> vars e = [].
Proof. unfold has_sym; destruct (vars e); [reflexivity | discriminate]. Qed.

Lemma has_sym_true e : has_sym e = true -> exists i, In i (vars e).
Proof. unfold has_sym; destruct (vars e) as [|i l]; [discriminate | exists i; left; reflexivity]. Qed.

(* ---- classification is sound ---------------------------------------------------------------- *)
Lemma classify_independent a :
  classify a = MX_INDEPENDENT ->
  exists es, a = MX es /\ forall e, In e es -> vars e = [] /\ forall rho, eval rho e = eval nanrho e.
Proof.
  destruct a as [p|es]; cbn [classify]; [discriminate|].
  destruct (existsb has_sym es) eqn:E; [discriminate|]; intros _.
  exists es; split; [reflexivity|]; intros e He.
  assert (Hv : vars e = []).
  { apply has_sym_false. destruct (has_sym e) eqn:Hs; [|reflexivity].
    assert (existsb has_sym es = true) by (apply existsb_exists; exists e; auto). congruence. }
  split; [assumption | intros rho; apply eval_closed; assumption].
Qed.

Lemma classify_dependent a :
  classify a = MX_DEPENDENT -> exists es e i, a = MX es /\ In e es /\ In i (vars e).
Proof.
  destruct a as [p|es]; cbn [classify]; [discriminate|].
  destruct (existsb has_sym es) eqn:E; [|discriminate]; intros _.
  apply existsb_exists in E; destruct E as (e & He & Hs).
  destruct (has_sym_true e Hs) as (i & Hi). exists es, e, i; auto.
Qed.

Lemma classify_not_mx a : classify a = NOT_MX -> exists p, a = Py p.
Proof.
  destruct a as [p|es]; cbn [classify]; [intros _; exists p; reflexivity|].
  destruct (existsb has_sym es); discriminate.
Qed.

(* ---- list helpers ----------------------------------------------------------------------------- *)
Lemma bcast_length n es : length es = 1 \/ length es = n -> length (bcast n es) = n.
Proof.
  intros [H|H].
  - destruct es as [|e [|e' es]]; try discriminate. cbn. apply repeat_length.
  - destruct es as [|e [|e' es]]; cbn [bcast]; try assumption.
    cbn in H; subst n; reflexivity.
Qed.

Lemma bcast_id n l : length l = n -> bcast n l = l.
Proof. intros H. destruct l as [|e [|e' l]]; cbn [bcast]; try reflexivity. cbn in H; subst n; reflexivity. Qed.

Lemma map_nth_seq {A} (l : list A) (d : A) : map (fun k => nth k l d) (seq 0 (length l)) = l.
Proof.
  induction l as [|x l IH]; [reflexivity|].
  cbn [length seq map nth]. f_equal. rewrite <- seq_shift, map_map. exact IH.
Qed.

Lemma map_seq_nth {A B} (h : A -> B) (l : list A) (d : A) : forall (g : nat -> B),
  (forall k, k < length l -> g k = h (nth k l d)) -> map g (seq 0 (length l)) = map h l.
Proof.
  induction l as [|x l IH]; intros g H; [reflexivity|].
  cbn [length seq map]. f_equal.
  - apply (H 0). cbn; lia.
  - rewrite <- seq_shift, map_map. apply IH. intros k Hk. apply (H (S k)). cbn; lia.
Qed.

Lemma map_seq_shift {A} (g : nat -> A) row n : map g (seq row n) = map (fun k => g (row + k)) (seq 0 n).
Proof.
  revert row; induction n as [|n IH]; intros row; [reflexivity|].
  cbn [seq map]. rewrite Nat.add_0_r. f_equal.
  rewrite IH. rewrite <- seq_shift, map_map. apply map_ext; intros k. f_equal; lia.
Qed.

Lemma nth_map_seq {A} (g : nat -> A) n k d : k < n -> nth k (map g (seq 0 n)) d = g k.
Proof.
  intros H. rewrite nth_indep with (d' := g 0) by (rewrite map_length, seq_length; assumption).
  rewrite map_nth. rewrite seq_nth by assumption. reflexivity.
Qed.

Lemma memb_In i l : memb i l = true <-> In i l.
Proof.
  unfold memb; rewrite existsb_exists; split.
  - intros (x & Hx & E). apply Nat.eqb_eq in E; subst; assumption.
  - intros H; exists i; split; [assumption | apply Nat.eqb_refl].
Qed.

(* ---- observational equivalence ----------------------------------------------------------------- *)
Definition attr_equiv (n : nat) (a' a : attr) : Prop :=
  match a', a with
  | Py p', Py p => p' = p
  | MX es', MX es => forall rho, map (eval rho) (bcast n es') = map (eval rho) (bcast n es)
  | _, _ => False
  end.

Definition var_static (v : var) := (vname v, vshape v, vptype v, valiases v).

Definition var_equiv (v' v : var) : Prop :=
  var_static v' = var_static v /\ Forall2 (attr_equiv (numel (vshape v))) (vattrs v') (vattrs v).

Definition delay_equiv (a b : expr * expr) : Prop :=
  forall rho, eval rho (fst a) = eval rho (fst b) /\ eval rho (snd a) = eval rho (snd b).

Definition wf_attr (n : nat) (a : attr) : Prop :=
  match a with Py _ => True | MX es => length es = 1 \/ length es = n end.
Definition wf_var (v : var) : Prop := Forall (wf_attr (numel (vshape v))) (vattrs v).
Definition py_only (v : var) : Prop := Forall (fun a => is_py a = true) (vattrs v).
Definition wf (m : model) : Prop :=
  Forall (Forall wf_var) (m_meta m) /\ Forall py_only (m_der m).

Definition topy (a : attr) : pyval := match a with Py p => p | MX _ => py_none end.

(* ---- attributes of one variable -------------------------------------------------------------- *)
Lemma load_attrs_spec f c row n attrs : forall j0,
  Forall (wf_attr n) attrs ->
  (forall rho k j a, k < n -> nth_error attrs j = Some a ->
     call_meta f rho c (row + k) (j0 + j) = eval rho (cell_of n k a)) ->
  Forall2 (attr_equiv n) (load_attrs f c row n j0 (map classify attrs) (map Py (map topy attrs))) attrs.
Proof.
  induction attrs as [|a attrs IH]; intros j0 Hwf H; [constructor|].
  cbn [map load_attrs]. inversion Hwf as [|? ? Ha Hwf']; subst. constructor.
  - assert (H0 : forall rho k, k < n -> call_meta f rho c (row + k) j0 = eval rho (cell_of n k a)).
    { intros rho k Hk. specialize (H rho k 0 a Hk eq_refl). rewrite Nat.add_0_r in H. exact H. }
    unfold load_attr. destruct (classify a) eqn:E.
    + destruct (classify_not_mx a E) as (p & ->). cbn. reflexivity.
    + destruct (classify_dependent a E) as (es & _ & _ & -> & _). cbn [attr_equiv]. intros rho.
      rewrite bcast_id by (rewrite map_length, seq_length; reflexivity).
      rewrite map_map. rewrite map_seq_shift.
      cbn [wf_attr] in Ha.
      pose proof (bcast_length n es Ha) as HL.
      rewrite <- HL at 1. apply map_seq_nth with (d := CNaN). intros k Hk. rewrite HL in Hk.
      change (eval rho (cellexpr f c (row + k) j0)) with (call_meta f rho c (row + k) j0).
      rewrite H0 by lia. reflexivity.
    + destruct (classify_independent a E) as (es & -> & Hes). cbn [attr_equiv]. intros rho.
      rewrite bcast_id by (rewrite map_length, seq_length; reflexivity).
      rewrite map_map. rewrite map_seq_shift.
      cbn [wf_attr] in Ha.
      pose proof (bcast_length n es Ha) as HL.
      rewrite <- HL at 1. apply map_seq_nth with (d := CNaN). intros k Hk. rewrite HL in Hk.
      rewrite eval_constv. rewrite H0 by lia. cbn [cell_of].
      apply eval_closed.
      assert (Hin : In (nth k (bcast n es) CNaN) (bcast n es)).
      { apply nth_In. rewrite (bcast_length n es Ha). lia. }
      assert (Hsub : forall e, In e (bcast n es) -> In e es).
      { intros e He. destruct es as [|e0 [|e1 es']]; cbn [bcast] in He; try assumption.
        apply repeat_spec in He; subst; left; reflexivity. }
      apply Hes. apply Hsub. exact Hin.
  - apply IH; [assumption|]. intros rho k j a' Hk Hj.
    replace (S j0 + j) with (j0 + S j) by lia. apply H; assumption.
Qed.

(* ---- variables of one category ---------------------------------------------------------------- *)
Lemma nth_rows_of v k : k < numel (vshape v) ->
  nth k (rows_of v) [] = map (cell_of (numel (vshape v)) k) (vattrs v).
Proof. intros H. unfold rows_of. rewrite nth_map_seq by assumption. reflexivity. Qed.

Lemma rows_of_length v : length (rows_of v) = numel (vshape v).
Proof. unfold rows_of. rewrite map_length, seq_length. reflexivity. Qed.

Lemma load_vars_spec f c vs : forall row,
  Forall wf_var vs ->
  (forall rho r j, call_meta f rho c (row + r) j = eval rho (nth j (nth r (meta_matrix vs) []) CNaN)) ->
  Forall2 var_equiv
    (load_vars f c row (map to_dict vs) (map (fun v => map classify (vattrs v)) vs)) vs.
Proof.
  induction vs as [|v vs IH]; intros row Hwf H; [constructor|].
  cbn [map load_vars]. inversion Hwf as [|? ? Hv Hwf']; subst. constructor.
  - split; [reflexivity|]. cbn [vshape vattrs from_dict to_dict d_shape d_attrs].
    apply (load_attrs_spec f c row (numel (vshape v)) (vattrs v) 0 Hv).
    intros rho k j a Hk Hj. cbn [Nat.add]. rewrite H.
    unfold meta_matrix. cbn [flat_map].
    rewrite app_nth1 by (rewrite rows_of_length; assumption).
    rewrite nth_rows_of by assumption.
    apply nth_error_split in Hj. destruct Hj as (l1 & l2 & -> & <-).
    rewrite map_app. cbn [map]. rewrite app_nth2 by (rewrite map_length; lia).
    rewrite map_length, Nat.sub_diag. reflexivity.
  - cbn [to_dict d_shape]. apply IH; [assumption|].
    intros rho r j. rewrite <- Nat.add_assoc. rewrite H.
    unfold meta_matrix at 1. cbn [flat_map].
    rewrite app_nth2 by (rewrite rows_of_length; lia).
    rewrite rows_of_length. replace (numel (vshape v) + r - numel (vshape v)) with r by lia.
    reflexivity.
Qed.

Lemma load_cats_spec f cats : forall c0,
  Forall (Forall wf_var) cats ->
  (forall rho i r j, call_meta f rho (c0 + i) r j =
                     eval rho (nth j (nth r (meta_matrix (nth i cats [])) []) CNaN)) ->
  Forall2 (Forall2 var_equiv)
    (load_cats f c0 (map (map to_dict) cats) (map (map (fun v => map classify (vattrs v))) cats)) cats.
Proof.
  induction cats as [|vs cats IH]; intros c0 Hwf H; [constructor|].
  cbn [map load_cats]. inversion Hwf as [|? ? Hv Hwf']; subst. constructor.
  - apply load_vars_spec; [assumption|]. intros rho r j. cbn [Nat.add].
    specialize (H rho 0 r j). rewrite Nat.add_0_r in H. exact H.
  - apply IH; [assumption|]. intros rho i r j.
    replace (S c0 + i) with (c0 + S i) by lia. apply H.
Qed.

Lemma from_to_dict v : py_only v -> from_dict (to_dict v) = v.
Proof.
  destruct v as [nm sh pt al attrs]. unfold py_only, from_dict, to_dict; cbn. intros H. f_equal.
  induction attrs as [|a attrs IH]; [reflexivity|]. inversion H as [|? ? Ha H']; subst.
  cbn [map]. f_equal; [|apply IH; assumption]. destruct a; [reflexivity | discriminate].
Qed.

(* ---- delay arguments ---------------------------------------------------------------------------- *)
Lemma keep_agrees rho l i : In i l -> eval rho (keep l i) = rho i.
Proof. intros H. unfold keep. apply memb_In in H. rewrite H. reflexivity. Qed.

Lemma load_delays_spec union : forall orig raw alen,
  Forall2 delay_equiv raw orig ->
  (forall d, In d orig -> incl (vars (snd d)) union) ->
  Forall2 delay_equiv (load_delays union alen raw (map dur_deps orig)) orig.
Proof.
  induction orig as [|[e0 d0] orig IH]; intros raw alen HR Hu.
  - inversion HR; subst. constructor.
  - inversion HR as [|[e d] ? raw' ? Hhd Htl]; subst. cbn [map load_delays].
    assert (Hu' : forall d, In d orig -> incl (vars (snd d)) union) by (intros; apply Hu; right; assumption).
    assert (Hin0 : incl (vars d0) union) by (apply (Hu (e0, d0)); left; reflexivity).
    change (dur_deps (e0, d0)) with (nodup Nat.eq_dec (vars d0)).
    destruct (nodup Nat.eq_dec (vars d0)) as [|i0 dp] eqn:E.
    + constructor; [|apply IH; assumption].
      intros rho; cbn [fst snd]; split; [apply Hhd|].
      rewrite eval_constv. destruct (Hhd nanrho) as [_ Hd]. cbn [snd] in Hd. rewrite Hd.
      apply eval_ext. intros i Hi. apply (nodup_In Nat.eq_dec) in Hi. rewrite E in Hi. destruct Hi.
    + assert (Hdp : forall i, In i (vars d0) -> In i (i0 :: dp)).
      { intros i Hi. rewrite <- E. apply nodup_In. assumption. }
      destruct (length (i0 :: dp) <? alen).
      * constructor; [|apply IH; assumption].
        intros rho; cbn [fst snd]; split; [apply Hhd|].
        rewrite !eval_subst.
        destruct (Hhd (fun i => eval (fun i1 => eval rho (keep (i0 :: dp) i1)) (keep union i))) as [_ Hd].
        cbn [snd] in Hd. rewrite Hd.
        apply eval_ext. intros i Hi.
        unfold keep at 2. assert (Hm : memb i union = true) by (apply memb_In; apply Hin0; assumption).
        rewrite Hm. cbn [eval]. apply keep_agrees. apply Hdp; assumption.
      * constructor; [|apply IH; assumption].
        intros rho; cbn [fst snd]; split; [apply Hhd|].
        rewrite eval_subst.
        destruct (Hhd (fun i => eval rho (keep union i))) as [_ Hd]. cbn [snd] in Hd. rewrite Hd.
        apply eval_ext. intros i Hi. apply keep_agrees. apply Hin0; assumption.
Qed.

Lemma union_covers (orig : list (expr * expr)) d :
  In d orig -> incl (vars (snd d)) (nodup Nat.eq_dec (concat (map dur_deps orig))).
Proof.
  intros Hd i Hi. apply nodup_In. apply in_concat. exists (dur_deps d). split.
  - apply in_map; assumption.
  - unfold dur_deps. apply nodup_In. assumption.
Qed.

(* ---- the round trip ------------------------------------------------------------------------------- *)
Section Roundtrip.
  (* serialisation of CasADi Functions (pickle, or CodeGenerator + C compiler + ca.external):
     trusted to produce a function that evaluates like the original *)
  Variable pkm : mfun -> mfun.
  Variable pkd : list (expr * expr) -> list (expr * expr).
  Hypothesis pkm_ok : forall f rho c r j, call_meta (pkm f) rho c r j = call_meta f rho c r j.
  Hypothesis pkd_ok : forall f, Forall2 delay_equiv (pkd f) f.

  Definition obs_equiv (l m : model) : Prop :=
    Forall2 (Forall2 var_equiv) (m_meta l) (m_meta m) /\
    m_der l = m_der m /\
    m_outputs l = m_outputs m /\ m_delay_states l = m_delay_states m /\
    m_strings l = m_strings m /\ m_alias l = m_alias m /\
    Forall2 delay_equiv (m_delays l) (m_delays m).

  Theorem roundtrip m : wf m -> obs_equiv (load pkm pkd (save m)) m.
  Proof.
    intros [Hmeta Hder]. unfold obs_equiv, load, save; cbn.
    split; [|split; [|repeat split]].
    - apply load_cats_spec; [assumption|]. intros rho i r j. cbn [Nat.add].
      rewrite pkm_ok. unfold call_meta, cellexpr, meta_fun.
      destruct (Nat.lt_ge_cases i (length (m_meta m))) as [Hi|Hi].
      + rewrite nth_indep with (d' := meta_matrix []) by (rewrite map_length; assumption).
        rewrite map_nth. reflexivity.
      + rewrite !nth_overflow with (n := i) by (try rewrite map_length; assumption).
        cbn. destruct r, j; reflexivity.
    - rewrite map_map. rewrite <- (map_id (m_der m)) at 2. apply map_ext_in.
      intros v Hv. apply from_to_dict. rewrite Forall_forall in Hder. apply Hder; assumption.
    - apply load_delays_spec; [apply pkd_ok|]. intros d Hd. apply union_covers; assumption.
  Qed.

  Theorem delay_arguments m : Forall2 delay_equiv (m_delays (load pkm pkd (save m))) (m_delays m).
  Proof.
    unfold load, save; cbn.
    apply load_delays_spec; [apply pkd_ok|]. intros d Hd. apply union_covers; assumption.
  Qed.
End Roundtrip.

(* ---- non-vacuity ---------------------------------------------------------------------------------- *)
Definition qz (n : Z) (d : positive) : Qc := Q2Qc (Qmake n d).

(* parameters p1, p2, pa[2] (flattened: Sym 0..3); state x(min = 2*p1, nominal = 6);
   alg_states v[2](each min = -p2, max = pa), k(min = pa[2]); two delays with different dependencies *)
Definition ex_model : model :=
  Model
    [ [ Var 1 (1, 1) 1 0 [Py 1; MX [Mul (Const (qz 2 1)) (Sym 0)]; Py 2; Py 3; Py 4; MX [Mul (Const (qz 2 1)) (Const (qz 3 1))]] ];
      [ Var 2 (2, 1) 1 0 [Py 1; MX [Neg (Sym 1)]; MX [Sym 2; Sym 3]; Py 3; Py 4; Py 5];
        Var 3 (1, 1) 2 0 [Py 1; MX [Sym 3]; Py 2; Py 3; Py 4; Py 5] ];
      [];
      [ Var 4 (1, 1) 1 0 [Py 6; Py 7; Py 2; Py 3; Py 4; Py 5]; Var 5 (1, 1) 1 0 [Py 1; Py 7; Py 2; Py 3; Py 4; Py 5];
        Var 6 (2, 1) 1 0 [Py 8; Py 7; Py 2; Py 3; Py 4; Py 5] ];
      [] ]
    [ Var 7 (1, 1) 1 0 [Py 1; Py 7; Py 2; Py 3; Py 4; Py 5] ]
    1 2 3 4
    [ (Sym 1, Mul (Const (qz 3 1)) (Sym 5)); (Sym 1, Add (Sym 6) (Const (qz 1 1))); (Sym 1, Const (qz 5 2)) ].

Lemma ex_wf : wf ex_model.
Proof.
  unfold wf, wf_var, py_only; cbn.
  split; repeat (apply Forall_cons || apply Forall_nil); cbn; auto.
Qed.

Definition ex_rho : nat -> V := fun i => Some (qz (Z.of_nat i + 1) 2).

Lemma example :
  wf ex_model /\
  db_dep (save ex_model) =
    [ [ [NOT_MX; MX_DEPENDENT; NOT_MX; NOT_MX; NOT_MX; MX_INDEPENDENT] ];
      [ [NOT_MX; MX_DEPENDENT; MX_DEPENDENT; NOT_MX; NOT_MX; NOT_MX];
        [NOT_MX; MX_DEPENDENT; NOT_MX; NOT_MX; NOT_MX; NOT_MX] ];
      []; [ [NOT_MX; NOT_MX; NOT_MX; NOT_MX; NOT_MX; NOT_MX]; [NOT_MX; NOT_MX; NOT_MX; NOT_MX; NOT_MX; NOT_MX];
            [NOT_MX; NOT_MX; NOT_MX; NOT_MX; NOT_MX; NOT_MX] ]; [] ] /\
  db_delay_dep (save ex_model) = [[5]; [6]; []] /\
  (* the Integer variable k after the array variable v reads ITS row: min = pa[2] = 2 at ex_rho *)
  list_eqb (list_eqb (list_eqb V_eqb))
    (map (fun v => map (attr_vals ex_rho (numel (vshape v))) (vattrs v))
         (nth 1 (m_meta (load (fun f => f) (fun f => f) (save ex_model))) []))
    [ [ []; [Some (qz (-1) 1); Some (qz (-1) 1)]; [Some (qz 3 2); Some (qz 2 1)]; []; []; [] ];
      [ []; [Some (qz 2 1)]; []; []; []; [] ] ] = true.
Proof. split; [exact ex_wf|]. vm_compute. repeat split. Qed.
