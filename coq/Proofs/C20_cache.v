(* C20 — proofs over Model/C20_cache.v: the cache invariant is inductive over every history,
   hence every Transfer returns the compile of the current sources/options/version. *)
From Coq Require Import ZArith List Bool Arith Lia.
From PV Require Import Model.C20_cache.
Import ListNotations.

(* ---------- options ---------- *)
Lemma get_set_other k k' v o : k <> k' -> get k (set k' v o) = get k o.
Proof.
  intros N. induction o as [|[k0 v0] o IH]; simpl.
  - destruct (Nat.eqb k k') eqn:E; [apply Nat.eqb_eq in E; contradiction | reflexivity].
  - destruct (Nat.eqb k' k0) eqn:E; simpl.
    + apply Nat.eqb_eq in E; subst k0.
      destruct (Nat.eqb k k') eqn:E'; [apply Nat.eqb_eq in E'; contradiction | reflexivity].
    + destruct (Nat.eqb k k0); [reflexivity | exact IH].
Qed.

Lemma effective_get k o : k <> K_cache -> k <> K_expand_mx -> get k (effective o) = get k o.
Proof.
  intros N1 N2. unfold effective.
  destruct (flag K_cache o && flag K_codegen o);
    match goal with |- context [if ?b then _ else _] => destruct b end;
    repeat rewrite get_set_other by assumption; reflexivity.
Qed.

Lemma effective_flag k o : k <> K_cache -> k <> K_expand_mx -> flag k (effective o) = flag k o.
Proof. intros. unfold flag. rewrite effective_get by assumption. reflexivity. Qed.

Lemma get_strip g k o : existsb (Nat.eqb k) (excl g) = false -> get k (strip g o) = get k o.
Proof.
  intros H. unfold strip. induction o as [|[k0 v0] o IH]; simpl; [reflexivity|].
  destruct (Nat.eqb k k0) eqn:E.
  - apply Nat.eqb_eq in E; subst k0.
    replace (existsb (Nat.eqb k) (excl g)) with false. simpl. rewrite Nat.eqb_refl. reflexivity.
  - destruct (negb (existsb (Nat.eqb k0) (excl g))); simpl; [rewrite E|]; exact IH.
Qed.

Lemma list_eqb_eq {A} (e : A -> A -> bool) :
  (forall x y, e x y = true -> x = y) -> forall a b, list_eqb e a b = true -> a = b.
Proof.
  intros He a. induction a as [|x a IH]; intros [|y b] H; simpl in H; try discriminate; [reflexivity|].
  apply andb_true_iff in H as [H1 H2]. f_equal; [apply He; exact H1 | apply IH; exact H2].
Qed.

Lemma opts_eqb_eq a b : opts_eqb a b = true -> a = b.
Proof.
  apply list_eqb_eq. intros [k v] [k' v'] H. simpl in H.
  apply andb_true_iff in H as [H1 H2]. apply Nat.eqb_eq in H1.
  apply (list_eqb_eq Nat.eqb) in H2; [subst; reflexivity|]. intros x y; apply Nat.eqb_eq.
Qed.

Lemma view_ext o1 o2 f : get K_library_folders o1 = get K_library_folders o2 -> view o1 f = view o2 f.
Proof. intros H. unfold view, inview, folders. rewrite H. reflexivity. Qed.

(* ---------- sources: how the tree may differ from the snapshot taken at the save ---------- *)
(* `ev cm snap f`: f is snap with some files rewritten in place and some files appended, every
   rewritten or appended file having an mtime strictly later than cm *)
Inductive ev (cm : Z) : fs -> fs -> Prop :=
| ev_nil tail : Forall (fun e => (fst (snd e) > cm)%Z) tail -> ev cm [] tail
| ev_same x s f : ev cm s f -> ev cm (x :: s) (x :: f)
| ev_chg p v w s f : (fst w > cm)%Z -> ev cm s f -> ev cm ((p, v) :: s) ((p, w) :: f).

Lemma ev_refl cm s : ev cm s s.
Proof. induction s; [apply ev_nil; constructor | apply ev_same; assumption]. Qed.

Lemma Forall_upd cm p v t :
  (fst v > cm)%Z -> Forall (fun e : path * (Z * nat) => (fst (snd e) > cm)%Z) t ->
  Forall (fun e : path * (Z * nat) => (fst (snd e) > cm)%Z) (upd p v t).
Proof.
  intros Hv H. induction H as [|[q w] t Hx Ht IH]; simpl.
  - constructor; [exact Hv | constructor].
  - destruct (path_eqb p q); constructor; first [assumption | exact Hv].
Qed.

Lemma ev_upd cm s f p v : (fst v > cm)%Z -> ev cm s f -> ev cm s (upd p v f).
Proof.
  intros Hv H. induction H as [tail Ht | [q w] s f H IH | q u w s f Hw H IH]; simpl.
  - apply ev_nil. apply Forall_upd; assumption.
  - destruct (path_eqb p q); [apply ev_chg; assumption | apply ev_same; exact IH].
  - destruct (path_eqb p q); apply ev_chg; assumption.
Qed.

Lemma newer_gt g m cm : (m > cm)%Z -> newer g m cm = true.
Proof. intros H. unfold newer. destruct (strict g); [apply Z.gtb_lt | apply Z.geb_le]; lia. Qed.

Lemma ev_view g o cm s f : ev cm s f -> mtime_ok g o cm f = true -> view o s = view o f.
Proof.
  unfold mtime_ok, view. intros H. induction H as [tail Ht | [q w] s f H IH | q u w s f Hw H IH]; simpl; intros M.
  - induction Ht as [|[q w] t Hx Ht IHt]; simpl in *; [reflexivity|].
    apply andb_true_iff in M as [M1 M2]. rewrite (newer_gt g _ _ Hx) in M1. simpl in M1.
    rewrite orb_false_r in M1. apply negb_true_iff in M1. rewrite M1. apply IHt. exact M2.
  - apply andb_true_iff in M as [M1 M2]. specialize (IH M2).
    destruct (inview o q); simpl; [f_equal|]; exact IH.
  - apply andb_true_iff in M as [M1 M2]. rewrite (newer_gt g _ _ Hw) in M1. simpl in M1.
    rewrite orb_false_r in M1. apply negb_true_iff in M1. rewrite M1. apply IH. exact M2.
Qed.

(* ---------- the invariant ---------- *)
Definition cfg_ok (g : cfg) : Prop :=
  vcheck g = true /\ forall k, In k (excl g) -> k = K_library_folders \/ k = K_verbose.

Lemma cfg_okb_ok g : cfg_okb g = true -> cfg_ok g.
Proof.
  unfold cfg_okb, cfg_ok. intros H. apply andb_true_iff in H as [H1 H2]. split; [exact H1|].
  intros k Hk. rewrite forallb_forall in H2. specialize (H2 k Hk).
  apply orb_true_iff in H2 as [E|E]; apply Nat.eqb_eq in E; auto.
Qed.

(* equality of compile results up to the `verbose` option *)
Definition res_equiv (r r' : cres) : Prop :=
  fst (fst r) = fst (fst r') /\ snd r = snd r' /\
  forall k, k <> K_verbose -> get k (snd (fst r)) = get k (snd (fst r')).

Lemma res_equiv_refl r : res_equiv r r.
Proof. repeat split. Qed.

(* what the property demands of one transfer_model call made in state s *)
Definition out_ok (fails : cres -> bool) (s : state) (r : out) : Prop :=
  match r with
  | Failed => fails (ideal s) = true              (* compiling the current sources raises *)
  | Served _ m => res_equiv m (ideal s)
  end.

Definition Inv (L : val) (s : state) : Prop :=
  get K_library_folders (copts s) = L /\ flag K_mtime_check (copts s) = true /\
  match cch s with
  | None => True
  | Some c =>
      get K_library_folders (c_opts c) = L /\
      ev (c_mtime c) (c_snap c) (files s) /\
      c_model c = (view (c_opts c) (c_snap c), c_opts c, c_version c)
  end.

(* the property's quantifier: every write gets an mtime strictly later than the cache file's;
   carving hypothesis: library_folders stays L; opt-out excluded: mtime_check stays on *)
Definition legal_op (L : option val) (s : state) (a : op) : Prop :=
  match a with
  | Edit _ m _ | Add _ m _ => match cch s with Some c => (m > c_mtime c)%Z | None => True end
  | SetOptions o =>
      flag K_mtime_check o = true /\
      match L with Some l => get K_library_folders o = l | None => True end
  | _ => True
  end.

Fixpoint legal (g : cfg) (fails : cres -> bool) (L : option val) (s : state) (ops : list op) : Prop :=
  match ops with
  | [] => True
  | a :: rest => legal_op L s a /\ legal g fails L (fst (step g fails s a)) rest
  end.

Lemma step_inv g fails L s a : Inv L s -> legal_op (Some L) s a -> Inv L (fst (step g fails s a)).
Proof.
  intros (I1 & I2 & I3) Hl. destruct a as [p m c | p m c | o | v | now]; simpl in *.
  1,2: (split; [exact I1 | split; [exact I2|]]; destruct (cch s) as [ch|]; [|exact I];
        destruct I3 as (J1 & J2 & J3); repeat split; try assumption; apply ev_upd; assumption).
  - destruct Hl as [H1 H2]. repeat split; assumption.
  - repeat split; assumption.
  - assert (New : Inv L (State (files s) (copts s) (ver s)
             (Some (Cache now (ver s) (effective (copts s)) (compile s (effective (copts s))) (files s))))).
    { split; [exact I1 | split; [exact I2|]]. simpl. split; [|split].
      - rewrite effective_get by discriminate. exact I1.
      - apply ev_refl.
      - reflexivity. }
    assert (Old : Inv L s) by (repeat split; assumption).
    unfold transfer.
    destruct (flag K_cache (effective (copts s)) || flag K_codegen (effective (copts s))).
    + destruct (cch s) as [ch|] eqn:Ec.
      * destruct (load_ok g s (effective (copts s)) ch); simpl; [exact Old|].
        destruct (fails _); simpl; [exact Old | exact New].
      * destruct (fails _); simpl; [exact Old | exact New].
    + simpl. exact Old.
Qed.

Lemma transfer_out g fails L s now :
  cfg_ok g -> Inv L s -> out_ok fails s (snd (transfer g fails s now)).
Proof.
  intros [Gv Ge] (I1 & I2 & I3). unfold transfer.
  set (o := effective (copts s)).
  assert (Fresh : out_ok fails s (if fails (compile s o) then Failed else Served false (compile s o))).
  { destruct (fails (compile s o)) eqn:F; simpl; [exact F | apply res_equiv_refl]. }
  assert (Fresh' : out_ok fails s (snd (if fails (compile s o) then (s, Failed)
            else (State (files s) (copts s) (ver s) (Some (Cache now (ver s) o (compile s o) (files s))),
                  Served false (compile s o))))).
  { destruct (fails (compile s o)) eqn:F; simpl; [exact F | apply res_equiv_refl]. }
  destruct (flag K_cache o || flag K_codegen o); [|exact Fresh].
  destruct (cch s) as [ch|]; [|exact Fresh'].
  destruct (load_ok g s o ch) eqn:LK; [|exact Fresh'].
  simpl. destruct I3 as (J1 & J2 & J3).
  unfold load_ok in LK. apply andb_true_iff in LK as [LK LK3]. apply andb_true_iff in LK as [LK1 LK2].
  assert (Fm : flag K_mtime_check o = true) by (unfold o; rewrite effective_flag by discriminate; exact I2).
  rewrite Fm in LK1. simpl in LK1.
  rewrite Gv in LK2. simpl in LK2. apply Nat.eqb_eq in LK2.
  apply opts_eqb_eq in LK3.
  assert (Lo : get K_library_folders o = L) by (unfold o; rewrite effective_get by discriminate; exact I1).
  rewrite J3. unfold ideal, compile. fold o. repeat split; simpl.
  - rewrite (view_ext (c_opts ch) o) by congruence. eapply ev_view; eassumption.
  - exact LK2.
  - intros k Nk. destruct (existsb (Nat.eqb k) (excl g)) eqn:Ex.
    + apply existsb_exists in Ex as (k' & Hin & Hk). apply Nat.eqb_eq in Hk. subst k'.
      destruct (Ge k Hin) as [E|E]; [subst k; congruence | contradiction].
    + rewrite <- (get_strip g k (c_opts ch) Ex), <- (get_strip g k o Ex). rewrite LK3. reflexivity.
Qed.

(* ---------- the property on the model ---------- *)
Theorem fresh_from g fails L s ops :
  cfg_ok g -> Inv L s -> legal g fails (Some L) s ops ->
  forall s1 a r, In (s1, a, Some r) (run g fails s ops) -> out_ok fails s1 r.
Proof.
  intros G. revert s. induction ops as [|a ops IH]; intros s I Hl s1 a1 r Hin; simpl in *; [contradiction|].
  destruct Hl as [Hl1 Hl2].
  pose proof (step_inv g fails L s a I Hl1) as I'.
  destruct (step g fails s a) as [s' r0] eqn:E. simpl in *.
  destruct Hin as [Hin|Hin].
  - inversion Hin; subst s1 a1 r0. destruct a; simpl in E; try discriminate.
    pose proof (transfer_out g fails L s now G I) as T.
    destruct (transfer g fails s now) as [s2 r2]. inversion E; subst. exact T.
  - eapply IH; eassumption.
Qed.

Theorem fresh g fails f0 o0 v0 ops :
  cfg_ok g -> flag K_mtime_check o0 = true ->
  legal g fails (Some (get K_library_folders o0)) (State f0 o0 v0 None) ops ->
  forall s1 a r, In (s1, a, Some r) (run g fails (State f0 o0 v0 None) ops) -> out_ok fails s1 r.
Proof.
  intros G F. apply fresh_from; [exact G|]. repeat split; simpl; auto.
Qed.

(* the invariant itself, in every reachable state *)
Theorem inv_reachable g fails L s ops :
  Inv L s -> legal g fails (Some L) s ops -> Inv L (final g fails s ops).
Proof.
  revert s. induction ops as [|a ops IH]; intros s I Hl; simpl in *; [exact I|].
  destruct Hl as [Hl1 Hl2]. apply IH; [apply step_inv; assumption | exact Hl2].
Qed.

(* ---------- the carving hypothesis is needed: library_folders ---------- *)
Definition g_now : cfg := Cfg true [K_library_folders] true.
Definition o_lib (l : list nat) : opts :=
  [(K_library_folders, l); (K_verbose, [0]); (2, [1]); (K_mtime_check, [1]); (K_cache, [1]);
   (K_codegen, [0]); (K_expand_mx, [0])].
Definition f_two : fs := [((0, 0), (10%Z, 1)); ((1, 0), (10%Z, 2)); ((2, 0), (10%Z, 3))].
Definition h_lib : list op := [Transfer 20%Z; SetOptions (o_lib [2]); Transfer 30%Z].

Theorem fresh_refuted :
  exists s1 now r,
    legal g_now (fun _ => false) None (State f_two (o_lib [1]) 1 None) h_lib /\
    In (s1, Transfer now, Some (Served true r)) (run g_now (fun _ => false) (State f_two (o_lib [1]) 1 None) h_lib) /\
    fst (fst r) <> fst (fst (ideal s1)).
Proof.
  eexists _, _, _. split; [|split].
  - vm_compute. repeat split.
  - vm_compute. right. right. left. reflexivity.
  - vm_compute. discriminate.
Qed.

(* non-vacuity: a legal history with an edit, an addition in a library folder, an option change
   and a version change, all under one library_folders value *)
Definition h_ok : list op :=
  [Transfer 20%Z; Edit (0, 0) 21%Z 4; Transfer 30%Z; Add (1, 1) 31%Z 5; Transfer 40%Z;
   SetOptions (set 9 [1] (o_lib [1])); Transfer 50%Z; SetVersion 2; Transfer 60%Z; Transfer 70%Z].

Lemma legal_example :
  cfg_ok g_now /\ flag K_mtime_check (o_lib [1]) = true /\
  legal g_now (fun _ => false) (Some (get K_library_folders (o_lib [1]))) (State f_two (o_lib [1]) 1 None) h_ok /\
  map (fun e => snd e) (run g_now (fun _ => false) (State f_two (o_lib [1]) 1 None) h_ok) =
  [Some (Served false ([((0,0),1); ((1,0),2)], set K_expand_mx [1] (o_lib [1]), 1)); None;
   Some (Served false ([((0,0),4); ((1,0),2)], set K_expand_mx [1] (o_lib [1]), 1)); None;
   Some (Served false ([((0,0),4); ((1,0),2); ((1,1),5)], set K_expand_mx [1] (o_lib [1]), 1)); None;
   Some (Served false ([((0,0),4); ((1,0),2); ((1,1),5)], set K_expand_mx [1] (set 9 [1] (o_lib [1])), 1)); None;
   Some (Served false ([((0,0),4); ((1,0),2); ((1,1),5)], set K_expand_mx [1] (set 9 [1] (o_lib [1])), 2));
   Some (Served true ([((0,0),4); ((1,0),2); ((1,1),5)], set K_expand_mx [1] (set 9 [1] (o_lib [1])), 2))].
Proof.
  split; [apply cfg_okb_ok; reflexivity|]. split; [reflexivity|]. split.
  - vm_compute. repeat split.
  - vm_compute. reflexivity.
Qed.
