(* C20 — proofs over Model/C20_cache.v: the cache invariant is inductive over every history,
   hence every Transfer returns the compile of the current sources/options/version. *)
From Coq Require Import ZArith List Bool Arith Lia.
From PV Require Import Model.C20_cache.
Import ListNotations.

(* ---------- options ---------- *)
Lemma get_set_other k k' v o : k <> k' -> get k (set k' v o) = get k o.
Proof.
  intros N. induction o as [|[k0 v0] o IH]; simpl.
  - destruct (Nat.eqb k k') eqn:E; [apply Nat.eqb_eq in E; contradiction | reflexivity].
  - destruct (Nat.eqb k' k0) eqn:E; simpl.
    + apply Nat.eqb_eq in E; subst k0.
      destruct (Nat.eqb k k') eqn:E'; [apply Nat.eqb_eq in E'; contradiction | reflexivity].
    + destruct (Nat.eqb k k0); [reflexivity | exact IH].
Qed.

Lemma effective_get k o : k <> K_cache -> k <> K_expand_mx -> get k (effective o) = get k o.
Proof.
  intros N1 N2. unfold effective.
  destruct (flag K_cache o && flag K_codegen o);
    match goal with |- context [if ?b then _ else _] => destruct b end;
    repeat rewrite get_set_other by assumption; reflexivity.
Qed.

Lemma effective_flag k o : k <> K_cache -> k <> K_expand_mx -> flag k (effective o) = flag k o.
Proof. intros. unfold flag. rewrite effective_get by assumption. reflexivity. Qed.

Lemma get_strip g k o : existsb (Nat.eqb k) (excl g) = false -> get k (strip g o) = get k o.
Proof.
  intros H. unfold strip. induction o as [|[k0 v0] o IH]; simpl; [reflexivity|].
  destruct (Nat.eqb k k0) eqn:E.
  - apply Nat.eqb_eq in E; subst k0.
    replace (existsb (Nat.eqb k) (excl g)) with false. simpl. rewrite Nat.eqb_refl. reflexivity.
  - destruct (negb (existsb (Nat.eqb k0) (excl g))); simpl; [rewrite E|]; exact IH.
Qed.

Lemma list_eqb_eq {A} (e : A -> A -> bool) :
  (forall x y, e x y = true -> x = y) -> forall a b, list_eqb e a b = true -> a = b.
Proof.
  intros He a. induction a as [|x a IH]; intros [|y b] H; simpl in H; try discriminate; [reflexivity|].
  apply andb_true_iff in H as [H1 H2]. f_equal; [apply He; exact H1 | apply IH; exact H2].
Qed.

Lemma opts_eqb_eq a b : opts_eqb a b = true -> a = b.
Proof.
  apply list_eqb_eq. intros [k v] [k' v'] H. simpl in H.
  apply andb_true_iff in H as [H1 H2]. apply Nat.eqb_eq in H1.
  apply (list_eqb_eq Nat.eqb) in H2; [subst; reflexivity|]. intros x y; apply Nat.eqb_eq.
Qed.

Lemma view_ext o1 o2 f : get K_library_folders o1 = get K_library_folders o2 -> view o1 f = view o2 f.
Proof. intros H. unfold view, inview, folders. rewrite H. reflexivity. Qed.

(* ---------- sources: how the tree may differ from the snapshot taken at the save ---------- *)
(* `ev g cm snap f`: f is snap with some files rewritten in place and some files appended, every
   rewritten or appended file being "newer than cm" in the sense of the comparison the code uses
   (strictly later under `>`, not earlier under `>=`) *)
Inductive ev (g : cfg) (cm : Z) : fs -> fs -> Prop :=
| ev_nil tail : Forall (fun e => newer g (fst (snd e)) cm = true) tail -> ev g cm [] tail
| ev_same x s f : ev g cm s f -> ev g cm (x :: s) (x :: f)
| ev_chg p v w s f : newer g (fst w) cm = true -> ev g cm s f -> ev g cm ((p, v) :: s) ((p, w) :: f).

Lemma ev_refl g cm s : ev g cm s s.
Proof. induction s; [apply ev_nil; constructor | apply ev_same; assumption]. Qed.

Lemma Forall_upd g cm p v t :
  newer g (fst v) cm = true -> Forall (fun e : path * (Z * nat) => newer g (fst (snd e)) cm = true) t ->
  Forall (fun e : path * (Z * nat) => newer g (fst (snd e)) cm = true) (upd p v t).
Proof.
  intros Hv H. induction H as [|[q w] t Hx Ht IH]; simpl.
  - constructor; [exact Hv | constructor].
  - destruct (path_eqb p q); constructor; first [assumption | exact Hv].
Qed.

Lemma ev_upd g cm s f p v : newer g (fst v) cm = true -> ev g cm s f -> ev g cm s (upd p v f).
Proof.
  intros Hv H. induction H as [tail Ht | [q w] s f H IH | q u w s f Hw H IH]; simpl.
  - apply ev_nil. apply Forall_upd; assumption.
  - destruct (path_eqb p q); [apply ev_chg; assumption | apply ev_same; exact IH].
  - destruct (path_eqb p q); apply ev_chg; assumption.
Qed.

Lemma newer_gt g m cm : (m > cm)%Z -> newer g m cm = true.
Proof. intros H. unfold newer. destruct (strict g); [apply Z.gtb_lt | apply Z.geb_le]; lia. Qed.

Lemma ev_view g o cm s f : ev g cm s f -> mtime_ok g o cm f = true -> view o s = view o f.
Proof.
  unfold mtime_ok, view. intros H. induction H as [tail Ht | [q w] s f H IH | q u w s f Hw H IH]; simpl; intros M.
  - induction Ht as [|[q w] t Hx Ht IHt]; simpl in *; [reflexivity|].
    apply andb_true_iff in M as [M1 M2]. rewrite Hx in M1. simpl in M1.
    rewrite orb_false_r in M1. apply negb_true_iff in M1. rewrite M1. apply IHt. exact M2.
  - apply andb_true_iff in M as [M1 M2]. specialize (IH M2).
    destruct (inview o q); simpl; [f_equal|]; exact IH.
  - apply andb_true_iff in M as [M1 M2]. simpl in Hw. rewrite Hw in M1. simpl in M1.
    rewrite orb_false_r in M1. apply negb_true_iff in M1. rewrite M1. apply IH. exact M2.
Qed.

(* ---------- restriction of a tree to the folders in view (library_folders = L) ---------- *)
Definition inL (L : val) (p : path) : bool := existsb (Nat.eqb (fst p)) (0 :: L).
Definition vf (L : val) (f : fs) : fs := filter (fun e => inL L (fst e)) f.

Lemma path_eqb_inL L p q : path_eqb p q = true -> inL L q = inL L p.
Proof.
  unfold path_eqb, inL. intros H. apply andb_true_iff in H as [H _]. apply Nat.eqb_eq in H. rewrite H. reflexivity.
Qed.

Lemma vf_upd_in L p v f : inL L p = true -> vf L (upd p v f) = upd p v (vf L f).
Proof.
  intros Hp. induction f as [|[q w] f IH]; simpl.
  - rewrite Hp. reflexivity.
  - destruct (path_eqb p q) eqn:E; simpl.
    + rewrite (path_eqb_inL L p q E), Hp. simpl. rewrite E. reflexivity.
    + destruct (inL L q); simpl; [rewrite E, IH; reflexivity | exact IH].
Qed.

Lemma vf_upd_out L p v f : inL L p = false -> vf L (upd p v f) = vf L f.
Proof.
  intros Hp. induction f as [|[q w] f IH]; simpl.
  - rewrite Hp. reflexivity.
  - destruct (path_eqb p q) eqn:E; simpl.
    + rewrite (path_eqb_inL L p q E), Hp. reflexivity.
    + destruct (inL L q); simpl; [rewrite IH; reflexivity | exact IH].
Qed.

Lemma vf_del_out L p f : inL L p = false -> vf L (del p f) = vf L f.
Proof.
  intros Hp. induction f as [|[q w] f IH]; simpl; [reflexivity|].
  destruct (path_eqb p q) eqn:E; simpl.
  - rewrite (path_eqb_inL L p q E), Hp. exact IH.
  - destruct (inL L q); simpl; [rewrite IH; reflexivity | exact IH].
Qed.

Lemma vf_ren_out L p q f : inL L p = false -> inL L q = false -> vf L (ren p q f) = vf L f.
Proof.
  intros Hp Hq. unfold ren. destruct (lookup p f); [|reflexivity].
  rewrite vf_upd_out by exact Hq. apply vf_del_out. exact Hp.
Qed.

Lemma view_vf o f : view o (vf (get K_library_folders o) f) = view o f.
Proof.
  unfold view, vf. f_equal. induction f as [|e f IH]; simpl; [reflexivity|].
  change (inL (get K_library_folders o) (fst e)) with (inview o (fst e)).
  destruct (inview o (fst e)) eqn:E; simpl; [rewrite E; f_equal|]; exact IH.
Qed.

Lemma mtime_ok_vf g o cm L f : mtime_ok g o cm f = true -> mtime_ok g o cm (vf L f) = true.
Proof.
  unfold mtime_ok, vf. induction f as [|e f IH]; simpl; [reflexivity|]. intros H.
  apply andb_true_iff in H as [H1 H2]. destruct (inL L (fst e)); simpl; [rewrite H1|]; auto.
Qed.

(* ---------- the invariant ---------- *)
Definition cfg_ok (g : cfg) : Prop :=
  vcheck g = true /\ forall k, In k (excl g) -> k = K_library_folders \/ k = K_verbose.

Lemma cfg_okb_ok g : cfg_okb g = true -> cfg_ok g.
Proof.
  unfold cfg_okb, cfg_ok. intros H. apply andb_true_iff in H as [H1 H2]. split; [exact H1|].
  intros k Hk. rewrite forallb_forall in H2. specialize (H2 k Hk).
  apply orb_true_iff in H2 as [E|E]; apply Nat.eqb_eq in E; auto.
Qed.

(* equality of compile results up to the `verbose` option *)
Definition res_equiv (r r' : cres) : Prop :=
  fst (fst r) = fst (fst r') /\ snd r = snd r' /\
  forall k, k <> K_verbose -> get k (snd (fst r)) = get k (snd (fst r')).

Lemma res_equiv_refl r : res_equiv r r.
Proof. repeat split. Qed.

(* what the property demands of one transfer_model call made in state s *)
Definition out_ok (fails : cres -> bool) (s : state) (r : out) : Prop :=
  match r with
  | Failed => fails (ideal s) = true              (* compiling the current sources raises *)
  | Served _ m built =>
      res_equiv m (ideal s) /\
      match built with Some n => n = osn s | None => True end   (* shared libraries are for this platform *)
  end.

Definition Inv (g : cfg) (L : val) (s : state) : Prop :=
  get K_library_folders (copts s) = L /\ flag K_mtime_check (copts s) = true /\
  match cch s with
  | None => True
  | Some c =>
      get K_library_folders (c_opts c) = L /\
      ev g (c_mtime c) (vf L (c_snap c)) (vf L (files s)) /\
      c_model c = (view (c_opts c) (c_snap c), c_opts c, c_version c) /\
      c_libs c = flag K_codegen (c_opts c) /\
      (c_libs c = true -> libs s = Some (c_model c, c_os c))
  end.

(* The property's quantifier.  A write is "newer than the cache file" in the sense of the coded
   comparison (`newer`: strictly later under >, not earlier under >=; see legal_gt below for the
   property's own "strictly later").  Carving hypothesis: library_folders stays L.  Opt-out
   excluded: mtime_check stays on.  Outside the property's letter: deleting or renaming a source
   in the model folder or a library folder in use (elsewhere it is allowed). *)
Definition legal_op (g : cfg) (L : option val) (s : state) (a : op) : Prop :=
  match a with
  | Edit _ m _ | Add _ m _ => match cch s with Some c => newer g m (c_mtime c) = true | None => True end
  | SetOptions o =>
      flag K_mtime_check o = true /\
      match L with Some l => get K_library_folders o = l | None => True end
  | Delete p => match L with Some l => inL l p = false | None => False end
  | Rename p q => match L with Some l => inL l p = false /\ inL l q = false | None => False end
  | _ => True
  end.

Fixpoint legal (g : cfg) (fails : cres -> bool) (L : option val) (s : state) (ops : list op) : Prop :=
  match ops with
  | [] => True
  | a :: rest => legal_op g L s a /\ legal g fails L (fst (step g fails s a)) rest
  end.

(* the same with the property's literal grant: every write strictly later than the cache file *)
Definition legal_op_gt (L : option val) (s : state) (a : op) : Prop :=
  match a with
  | Edit _ m _ | Add _ m _ => match cch s with Some c => (m > c_mtime c)%Z | None => True end
  | _ => legal_op (Cfg true [] true) L s a
  end.

Fixpoint legal_gt (g : cfg) (fails : cres -> bool) (L : option val) (s : state) (ops : list op) : Prop :=
  match ops with
  | [] => True
  | a :: rest => legal_op_gt L s a /\ legal_gt g fails L (fst (step g fails s a)) rest
  end.

Lemma legal_gt_legal g fails L s ops : legal_gt g fails L s ops -> legal g fails L s ops.
Proof.
  revert s. induction ops as [|a ops IH]; intros s H; simpl in *; [exact I|].
  destruct H as [H1 H2]. split; [|apply IH; exact H2].
  destruct a; simpl in *; try exact H1; (destruct (cch s); [apply newer_gt; exact H1 | exact I]).
Qed.

Lemma inv_files g L s f :
  Inv g L s -> vf L f = vf L (files s) -> Inv g L (with_files s f).
Proof.
  intros (I1 & I2 & I3) E. split; [exact I1 | split; [exact I2|]]. simpl.
  destruct (cch s) as [c|]; [|exact I]. rewrite E. exact I3.
Qed.

Lemma transfer_inv g fails L s now : Inv g L s -> Inv g L (fst (transfer g fails s now)).
Proof.
  intros I0. pose proof I0 as (I1 & I2 & I3).
  set (o := effective (copts s)).
  assert (Lo : get K_library_folders o = L) by (unfold o; rewrite effective_get by discriminate; exact I1).
  assert (NewL : Inv g L (State (files s) (copts s) (ver s) (osn s) (Some (compile s o, osn s))
                    (Some (Cache now (ver s) o (osn s) true (compile s o) (files s)))) \/ flag K_codegen o = false).
  { destruct (flag K_codegen o) eqn:Fc; [left | right; reflexivity].
    split; [exact I1 | split; [exact I2|]]. simpl. repeat split; auto using ev_refl. }
  assert (NewP : Inv g L (State (files s) (copts s) (ver s) (osn s) (libs s)
                    (Some (Cache now (ver s) o (osn s) false (compile s o) (files s)))) \/ flag K_codegen o = true).
  { destruct (flag K_codegen o) eqn:Fc; [right; reflexivity | left].
    split; [exact I1 | split; [exact I2|]]. simpl. repeat split; auto using ev_refl. discriminate. }
  assert (Rec : Inv g L (fst (if fails (compile s o) then (s, Failed)
            else if flag K_codegen o
                 then (State (files s) (copts s) (ver s) (osn s) (Some (compile s o, osn s))
                             (Some (Cache now (ver s) o (osn s) true (compile s o) (files s))), Served false (compile s o) None)
                 else (State (files s) (copts s) (ver s) (osn s) (libs s)
                             (Some (Cache now (ver s) o (osn s) false (compile s o) (files s))), Served false (compile s o) None)))).
  { destruct (fails (compile s o)); [exact I0|].
    destruct (flag K_codegen o) eqn:Fc; simpl.
    - destruct NewL as [N|N]; [exact N | congruence].
    - destruct NewP as [N|N]; [exact N | congruence]. }
  unfold transfer. fold o.
  destruct (flag K_cache o || flag K_codegen o); [|exact I0].
  destruct (cch s) as [ch|] eqn:Ec; [|exact Rec].
  destruct (load_ok g s o ch); [exact I0 | exact Rec].
Qed.

Lemma step_inv g fails L s a : Inv g L s -> legal_op g (Some L) s a -> Inv g L (fst (step g fails s a)).
Proof.
  intros I0 Hl. pose proof I0 as (I1 & I2 & I3).
  destruct a as [p m c | p m c | o | v | now | p | p q | n]; simpl in *.
  1,2: (destruct (inL L p) eqn:Ep;
        [ split; [exact I1 | split; [exact I2|]]; simpl; destruct (cch s) as [ch|]; [|exact I];
          destruct I3 as (J1 & J2 & J3 & J4 & J5); repeat split; try assumption;
          rewrite vf_upd_in by exact Ep; apply ev_upd; assumption
        | apply inv_files; [exact I0 | apply vf_upd_out; exact Ep] ]).
  - destruct Hl as [H1 H2]. repeat split; assumption.
  - repeat split; assumption.
  - pose proof (transfer_inv g fails L s now I0) as T.
    destruct (transfer g fails s now) as [s2 r2]. exact T.
  - apply inv_files; [exact I0 | apply vf_del_out; exact Hl].
  - destruct Hl as [Hp Hq]. apply inv_files; [exact I0 | apply vf_ren_out; assumption].
  - split; [exact I1 | split; [exact I2|]]. simpl. exact I3.
Qed.

Lemma transfer_out g fails L s now :
  cfg_ok g -> Inv g L s -> out_ok fails s (snd (transfer g fails s now)).
Proof.
  intros [Gv Ge] (I1 & I2 & I3). unfold transfer.
  set (o := effective (copts s)).
  assert (Fresh : out_ok fails s (if fails (compile s o) then Failed else Served false (compile s o) None)).
  { destruct (fails (compile s o)) eqn:F; simpl; [exact F | split; [apply res_equiv_refl | exact I]]. }
  assert (Fresh' : out_ok fails s (snd (if fails (compile s o) then (s, Failed)
              else if flag K_codegen o
                   then (State (files s) (copts s) (ver s) (osn s) (Some (compile s o, osn s))
                               (Some (Cache now (ver s) o (osn s) true (compile s o) (files s))), Served false (compile s o) None)
                   else (State (files s) (copts s) (ver s) (osn s) (libs s)
                               (Some (Cache now (ver s) o (osn s) false (compile s o) (files s))), Served false (compile s o) None)))).
  { destruct (fails (compile s o)) eqn:F; simpl; [exact F|].
    destruct (flag K_codegen o); simpl; (split; [apply res_equiv_refl | exact I]). }
  destruct (flag K_cache o || flag K_codegen o); [|exact Fresh].
  destruct (cch s) as [ch|]; [|exact Fresh'].
  destruct (load_ok g s o ch) eqn:LK; [|exact Fresh'].
  simpl. destruct I3 as (J1 & J2 & J3 & J4 & J5).
  unfold load_ok in LK. apply andb_true_iff in LK as [LK LK4].
  apply andb_true_iff in LK as [LK LK3]. apply andb_true_iff in LK as [LK1 LK2].
  assert (Fm : flag K_mtime_check o = true) by (unfold o; rewrite effective_flag by discriminate; exact I2).
  rewrite Fm in LK1. simpl in LK1.
  rewrite Gv in LK2. simpl in LK2. apply Nat.eqb_eq in LK2.
  apply opts_eqb_eq in LK3.
  assert (Lo : get K_library_folders o = L) by (unfold o; rewrite effective_get by discriminate; exact I1).
  assert (Agree : forall k, k <> K_verbose -> get k (c_opts ch) = get k o).
  { intros k Nk. destruct (existsb (Nat.eqb k) (excl g)) eqn:Ex.
    - apply existsb_exists in Ex as (k' & Hin & Hk). apply Nat.eqb_eq in Hk. subst k'.
      destruct (Ge k Hin) as [E|E]; [subst k; congruence | contradiction].
    - rewrite <- (get_strip g k (c_opts ch) Ex), <- (get_strip g k o Ex). rewrite LK3. reflexivity. }
  assert (Eq : res_equiv (c_model ch) (ideal s)).
  { rewrite J3. unfold ideal, compile. fold o. repeat split; simpl.
    - rewrite (view_ext (c_opts ch) o) by congruence.
      rewrite <- (view_vf o (c_snap ch)), <- (view_vf o (files s)). rewrite Lo.
      eapply ev_view; [eassumption | apply mtime_ok_vf; exact LK1].
    - exact LK2.
    - exact Agree. }
  unfold loaded. destruct (c_libs ch) eqn:Cl.
  - rewrite (J5 eq_refl). simpl. split; [exact Eq|].
    assert (Fc : flag K_codegen o = true).
    { unfold flag. rewrite <- (Agree K_codegen) by discriminate. symmetry. exact J4. }
    rewrite Fc in LK4. simpl in LK4. apply Nat.eqb_eq in LK4. exact LK4.
  - simpl. split; [exact Eq | exact I].
Qed.

(* ---------- the property on the model ---------- *)
Theorem fresh_from g fails L s ops :
  cfg_ok g -> Inv g L s -> legal g fails (Some L) s ops ->
  forall s1 a r, In (s1, a, Some r) (run g fails s ops) -> out_ok fails s1 r.
Proof.
  intros G. revert s. induction ops as [|a ops IH]; intros s I Hl s1 a1 r Hin; simpl in *; [contradiction|].
  destruct Hl as [Hl1 Hl2].
  pose proof (step_inv g fails L s a I Hl1) as I'.
  destruct (step g fails s a) as [s' r0] eqn:E. simpl in *.
  destruct Hin as [Hin|Hin].
  - inversion Hin; subst s1 a1 r0. destruct a; simpl in E; try discriminate.
    pose proof (transfer_out g fails L s now G I) as T.
    destruct (transfer g fails s now) as [s2 r2]. inversion E; subst. exact T.
  - eapply IH; eassumption.
Qed.

Lemma inv_init g f0 o0 v0 n0 l0 : flag K_mtime_check o0 = true -> Inv g (get K_library_folders o0) (State f0 o0 v0 n0 l0 None).
Proof. intros F. repeat split; simpl; auto. Qed.

(* writes "newer" in the sense of the coded comparison *)
Theorem fresh_operator g fails f0 o0 v0 n0 l0 ops :
  cfg_ok g -> flag K_mtime_check o0 = true ->
  legal g fails (Some (get K_library_folders o0)) (State f0 o0 v0 n0 l0 None) ops ->
  forall s1 a r, In (s1, a, Some r) (run g fails (State f0 o0 v0 n0 l0 None) ops) -> out_ok fails s1 r.
Proof. intros G F. apply fresh_from; [exact G | apply inv_init; exact F]. Qed.

(* writes strictly later than the cache file, as the property grants *)
Theorem fresh g fails f0 o0 v0 n0 l0 ops :
  cfg_ok g -> flag K_mtime_check o0 = true ->
  legal_gt g fails (Some (get K_library_folders o0)) (State f0 o0 v0 n0 l0 None) ops ->
  forall s1 a r, In (s1, a, Some r) (run g fails (State f0 o0 v0 n0 l0 None) ops) -> out_ok fails s1 r.
Proof. intros G F H. apply fresh_operator; [exact G | exact F | apply legal_gt_legal; exact H]. Qed.

(* the invariant itself, in every reachable state *)
Theorem inv_reachable g fails L s ops :
  Inv g L s -> legal g fails (Some L) s ops -> Inv g L (final g fails s ops).
Proof.
  revert s. induction ops as [|a ops IH]; intros s I Hl; simpl in *; [exact I|].
  destruct Hl as [Hl1 Hl2]. apply IH; [apply step_inv; assumption | exact Hl2].
Qed.

(* ---------- the hypotheses are needed ---------- *)
Definition g_now : cfg := Cfg true [K_library_folders] true.     (* today's table: > *)
Definition g_ge : cfg := Cfg false [K_library_folders] true.     (* the same with >= *)
Definition o_lib (l : list nat) : opts :=
  [(K_library_folders, l); (K_verbose, [0]); (2, [1]); (K_mtime_check, [1]); (K_cache, [1]);
   (K_codegen, [0]); (K_expand_mx, [0])].
Definition o_cg (l : list nat) : opts := set K_codegen [1] (set K_cache [0] (o_lib l)).
Definition f_two : fs := [((0, 0), (10%Z, 1)); ((1, 0), (10%Z, 2)); ((2, 0), (10%Z, 3))].
Definition s_two : state := State f_two (o_lib [1]) 1 0 None None.
Definition nofail : cres -> bool := fun _ => false.

Definition stale (g : cfg) (s0 : state) (h : list op) : Prop :=
  exists s1 now r b, In (s1, Transfer now, Some (Served true r b)) (run g nofail s0 h) /\
                     fst (fst r) <> fst (fst (ideal s1)).

Ltac stale_at tac := eexists _, _, _, _; split; [vm_compute; tac; left; reflexivity | vm_compute; discriminate].

(* library_folders changes: legal in every other respect, stale sources served *)
Definition h_lib : list op := [Transfer 20%Z; SetOptions (o_lib [2]); Transfer 30%Z].
Theorem fresh_refuted : legal g_now nofail None s_two h_lib /\ stale g_now s_two h_lib.
Proof. split; [vm_compute; repeat split | stale_at ltac:(right; right)]. Qed.

(* deleting / renaming a source in use (outside the property's letter): the stale cache is served *)
Definition h_del : list op := [Transfer 20%Z; Delete (1, 0); Transfer 30%Z].
Definition h_ren : list op := [Transfer 20%Z; Rename (2, 0) (0, 1); Transfer 30%Z].
Theorem delete_refuted : stale g_now s_two h_del /\ stale g_now s_two h_ren.
Proof. split; stale_at ltac:(right; right). Qed.

(* a write whose mtime EQUALS the cache file's: breaks the statement under >, is covered under >= *)
Definition h_eq : list op := [Transfer 20%Z; Edit (0, 0) 20%Z 4; Transfer 30%Z].
Theorem equal_mtime_refuted :
  stale g_now s_two h_eq /\ legal g_ge nofail (Some [1]) s_two h_eq /\ ~ legal g_now nofail (Some [1]) s_two h_eq.
Proof.
  split; [stale_at ltac:(right; right)|]. split; [vm_compute; repeat split|].
  vm_compute. intros (_ & H & _). discriminate H.
Qed.

(* non-vacuity: a legal history with an edit, an addition in a library folder, a deletion and a
   rename outside the folders in use, an option change and a version change; then codegen mode with
   a platform change *)
Definition h_ok : list op :=
  [Transfer 20%Z; Edit (0, 0) 21%Z 4; Transfer 30%Z; Add (1, 1) 31%Z 5; Transfer 40%Z;
   Delete (2, 0); Rename (3, 0) (2, 1);
   SetOptions (set 9 [1] (o_lib [1])); Transfer 50%Z; SetVersion 2; Transfer 60%Z; Transfer 70%Z;
   SetOptions (o_cg [1]); Transfer 80%Z; Transfer 90%Z; SetOS 1; Transfer 100%Z; Transfer 110%Z].

Definition srcs4 : list (path * nat) := [((0,0),4); ((1,0),2); ((1,1),5)].
Definition o_a := set K_expand_mx [1] (o_lib [1]).
Definition o_b := set K_expand_mx [1] (set 9 [1] (o_lib [1])).

Lemma legal_example :
  cfg_ok g_now /\ flag K_mtime_check (o_lib [1]) = true /\
  legal_gt g_now nofail (Some (get K_library_folders (o_lib [1]))) s_two h_ok /\
  filter (fun x => match x with Some _ => true | None => false end)
         (map (fun e => snd e) (run g_now nofail s_two h_ok)) =
  [Some (Served false ([((0,0),1); ((1,0),2)], o_a, 1) None);
   Some (Served false ([((0,0),4); ((1,0),2)], o_a, 1) None);
   Some (Served false (srcs4, o_a, 1) None);
   Some (Served false (srcs4, o_b, 1) None);
   Some (Served false (srcs4, o_b, 2) None);
   Some (Served true (srcs4, o_b, 2) None);
   Some (Served false (srcs4, o_cg [1], 2) None);
   Some (Served true (srcs4, o_cg [1], 2) (Some 0));      (* the shared libraries, this platform *)
   Some (Served false (srcs4, o_cg [1], 2) None);         (* other platform: library_os check *)
   Some (Served true (srcs4, o_cg [1], 2) (Some 1))].
Proof.
  split; [apply cfg_okb_ok; reflexivity|]. split; [reflexivity|]. split.
  - vm_compute. repeat split.
  - vm_compute. reflexivity.
Qed.
