(* C17 — the heap-level model (Model/C17_heap.v: shared mutable set objects, in-place |=,
   per-key copies in copy()) refines the value-level model (Model/C17_alias.v) in lock-step,
   for every legal history of add / remove / copy over any number of relations.
   Invariant: content agreement, OWNERSHIP (no set object reachable from two relations),
   SHARERS ARE MEMBERS (two keys of one relation that share an object are aliases),
   every allocated location is below `next`; plus the value-level invariants (rel_ok). *)
From stdpp Require Import gmap.
From PV Require Import Lib.Closure Model.C17_alias Model.C17_heap
  Proofs.C17_alias Proofs.C17_canon Proofs.C17_remove.

Definition bounded (h : heapT) (n : loc) : Prop := ∀ l : loc, is_Some (h !! l) → (l < n)%positive.
Definition pbelow (p : pmapT) (n : loc) : Prop := ∀ (k : svar) (l : loc), p !! k = Some l → (l < n)%positive.

Definition agree (h : heapT) (p : pmapT) (C : svar → gset svar) : Prop :=
  (∀ (k : svar) (l : loc), p !! k = Some l → h !! l = Some (C k)) ∧
  (∀ k : svar, p !! k = None → C k = {[k]}).

Definition sharers (p : pmapT) (C : svar → gset svar) : Prop :=
  ∀ (k1 k2 : svar) (l : loc), p !! k1 = Some l → p !! k2 = Some l → k2 ∈ C k1.

Definition local_ok (h : heapT) (hr : hrel) (r : rel) : Prop :=
  agree h (ptr hr) (cls (al r)) ∧ sharers (ptr hr) (cls (al r)) ∧ hcm hr = cm r ∧ hcv hr = cv r.

Lemma hcls_agree (h : heapT) (p : pmapT) (C : svar → gset svar) (k : svar) :
  agree h p C → hcls_at h p k = C k.
Proof.
  intros [H1 H2]. unfold hcls_at. destruct (p !! k) as [l|] eqn:E.
  - by rewrite (H1 _ _ E).
  - symmetry. by apply H2.
Qed.

Lemma agree_pbelow (h : heapT) (n : loc) (p : pmapT) (C : svar → gset svar) :
  bounded h n → agree h p C → pbelow p n.
Proof. intros Hb [H1 _] k l Hk. apply Hb. rewrite (H1 _ _ Hk). eauto. Qed.

Lemma bounded_insert (h : heapT) (n : loc) (l : loc) (S : gset svar) :
  bounded h n → (l < n)%positive → bounded (<[l := S]> h) n.
Proof.
  intros Hb Hl l0 Hl0. destruct (decide (l0 = l)) as [->|Hne]; [done|].
  rewrite lookup_insert_ne in Hl0 by done. by apply Hb.
Qed.

(* ---------- aliases(): stored object or fresh singleton ---------- *)
Lemma haliases_spec (h : heapT) (n : loc) (p : pmapT) (a : svar) (l : loc) (h' : heapT) (n' : loc) :
  haliases h n p a = (l, h', n') → bounded h n → pbelow p n →
  (n ≤ n')%positive ∧ bounded h' n' ∧ (l < n')%positive ∧
  (∀ l0 : loc, (l0 < n)%positive → h' !! l0 = h !! l0) ∧
  ((p !! a = Some l ∧ h' = h ∧ n' = n) ∨
   (p !! a = None ∧ l = n ∧ n' = (n + 1)%positive ∧ h' !! l = Some {[a]})).
Proof.
  unfold haliases. intros Hal Hb Hp. destruct (p !! a) as [l1|] eqn:E.
  - injection Hal as <- <- <-. split; [lia|]. split; [done|]. split; [by eapply Hp|].
    split; [done|]. left. done.
  - injection Hal as <- <- <-. split; [lia|]. split; [|split; [lia|split]].
    + intros l0 Hl0. destruct (decide (l0 = n)) as [->|Hne]; [lia|].
      rewrite lookup_insert_ne in Hl0 by done. specialize (Hb _ Hl0). lia.
    + intros l0 Hl0. rewrite lookup_insert_ne by lia. done.
    + right. rewrite lookup_insert. done.
Qed.

Lemma haliases_agree (h : heapT) (n : loc) (p : pmapT) (C : svar → gset svar)
    (a : svar) (l : loc) (h' : heapT) (n' : loc) :
  haliases h n p a = (l, h', n') → bounded h n → pbelow p n → agree h p C →
  (n ≤ n')%positive ∧ bounded h' n' ∧ pbelow p n' ∧ agree h' p C ∧ (l < n')%positive ∧
  h' !! l = Some (C a) ∧
  (∀ l0 : loc, (l0 < n)%positive → h' !! l0 = h !! l0) ∧
  (p !! a = Some l ∨ (p !! a = None ∧ l = n ∧ n' = (n + 1)%positive)).
Proof.
  intros Hal Hb Hp [Hg1 Hg2].
  destruct (haliases_spec _ _ _ _ _ _ _ Hal Hb Hp) as (Hn & Hb' & Hl & Hf & Hd).
  split; [done|]. split; [done|]. split.
  { intros k l0 Hk. specialize (Hp _ _ Hk). lia. }
  split.
  { split; [|done]. intros k l0 Hk. rewrite Hf by (by eapply Hp). by apply Hg1. }
  split; [done|]. split.
  { destruct Hd as [(Hpa & -> & _)|(Hpa & _ & _ & Hx)]; [by apply Hg1|]. by rewrite Hx, (Hg2 _ Hpa). }
  split; [done|].
  destruct Hd as [(Hpa & _ & _)|(Hpa & Hx & Hy & _)]; [by left|by right].
Qed.

(* the re-pointing loop, for any value type *)
Lemma repoint_lookup_aux {V} (x y : V) (m : gmap svar V) (k : svar) (Y : gset svar) :
  (∀ v, v ∈ Y → tog v ∉ Y) →
  let r : gmap svar V := set_fold (fun v (acc : gmap svar V) => <[v := x]> (<[tog v := y]> acc)) m Y in
  (k ∈ Y → r !! k = Some x) ∧ (tog k ∈ Y → r !! k = Some y) ∧
  (k ∉ Y → tog k ∉ Y → r !! k = m !! k).
Proof.
  intros Hdisj.
  apply (set_fold_ind_L (fun (r : gmap svar V) X => X ⊆ Y →
     (k ∈ X → r !! k = Some x) ∧ (tog k ∈ X → r !! k = Some y) ∧
     (k ∉ X → tog k ∉ X → r !! k = m !! k))); [|intros z X r Hz IH HX|set_solver].
  - intros _. repeat split; set_solver.
  - cbn beta. destruct IH as (IH1 & IH2 & IH3); [set_solver|].
    assert (Hzy : z ∈ Y) by set_solver.
    repeat split.
    + intros [->%elem_of_singleton|Hk]%elem_of_union; [by rewrite lookup_insert|].
      destruct (decide (k = z)) as [->|Hne]; [by rewrite lookup_insert|].
      rewrite lookup_insert_ne by done.
      destruct (decide (k = tog z)) as [->|Hne2].
      * exfalso. apply (Hdisj z Hzy). set_solver.
      * rewrite lookup_insert_ne by done. auto.
    + intros [Hk%elem_of_singleton|Hk]%elem_of_union.
      * assert (k = tog z) as -> by (by rewrite <- Hk, tog_tog).
        rewrite lookup_insert_ne by (apply not_eq_sym, tog_ne). by rewrite lookup_insert.
      * destruct (decide (k = z)) as [->|Hne].
        { exfalso. apply (Hdisj (tog z)); [set_solver|]. rewrite tog_tog. done. }
        rewrite lookup_insert_ne by done.
        destruct (decide (k = tog z)) as [->|Hne2]; [by rewrite lookup_insert|].
        rewrite lookup_insert_ne by done. auto.
    + intros Hk1 Hk2.
      rewrite lookup_insert_ne by set_solver.
      rewrite lookup_insert_ne.
      * apply IH3; set_solver.
      * intros <-. apply Hk2. rewrite tog_tog. set_solver.
Qed.

Lemma add_unfold (r : rel) (a b : svar) : b ∉ cls (al r) a →
  add r a b =
  Rel (add_al (al r) a b)
      (set_fold (fun v (acc : cmapT) =>
           <[tog v := ((canon (cm r) a).1, negb (canon (cm r) a).2)]> (<[v := ((canon (cm r) a).1, (canon (cm r) a).2)]> acc))
         (cm r) (cls (add_al (al r) a b) a))
      ((cv r ∪ {[(canon (cm r) a).1]}) ∖ {[(canon (cm r) b).1]}).
Proof.
  intros Hb. unfold add. rewrite decide_False by done.
  destruct (canon (cm r) a) as [ca sa], (canon (cm r) b) as [cb sb]. reflexivity.
Qed.

(* ---------- add ---------- *)
Lemma hadd_spec (h : heapT) (n : loc) (hr : hrel) (r : rel) (a b : svar)
    (h' : heapT) (n' : loc) (hr' : hrel) :
  bounded h n → local_ok h hr r → al_ok r → tog b ∉ cls (al r) a →
  hadd h n hr a b = (h', n', hr') →
  (n ≤ n')%positive ∧ bounded h' n' ∧ local_ok h' hr' (add r a b) ∧
  (∀ l : loc, (l < n)%positive → (∀ k : svar, ptr hr !! k ≠ Some l) → h' !! l = h !! l) ∧
  (∀ (k : svar) (l : loc), ptr hr' !! k = Some l → (∃ k' : svar, ptr hr !! k' = Some l) ∨ (n ≤ l)%positive).
Proof.
  intros Hb (Hag & Hsh & Hcm & Hcv) Hal Hleg.
  pose proof Hal as (Hi & Hs & Hcons). pose proof Hi as [Hr Hc].
  pose proof (agree_pbelow _ _ _ _ Hb Hag) as Hp.
  set (C := cls (al r)) in *.
  unfold hadd.
  destruct (haliases h n (ptr hr) a) as [[la h1] n1] eqn:E1.
  destruct (haliases_agree _ _ _ C _ _ _ _ E1 Hb Hp Hag) as (Hn1 & Hb1 & Hp1 & Hag1 & Hla1 & Hc1 & Hf1 & Hd1).
  assert (Hg1 : hget h1 la = C a) by (unfold hget; by rewrite Hc1).
  rewrite Hg1. case_decide as Hbm.
  { (* already aliases *)
    intros [= <- <- <-]. rewrite add_same by done.
    split; [lia|]. split; [done|]. split; [done|]. split; [done|]. intros k l Hk. left. eauto. }
  destruct (haliases h1 n1 (ptr hr) (tog a)) as [[lia h2] n2] eqn:E2.
  destruct (haliases_agree _ _ _ C _ _ _ _ E2 Hb1 Hp1 Hag1) as (Hn2 & Hb2 & Hp2 & Hag2 & Hlia2 & Hc2 & Hf2 & Hd2).
  destruct (haliases h2 n2 (ptr hr) b) as [[lb h3] n3] eqn:E3.
  destruct (haliases_agree _ _ _ C _ _ _ _ E3 Hb2 Hp2 Hag2) as (Hn3 & Hb3 & Hp3 & Hag3 & Hlb3 & Hc3 & Hf3 & Hd3).
  assert (H3la : h3 !! la = Some (C a)).
  { rewrite Hf3 by lia. rewrite Hf2 by lia. done. }
  assert (H3lia : h3 !! lia = Some (C (tog a))).
  { rewrite Hf3 by lia. done. }
  assert (Hg3a : hget h3 la = C a) by (unfold hget; by rewrite H3la).
  assert (Hg3b : hget h3 lb = C b) by (unfold hget; by rewrite Hc3).
  rewrite Hg3a, Hg3b.
  set (A' := C a ∪ C b).
  set (h4 := <[la := A']> h3).
  assert (Hb4 : bounded h4 n3) by (apply bounded_insert; [done|lia]).
  destruct (haliases h4 n3 (ptr hr) (tog b)) as [[lnb h5] n5] eqn:E5.
  destruct (haliases_spec _ _ _ _ _ _ _ E5 Hb4 Hp3) as (Hn5 & Hb5 & Hlnb5 & Hf5 & Hd5).
  (* the two written objects are distinct *)
  assert (Hne : la ≠ lia).
  { intros <-. destruct Hd1 as [Hpa|(Hpa & -> & ->)]; destruct Hd2 as [Hpta|(Hpta & Hx & _)].
    - apply (Hcons a). apply (Hsh a (tog a) la); done.
    - specialize (Hp _ _ Hpa). lia.
    - specialize (Hp _ _ Hpta). lia.
    - lia. }
  (* no key outside the merged class points to la; none outside the mirror class to lia *)
  assert (Hnola : ∀ k : svar, k ∉ A' → ptr hr !! k ≠ Some la).
  { intros k Hk Hpk. destruct Hd1 as [Hpa|(Hpa & -> & _)].
    - apply Hk. apply elem_of_union_l. apply (Hsh a k la); done.
    - specialize (Hp _ _ Hpk). lia. }
  assert (Hnolia : ∀ k : svar, tog k ∉ A' → ptr hr !! k ≠ Some lia).
  { intros k Hk Hpk. destruct Hd2 as [Hpta|(Hpta & -> & _)].
    - apply Hk. apply elem_of_union_l.
      pose proof (Hsh (tog a) k lia Hpta Hpk) as H1. unfold C in H1. rewrite Hs in H1.
      by apply elem_togs in H1.
    - specialize (Hp _ _ Hpk). lia. }
  assert (Hlnb : h5 !! lnb = Some (C (tog b)) ∧ lnb ≠ la).
  { destruct Hd5 as [(Hptb & -> & ->)|(Hptb & -> & _ & Hx)].
    - assert (lnb ≠ la) as Hx.
      { intros ->. apply (Hnola (tog b)); [|done].
        intros [H1|H1]%elem_of_union; [done|]. by apply (Hcons b). }
      split; [|done]. unfold h4. rewrite lookup_insert_ne by done. by apply (proj1 Hag3).
    - split; [|lia]. rewrite Hx. by rewrite (proj2 Hag3 _ Hptb). }
  destruct Hlnb as [H5lnb Hlnbne].
  assert (H5lia : h5 !! lia = Some (C (tog a))).
  { rewrite Hf5 by lia. unfold h4. rewrite lookup_insert_ne by done. done. }
  assert (Hg5a : hget h5 lia = C (tog a)) by (unfold hget; by rewrite H5lia).
  assert (Hg5b : hget h5 lnb = C (tog b)) by (unfold hget; by rewrite H5lnb).
  rewrite Hg5a, Hg5b.
  set (IA' := C (tog a) ∪ C (tog b)).
  set (h6 := <[lia := IA']> h5).
  assert (H6la : h6 !! la = Some A').
  { unfold h6. rewrite lookup_insert_ne by done. rewrite Hf5 by lia. unfold h4. by rewrite lookup_insert. }
  assert (H6lia : h6 !! lia = Some IA') by (unfold h6; by rewrite lookup_insert).
  assert (Hg6 : hget h6 la = A') by (unfold hget; by rewrite H6la).
  rewrite Hg6.
  assert (Hframe : ∀ l0 : loc, (l0 < n)%positive → l0 ≠ la → l0 ≠ lia → h6 !! l0 = h !! l0).
  { intros l0 Hl0 H1 H2. unfold h6. rewrite lookup_insert_ne by done. rewrite Hf5 by lia.
    unfold h4. rewrite lookup_insert_ne by done. rewrite Hf3 by lia. rewrite Hf2 by lia. by apply Hf1. }
  rewrite Hcm, Hcv.
  destruct (canon (cm r) a) as [ca sa] eqn:Ea. destruct (canon (cm r) b) as [cb sb] eqn:Eb.
  intros [= <- <- <-].
  pose proof (merged_disjoint _ a b Hi Hs Hcons Hleg) as Hdisj. fold C in Hdisj. fold A' in Hdisj.
  assert (Hmem : ∀ x : svar, x ∈ IA' ↔ tog x ∈ A').
  { intros x. unfold IA', A', C. rewrite !elem_of_union, !Hs, !elem_togs. done. }
  assert (Hcls' : ∀ k : svar, cls (al (add r a b)) k =
            if decide (k ∈ A') then A' else if decide (tog k ∈ A') then IA' else C k).
  { intros k. rewrite al_add. by rewrite cls_add_al. }
  assert (Hptr' : ∀ k : svar,
     let p' := set_fold (fun v (acc : pmapT) => <[v := la]> (<[tog v := lia]> acc)) (ptr hr) A' in
     (k ∈ A' → p' !! k = Some la) ∧ (tog k ∈ A' → p' !! k = Some lia) ∧
     (k ∉ A' → tog k ∉ A' → p' !! k = ptr hr !! k)).
  { intros k. apply (repoint_lookup_aux la lia (ptr hr) k A' Hdisj). }
  split; [lia|]. split; [apply bounded_insert; [done|lia]|].
  unfold local_ok. cbn [ptr hcm hcv].
  split; [|split].
  - (* local_ok *)
    split; [|split; [|split]].
    + (* content agreement *)
      split.
      * intros k l Hk. rewrite Hcls'. destruct (Hptr' k) as (P1 & P2 & P3). cbn zeta in *.
        destruct (decide (k ∈ A')) as [HkA|HkA].
        { rewrite P1 in Hk by done. injection Hk as <-. done. }
        destruct (decide (tog k ∈ A')) as [HtkA|HtkA].
        { rewrite P2 in Hk by done. injection Hk as <-. done. }
        rewrite P3 in Hk by done.
        rewrite Hframe.
        -- by apply (proj1 Hag).
        -- by eapply Hp.
        -- intros ->. by apply (Hnola k).
        -- intros ->. by apply (Hnolia k).
      * intros k Hk. rewrite Hcls'. destruct (Hptr' k) as (P1 & P2 & P3). cbn zeta in *.
        destruct (decide (k ∈ A')) as [HkA|HkA]; [rewrite P1 in Hk by done; done|].
        destruct (decide (tog k ∈ A')) as [HtkA|HtkA]; [rewrite P2 in Hk by done; done|].
        rewrite P3 in Hk by done. by apply (proj2 Hag).
    + (* sharers are members *)
      intros k1 k2 l Hk1 Hk2. rewrite Hcls'.
      destruct (Hptr' k1) as (P1 & P2 & P3). destruct (Hptr' k2) as (Q1 & Q2 & Q3). cbn zeta in *.
      destruct (decide (k1 ∈ A')) as [Hk1A|Hk1A].
      { rewrite P1 in Hk1 by done. injection Hk1 as <-.
        destruct (decide (k2 ∈ A')) as [Hk2A|Hk2A]; [done|].
        destruct (decide (tog k2 ∈ A')) as [Htk2A|Htk2A].
        - rewrite Q2 in Hk2 by done. injection Hk2 as Hk2. by destruct Hne.
        - rewrite Q3 in Hk2 by done. by destruct (Hnola k2). }
      destruct (decide (tog k1 ∈ A')) as [Htk1A|Htk1A].
      { rewrite P2 in Hk1 by done. injection Hk1 as <-.
        destruct (decide (k2 ∈ A')) as [Hk2A|Hk2A].
        - rewrite Q1 in Hk2 by done. injection Hk2 as Hk2. by destruct Hne.
        - destruct (decide (tog k2 ∈ A')) as [Htk2A|Htk2A]; [by apply Hmem|].
          rewrite Q3 in Hk2 by done. by destruct (Hnolia k2). }
      rewrite P3 in Hk1 by done.
      destruct (decide (k2 ∈ A')) as [Hk2A|Hk2A].
      { rewrite Q1 in Hk2 by done. injection Hk2 as <-. by destruct (Hnola k1). }
      destruct (decide (tog k2 ∈ A')) as [Htk2A|Htk2A].
      { rewrite Q2 in Hk2 by done. injection Hk2 as <-. by destruct (Hnolia k1). }
      rewrite Q3 in Hk2 by done. by apply (Hsh k1 k2 l).
    + (* canonical map *)
      rewrite add_unfold by done. cbn [cm]. rewrite Ea. cbn [fst snd].
      assert (cls (add_al (al r) a b) a = A') as ->; [|done].
      rewrite cls_add_al by done. fold C. fold A'.
      rewrite decide_True; [done|]. apply elem_of_union_l, Hr.
    + rewrite add_unfold by done. cbn [cv]. rewrite Ea, Eb. done.
  - (* frame *)
    intros l Hl Hnp. apply Hframe; [done| |].
    + intros ->. destruct Hd1 as [Hpa|(Hpa & Hx & _)]; [by apply (Hnp a)|lia].
    + intros ->. destruct Hd2 as [Hpa|(Hpa & Hx & _)]; [by apply (Hnp (tog a))|lia].
  - (* provenance of pointers *)
    intros k l Hk. destruct (Hptr' k) as (P1 & P2 & P3). cbn zeta in *.
    destruct (decide (k ∈ A')) as [HkA|HkA].
    { rewrite P1 in Hk by done. injection Hk as <-.
      destruct Hd1 as [Hpa|(Hpa & Hx & _)]; [left; eauto|right; lia]. }
    destruct (decide (tog k ∈ A')) as [HtkA|HtkA].
    { rewrite P2 in Hk by done. injection Hk as <-.
      destruct Hd2 as [Hpa|(Hpa & Hx & _)]; [left; eauto|right; lia]. }
    rewrite P3 in Hk by done. left. eauto.
Qed.

(* ---------- remove ---------- *)
Lemma hremove_spec (h : heapT) (hr : hrel) (r : rel) (a : svar) :
  local_ok h hr r → al_ok r →
  local_ok h (hremove h hr a) (remove r a) ∧
  (∀ (k : svar) (l : loc), ptr (hremove h hr a) !! k = Some l → ptr hr !! k = Some l).
Proof.
  intros Hok Hal. pose proof Hok as (Hag & Hsh & Hcm & Hcv).
  destruct a as [[] p]; [done|].
  unfold hremove. cbn [fst snd]. rewrite Hcv.
  destruct (decide (p ∈ cv r)) as [Hp|Hp]; [|by rewrite remove_noop_notcanon].
  rewrite !(hcls_agree h (ptr hr) (cls (al r))) by done.
  fold (removed_set r (false, p)). set (R := removed_set r (false, p)).
  split.
  - split; [|split; [|split]]; cbn [ptr hcm hcv].
    + split.
      * intros k l. rewrite del_fold_lookup, cls_remove by done. fold R.
        case_decide; [done|]. apply (proj1 Hag).
      * intros k. rewrite del_fold_lookup, cls_remove by done. fold R.
        case_decide; [done|]. apply (proj2 Hag).
    + intros k1 k2 l. rewrite !del_fold_lookup, cls_remove by done. fold R.
      case_decide; [done|]. case_decide; [done|]. apply Hsh.
    + rewrite remove_unfold by done. cbn [cm]. fold R. by rewrite Hcm.
    + rewrite remove_unfold by done. done.
  - cbn [ptr]. intros k l. rewrite del_fold_lookup. case_decide; done.
Qed.

(* ---------- copy ---------- *)
Lemma hcopy_spec (h : heapT) (n : loc) (p : pmapT) (h' : heapT) (n' : loc) (p' : pmapT) :
  bounded h n → pbelow p n → hcopy h n p = (h', n', p') →
  (n ≤ n')%positive ∧ bounded h' n' ∧
  (∀ l0 : loc, (l0 < n)%positive → h' !! l0 = h !! l0) ∧
  (∀ k : svar, p' !! k = None ↔ p !! k = None) ∧
  (∀ (k : svar) (l' : loc), p' !! k = Some l' →
     (n ≤ l')%positive ∧ (l' < n')%positive ∧ ∃ l : loc, p !! k = Some l ∧ h' !! l' = Some (hget h l)) ∧
  (∀ (k1 k2 : svar) (l' : loc), p' !! k1 = Some l' → p' !! k2 = Some l' → k1 = k2).
Proof.
  intros Hb Hp. unfold hcopy. revert h' n' p'.
  pose (P := fun (acc : heapT * loc * pmapT) (m : pmapT) =>
    pbelow m n → ∀ (h' : heapT) (n' : loc) (p' : pmapT), acc = (h', n', p') →
    (n ≤ n')%positive ∧ bounded h' n' ∧
    (∀ l0 : loc, (l0 < n)%positive → h' !! l0 = h !! l0) ∧
    (∀ k : svar, p' !! k = None ↔ m !! k = None) ∧
    (∀ (k : svar) (l' : loc), p' !! k = Some l' →
       (n ≤ l')%positive ∧ (l' < n')%positive ∧ ∃ l : loc, m !! k = Some l ∧ h' !! l' = Some (hget h l)) ∧
    (∀ (k1 k2 : svar) (l' : loc), p' !! k1 = Some l' → p' !! k2 = Some l' → k1 = k2)).
  intros h' n' p' E.
  refine (map_fold_ind P _ (h, n, ∅) _ _ p Hp h' n' p' E); unfold P; clear P E h' n' p'.
  - intros _ h' n' p' [= <- <- <-]. split; [lia|]. split; [done|]. split; [done|].
    split; [intros k; by rewrite !lookup_empty|]. split; intros *; by rewrite lookup_empty.
  - intros i x m [[h1 n1] p1] Hmi IH Hpm h' n' p' [= <- <- <-].
    assert (pbelow m n) as Hpm'.
    { intros k l Hk. apply (Hpm k l). rewrite lookup_insert_ne; [done|]. intros ->. by rewrite Hmi in Hk. }
    destruct (IH Hpm' h1 n1 p1 eq_refl) as (I1 & I2 & I3 & I4 & I5 & I6).
    assert (Hx : (x < n)%positive) by (apply (Hpm i x); by rewrite lookup_insert).
    split; [lia|]. split; [|split; [|split; [|split]]].
    + intros l0 Hl0. destruct (decide (l0 = n1)) as [->|Hne]; [lia|].
      rewrite lookup_insert_ne in Hl0 by done. specialize (I2 _ Hl0). lia.
    + intros l0 Hl0. rewrite lookup_insert_ne by lia. by apply I3.
    + intros k. destruct (decide (k = i)) as [->|Hne].
      * rewrite !lookup_insert. done.
      * rewrite !lookup_insert_ne by done. apply I4.
    + intros k l'. destruct (decide (k = i)) as [->|Hne].
      * rewrite !lookup_insert. intros [= <-]. split; [done|]. split; [lia|].
        exists x. split; [done|]. rewrite lookup_insert. f_equal. unfold hget. by rewrite I3.
      * rewrite !lookup_insert_ne by done. intros Hk.
        destruct (I5 _ _ Hk) as (J1 & J2 & l & J3 & J4).
        split; [done|]. split; [lia|]. exists l. split; [done|].
        rewrite lookup_insert_ne by lia. done.
    + intros k1 k2 l'.
      destruct (decide (k1 = i)) as [->|Hne1]; destruct (decide (k2 = i)) as [->|Hne2]; [done| | |].
      * rewrite lookup_insert, lookup_insert_ne by done. intros [= <-] Hk.
        destruct (I5 _ _ Hk) as (_ & J2 & _). lia.
      * rewrite lookup_insert, lookup_insert_ne by done. intros Hk [= <-].
        destruct (I5 _ _ Hk) as (_ & J2 & _). lia.
      * rewrite !lookup_insert_ne by done. apply I6.
Qed.

(* ---------- the world invariant ---------- *)
Definition owned (hs : list hrel) : Prop :=
  ∀ (i j : nat) (h1 h2 : hrel) (k1 k2 : svar) (l : loc),
    hs !! i = Some h1 → hs !! j = Some h2 → ptr h1 !! k1 = Some l → ptr h2 !! k2 = Some l → i = j.

Definition hinv (w : world) (rs : list rel) : Prop :=
  length (rels w) = length rs ∧ bounded (heap w) (next w) ∧ owned (rels w) ∧
  ∀ (i : nat) (hr : hrel) (r : rel), rels w !! i = Some hr → rs !! i = Some r → local_ok (heap w) hr r.

Lemma hinv_pbelow w rs i hr : hinv w rs → rels w !! i = Some hr → pbelow (ptr hr) (next w).
Proof.
  intros (Hlen & Hb & Hown & Hloc) Hi.
  destruct (lookup_lt_is_Some_2 rs i) as [r Hr]; [rewrite <- Hlen; by eapply lookup_lt_Some|].
  destruct (Hloc i hr r Hi Hr) as (Hag & _). by eapply agree_pbelow.
Qed.

Lemma hupd_inv (w : world) (rs : list rel) (i : nat) (hr : hrel) (r : rel)
    (h' : heapT) (n' : loc) (hr' : hrel) (r' : rel) :
  hinv w rs → rels w !! i = Some hr → rs !! i = Some r →
  (next w ≤ n')%positive → bounded h' n' → local_ok h' hr' r' →
  (∀ l : loc, (l < next w)%positive → (∀ k : svar, ptr hr !! k ≠ Some l) → h' !! l = heap w !! l) →
  (∀ (k : svar) (l : loc), ptr hr' !! k = Some l → (∃ k' : svar, ptr hr !! k' = Some l) ∨ (next w ≤ l)%positive) →
  hinv (World h' n' (<[i := hr']> (rels w))) (<[i := r']> rs).
Proof.
  intros Hinv Hi Hri Hn Hb' Hok' Hframe Hprov.
  pose proof Hinv as (Hlen & Hb & Hown & Hloc).
  assert (Hilt : i < length (rels w)) by (by eapply lookup_lt_Some).
  split; [cbn [rels]; by rewrite !insert_length|]. split; [done|]. cbn [heap next rels].
  split.
  - intros i1 i2 x1 x2 k1 k2 l H1 H2 Hk1 Hk2.
    destruct (decide (i1 = i)) as [->|Hne1]; destruct (decide (i2 = i)) as [->|Hne2]; [done| | |].
    + rewrite list_lookup_insert in H1 by done. injection H1 as <-.
      rewrite list_lookup_insert_ne in H2 by done.
      pose proof (hinv_pbelow _ _ _ _ Hinv H2 _ _ Hk2) as Hl.
      destruct (Hprov _ _ Hk1) as [[k' Hk']|Hge]; [|lia].
      apply (Hown i i2 hr x2 k' k2 l); done.
    + rewrite list_lookup_insert in H2 by done. injection H2 as <-.
      rewrite list_lookup_insert_ne in H1 by done.
      pose proof (hinv_pbelow _ _ _ _ Hinv H1 _ _ Hk1) as Hl.
      destruct (Hprov _ _ Hk2) as [[k' Hk']|Hge]; [|lia].
      apply (Hown i1 i x1 hr k1 k' l); done.
    + rewrite list_lookup_insert_ne in H1 by done. rewrite list_lookup_insert_ne in H2 by done.
      by apply (Hown i1 i2 x1 x2 k1 k2 l).
  - intros j hrj rj Hj Hrj. destruct (decide (j = i)) as [->|Hne].
    + rewrite list_lookup_insert in Hj by done. injection Hj as <-.
      rewrite list_lookup_insert in Hrj by (by rewrite <- Hlen). injection Hrj as <-. done.
    + rewrite list_lookup_insert_ne in Hj by done. rewrite list_lookup_insert_ne in Hrj by done.
      destruct (Hloc j hrj rj Hj Hrj) as ((Hg1 & Hg2) & Hsh & Hcm & Hcv).
      split; [|done]. split; [|done].
      intros k l Hk. rewrite Hframe; [by apply Hg1| |].
      * apply Hb. rewrite (Hg1 _ _ Hk). eauto.
      * intros k' Hk'. apply Hne. symmetry. by apply (Hown i j hr hrj k' k l).
Qed.

Lemma hstep_inv (w : world) (rs : list rel) (o : op) :
  hinv w rs → all_ok rs → legal_op rs o → hinv (hstep w o) (step rs o).
Proof.
  intros Hinv Hall Hleg. pose proof Hinv as (Hlen & Hb & Hown & Hloc).
  destruct o as [i a b|i a|i]; cbn [hstep step]; unfold hupd, upd.
  - destruct (rels w !! i) as [hr|] eqn:Ei.
    + destruct (lookup_lt_is_Some_2 rs i) as [r Hr]; [rewrite <- Hlen; by eapply lookup_lt_Some|].
      rewrite Hr.
      destruct (hadd (heap w) (next w) hr a b) as [[h' n'] hr'] eqn:E.
      assert (rel_ok r) as [Halr _] by (by eapply Forall_lookup_1).
      destruct (hadd_spec _ _ _ r _ _ _ _ _ Hb (Hloc _ _ _ Ei Hr) Halr (Hleg _ Hr) E) as (S1 & S2 & S3 & S4 & S5).
      by eapply hupd_inv.
    + assert (rs !! i = None) as ->; [|done].
      apply (proj2 (lookup_ge_None rs i)). rewrite <- Hlen. by apply (proj1 (lookup_ge_None (rels w) i)).
  - destruct (rels w !! i) as [hr|] eqn:Ei.
    + destruct (lookup_lt_is_Some_2 rs i) as [r Hr]; [rewrite <- Hlen; by eapply lookup_lt_Some|].
      rewrite Hr.
      assert (rel_ok r) as [Halr _] by (by eapply Forall_lookup_1).
      destruct (hremove_spec (heap w) hr r a (Hloc _ _ _ Ei Hr) Halr) as [S1 S2].
      eapply hupd_inv; try done.
      intros k l Hk. left. exists k. by apply S2.
    + assert (rs !! i = None) as ->; [|done].
      apply (proj2 (lookup_ge_None rs i)). rewrite <- Hlen. by apply (proj1 (lookup_ge_None (rels w) i)).
  - destruct (rels w !! i) as [hr|] eqn:Ei.
    + destruct (lookup_lt_is_Some_2 rs i) as [r Hr]; [rewrite <- Hlen; by eapply lookup_lt_Some|].
      rewrite Hr.
      destruct (hcopy (heap w) (next w) (ptr hr)) as [[h' n'] p'] eqn:E.
      pose proof (hinv_pbelow _ _ _ _ Hinv Ei) as Hp.
      destruct (hcopy_spec _ _ _ _ _ _ Hb Hp E) as (S1 & S2 & S3 & S4 & S5 & S6).
      destruct (Hloc _ _ _ Ei Hr) as ((Hg1 & Hg2) & Hsh & Hcm & Hcv).
      assert (rel_ok r) as [([Hrefl _] & _ & _) _] by (by eapply Forall_lookup_1).
      split; [cbn [rels]; rewrite !app_length; cbn; lia|]. split; [done|]. cbn [heap next rels].
      split.
      * intros i1 i2 x1 x2 k1 k2 l H1 H2 Hk1 Hk2.
        apply lookup_app_Some in H1 as [H1|[H1a H1]]; apply lookup_app_Some in H2 as [H2|[H2a H2]].
        -- by apply (Hown i1 i2 x1 x2 k1 k2 l).
        -- apply list_lookup_singleton_Some in H2 as [_ <-]. cbn [ptr] in Hk2.
           pose proof (hinv_pbelow _ _ _ _ Hinv H1 _ _ Hk1) as Hl.
           destruct (S5 _ _ Hk2) as (J1 & _). lia.
        -- apply list_lookup_singleton_Some in H1 as [_ <-]. cbn [ptr] in Hk1.
           pose proof (hinv_pbelow _ _ _ _ Hinv H2 _ _ Hk2) as Hl.
           destruct (S5 _ _ Hk1) as (J1 & _). lia.
        -- apply list_lookup_singleton_Some in H1 as [H1 _]. apply list_lookup_singleton_Some in H2 as [H2 _]. lia.
      * intros j hrj rj Hj Hrj.
        apply lookup_app_Some in Hj as [Hj|[Hja Hj]]; apply lookup_app_Some in Hrj as [Hrj|[Hrja Hrj]].
        -- destruct (Hloc j hrj rj Hj Hrj) as ((G1 & G2) & Gsh & Gcm & Gcv).
           split; [|done]. split; [|done].
           intros k l Hk. rewrite S3; [by apply G1|]. apply Hb. rewrite (G1 _ _ Hk). eauto.
        -- apply lookup_lt_Some in Hj. lia.
        -- apply lookup_lt_Some in Hrj. lia.
        -- apply list_lookup_singleton_Some in Hj as [_ <-]. apply list_lookup_singleton_Some in Hrj as [_ <-].
           split; [|split; [|done]]; cbn [ptr].
           ++ split.
              ** intros k l' Hk. destruct (S5 _ _ Hk) as (_ & _ & l & J3 & J4).
                 rewrite J4. f_equal. unfold hget. by rewrite (Hg1 _ _ J3).
              ** intros k Hk. apply Hg2. by apply S4.
           ++ intros k1 k2 l' Hk1 Hk2. rewrite (S6 _ _ _ Hk1 Hk2). apply Hrefl.
    + assert (rs !! i = None) as ->; [|done].
      apply (proj2 (lookup_ge_None rs i)). rewrite <- Hlen. by apply (proj1 (lookup_ge_None (rels w) i)).
Qed.

Lemma hinv0 : hinv world0 [empty_rel].
Proof.
  split; [done|]. split; [intros l [x Hx]; cbn in Hx; by rewrite lookup_empty in Hx|]. split.
  - intros i j h1 h2 k1 k2 l H1 H2 Hk1.
    apply list_lookup_singleton_Some in H1 as [_ <-]. cbn in Hk1. by rewrite lookup_empty in Hk1.
  - intros i hr r H1 H2.
    apply list_lookup_singleton_Some in H1 as [_ <-]. apply list_lookup_singleton_Some in H2 as [_ <-].
    split; [|split; [|done]].
    + split; [intros k l Hk; cbn in Hk; by rewrite lookup_empty in Hk|].
      intros k _. unfold cls. cbn. by rewrite lookup_empty.
    + intros k1 k2 l Hk. cbn in Hk. by rewrite lookup_empty in Hk.
Qed.

Lemma hfold_inv (ops : list op) : ∀ (w : world) (rs : list rel),
  hinv w rs → all_ok rs → legal_ops rs ops →
  hinv (fold_left hstep ops w) (fold_left step ops rs) ∧ all_ok (fold_left step ops rs).
Proof.
  induction ops as [|o ops IH]; intros w rs Hinv Hall Hl; [done|].
  destruct Hl as [H1 H2]. cbn [fold_left].
  apply IH; [by apply hstep_inv|by apply step_all_ok|done].
Qed.

Theorem hrun_inv (ops : list op) : legal_ops [empty_rel] ops → hinv (hrun ops) (run_ops ops).
Proof.
  intros Hl. apply hfold_inv; [apply hinv0| |done].
  constructor; [apply rel_ok_empty|constructor].
Qed.

(* lock-step refinement: after any legal history, every query on the heap-level state gives
   the value-level answer *)
Theorem heap_refines (ops : list op) : legal_ops [empty_rel] ops →
  ∀ (i : nat) (hr : hrel) (r : rel), rels (hrun ops) !! i = Some hr → run_ops ops !! i = Some r →
  (∀ k : svar, hcls (hrun ops) hr k = cls (al r) k) ∧ hcm hr = cm r ∧ hcv hr = cv r.
Proof.
  intros Hl i hr r Hi Hr. destruct (hrun_inv ops Hl) as (_ & _ & _ & Hloc).
  destruct (Hloc i hr r Hi Hr) as (Hag & _ & Hcm & Hcv).
  split; [|done]. intros k. unfold hcls. by apply hcls_agree.
Qed.

Theorem heap_same_length (ops : list op) : legal_ops [empty_rel] ops →
  length (rels (hrun ops)) = length (run_ops ops).
Proof. intros Hl. by destruct (hrun_inv ops Hl) as (H & _). Qed.

(* object-sharing discipline in every reachable heap-level state *)
Theorem heap_sharing (ops : list op) : legal_ops [empty_rel] ops →
  let w := hrun ops in
  (∀ (i j : nat) (h1 h2 : hrel) (k1 k2 : svar) (l : loc),
     rels w !! i = Some h1 → rels w !! j = Some h2 →
     ptr h1 !! k1 = Some l → ptr h2 !! k2 = Some l → i = j ∧ k2 ∈ hcls w h1 k1) ∧
  (∀ (i : nat) (hr : hrel) (k : svar) (l : loc),
     rels w !! i = Some hr → ptr hr !! k = Some l → (l < next w)%positive ∧ is_Some (heap w !! l)).
Proof.
  intros Hl w. pose proof (hrun_inv ops Hl) as Hinv. fold w in Hinv.
  pose proof Hinv as (Hlen & Hb & Hown & Hloc). split.
  - intros i j h1 h2 k1 k2 l H1 H2 Hk1 Hk2.
    assert (i = j) as <- by (by eapply Hown). split; [done|].
    rewrite H1 in H2. injection H2 as <-.
    destruct (lookup_lt_is_Some_2 (run_ops ops) i) as [r Hr]; [rewrite <- Hlen; by eapply lookup_lt_Some|].
    destruct (Hloc i h1 r H1 Hr) as (Hag & Hsh & _).
    unfold hcls. rewrite (hcls_agree _ _ _ k1 Hag). by eapply Hsh.
  - intros i hr k l Hi Hk. split; [by eapply hinv_pbelow|].
    destruct (lookup_lt_is_Some_2 (run_ops ops) i) as [r Hr]; [rewrite <- Hlen; by eapply lookup_lt_Some|].
    destruct (Hloc i hr r Hi Hr) as ((Hg1 & _) & _). rewrite (Hg1 _ _ Hk). eauto.
Qed.

(* after Copy i: the new relation has the source's keys, canonical data and class values, and
   its pointers are pairwise distinct, freshly allocated, and disjoint from every older relation's *)
Theorem heap_copy_fresh (ops : list op) (i : nat) (hr : hrel) : legal_ops [empty_rel] ops →
  let w := hrun ops in
  let w' := hstep w (Copy i) in
  rels w !! i = Some hr →
  ∃ hr' : hrel, rels w' = rels w ++ [hr'] ∧
    hcm hr' = hcm hr ∧ hcv hr' = hcv hr ∧
    (∀ k : svar, ptr hr' !! k = None ↔ ptr hr !! k = None) ∧
    (∀ k : svar, hcls w' hr' k = hcls w hr k) ∧
    (∀ (k1 k2 : svar) (l : loc), ptr hr' !! k1 = Some l → ptr hr' !! k2 = Some l → k1 = k2) ∧
    (∀ (k : svar) (l : loc), ptr hr' !! k = Some l →
       (next w ≤ l)%positive ∧ (l < next w')%positive ∧ heap w !! l = None ∧ is_Some (heap w' !! l)) ∧
    (∀ (j : nat) (hrj : hrel) (k k' : svar) (l : loc),
       rels w !! j = Some hrj → ptr hrj !! k = Some l → ptr hr' !! k' ≠ Some l).
Proof.
  intros Hl w w' Hi. pose proof (hrun_inv ops Hl) as Hinv. fold w in Hinv.
  pose proof Hinv as (Hlen & Hb & Hown & Hloc).
  unfold w'. cbn [hstep]. rewrite Hi.
  destruct (hcopy (heap w) (next w) (ptr hr)) as [[h' n'] p'] eqn:E.
  pose proof (hinv_pbelow _ _ _ _ Hinv Hi) as Hp.
  destruct (hcopy_spec _ _ _ _ _ _ Hb Hp E) as (S1 & S2 & S3 & S4 & S5 & S6).
  exists (HRel p' (hcm hr) (hcv hr)). cbn [rels heap next ptr hcm hcv].
  split; [done|]. split; [done|]. split; [done|]. split; [done|].
  destruct (lookup_lt_is_Some_2 (run_ops ops) i) as [r Hr]; [rewrite <- Hlen; by eapply lookup_lt_Some|].
  destruct (Hloc i hr r Hi Hr) as ((Hg1 & Hg2) & _).
  split; [|split; [done|split]].
  - intros k. unfold hcls, hcls_at. cbn [heap ptr].
    destruct (p' !! k) as [l'|] eqn:Ek.
    + destruct (S5 _ _ Ek) as (_ & _ & l & J3 & J4). rewrite J3, J4. cbn.
      unfold hget. by rewrite (Hg1 _ _ J3).
    + apply S4 in Ek. by rewrite Ek.
  - intros k l Hk. destruct (S5 _ _ Hk) as (J1 & J2 & l0 & J3 & J4).
    split; [done|]. split; [done|]. split; [|rewrite J4; eauto].
    destruct (heap w !! l) as [x|] eqn:Ex; [|done].
    assert ((l < next w)%positive) by (apply Hb; rewrite Ex; eauto). lia.
  - intros j hrj k k' l Hj Hk Hk'.
    pose proof (hinv_pbelow _ _ _ _ Hinv Hj _ _ Hk) as Hlt.
    destruct (S5 _ _ Hk') as (J1 & _). lia.
Qed.

(* a boolean decision of legality, for concrete witnesses *)
Definition legal_opb (rs : list rel) (o : op) : bool :=
  match o with
  | Add i a b => match rs !! i with Some r => bool_decide (tog b ∉ cls (al r) a) | None => true end
  | _ => true
  end.
Fixpoint legal_opsb (rs : list rel) (ops : list op) : bool :=
  match ops with
  | [] => true
  | o :: ops' => legal_opb rs o && legal_opsb (step rs o) ops'
  end.
Lemma legal_opsb_sound (ops : list op) : ∀ rs : list rel, legal_opsb rs ops = true → legal_ops rs ops.
Proof.
  induction ops as [|o ops IH]; intros rs H; [done|].
  cbn [legal_opsb] in H. apply andb_true_iff in H as [H1 H2].
  split; [|by apply IH].
  destruct o as [i a b|i a|i]; [|done..]. cbn [legal_op legal_opb] in *.
  intros r Hr. rewrite Hr in H1. by apply bool_decide_eq_true_1 in H1.
Qed.

(* boolean form of "relation i of the heap-level world answers aliases(k) like the value level" *)
Definition refines_atb (w : world) (rs : list rel) (i : nat) (k : svar) : bool :=
  match rels w !! i, rs !! i with
  | Some hr, Some r => bool_decide (hcls w hr k = cls (al r) k)
  | _, _ => true
  end.

(* the mutant "shallow copy()": the same history run with a pointer-sharing Copy does NOT refine
   the value-level model — an add on the source leaks into the copy *)
Theorem shallow_copy_refuted :
  ∃ ops : list op, legal_ops [empty_rel] ops ∧
    ¬ (∀ (i : nat) (hr : hrel) (r : rel),
         rels (hrun_shallow ops) !! i = Some hr → run_ops ops !! i = Some r →
         (∀ k : svar, hcls (hrun_shallow ops) hr k = cls (al r) k) ∧ hcm hr = cm r ∧ hcv hr = cv r).
Proof.
  set (a := (false, 1%positive) : svar). set (b := (false, 2%positive) : svar). set (c := (false, 3%positive) : svar).
  set (ops := [Add 0 a b; Copy 0; Add 0 a c]).
  exists ops. split.
  - apply legal_opsb_sound. vm_compute. reflexivity.
  - intros H.
    assert (refines_atb (hrun_shallow ops) (run_ops ops) 1 a = true) as Ht.
    { unfold refines_atb.
      destruct (rels (hrun_shallow ops) !! 1) as [hr|] eqn:E1; [|done].
      destruct (run_ops ops !! 1) as [r|] eqn:E2; [|done].
      apply bool_decide_eq_true_2. by apply (H 1 hr r E1 E2). }
    assert (refines_atb (hrun_shallow ops) (run_ops ops) 1 a = false) as Hf by (vm_compute; reflexivity).
    rewrite Ht in Hf. discriminate Hf.
Qed.

(* and the faithful copy() does refine on that same history (sanity: the witness is about copy) *)
Example deep_copy_same_history_ok :
  let a : svar := (false, 1%positive) in let b : svar := (false, 2%positive) in let c : svar := (false, 3%positive) in
  let ops := [Add 0 a b; Copy 0; Add 0 a c] in
  refines_atb (hrun ops) (run_ops ops) 1 a = true ∧ legal_opsb [empty_rel] ops = true.
Proof. vm_compute. split; reflexivity. Qed.
