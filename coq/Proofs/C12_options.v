(* C12 — proofs: non-interference of the three representation flags in the model of
   Model/C12_options.v.  The evaluation strategies are Section variables; the Section
   hypotheses are CasADi's contract (TRUSTED, listed in the manifest's level_note):
     mapS_ext    a mapped function gives, whatever the parallelisation mode, results that
                 depend only on the extension of the mapped body
     imapS_ext   the same for the integer index expression of a loop
     callS_ext   a call gives, inlined or not, a result that depends only on the extension
                 of the called function
     icallS_ext  the same for get_integer
     expandS_ext expand() of a function is extensionally the function
     callMS_ext  callS_ext for functions whose arguments are whole arrays (a matrix, a vector)
                 and a scalar *)
From Coq Require Import ZArith QArith Qcanon List Bool Arith Lia.
Import ListNotations.
From PV Require Import Model.C11_residual Model.C12_options.
Open Scope Qc_scope.

Lemma fold_left_ext {A B} (f g : A -> B -> A) (l : list B) (a : A) :
  (forall x y, f x y = g x y) -> fold_left f l a = fold_left g l a.
Proof. intros H. revert a. induction l as [|y l IH]; intros a; simpl; [reflexivity|]. rewrite H. apply IH. Qed.

Lemma flat_map_ext' {A B} (f g : A -> list B) (l : list A) :
  (forall x, In x l -> f x = g x) -> flat_map f l = flat_map g l.
Proof.
  induction l as [|x l IH]; intros H; simpl; [reflexivity|].
  rewrite (H x (or_introl eq_refl)). f_equal. apply IH. intros y Hy. apply H. right. exact Hy.
Qed.

Section NI.
Variable mapS : mapmode -> (Z -> nat -> env -> list (option Qc)) -> list Z -> env -> list (list (option Qc)).
Variable imapS : mapmode -> (Z -> Z) -> list Z -> list Z.
Variable callS : callmode -> (Qc -> Qc -> nat -> option Qc) -> Qc -> Qc -> nat -> option Qc.
Variable icallS : callmode -> (Z -> Z) -> Z -> Z.
Variable expandS : (env -> list (option Qc)) -> env -> list (option Qc).
Variable callMS : callmode -> ((Z -> Z -> Qc) -> (Z -> Qc) -> Qc -> nat -> option Qc) ->
                  (Z -> Z -> Qc) -> (Z -> Qc) -> Qc -> nat -> option Qc.
Variable P_expand_vectors P_expand_simplify P_scalar P_eliminable : gmodel -> gmodel.
Variable P_aliases : bool -> gmodel -> gmodel.

Hypothesis mapS_ext : forall m1 m2 b1 b2,
  (forall i p r, b1 i p r = b2 i p r) -> forall vals rho, mapS m1 b1 vals rho = mapS m2 b2 vals rho.
Hypothesis imapS_ext : forall m1 m2 f vals, imapS m1 f vals = imapS m2 f vals.
Hypothesis callS_ext : forall c1 c2 F1 F2,
  (forall a b k, F1 a b k = F2 a b k) -> forall a b k, callS c1 F1 a b k = callS c2 F2 a b k.
Hypothesis icallS_ext : forall c1 c2 F n, icallS c1 F n = icallS c2 F n.
Hypothesis expandS_ext : forall F rho, expandS F rho = F rho.
Hypothesis callMS_ext : forall c1 c2 F1 F2,
  (forall M v x k, F1 M v x k = F2 M v x k) -> forall M v x k, callMS c1 F1 M v x k = callMS c2 F2 M v x k.

Notation compile := (compile imapS icallS P_expand_vectors P_expand_simplify P_scalar P_eliminable P_aliases).
Notation gen := (gen imapS icallS).
Notation dae := (dae_residual_function mapS callS expandS callMS).
Notation ini := (initial_residual_function mapS callS expandS callMS).
Notation meta := (variable_metadata_function mapS callS expandS callMS).
Notation del := (delay_arguments_function mapS callS expandS callMS).

Variable f1 f2 : flags.

(* ---- literal equalities: everything the generator computes at generation time ---- *)
Lemma get_integer_eq ipar b : get_integer icallS f1 ipar b = get_integer icallS f2 ipar b.
Proof. destruct b as [z|p k]; simpl; [reflexivity|]. destruct (k =? 0)%Z; [reflexivity|]. apply icallS_ext. Qed.

Lemma loop_vals_eq ipar lo hi : loop_vals icallS f1 ipar lo hi = loop_vals icallS f2 ipar lo hi.
Proof. unfold loop_vals. rewrite get_integer_eq. reflexivity. Qed.

Lemma gen_ref_eq vals r : gen_ref imapS f1 vals r = gen_ref imapS f2 vals r.
Proof.
  destruct r; simpl; try reflexivity.
  all: destruct vals as [vs|]; [|reflexivity].
  all: destruct (is_bare ix); [reflexivity|]. all: rewrite (imapS_ext (map_mode f1) (map_mode f2)); reflexivity.
Qed.

(* ---- expressions ---- *)
Definition callf_sim (c1 c2 : callmode -> nat -> Qc -> Qc -> nat -> option Qc) : Prop :=
  forall m1 m2 f x y k, c1 m1 f x y k = c2 m2 f x y k.

Definition callfm_sim (c1 c2 : callmode -> nat -> (Z -> Z -> Qc) -> (Z -> Qc) -> Qc -> nat -> option Qc) : Prop :=
  forall m1 m2 f M v x k, c1 m1 f M v x k = c2 m2 f M v x k.

Lemma geval_gen c1 c2 (Hc : callf_sim c1 c2) d1 d2 (Hd : callfm_sim d1 d2) vals e :
  forall rho, geval c1 d1 (gen_x imapS f1 vals e) rho = geval c2 d2 (gen_x imapS f2 vals e) rho.
Proof.
  induction e as [q|r|a IHa|n a IHa b IHb|c IHc a IHa b IHb|f a IHa b IHb k|f A b x IHx k]; intros rho; simpl.
  - reflexivity.
  - rewrite gen_ref_eq. reflexivity.
  - rewrite IHa. reflexivity.
  - rewrite IHa, IHb. reflexivity.
  - rewrite IHc, IHa, IHb. reflexivity.
  - rewrite IHa, IHb.
    destruct (geval c2 d2 (gen_x imapS f2 vals a) rho); [|reflexivity].
    destruct (geval c2 d2 (gen_x imapS f2 vals b) rho); [|reflexivity].
    apply Hc.
  - rewrite IHx. destruct (geval c2 d2 (gen_x imapS f2 vals x) rho); [|reflexivity]. apply Hd.
Qed.

(* ---- function bodies ---- *)
Lemma gexec1_gen c1 c2 (Hc : callf_sim c1 c2) d1 d2 (Hd : callfm_sim d1 d2) ipar s rho :
  gexec1 mapS c1 d1 (gen_stmt imapS icallS f1 ipar s) rho = gexec1 mapS c2 d2 (gen_stmt imapS icallS f2 ipar s) rho.
Proof.
  destruct s as [v e|lo hi v e]; simpl.
  - rewrite (geval_gen c1 c2 Hc d1 d2 Hd). reflexivity.
  - rewrite (loop_vals_eq ipar lo hi).
    apply fold_left_ext. intros acc p. unfold for_step. destruct acc as [r|]; [|reflexivity].
    rewrite (mapS_ext (map_mode f1) (map_mode f2) _
               (fun i p' r0 => [geval c2 d2 (gen_x imapS f2 (Some (loop_vals icallS f2 ipar lo hi)) e) (with_ip r0 i p')])).
    + reflexivity.
    + intros i p' r0. rewrite (geval_gen c1 c2 Hc d1 d2 Hd). reflexivity.
Qed.

Lemma gexec_gen c1 c2 (Hc : callf_sim c1 c2) d1 d2 (Hd : callfm_sim d1 d2) ipar body :
  forall rho, gexec mapS c1 d1 (map (gen_stmt imapS icallS f1 ipar) body) rho
            = gexec mapS c2 d2 (map (gen_stmt imapS icallS f2 ipar) body) rho.
Proof.
  induction body as [|s body IH]; intros rho; simpl; [reflexivity|].
  rewrite (gexec1_gen c1 c2 Hc d1 d2 Hd). destruct (gexec1 mapS c2 d2 _ rho); [apply IH|reflexivity].
Qed.

Lemma gfun_den_gen c1 c2 (Hc : callf_sim c1 c2) d1 d2 (Hd : callfm_sim d1 d2) ipar f a b k :
  gfun_den mapS c1 d1 (gen_fun imapS icallS f1 ipar f) a b k = gfun_den mapS c2 d2 (gen_fun imapS icallS f2 ipar f) a b k.
Proof. unfold gfun_den, gen_fun. simpl. rewrite (gexec_gen c1 c2 Hc d1 d2 Hd). reflexivity. Qed.

Lemma gfun_denM_gen c1 c2 (Hc : callf_sim c1 c2) d1 d2 (Hd : callfm_sim d1 d2) ipar f M v x k :
  gfun_denM mapS c1 d1 (gen_fun imapS icallS f1 ipar f) M v x k
  = gfun_denM mapS c2 d2 (gen_fun imapS icallS f2 ipar f) M v x k.
Proof. unfold gfun_denM, gen_fun. simpl. rewrite (gexec_gen c1 c2 Hc d1 d2 Hd). reflexivity. Qed.

Lemma no_calls_sim : callf_sim no_calls no_calls.
Proof. intros m1 m2 f x y k. reflexivity. Qed.
Lemma no_callsM_sim : callfm_sim no_callsM no_callsM.
Proof. intros m1 m2 f M v x k. reflexivity. Qed.

Lemma top_callf_gen ipar funs :
  callf_sim (top_callf mapS callS (map (fun nf => (fst nf, gen_fun imapS icallS f1 ipar (snd nf))) funs))
            (top_callf mapS callS (map (fun nf => (fst nf, gen_fun imapS icallS f2 ipar (snd nf))) funs)).
Proof.
  intros m1 m2 f x y k. unfold top_callf.
  induction funs as [|[g fd] funs IH]; simpl; [reflexivity|].
  destruct (Nat.eqb f g); [|exact IH].
  apply callS_ext. intros a b k'. apply gfun_den_gen; [exact no_calls_sim|exact no_callsM_sim].
Qed.

Lemma top_callfm_gen ipar funs :
  callfm_sim (top_callfm mapS callMS (map (fun nf => (fst nf, gen_fun imapS icallS f1 ipar (snd nf))) funs))
             (top_callfm mapS callMS (map (fun nf => (fst nf, gen_fun imapS icallS f2 ipar (snd nf))) funs)).
Proof.
  intros m1 m2 f M v x k. unfold top_callfm.
  induction funs as [|[g fd] funs IH]; simpl; [reflexivity|].
  destruct (Nat.eqb f g); [|exact IH].
  apply callMS_ext. intros M' v' x' k'. apply gfun_denM_gen; [exact no_calls_sim|exact no_callsM_sim].
Qed.

(* ---- equations and delay arguments ---- *)
Section Eqns.
Variable ipar : nat -> Z.
Variable funs mfuns : list (nat * sfun).
Variable db : nat.
Notation ft fl := (map (fun nf => (fst nf, gen_fun imapS icallS fl ipar (snd nf))) funs).
Notation mft fl := (map (fun nf => (fst nf, gen_fun imapS icallS fl ipar (snd nf))) mfuns).
Notation ev fl := (gev mapS callS callMS (ft fl) (mft fl)).

Lemma gev_gen vals e rho : ev f1 (gen_x imapS f1 vals e) rho = ev f2 (gen_x imapS f2 vals e) rho.
Proof.
  unfold gev. apply geval_gen; [apply top_callf_gen|apply top_callfm_gen].
Qed.

Lemma sub_eval vals l r rho :
  ev f1 (sub (gen_x imapS f1 vals l) (gen_x imapS f1 vals r)) rho
  = ev f2 (sub (gen_x imapS f2 vals l) (gen_x imapS f2 vals r)) rho.
Proof.
  pose proof (gev_gen vals l rho) as Hl. pose proof (gev_gen vals r rho) as Hr.
  unfold gev, sub in *. cbn [geval]. rewrite Hl, Hr. reflexivity.
Qed.

Lemma body_eval vals (body : list (sx * sx)) rho :
  map (fun c => ev f1 c rho) (map (fun lr => sub (gen_x imapS f1 vals (fst lr)) (gen_x imapS f1 vals (snd lr))) body)
  = map (fun c => ev f2 c rho) (map (fun lr => sub (gen_x imapS f2 vals (fst lr)) (gen_x imapS f2 vals (snd lr))) body).
Proof.
  rewrite !map_map. apply map_ext. intros [l r]. apply sub_eval.
Qed.

Lemma gen_eqn_eval q rho :
  geqn_eval mapS callS callMS (ft f1) (mft f1) (gen_eqn imapS icallS f1 ipar q) rho
  = geqn_eval mapS callS callMS (ft f2) (mft f2) (gen_eqn imapS icallS f2 ipar q) rho.
Proof.
  destruct q as [l r|lo hi body|l e d|lo hi l e d]; simpl.
  - f_equal. apply sub_eval.
  - rewrite !map_length. rewrite (loop_vals_eq ipar lo hi). f_equal.
    apply mapS_ext. intros i p r. apply body_eval.
  - f_equal. pose proof (gev_gen None l rho) as Hl. unfold gev, sub in *. cbn [geval]. rewrite Hl. reflexivity.
  - reflexivity.
Qed.

(* a residual whose right-hand side is a reference that does not depend on the flags *)
Lemma sub_ref_eval vals l (r : gref) rho :
  ev f1 (sub (gen_x imapS f1 vals l) (GRef r)) rho = ev f2 (sub (gen_x imapS f2 vals l) (GRef r)) rho.
Proof.
  pose proof (gev_gen vals l rho) as Hl. unfold gev, sub in *. cbn [geval]. rewrite Hl. reflexivity.
Qed.

Lemma gen_eqns_eval qs : forall k rho,
  flat_map (fun q => geqn_eval mapS callS callMS (ft f1) (mft f1) q rho) (fst (gen_eqns imapS icallS f1 ipar db k qs))
  = flat_map (fun q => geqn_eval mapS callS callMS (ft f2) (mft f2) q rho) (fst (gen_eqns imapS icallS f2 ipar db k qs))
  /\
  flat_map (fun d => gdelay_eval mapS callS callMS (ft f1) (mft f1) d rho) (snd (gen_eqns imapS icallS f1 ipar db k qs))
  = flat_map (fun d => gdelay_eval mapS callS callMS (ft f2) (mft f2) d rho) (snd (gen_eqns imapS icallS f2 ipar db k qs)).
Proof.
  induction qs as [|q qs IH]; intros k rho; [split; reflexivity|].
  destruct q as [l r|lo hi body|l e d|lo hi l e d]; cbn [gen_eqns].
  - destruct (IH k rho) as [IH1 IH2].
    destruct (gen_eqns imapS icallS f1 ipar db k qs) as [es1 ds1], (gen_eqns imapS icallS f2 ipar db k qs) as [es2 ds2].
    cbn [fst snd flat_map] in *. split; [|exact IH2]. rewrite IH1. f_equal.
    apply (gen_eqn_eval (MEq l r)).
  - destruct (IH k rho) as [IH1 IH2].
    destruct (gen_eqns imapS icallS f1 ipar db k qs) as [es1 ds1], (gen_eqns imapS icallS f2 ipar db k qs) as [es2 ds2].
    cbn [fst snd flat_map] in *. split; [|exact IH2]. rewrite IH1. f_equal.
    apply (gen_eqn_eval (MFor lo hi body)).
  - destruct (IH (S k) rho) as [IH1 IH2].
    destruct (gen_eqns imapS icallS f1 ipar db (S k) qs) as [es1 ds1], (gen_eqns imapS icallS f2 ipar db (S k) qs) as [es2 ds2].
    cbn [fst snd flat_map] in *. split.
    + rewrite IH1. f_equal. cbn [geqn_eval]. f_equal. apply sub_ref_eval.
    + rewrite IH2. f_equal. cbn [gdelay_eval]. rewrite !gev_gen. reflexivity.
  - rewrite (loop_vals_eq ipar lo hi).
    destruct (IH (S k) rho) as [IH1 IH2].
    destruct (gen_eqns imapS icallS f1 ipar db (S k) qs) as [es1 ds1], (gen_eqns imapS icallS f2 ipar db (S k) qs) as [es2 ds2].
    cbn [fst snd flat_map] in *. split.
    + rewrite IH1. f_equal. cbn [geqn_eval length]. f_equal.
      apply mapS_ext. intros i p r. cbn [map]. f_equal. apply sub_ref_eval.
    + rewrite IH2. f_equal. cbn [gdelay_eval]. rewrite gev_gen. f_equal. f_equal.
      apply mapS_ext. intros i p r. rewrite gev_gen. reflexivity.
Qed.
End Eqns.

(* ---- variable lists: literally equal ---- *)
Lemma c10_flat_eq m : c10_flat icallS f1 m = c10_flat icallS f2 m.
Proof.
  unfold c10_flat. f_equal. apply map_ext. intros d. unfold decl_sym.
  destruct (d_dim d) as [b|]; [|reflexivity]. rewrite get_integer_eq. reflexivity.
Qed.

Lemma lists_eq m : g_lists (gen f1 m) = g_lists (gen f2 m).
Proof. unfold C12_options.gen. simpl. rewrite c10_flat_eq. reflexivity. Qed.
Lemma types_eq m : g_types (gen f1 m) = g_types (gen f2 m).
Proof. unfold C12_options.gen. simpl. rewrite c10_flat_eq. reflexivity. Qed.
Lemma delay_states_eq m : g_delay_states (gen f1 m) = g_delay_states (gen f2 m).
Proof. reflexivity. Qed.

(* ---- the raw (not yet expanded) output functions of the generated model ---- *)
Notation G fl m := (C12_options.gen imapS icallS fl m).
Lemma raw_dae_eq m rho :
  flat_map (fun q => geqn_eval mapS callS callMS (g_funs (G f1 m)) (g_mfuns (G f1 m)) q rho) (g_eqs (G f1 m))
  = flat_map (fun q => geqn_eval mapS callS callMS (g_funs (G f2 m)) (g_mfuns (G f2 m)) q rho) (g_eqs (G f2 m)).
Proof. unfold C12_options.gen. simpl. apply gen_eqns_eval. Qed.
Lemma raw_ini_eq m rho :
  flat_map (fun q => geqn_eval mapS callS callMS (g_funs (G f1 m)) (g_mfuns (G f1 m)) q rho) (g_ieqs (G f1 m))
  = flat_map (fun q => geqn_eval mapS callS callMS (g_funs (G f2 m)) (g_mfuns (G f2 m)) q rho) (g_ieqs (G f2 m)).
Proof. unfold C12_options.gen. simpl. apply gen_eqns_eval. Qed.
Lemma raw_del_eq m rho :
  flat_map (fun d => gdelay_eval mapS callS callMS (g_funs (G f1 m)) (g_mfuns (G f1 m)) d rho) (g_delays (G f1 m))
  = flat_map (fun d => gdelay_eval mapS callS callMS (g_funs (G f2 m)) (g_mfuns (G f2 m)) d rho) (g_delays (G f2 m)).
Proof.
  unfold C12_options.gen. simpl. rewrite !flat_map_app. f_equal; apply gen_eqns_eval.
Qed.
Lemma raw_meta_eq m rho :
  flat_map (fun va => map (fun e => gev mapS callS callMS (g_funs (G f1 m)) (g_mfuns (G f1 m)) e rho) (snd va)) (g_attrs (G f1 m))
  = flat_map (fun va => map (fun e => gev mapS callS callMS (g_funs (G f2 m)) (g_mfuns (G f2 m)) e rho) (snd va)) (g_attrs (G f2 m)).
Proof.
  unfold C12_options.gen. simpl.
  induction (s_decls m) as [|d ds IH]; simpl; [reflexivity|].
  rewrite IH. f_equal. rewrite !map_map. apply map_ext. intros e. apply gev_gen.
Qed.

End NI.

(* ---- the whole pipeline ---- *)
Section Pipeline.
Variable mapS : mapmode -> (Z -> nat -> env -> list (option Qc)) -> list Z -> env -> list (list (option Qc)).
Variable imapS : mapmode -> (Z -> Z) -> list Z -> list Z.
Variable callS : callmode -> (Qc -> Qc -> nat -> option Qc) -> Qc -> Qc -> nat -> option Qc.
Variable icallS : callmode -> (Z -> Z) -> Z -> Z.
Variable expandS : (env -> list (option Qc)) -> env -> list (option Qc).
Variable callMS : callmode -> ((Z -> Z -> Qc) -> (Z -> Qc) -> Qc -> nat -> option Qc) ->
                  (Z -> Z -> Qc) -> (Z -> Qc) -> Qc -> nat -> option Qc.
Variable P_expand_vectors P_expand_simplify P_scalar P_eliminable : gmodel -> gmodel.
Variable P_aliases : bool -> gmodel -> gmodel.

Definition strategies_ok : Prop :=
  (forall m1 m2 b1 b2, (forall i p r, b1 i p r = b2 i p r) ->
     forall vals rho, mapS m1 b1 vals rho = mapS m2 b2 vals rho) /\
  (forall m1 m2 f vals, imapS m1 f vals = imapS m2 f vals) /\
  (forall c1 c2 F1 F2, (forall a b k, F1 a b k = F2 a b k) ->
     forall a b k, callS c1 F1 a b k = callS c2 F2 a b k) /\
  (forall c1 c2 F n, icallS c1 F n = icallS c2 F n) /\
  (forall F rho, expandS F rho = F rho) /\
  (forall c1 c2 F1 F2, (forall M v x k, F1 M v x k = F2 M v x k) ->
     forall M v x k, callMS c1 F1 M v x k = callMS c2 F2 M v x k).

Notation compile := (compile imapS icallS P_expand_vectors P_expand_simplify P_scalar P_eliminable P_aliases).
Notation gen := (gen imapS icallS).

(* with no simplification option and no cache, simplify only installs the expansion *)
Lemma compile_plain fl o m : no_simpl o = true ->
  compile fl o m = Ok (if expand_mx fl then set_expand (gen fl m) else gen fl m).
Proof.
  unfold no_simpl. destruct o as [ev el da sp ca]; simpl.
  destruct ev, el, da, sp, ca; simpl; try discriminate. intros _.
  unfold C12_options.compile, api_flags, simplify_once. simpl. reflexivity.
Qed.

(* the model that transfer_model returns and the four functions one can ask it for *)
Definition same_meaning (g1 g2 : gmodel) : Prop :=
  g_lists g1 = g_lists g2 /\ g_delay_states g1 = g_delay_states g2 /\ g_types g1 = g_types g2 /\
  (forall rho, dae_residual_function mapS callS expandS callMS g1 rho = dae_residual_function mapS callS expandS callMS g2 rho) /\
  (forall rho, initial_residual_function mapS callS expandS callMS g1 rho = initial_residual_function mapS callS expandS callMS g2 rho) /\
  (forall rho, variable_metadata_function mapS callS expandS callMS g1 rho = variable_metadata_function mapS callS expandS callMS g2 rho) /\
  (forall rho, delay_arguments_function mapS callS expandS callMS g1 rho = delay_arguments_function mapS callS expandS callMS g2 rho).

Lemma expand_wrap g F rho : (forall F r, expandS F r = F r) -> expand_mx_func expandS g F rho = F rho.
Proof. intros H. unfold expand_mx_func. destruct (g_expand g); [apply H|reflexivity]. Qed.

Theorem noninterference (Hs : strategies_ok) (o : other) (m : smodel) (f1 f2 : flags) :
  no_simpl o = true ->
  exists g1 g2, compile f1 o m = Ok g1 /\ compile f2 o m = Ok g2 /\ same_meaning g1 g2.
Proof.
  destruct Hs as (Hmap & Himap & Hcall & Hicall & Hexp & HcallM). intros Ho.
  eexists. eexists. split; [apply (compile_plain f1 o m Ho)|]. split; [apply (compile_plain f2 o m Ho)|].
  assert (X : forall (b : bool) (g : gmodel),
    g_lists (if b then set_expand g else g) = g_lists g /\
    g_delay_states (if b then set_expand g else g) = g_delay_states g /\
    g_types (if b then set_expand g else g) = g_types g /\
    g_eqs (if b then set_expand g else g) = g_eqs g /\
    g_ieqs (if b then set_expand g else g) = g_ieqs g /\
    g_funs (if b then set_expand g else g) = g_funs g /\
    g_mfuns (if b then set_expand g else g) = g_mfuns g /\
    g_attrs (if b then set_expand g else g) = g_attrs g /\
    g_delays (if b then set_expand g else g) = g_delays g).
  { intros b g. destruct b; repeat split; reflexivity. }
  pose proof (fun b g => proj1 (X b g)) as L.
  pose proof (fun b g => proj1 (proj2 (X b g))) as D.
  pose proof (fun b g => proj1 (proj2 (proj2 (X b g)))) as T.
  pose proof (fun b g => proj1 (proj2 (proj2 (proj2 (X b g))))) as E.
  pose proof (fun b g => proj1 (proj2 (proj2 (proj2 (proj2 (X b g)))))) as Ie.
  pose proof (fun b g => proj1 (proj2 (proj2 (proj2 (proj2 (proj2 (X b g))))))) as Fu.
  pose proof (fun b g => proj1 (proj2 (proj2 (proj2 (proj2 (proj2 (proj2 (X b g)))))))) as Mf.
  pose proof (fun b g => proj1 (proj2 (proj2 (proj2 (proj2 (proj2 (proj2 (proj2 (X b g))))))))) as A.
  pose proof (fun b g => proj2 (proj2 (proj2 (proj2 (proj2 (proj2 (proj2 (proj2 (X b g))))))))) as De.
  unfold same_meaning. rewrite !L, !D, !T.
  split; [apply lists_eq; assumption|].
  split; [reflexivity|].
  split; [apply types_eq; assumption|].
  unfold dae_residual_function, initial_residual_function, variable_metadata_function, delay_arguments_function.
  repeat split; intros rho; rewrite !(expand_wrap _ _ _ Hexp), ?E, ?Ie, ?Fu, ?Mf, ?A, ?De.
  - apply raw_dae_eq; assumption.
  - apply raw_ini_eq; assumption.
  - apply raw_meta_eq; assumption.
  - apply raw_del_eq; assumption.
Qed.

(* attribute expressions without user-function calls are generated literally equal *)
Fixpoint call_free (e : sx) : bool :=
  match e with
  | SNum _ | SRef _ => true
  | SNeg a => call_free a
  | SBin _ a b => call_free a && call_free b
  | SIf c a b => call_free c && call_free a && call_free b
  | SCall _ _ _ _ => false
  | SCallM _ _ _ _ _ => false
  end.

Lemma gen_x_literal (Himap : forall m1 m2 f vals, imapS m1 f vals = imapS m2 f vals) f1 f2 vals e :
  call_free e = true -> gen_x imapS f1 vals e = gen_x imapS f2 vals e.
Proof.
  induction e as [q|r|a IHa|n a IHa b IHb|c IHc a IHa b IHb|f a IHa b IHb k|f A b x IHx k]; simpl; intros H.
  - reflexivity.
  - rewrite (gen_ref_eq imapS Himap f1 f2). reflexivity.
  - rewrite IHa by exact H. reflexivity.
  - apply andb_prop in H. destruct H as [Ha Hb]. rewrite IHa, IHb by assumption. reflexivity.
  - apply andb_prop in H. destruct H as [H Hb]. apply andb_prop in H. destruct H as [Hc Ha].
    rewrite IHc, IHa, IHb by assumption. reflexivity.
  - discriminate.
  - discriminate.
Qed.

Theorem metadata_literal (Hs : strategies_ok) (m : smodel) (f1 f2 : flags) :
  forallb (fun d => forallb call_free (d_attrs d)) (s_decls m) = true ->
  g_attrs (gen f1 m) = g_attrs (gen f2 m).
Proof.
  destruct Hs as (_ & Himap & _). intros H. unfold C12_options.gen. simpl.
  induction (s_decls m) as [|d ds IH]; simpl in *; [reflexivity|].
  apply andb_prop in H. destruct H as [Hd Hds]. rewrite (IH Hds). f_equal. f_equal.
  clear IH Hds. induction (d_attrs d) as [|e es IHe]; simpl in *; [reflexivity|].
  apply andb_prop in Hd. destruct Hd as [He Hes]. rewrite (IHe Hes).
  rewrite (gen_x_literal Himap f1 f2 None e He). reflexivity.
Qed.

(* the flags DO matter once the interacting options are set: the error of model.py:731 *)
Lemma eliminable_needs_expand m :
  exists o, compile (mkFlags true true false) o m = Err 1%nat /\
            exists g, compile (mkFlags true true true) o m = Ok g.
Proof.
  exists (mkOther false true false false false). split; [reflexivity|]. eexists. reflexivity.
Qed.

End Pipeline.

(* the reference strategies satisfy the hypotheses (non-vacuity) *)
Lemma reference_strategies_ok : strategies_ok mapR imapR callR icallR expandR callMR.
Proof.
  unfold strategies_ok, mapR, imapR, callR, icallR, expandR, callMR. repeat split; try reflexivity.
  - intros _ _ b1 b2 H vals rho. unfold map_ref. apply map_ext. intros [p i]. apply H.
  - intros _ _ F1 F2 H a b k. apply H.
  - intros _ _ F1 F2 H M v x k. apply H.
Qed.
