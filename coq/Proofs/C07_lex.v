(* Proofs/C07_lex.v — lexical consistency of pymoca's class lookup: in the lexical scope of a valid path, a
   class found by lookup comes with exactly the lexical scope of its own lexical parent. *)
From Coq Require Import List ZArith Bool PArith Lia.
From PV Require Import Lib.ClassTree Proofs.C07_refine.
Import ListNotations.

Lemma od_get_key {A} (key : A -> ident) n l x : od_get key Pos.eqb n l = Some x -> key x = n.
Proof.
  induction l as [|y l IH]; cbn [od_get]; [discriminate|].
  destruct (Pos.eqb_spec (key y) n) as [E|N]; [intros H; inversion H; subst; reflexivity | exact IH].
Qed.

Lemma od_get_entries lex n cs :
  od_get e_key Pos.eqb n (entries_of lex cs) = option_map (fun c => mkEntry c lex) (od_get c_name Pos.eqb n cs).
Proof.
  unfold entries_of. induction cs as [|c cs IH]; [reflexivity|]. cbn [map od_get]. unfold e_key at 1. cbn [e_def].
  destruct (Pos.eqb (c_name c) n); [reflexivity | exact IH].
Qed.

(* the classes reached by navigating a dotted path from a class list *)
Fixpoint nav (cs : list cdef) (p : path) : option (list cdef) :=
  match p with
  | [] => Some cs
  | n :: p' => match od_get c_name Pos.eqb n cs with Some c => nav (c_classes c) p' | None => None end
  end.

Lemma nav_app cs p1 p2 cs1 : nav cs p1 = Some cs1 -> nav cs (p1 ++ p2) = nav cs1 p2.
Proof.
  revert cs. induction p1 as [|n p1 IH]; intros cs H; cbn [nav app] in *; [inversion H; reflexivity|].
  destruct (od_get c_name Pos.eqb n cs); [apply IH; exact H | discriminate H].
Qed.

Lemma lff_app root : forall p1 lex cs acc cs1 p2,
  nav cs p1 = Some cs1 ->
  lex_frames_from root lex cs (p1 ++ p2) acc =
  lex_frames_from root (lex ++ p1) cs1 p2 (lex_frames_from root lex cs p1 acc).
Proof.
  induction p1 as [|n p1 IH]; intros lex cs acc cs1 p2 H; cbn [nav app lex_frames_from] in *.
  - inversion H; subst. rewrite app_nil_r. reflexivity.
  - destruct (od_get c_name Pos.eqb n cs) as [c|]; [|discriminate H].
    rewrite (IH _ _ _ _ p2 H). rewrite <- app_assoc. reflexivity.
Qed.

Section Lex.
  Variable root : list cdef.
  Notation LS := (lex_scope root).

  Definition located (c : cdef) (lex : path) : Prop :=
    exists cs, nav root lex = Some cs /\ od_get c_name Pos.eqb (c_name c) cs = Some c.

  (* the scope of a class located at lex: its own frame, then the scope of its lexical parent *)
  Lemma LS_snoc c lex : located c lex -> LS (lex ++ [c_name c]) = own_frame c lex :: LS lex.
  Proof.
    intros [cs [N G]]. unfold lex_scope. rewrite (lff_app root lex [] root _ cs [c_name c] N).
    cbn [lex_frames_from app]. rewrite G. reflexivity.
  Qed.

  Lemma located_child c lex n c' :
    located c lex -> od_get c_name Pos.eqb n (c_classes c) = Some c' -> located c' (lex ++ [c_name c]).
  Proof.
    intros [cs [N G]] H. exists (c_classes c). split.
    - rewrite (nav_app root lex [c_name c] cs N). cbn [nav]. rewrite G. reflexivity.
    - rewrite (od_get_key c_name n _ c' H). exact H.
  Qed.

  Lemma descend_consistent : forall rest c lex c2 lex2,
    located c lex -> descend c lex rest = Some (c2, lex2) ->
    located c2 lex2 /\ descend_frames c lex rest ++ LS lex = LS lex2.
  Proof.
    induction rest as [|m rest IH]; intros c lex c2 lex2 Hl H; cbn [descend descend_frames] in *.
    - inversion H; subst. split; [assumption | reflexivity].
    - destruct (od_get c_name Pos.eqb m (c_classes c)) as [c'|] eqn:G; [|discriminate H].
      destruct (IH c' (lex ++ [c_name c]) c2 lex2 (located_child c lex m c' Hl G) H) as [L2 E].
      split; [assumption|]. rewrite <- app_assoc. cbn [app]. rewrite <- (LS_snoc c lex Hl). exact E.
  Qed.

  (* lex_consistent *)
  Lemma lookup_root ref c lex S' b :
    lookup (LS []) ref = Some (c, lex, S', b) -> located c lex /\ S' = LS lex /\ b = false.
  Proof.
    unfold lex_scope at 1. cbn [lex_frames_from]. destruct ref as [|n rest]; [discriminate|].
    cbn [lookup f_entries f_inst]. rewrite od_get_entries.
    destruct (od_get c_name Pos.eqb n root) as [c0|] eqn:G; cbn [option_map]; [|discriminate].
    cbn [e_def e_lex].
    assert (located c0 []) as L0.
    { exists root. split; [reflexivity|]. rewrite (od_get_key c_name n _ c0 G). exact G. }
    destruct (descend c0 [] rest) as [[c1 lex1]|] eqn:D; [|discriminate].
    intros H. inversion H; subst. destruct (descend_consistent rest c0 [] c lex L0 D) as [L E].
    split; [assumption|]. split; [|reflexivity]. exact E.
  Qed.

  Theorem lex_consistent : forall lex ref c clex S' b,
    (lex = [] \/ exists d dl, located d dl /\ lex = dl ++ [c_name d]) ->
    lookup (LS lex) ref = Some (c, clex, S', b) ->
    located c clex /\ S' = LS clex /\ b = false.
  Proof.
    intros lex. induction lex as [|x lex IH] using rev_ind; intros ref c clex S' b Hv H.
    - eapply lookup_root; exact H.
    - destruct Hv as [E|[d [dl [Hd E]]]]; [destruct lex; discriminate E|].
      apply app_inj_tail in E. destruct E as [-> ->].
      rewrite (LS_snoc d dl Hd) in H.
      destruct ref as [|n rest]; [destruct (LS dl); discriminate H|].
      cbn [lookup own_frame f_entries f_inst] in H. rewrite od_get_entries in H.
      assert (dl = [] \/ exists d0 dl0, located d0 dl0 /\ dl = dl0 ++ [c_name d0]) as Hv'.
      { destruct Hd as [cs [N G]]. clear -N. destruct dl as [|y dl0] using rev_ind; [left; reflexivity|].
        right. clear IHdl0.
        assert (exists cs0 d0, nav root dl0 = Some cs0 /\ od_get c_name Pos.eqb y cs0 = Some d0) as [cs0 [d0 [N0 G0]]].
        { clear -N. revert N. generalize root as r. induction dl0 as [|z dl0 IHd]; intros r N; cbn [nav app] in *.
          - destruct (od_get c_name Pos.eqb y r) as [d0|] eqn:G; [|discriminate N]. exists r, d0. split; [reflexivity | exact G].
          - destruct (od_get c_name Pos.eqb z r) as [cz|]; [|discriminate N]. exact (IHd _ N). }
        exists d0, dl0. split.
        - exists cs0. split; [exact N0|]. rewrite (od_get_key c_name y _ d0 G0). exact G0.
        - rewrite (od_get_key c_name y _ d0 G0). reflexivity. }
      destruct (od_get c_name Pos.eqb n (c_classes d)) as [c0|] eqn:G; cbn [option_map] in H.
      + cbn [e_def e_lex] in H.
        pose proof (located_child d dl n c0 Hd G) as L0.
        destruct (descend c0 (dl ++ [c_name d]) rest) as [[c1 lex1]|] eqn:D.
        * inversion H; subst.
          destruct (descend_consistent rest c0 (dl ++ [c_name d]) c clex L0 D) as [L E].
          split; [assumption|]. split; [|reflexivity].
          rewrite <- E. rewrite (LS_snoc d dl Hd). reflexivity.
        * exact (IH (n :: rest) c clex S' b Hv' H).
      + exact (IH (n :: rest) c clex S' b Hv' H).
  Qed.

  Lemma nav_valid : forall lex cs, nav root lex = Some cs ->
    lex = [] \/ exists d dl, located d dl /\ lex = dl ++ [c_name d].
  Proof.
    intros lex cs N. destruct lex as [|y dl0] using rev_ind; [left; reflexivity|]. right. clear IHdl0.
    assert (exists cs0 d0, nav root dl0 = Some cs0 /\ od_get c_name Pos.eqb y cs0 = Some d0) as [cs0 [d0 [N0 G0]]].
    { clear -N. revert N. generalize root as r. induction dl0 as [|z dl0 IHd]; intros r N; cbn [nav app] in *.
      - destruct (od_get c_name Pos.eqb y r) as [d0|] eqn:G; [|discriminate N]. exists r, d0. split; [reflexivity | exact G].
      - destruct (od_get c_name Pos.eqb z r) as [cz|]; [|discriminate N]. exact (IHd _ N). }
    exists d0, dl0. split.
    - exists cs0. split; [exact N0|]. rewrite (od_get_key c_name y _ d0 G0). exact G0.
    - rewrite (od_get_key c_name y _ d0 G0). reflexivity.
  Qed.

  (* lex_consistent for the scope of any located class *)
  Corollary lookup_located d dl ref c clex S' b :
    located d dl -> lookup (LS dl) ref = Some (c, clex, S', b) -> located c clex /\ S' = LS clex /\ b = false.
  Proof. intros [cs [N _]]. apply lex_consistent. exact (nav_valid dl cs N). Qed.
End Lex.
