(* C02 — mutual exclusion lifted to configurations, progress measure, deadlock freedom. *)
From Coq Require Import List Bool Arith Lia.
From PV Require Import Lib.Lock Model.C02_conc Proofs.C02_conc.
Import ListNotations.

(* ---------- the `others` list vs the thread list ---------- *)
Lemma opt_eqb_some x g : opt_eqb x (Some g) = true <-> x = Some g.
Proof.
  destruct x as [y|]; cbn; [|split; intros H; discriminate].
  rewrite Nat.eqb_eq. split; intros H; [subst; auto|inversion H; auto].
Qed.

Lemma others_in ts : forall i tid g j u,
  nth_error ts j = Some u -> i + j <> tid -> t_conn u = Some g ->
  In (t_lvl u) (others_from i tid g ts).
Proof.
  induction ts as [|t ts IH]; intros i tid g j u Hn Hne Hc; [destruct j; discriminate|].
  cbn [others_from]. apply in_or_app. destruct j as [|j]; cbn in Hn.
  - inversion Hn; subst t. left.
    replace (Nat.eqb i tid) with false by (symmetry; apply Nat.eqb_neq; lia).
    cbn. destruct (opt_eqb (t_conn u) (Some g)) eqn:E; [left; auto|].
    exfalso. apply opt_eqb_some in Hc. congruence.
  - right. apply (IH (S i) tid g j u); auto. lia.
Qed.

Lemma others_ex ts : forall i tid g l,
  In l (others_from i tid g ts) ->
  exists j u, nth_error ts j = Some u /\ i + j <> tid /\ t_conn u = Some g /\ t_lvl u = l.
Proof.
  induction ts as [|t ts IH]; intros i tid g l H; [destruct H|].
  cbn [others_from] in H. apply in_app_or in H. destruct H as [H|H].
  - destruct (Nat.eqb i tid) eqn:E1; cbn in H; [destruct H|].
    destruct (opt_eqb (t_conn t) (Some g)) eqn:E2; cbn in H; [|destruct H].
    destruct H as [H|[]]. exists 0, t. apply Nat.eqb_neq in E1. apply opt_eqb_some in E2.
    repeat split; auto. lia.
  - destruct (IH _ _ _ _ H) as (j & u & A & B & C & D). exists (S j), u. repeat split; auto. lia.
Qed.

Lemma nth_upd_eq {A} (l : list A) n x : n < length l -> nth_error (upd_nth n x l) n = Some x.
Proof. revert n; induction l; intros [|n] H; cbn in *; try lia; auto. apply IHl; lia. Qed.
Lemma nth_upd_neq {A} (l : list A) n m x : n <> m -> nth_error (upd_nth n x l) m = nth_error l m.
Proof. revert n m; induction l; intros [|n] [|m] H; cbn; auto; try congruence. Qed.
Lemma nth_upd_inv {A} (l : list A) n m x y :
  nth_error (upd_nth n x l) m = Some y -> (m = n /\ y = x) \/ (m <> n /\ nth_error l m = Some y).
Proof.
  intros H. destruct (Nat.eq_dec n m) as [E|E].
  - subst m. destruct (Nat.lt_ge_cases n (length l)) as [L|L].
    + rewrite nth_upd_eq in H; auto. inversion H; auto.
    + assert (nth_error (upd_nth n x l) n = None) by (apply nth_error_None; rewrite length_upd_nth; auto).
      congruence.
  - rewrite nth_upd_neq in H; auto.
Qed.

(* ---------- how one attempt changes the lock level ---------- *)
Ltac brk2 :=
  repeat (cbn in *; match goal with
  | |- context [match ?x with _ => _ end] =>
      match x with
      | context [match _ with _ => _ end] => fail 1
      | _ => destruct x eqn:?
      end
  | |- context [if ?x then _ else _] =>
      match x with
      | context [if _ then _ else _] => fail 1
      | _ => destruct x eqn:?
      end
  end).

Definition lock_step (c : cfg) (tid : nat) (t t' : thr) : Prop :=
  geb (t_lvl t') Res = true ->
  t_conn t' = t_conn t /\
  (geb (t_lvl t) Res = true \/ exists g, t_conn t = Some g /\ any_geb Res (others c tid g) = false).

Lemma exec_lock c tid t s : lock_step c tid t (r_thr (exec c tid t s)).
Proof.
  unfold lock_step. destruct t as [k conn l ix v regs ifl par st].
  destruct s as [|h| |imm|rd dst|w| | |r b]; unfold exec, mk, failed, closed, pop, with_lock, set_reg, set_st, set_k;
    cbn [t_conn t_lvl t_intx t_view t_k t_regs t_par t_st t_ifail].
  all: try (destruct (c_path c); cbn; intros H; try discriminate; auto; fail).
  all: destruct conn as [g|]; [|cbn; intros; discriminate].
  all: unfold acquire; destruct l; cbn [geb lvl_rank Nat.leb is_sh].
  all: brk2; intros H; try discriminate; try (split; [reflexivity|]; auto; fail).
  all: try (split; [reflexivity|]; right; exists g; split; auto; fail).
Qed.

Lemma advance_f_lock n : forall k t,
  geb (t_lvl (advance_f n k t)) Res = true ->
  t_conn (advance_f n k t) = t_conn t /\ t_lvl (advance_f n k t) = t_lvl t.
Proof.
  induction n as [|n IH]; intros k t H.
  - destruct k as [|[s|c th el] k']; cbn [advance_f] in *;
      [cbn in H; discriminate | destruct s; cbn in *; auto | cbn in *; auto].
  - destruct k as [|[s|c th el] k']; cbn [advance_f] in *;
      [ cbn in H; discriminate
      | destruct s; try (cbn in *; auto; fail); destruct (IH _ _ H) as (A & B); cbn in A, B; auto
      | destruct (IH _ _ H) as (A & B); auto ].
Qed.

(* ---------- mutual exclusion in every configuration ---------- *)
Definition mutex (c : cfg) : Prop :=
  forall i j ti tj g, i <> j ->
    nth_error (c_thrs c) i = Some ti -> nth_error (c_thrs c) j = Some tj ->
    t_conn ti = Some g -> t_conn tj = Some g ->
    geb (t_lvl ti) Res = true -> geb (t_lvl tj) Res = true -> False.

Lemma any_geb_in m oth l : any_geb m oth = false -> In l oth -> geb l m = false.
Proof.
  unfold any_geb. intros H Hin. destruct (geb l m) eqn:E; auto.
  assert (existsb (fun l => geb l m) oth = true) by (apply existsb_exists; eauto). congruence.
Qed.

Lemma mutex_upd c tid t t' p s v :
  mutex c -> nth_error (c_thrs c) tid = Some t -> lock_step c tid t t' ->
  mutex (Cfg p s (upd_nth tid t' (c_thrs c)) v).
Proof.
  intros M Hn L i j ti tj g Hij Hi Hj Ci Cj Gi Gj. cbn in Hi, Hj.
  apply nth_upd_inv in Hi. apply nth_upd_inv in Hj.
  destruct Hi as [(Ei & Ti)|(Ei & Hi)]; destruct Hj as [(Ej & Tj)|(Ej & Hj)]; subst.
  - congruence.
  - destruct (L Gi) as (A & [B|(g' & B1 & B2)]).
    + apply (M tid j t tj g); auto; congruence.
    + assert (g' = g) by congruence. subst g'.
      pose proof (others_in (c_thrs c) 0 tid g j tj Hj ltac:(cbn; auto) Cj) as Hin.
      pose proof (any_geb_in _ _ _ B2 Hin). congruence.
  - destruct (L Gj) as (A & [B|(g' & B1 & B2)]).
    + apply (M i tid ti t g); auto; congruence.
    + assert (g' = g) by congruence. subst g'.
      pose proof (others_in (c_thrs c) 0 tid g i ti Hi ltac:(cbn; auto) Ci) as Hin.
      pose proof (any_geb_in _ _ _ B2 Hin). congruence.
  - apply (M i j ti tj g); auto.
Qed.

Lemma lock_step_adv c tid t t1 k :
  lock_step c tid t t1 -> lock_step c tid t (advance k t1).
Proof.
  unfold lock_step, advance. intros L H. destruct (advance_f_lock _ _ _ H) as (A & B).
  rewrite B in H. destruct (L H) as (C & D). split; [congruence|exact D].
Qed.

Lemma lock_step_refl c tid t : lock_step c tid t t.
Proof. intros H. split; auto. Qed.

Lemma step_mutex tid c : mutex c -> mutex (fst (step tid c)).
Proof.
  intros M. unfold step. destruct (nth_error (c_thrs c) tid) as [t|] eqn:En; [|exact M].
  destruct (t_st t) eqn:Est; [|exact M..].
  destruct (t_k t) as [|[s|cc th el] k'] eqn:Ek; [exact M| |].
  - cbn [fst]. apply (mutex_upd c tid t); auto.
    pose proof (exec_lock c tid t s) as L.
    destruct (t_st (r_thr (exec c tid t s))); [|exact L..].
    destruct (r_out (exec c tid t s)); try (apply lock_step_adv; exact L); exact L.
  - cbn [fst]. apply (mutex_upd c tid t); auto. apply lock_step_adv, lock_step_refl.
Qed.

Lemma run_mutex sched : forall c, mutex c -> mutex (fst (run sched c)).
Proof.
  induction sched as [|tid sched IH]; intros c M; [exact M|].
  cbn [run]. pose proof (step_mutex tid c M) as M1.
  destruct (step tid c) as [c1 o]. cbn [fst] in M1. specialize (IH c1 M1).
  destruct (run sched c1). exact IH.
Qed.

Lemma new_thr_lvl p par : geb (t_lvl (new_thr p par)) Res = false.
Proof.
  unfold new_thr, advance. destruct (geb _ Res) eqn:E; auto.
  destruct (advance_f_lock _ _ _ E) as (_ & B). rewrite B in E. cbn in E. discriminate.
Qed.

Lemma init_mutex p d0 pars : mutex (init_cfg p d0 pars).
Proof.
  intros i j ti tj g _ Hi _ _ _ Gi _. cbn in Hi.
  apply nth_error_In in Hi. apply in_map_iff in Hi. destruct Hi as (par & E & _). subst ti.
  rewrite new_thr_lvl in Gi. discriminate.
Qed.

(* in every reachable configuration, for any program whatsoever, at most one connection per
   database file holds RESERVED or more *)
Theorem mutex_reachable p d0 pars sched : mutex (fst (run sched (init_cfg p d0 pars))).
Proof. apply run_mutex, init_mutex. Qed.

(* ---------- progress measure: remaining program length ---------- *)
Lemma size_i_if c th el : size_i (IIf c th el) = S (size th + size el).
Proof. reflexivity. Qed.
Lemma size_app l1 l2 : size (l1 ++ l2) = size l1 + size l2.
Proof. induction l1; cbn [app size]; lia. Qed.

Definition mu (t : thr) : nat := match t_st t with Run => size (t_k t) | _ => 0 end.
Fixpoint Mu (ts : list thr) : nat := match ts with [] => 0 | t :: ts' => mu t + Mu ts' end.

Lemma Mu_upd ts : forall n t t', nth_error ts n = Some t -> Mu (upd_nth n t' ts) + mu t = Mu ts + mu t'.
Proof.
  induction ts as [|x ts IH]; intros [|n] t t' H; cbn in *; try discriminate.
  - inversion H; subst. lia.
  - specialize (IH n t t' H). lia.
Qed.

Lemma advance_f_size n : forall k t, t_st t = Run -> mu (advance_f n k t) <= size k.
Proof.
  induction n as [|n IH]; intros k t Hst; destruct k as [|[s|c th el] k']; cbn [advance_f].
  - cbn. lia.
  - destruct s; unfold mu; cbn; rewrite Hst; cbn; lia.
  - unfold mu; cbn [set_k t_st t_k]; rewrite Hst. lia.
  - cbn. lia.
  - destruct s; try (unfold mu; cbn; rewrite Hst; cbn; lia).
    specialize (IH k' (set_reg t r b) Hst). cbn [size size_i]. lia.
  - specialize (IH ((if cond_val t c then th else el) ++ k') t Hst).
    rewrite size_app in IH. cbn [size]. rewrite size_i_if. destruct (cond_val t c); lia.
Qed.

(* what one attempt does to the continuation *)
Definition k_step (t : thr) (r : res) : Prop :=
  match t_st (r_thr r) with
  | Run => (r_out r = OBlocked /\ t_k (r_thr r) = t_k t) \/
           (r_out r <> OBlocked /\ r_out r <> OIdle /\ t_k (r_thr r) = tl (t_k t))
  | Fin => False
  | Err _ => r_out r <> OBlocked /\ r_out r <> OIdle
  end.

Lemma exec_k c tid t s : t_st t = Run -> k_step t (exec c tid t s).
Proof.
  intros Hst. destruct t as [k conn l ix v regs ifl par st]. cbn in Hst. subst st.
  unfold k_step.
  destruct s as [|h| |imm|rd dst|w| | |r b]; unfold exec, mk, failed, closed, pop, with_lock, set_reg, set_st, set_k;
    cbn [t_conn t_lvl t_intx t_view t_k t_regs t_par t_st t_ifail].
  all: brk2; cbn; try (right; repeat split; congruence); try (left; split; congruence); try (split; congruence).
Qed.

Definition progress (o : obs) : nat :=
  match snd o with OBlocked | OIdle => 0 | _ => 1 end.

Lemma step_measure tid c :
  Mu (c_thrs (fst (step tid c))) + progress (snd (step tid c)) <= Mu (c_thrs c).
Proof.
  unfold step. destruct (nth_error (c_thrs c) tid) as [t|] eqn:En; [|cbn; lia].
  destruct (t_st t) eqn:Est; [|cbn; lia..].
  destruct (t_k t) as [|[s|cc th el] k'] eqn:Ek; [cbn; lia| |].
  - pose proof (exec_k c tid t s Est) as K. unfold k_step in K.
    assert (Hmu : mu t = S (size k')) by (unfold mu; rewrite Est, Ek; reflexivity).
    set (r := exec c tid t s) in *.
    cbn [fst snd c_thrs].
    match goal with |- Mu (upd_nth tid ?t' _) + _ <= _ => pose proof (Mu_upd (c_thrs c) tid t t' En) as U end.
    destruct (t_st (r_thr r)) eqn:E1.
    + destruct K as [(K1 & K2)|(K1 & K2 & K3)].
      * rewrite K1 in *. unfold progress; cbn [snd].
        assert (mu (r_thr r) = mu t) by (unfold mu; rewrite E1, Est, K2; reflexivity). lia.
      * assert (G : mu (advance (t_k (r_thr r)) (r_thr r)) <= size k').
        { unfold advance. rewrite K3, Ek. cbn [tl]. apply advance_f_size. exact E1. }
        unfold progress; cbn [snd]. destruct (r_out r); try congruence; lia.
    + destruct K.
    + assert (mu (r_thr r) = 0) by (unfold mu; rewrite E1; reflexivity).
      unfold progress; cbn [snd]. destruct (r_out r); lia.
  - cbn [fst snd c_thrs]. unfold progress; cbn [snd].
    pose proof (Mu_upd (c_thrs c) tid t (advance (IIf cc th el :: k') t) En) as U.
    assert (mu (advance (IIf cc th el :: k') t) <= size (IIf cc th el :: k')) by (apply advance_f_size; auto).
    assert (mu t = size (IIf cc th el :: k')) by (unfold mu; rewrite Est, Ek; reflexivity). lia.
Qed.

Fixpoint progress_count (os : list obs) : nat :=
  match os with [] => 0 | o :: os' => progress o + progress_count os' end.

(* the number of attempts that are neither blocked nor idle is bounded by the total remaining
   program length: every such attempt consumes at least one statement *)
Lemma run_measure sched : forall c,
  Mu (c_thrs (fst (run sched c))) + progress_count (snd (run sched c)) <= Mu (c_thrs c).
Proof.
  induction sched as [|tid sched IH]; intros c; [cbn; lia|].
  cbn [run]. pose proof (step_measure tid c) as S1.
  destruct (step tid c) as [c1 o]. cbn [fst snd] in S1. specialize (IH c1).
  destruct (run sched c1) as [c2 os]. cbn [fst snd progress_count] in *. lia.
Qed.

(* ---------- normal form: a running call is always at a statement ---------- *)
Definition nf (t : thr) : Prop := t_st t = Run -> exists s k', t_k t = IS s :: k'.

Lemma advance_f_nf n : forall k t, size k < n -> nf (advance_f n k t).
Proof.
  induction n as [|n IH]; intros k t Hs; [lia|].
  destruct k as [|[s|c th el] k']; cbn [advance_f].
  - intros H. cbn in H. discriminate.
  - assert (G : nf (set_k t (IS s :: k'))) by (intros _; cbn; eauto).
    destruct s; try exact G. apply IH. cbn [size size_i] in Hs. lia.
  - apply IH. cbn [size] in Hs. rewrite size_i_if in Hs. rewrite size_app. destruct (cond_val t c); lia.
Qed.
Lemma advance_nf k t : nf (advance k t).
Proof. apply advance_f_nf. lia. Qed.

Lemma step_nf tid c : Forall nf (c_thrs c) -> Forall nf (c_thrs (fst (step tid c))).
Proof.
  intros H. unfold step. destruct (nth_error (c_thrs c) tid) as [t|] eqn:En; [|exact H].
  destruct (t_st t) eqn:Est; [|exact H..].
  destruct (t_k t) as [|[s|cc th el] k'] eqn:Ek; [exact H| |]; cbn [fst c_thrs].
  - apply Forall_upd_nth; [|exact H].
    pose proof (exec_k c tid t s Est) as K. unfold k_step in K.
    destruct (t_st (r_thr (exec c tid t s))) eqn:E1.
    + destruct K as [(K1 & K2)|(K1 & K2 & K3)].
      * rewrite K1. intros _. rewrite K2, Ek. eauto.
      * destruct (r_out (exec c tid t s)); try congruence; apply advance_nf.
    + destruct K.
    + intros X. congruence.
  - apply Forall_upd_nth; [apply advance_nf|exact H].
Qed.

Lemma init_nf p d0 pars : Forall nf (c_thrs (init_cfg p d0 pars)).
Proof. cbn. induction pars; cbn; constructor; auto. apply advance_nf. Qed.

(* ---------- who can be blocked, and by whom ---------- *)
Lemma acq_block mine oth op l' : acquire mine oth op = Block l' -> exists l, In l oth /\ l <> Unl.
Proof.
  assert (X : forall m, m <> Unl -> any_geb m oth = true -> exists l, In l oth /\ l <> Unl).
  { intros m Hm H. apply existsb_exists in H. destruct H as (l & A & B). exists l. split; auto.
    intros E; subst. destruct m; cbn in B; congruence. }
  assert (Y : any_sh oth = true -> exists l, In l oth /\ l <> Unl).
  { intros H. apply existsb_exists in H. destruct H as (l & A & B). exists l. split; auto.
    intros E; subst. discriminate. }
  destruct op as [ix|ix| |]; unfold acquire; intros H.
  - destruct (geb mine Sh); [discriminate|]. destruct (any_geb Pen oth) eqn:E; [|destruct ix; discriminate].
    apply (X Pen); auto; discriminate.
  - destruct (geb mine Res); [discriminate|]. destruct (any_geb Res oth) eqn:E.
    + apply (X Res); auto; discriminate.
    + destruct ix; [discriminate|]. destruct (any_sh oth) eqn:E2; [auto|discriminate].
  - destruct (geb mine Res); [discriminate|]. destruct (any_geb Res oth) eqn:E; [|discriminate].
    apply (X Res); auto; discriminate.
  - destruct (geb mine Res); [|discriminate]. destruct (any_sh oth) eqn:E; [auto|discriminate].
Qed.

Lemma blocked_other c tid t s :
  r_out (exec c tid t s) = OBlocked ->
  exists g l, t_conn t = Some g /\ In l (others c tid g) /\ l <> Unl.
Proof.
  destruct t as [k conn l ix v regs ifl par st].
  destruct s as [|h| |imm|rd dst|w| | |r b]; unfold exec, mk;
    cbn [t_conn t_lvl t_intx t_view t_k t_regs t_par t_st t_ifail].
  all: try (destruct (c_path c); cbn; intros H; try discriminate;
            match type of H with (if ?b then _ else _) = _ => destruct b; discriminate end).
  all: destruct conn as [g|]; [|cbn; intros; discriminate].
  all: try (destruct ix; [cbn; intros; discriminate|]); try (destruct imm).
  all: try match goal with |- context [acquire ?m ?o ?op] => destruct (acquire m o op) as [l1|l1|] eqn:E end.
  all: try (apply acq_block in E; destruct E as (l0 & A & B); intros _; exists g, l0; auto; fail).
  all: brk2; intros H; try discriminate.
Qed.

Lemma md1_not_blocked c tid t s : has_mode t MD1 -> r_out (exec c tid t s) <> OBlocked.
Proof.
  destruct t as [k conn l ix v regs ifl par st]. cbn. intros (Hc & Hi & Hl). subst ix l.
  destruct conn as [g|]; [|congruence].
  destruct s as [|h| |imm|rd dst|w| | |r b]; unfold exec, mk, acquire;
    cbn [t_conn t_lvl t_intx t_view t_k t_regs t_par t_st t_ifail geb lvl_rank Nat.leb is_sh].
  all: brk2; discriminate.
Qed.

Lemma mw_blocked c tid t s :
  has_mode t MW -> r_out (exec c tid t s) = OBlocked ->
  exists g, t_conn t = Some g /\ any_sh (others c tid g) = true.
Proof.
  destruct t as [k conn l ix v regs ifl par st]. cbn. intros (Hc & Hi & Hl). subst ix.
  destruct conn as [g|]; [|congruence].
  destruct l; cbn in Hl; try discriminate.
  all: destruct s as [|h| |imm|rd dst|w| | |r b]; unfold exec, mk, acquire;
    cbn [t_conn t_lvl t_intx t_view t_k t_regs t_par t_st t_ifail geb lvl_rank Nat.leb is_sh].
  all: brk2; intros H; try discriminate; eauto.
Qed.

(* ---------- deadlock freedom ---------- *)
Definition out_of (c : cfg) (tid : nat) : outcome := snd (snd (step tid c)).
Definition can_progress (c : cfg) (tid : nat) : Prop := out_of c tid <> OBlocked /\ out_of c tid <> OIdle.

Lemma step_out c tid t s k' :
  nth_error (c_thrs c) tid = Some t -> t_st t = Run -> t_k t = IS s :: k' ->
  out_of c tid = r_out (exec c tid t s).
Proof. intros A B C. unfold out_of, step. rewrite A, B, C. reflexivity. Qed.

Lemma not_blocked_progress c tid t s k' :
  nth_error (c_thrs c) tid = Some t -> t_st t = Run -> t_k t = IS s :: k' ->
  r_out (exec c tid t s) <> OBlocked -> can_progress c tid.
Proof.
  intros A B C D. unfold can_progress. rewrite (step_out c tid t s k' A B C). split; auto.
  pose proof (exec_k c tid t s B) as K. unfold k_step in K.
  destruct (t_st (r_thr (exec c tid t s))); [destruct K as [(K1 & _)|(_ & K2 & _)]; congruence|destruct K|tauto].
Qed.

Lemma running_of_conn len ts j u g :
  Forall (tinv len) ts -> nth_error ts j = Some u -> t_conn u = Some g ->
  t_st u = Run /\ exists a, has_mode u a.
Proof.
  intros F N C. pose proof (tinv_of_nth _ _ _ _ F N) as T. unfold tinv in T.
  destruct (t_st u); [|congruence|destruct T; congruence].
  destruct T as (_ & _ & a & r & Hm & _). eauto.
Qed.

(* some call can always make progress unless all calls have finished *)
Lemma progress_exists c :
  inv c -> Forall nf (c_thrs c) ->
  (exists i t, nth_error (c_thrs c) i = Some t /\ t_st t = Run) ->
  exists tid, can_progress c tid.
Proof.
  intros (_ & _ & _ & Hts) Hnf (i & t & Hn & Hst).
  pose proof (nth_error_Forall _ _ _ _ Hnf Hn Hst) as (s & k' & Hk).
  destruct (out_eqb (r_out (exec c i t s)) OBlocked) eqn:Eb.
  2:{ exists i. apply (not_blocked_progress c i t s k'); auto. intros E. rewrite E in Eb. discriminate. }
  assert (Hb : r_out (exec c i t s) = OBlocked) by (destruct (r_out (exec c i t s)); try discriminate; auto).
  destruct (blocked_other c i t s Hb) as (g & l & Hc & Hin & Hl).
  destruct (others_ex _ _ _ _ _ Hin) as (j & u & Nu & Hne & Cu & Lu). cbn in Hne.
  destruct (running_of_conn _ _ _ _ _ Hts Nu Cu) as (Su & a & Ma).
  pose proof (nth_error_Forall _ _ _ _ Hnf Nu Su) as (su & ku & Ku).
  (* u holds a lock: it is in MD1 or MW *)
  assert (Ha : a = MD1 \/ a = MW).
  { destruct a; cbn in Ma; destruct Ma as (X & Y & Z); auto; try congruence. }
  destruct Ha as [Ha|Ha]; subst a.
  - exists j. apply (not_blocked_progress c j u su ku); auto. apply md1_not_blocked; auto.
  - destruct (out_eqb (r_out (exec c j u su)) OBlocked) eqn:Eb2.
    2:{ exists j. apply (not_blocked_progress c j u su ku); auto. intros E. rewrite E in Eb2. discriminate. }
    assert (Hb2 : r_out (exec c j u su) = OBlocked) by (destruct (r_out (exec c j u su)); try discriminate; auto).
    destruct (mw_blocked c j u su Ma Hb2) as (g2 & C2 & Sh2).
    apply existsb_exists in Sh2. destruct Sh2 as (l2 & In2 & Is2).
    destruct (others_ex _ _ _ _ _ In2) as (m & w & Nw & _ & Cw & Lw).
    destruct (running_of_conn _ _ _ _ _ Hts Nw Cw) as (Sw & aw & Mw).
    pose proof (nth_error_Forall _ _ _ _ Hnf Nw Sw) as (sw & kw & Kw).
    assert (aw = MD1).
    { destruct l2; try discriminate. destruct aw; cbn in Mw; destruct Mw as (X & Y & Z); auto; try congruence.
      rewrite Lw in Z. discriminate. }
    subst aw. exists m. apply (not_blocked_progress c m w sw kw); auto. apply md1_not_blocked; auto.
Qed.

Lemma Mu_pos_run ts : 0 < Mu ts -> exists i t, nth_error ts i = Some t /\ t_st t = Run.
Proof.
  induction ts as [|x ts IH]; cbn; intros H; [lia|].
  destruct (t_st x) eqn:E.
  - exists 0, x. auto.
  - unfold mu in H. rewrite E in H. destruct (IH ltac:(lia)) as (i & t & A & B). exists (S i), t. auto.
  - unfold mu in H. rewrite E in H. destruct (IH ltac:(lia)) as (i & t & A & B). exists (S i), t. auto.
Qed.

Lemma Mu_ge_mu ts t : In t ts -> mu t <= Mu ts.
Proof. induction ts as [|x ts IH]; intros H; [destruct H|]. cbn. destruct H as [->|H]; [lia|]. specialize (IH H). lia. Qed.

Lemma Mu_zero_done ts : Forall nf ts -> Mu ts = 0 -> forall t, In t ts -> t_st t <> Run.
Proof.
  intros F H t Hin E. rewrite Forall_forall in F. destruct (F t Hin E) as (s & k' & Hk).
  pose proof (Mu_ge_mu ts t Hin) as G.
  assert (1 <= mu t) by (unfold mu; rewrite E, Hk; cbn [size size_i]; lia). lia.
Qed.

(* from every configuration satisfying the invariants a schedule exists that finishes all calls,
   of at most Mu steps, each of which makes progress *)
Lemma finishing_schedule n : forall c,
  Mu (c_thrs c) <= n -> inv c -> Forall nf (c_thrs c) ->
  exists sched, length sched <= n /\
    forall t, In t (c_thrs (fst (run sched c))) -> t_st t <> Run.
Proof.
  induction n as [|n IH]; intros c Hm Hi Hn.
  - exists []. split; auto. cbn. apply Mu_zero_done; auto. lia.
  - destruct (Nat.eq_dec (Mu (c_thrs c)) 0) as [Z|Z].
    + exists []. split; [cbn; lia|]. cbn. apply Mu_zero_done; auto.
    + destruct (progress_exists c Hi Hn (Mu_pos_run (c_thrs c) ltac:(lia))) as (tid & P1 & P2).
      pose proof (step_measure tid c) as SM. pose proof (step_inv tid c Hi) as (I1 & _).
      pose proof (step_nf tid c Hn) as N1.
      unfold can_progress, out_of in P1, P2.
      destruct (step tid c) as [c1 o] eqn:Es. cbn [fst snd] in *.
      assert (progress o = 1) by (unfold progress; destruct (snd o); congruence).
      destruct (IH c1 ltac:(lia) I1 N1) as (sched & L & D).
      exists (tid :: sched). split; [cbn; lia|]. cbn [run]. rewrite Es.
      destruct (run sched c1) as [c2 os]. exact D.
Qed.

Lemma run_nf sched : forall c, Forall nf (c_thrs c) -> Forall nf (c_thrs (fst (run sched c))).
Proof.
  induction sched as [|tid sched IH]; intros c H; [exact H|].
  cbn [run]. pose proof (step_nf tid c H) as H1.
  destruct (step tid c) as [c1 o]. cbn [fst] in H1. specialize (IH c1 H1).
  destruct (run sched c1). exact IH.
Qed.

(* Deadlock freedom and termination.  Fairness assumption, stated precisely: the scheduler may
   pick any call at any time and may let blocked calls retry arbitrarily often; it is only required
   that, as long as some call has not finished, it eventually picks a call whose attempt is not
   blocked (such a call always exists: part 1).  Then all calls finish after at most Mu attempts
   that are not blocked (part 3), where Mu = total remaining program length.  No bound on waiting
   TIME is claimed: SQLite's busy timeout is outside the model. *)
Theorem no_deadlock p d0 pars sched :
  side_ok p = true ->
  let c := fst (run sched (init_cfg p (Some d0) pars)) in
  (* 1 *) ((exists i t, nth_error (c_thrs c) i = Some t /\ t_st t = Run) -> exists tid, can_progress c tid) /\
  (* 2 *) (exists more, length more <= Mu (c_thrs c) /\
                        forall t, In t (c_thrs (fst (run more c))) -> t_st t <> Run) /\
  (* 3 *) (forall more, Mu (c_thrs (fst (run more c))) + progress_count (snd (run more c)) <= Mu (c_thrs c)).
Proof.
  intros Hs c.
  pose proof (run_inv sched _ (init_inv p d0 pars Hs)) as (Hi & _).
  pose proof (run_nf sched _ (init_nf p (Some d0) pars)) as Hn. fold c in Hi, Hn.
  split; [apply progress_exists; auto|]. split; [apply (finishing_schedule (Mu (c_thrs c))); auto|].
  intros more. apply run_measure.
Qed.
