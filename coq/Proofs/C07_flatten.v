(* Proofs/C07_flatten.v — lemmas about the flattening model (names, prefixes, OrderedDict merge,
   reference renaming, extends-free merge). *)
From Coq Require Import List ZArith Bool PArith Lia.
From PV Require Import Lib.ClassTree Model.C07_flatten.
Import ListNotations.

(* ---- names *)
Lemma path_eqb_spec (a b : path) : path_eqb a b = true <-> a = b.
Proof.
  revert b; induction a as [|x a IH]; intros [|y b]; simpl; try (split; congruence).
  rewrite andb_true_iff, Pos.eqb_eq, IH. split; [intros [-> ->]; reflexivity | intros H; inversion H; auto].
Qed.

Lemma compose_injective (p p' : path) (n n' : ident) : p ++ [n] = p' ++ [n'] -> p = p' /\ n = n'.
Proof. apply app_inj_tail. Qed.

Lemma mem_path_spec (x : path) (l : list path) : mem_path x l = true <-> In x l.
Proof.
  unfold mem_path. rewrite existsb_exists. split.
  - intros [y [Hy E]]. apply path_eqb_spec in E. subst; auto.
  - intros H. exists x. split; auto. apply path_eqb_spec; auto.
Qed.

(* ---- prefixes *)
Lemma remove_first_other x y l : x <> y -> (In x (remove_first y l) <-> In x l).
Proof.
  intros Hxy. induction l as [|z l IH]; simpl; [tauto|].
  destruct (Pos.eqb_spec z y) as [->|Hzy]; simpl.
  - split; [auto | intros [E|H]; [congruence | auto]].
  - rewrite IH. tauto.
Qed.

Lemma remove_first_nodup x l : NoDup l -> ~ In x (remove_first x l).
Proof.
  induction 1 as [|z l Hz Hnd IH]; simpl; [tauto|].
  destruct (Pos.eqb_spec z x) as [->|Hzx]; simpl; [auto|].
  intros [E|H]; [congruence | auto].
Qed.

Lemma strip_io_top pre : strip_io [] pre = pre.
Proof. reflexivity. Qed.

Lemma strip_io_keeps prefix pre x :
  x <> pInput -> x <> pOutput -> (In x (strip_io prefix pre) <-> In x pre).
Proof.
  intros H1 H2. destruct prefix; simpl; [tauto|].
  rewrite remove_first_other by auto. apply remove_first_other; auto.
Qed.

Lemma remove_first_incl x y l : In y (remove_first x l) -> In y l.
Proof.
  induction l as [|w l IH]; simpl; [tauto|].
  destruct (Pos.eqb_spec w x); simpl; [auto|]. intros [E|H]; auto.
Qed.

Lemma remove_first_keeps_nodup x l : NoDup l -> NoDup (remove_first x l).
Proof.
  induction 1 as [|z l Hz Hnd IH]; simpl; [constructor|].
  destruct (Pos.eqb_spec z x); [auto|]. constructor; auto.
  intro H. apply Hz. eapply remove_first_incl; eauto.
Qed.

Lemma strip_io_nested n prefix pre :
  NoDup pre -> ~ In pInput (strip_io (n :: prefix) pre) /\ ~ In pOutput (strip_io (n :: prefix) pre).
Proof.
  intros Hnd. unfold strip_io. split.
  - rewrite remove_first_other by (unfold pInput, pOutput; congruence). apply remove_first_nodup; auto.
  - apply remove_first_nodup. apply remove_first_keeps_nodup; auto.
Qed.

(* ---- OrderedDict.update on symbols keyed by name *)
Section OD.
  Context {A : Type} (key : A -> ident).
  Notation set := (od_set key Pos.eqb).
  Notation upd := (od_update key Pos.eqb).

  Lemma keys_set x l :
    map key (set x l) = if mem_id (key x) (map key l) then map key l else map key l ++ [key x].
  Proof.
    induction l as [|y l IH]; simpl; [reflexivity|].
    rewrite (Pos.eqb_sym (key x) (key y)).
    destruct (Pos.eqb_spec (key y) (key x)) as [E|N]; simpl; [rewrite E; reflexivity|].
    rewrite IH. destruct (mem_id (key x) (map key l)); reflexivity.
  Qed.

  Lemma mem_id_spec x l : mem_id x l = true <-> In x l.
  Proof.
    unfold mem_id. rewrite existsb_exists. split.
    - intros [y [Hy E]]. apply Pos.eqb_eq in E. subst; auto.
    - intros H. exists x. split; auto. apply Pos.eqb_refl.
  Qed.

  Lemma set_props x l :
    NoDup (map key l) ->
    NoDup (map key (set x l)) /\ (exists t, map key (set x l) = map key l ++ t) /\
    (forall n, In n (map key (set x l)) <-> In n (map key l) \/ n = key x).
  Proof.
    intros H. rewrite keys_set. destruct (mem_id (key x) (map key l)) eqn:E.
    - apply mem_id_spec in E. split; [auto|]. split; [exists []; rewrite app_nil_r; auto|].
      intros n. split; [auto | intros [?| ->]; auto].
    - assert (~ In (key x) (map key l)) as N by (rewrite <- mem_id_spec; congruence).
      split; [|split; [eexists; reflexivity|]].
      + clear E. induction (map key l) as [|k ks IH]; simpl; [constructor; [tauto|constructor]|].
        inversion H; subst. constructor.
        * rewrite in_app_iff. simpl. intros [?|[?|[]]]; [auto | subst; apply N; left; auto].
        * apply IH; auto. intro; apply N; right; auto.
      + intros n. rewrite in_app_iff. simpl. split; [intros [?|[?|[]]]; auto | intros [?| ->]; auto].
  Qed.

  Lemma update_props new : forall l,
    NoDup (map key l) ->
    NoDup (map key (upd l new)) /\ (exists t, map key (upd l new) = map key l ++ t) /\
    (forall n, In n (map key (upd l new)) <-> In n (map key l) \/ In n (map key new)).
  Proof.
    unfold od_update. induction new as [|x new IH]; intros l H; simpl.
    - split; [auto|]. split; [exists []; rewrite app_nil_r; auto | intros n; tauto].
    - destruct (set_props x l H) as (H1 & [t Ht] & H3).
      destruct (IH _ H1) as (I1 & [t' Ht'] & I3).
      split; [auto|]. split.
      + exists (t ++ t'). rewrite Ht', Ht, app_assoc. reflexivity.
      + intros n. rewrite I3, H3. split; [intros [[?|?]|?]; auto | intros [?|[?|?]]; subst; auto].
  Qed.
End OD.

(* ---- reference renaming *)
Lemma rename_ref cont prefix p idx :
  rename cont prefix (ERef p idx) =
  if mem_path (prefix ++ p) cont then ERef (prefix ++ p) idx else ERef p idx.
Proof. reflexivity. Qed.

Lemma rename_ref_iff cont prefix p idx :
  (In (prefix ++ p) cont -> rename cont prefix (ERef p idx) = ERef (prefix ++ p) idx) /\
  (~ In (prefix ++ p) cont -> rename cont prefix (ERef p idx) = ERef p idx).
Proof.
  rewrite rename_ref. split; intros H.
  - apply mem_path_spec in H. rewrite H. reflexivity.
  - destruct (mem_path (prefix ++ p) cont) eqn:E; [apply mem_path_spec in E; tauto | reflexivity].
Qed.

(* every reference of a renamed expression is either a name of the container or untouched *)
Inductive refs_ok (cont : list path) (prefix : path) : expr -> expr -> Prop :=
| RNum z : refs_ok cont prefix (ENum z) (ENum z)
| RBool b : refs_ok cont prefix (EBool b) (EBool b)
| RStr s : refs_ok cont prefix (EStr s) (EStr s)
| RHit p idx : In (prefix ++ p) cont -> refs_ok cont prefix (ERef p idx) (ERef (prefix ++ p) idx)
| RMiss p idx : ~ In (prefix ++ p) cont -> refs_ok cont prefix (ERef p idx) (ERef p idx)
| ROp o l l' : Forall2 (refs_ok cont prefix) l l' -> refs_ok cont prefix (EOp o l) (EOp o l').

Lemma rename_ok cont prefix : forall e, refs_ok cont prefix e (rename cont prefix e).
Proof.
  fix IH 1. intros [z|b|s|p idx|o l]; try constructor.
  - simpl. destruct (mem_path (prefix ++ p) cont) eqn:E.
    + apply RHit. apply mem_path_spec; auto.
    + apply RMiss. rewrite <- mem_path_spec. congruence.
  - simpl. induction l as [|x l IHl]; simpl; constructor; auto.
Qed.

(* ---- extends-free classes: flatten_extends returns exactly the class's own elements *)
Lemma flatten_extends_no_extends root f c lex menv :
  c_exts c = [] -> c_kind c <> kBuiltin ->
  flatten_extends root (S f) c lex menv =
  Ok (mkExt (c_kind c)
        (od_update e_key Pos.eqb [] (entries_of (lex ++ [c_name c]) (c_classes c)))
        (od_update s_name Pos.eqb [] (c_syms c)) (c_eqs c) menv).
Proof.
  intros E K. destruct c as [n k cs ex ss es]. cbn [c_exts] in E. subst ex. cbn [c_kind] in K.
  cbn [flatten_extends c_exts fold_left bind c_kind x_kind x_classes x_syms x_eqs x_menv c_classes c_syms c_eqs c_name app].
  destruct (Pos.eqb_spec k kBuiltin) as [->|_]; [exfalso; apply K; reflexivity | reflexivity].
Qed.

(* ---- one extends level *)
(* one extends level: every base is extends-free and is extended without clause modifications *)
Definition simple_base (root : list cdef) (c : cdef) (lex : path) (e : path * list marg) (b : cdef * path) : Prop :=
  snd e = [] /\ find_base root c lex (fst e) = Ok b /\ c_exts (fst b) = [] /\ c_kind (fst b) <> kBuiltin /\
  path_eqb (snd b ++ [c_name (fst b)]) (lex ++ [c_name c]) = false.

Definition merge_base (x : ext_class) (b : cdef * path) : ext_class :=
  mkExt (x_kind x)
        (od_update e_key Pos.eqb (x_classes x)
           (od_update e_key Pos.eqb [] (entries_of (snd b ++ [c_name (fst b)]) (c_classes (fst b)))))
        (od_update s_name Pos.eqb (x_syms x) (od_update s_name Pos.eqb [] (c_syms (fst b))))
        (x_eqs x ++ c_eqs (fst b))
        (x_menv x).

Lemma fold_bases root f c lex : forall exts bases x,
  Forall2 (simple_base root c lex) exts bases ->
  fold_left (fun (acc : res ext_class) (e : path * list marg) =>
     x <- acc ;;
     b <- find_base root c lex (fst e) ;;
     let (bc, blex) := b in
     if path_eqb (blex ++ [c_name bc]) (lex ++ [c_name c]) then Err OtherExc else
     if Pos.eqb (c_kind bc) kBuiltin && (1 <? length (c_exts c))%nat then Err OtherExc else
     let kind' := if Pos.eqb (c_kind bc) kBuiltin then kBuiltin else x_kind x in
     r <- flatten_extends root (S f) bc blex (snd e) ;;
     Ok (mkExt kind'
           (od_update e_key Pos.eqb (x_classes x) (x_classes r))
           (od_update s_name Pos.eqb (x_syms x) (x_syms r))
           (x_eqs x ++ x_eqs r)
           (x_menv x ++ x_menv r))) exts (Ok x)
  = Ok (fold_left merge_base bases x).
Proof.
  intros exts bases x F. revert x.
  induction F as [|e [bc blex] exts bases [Hm [Hf [He [Hk Hp]]]] F IH]; intros x; [reflexivity|].
  cbn [fold_left bind]. rewrite Hf. cbn [bind fst snd] in *. rewrite Hp.
  destruct (Pos.eqb_spec (c_kind bc) kBuiltin) as [E|_]; [contradiction|]. cbn [andb].
  rewrite Hm. rewrite (flatten_extends_no_extends root f bc blex [] He Hk). cbn [bind x_classes x_syms x_eqs x_menv].
  rewrite app_nil_r. apply IH.
Qed.

Lemma flatten_extends_elems root f c lex menv bases :
  Forall2 (simple_base root c lex) (c_exts c) bases -> c_kind c <> kBuiltin ->
  flatten_extends root (S (S f)) c lex menv =
  let x := fold_left merge_base bases (mkExt (c_kind c) [] [] [] []) in
  Ok (mkExt (c_kind c)
        (od_update e_key Pos.eqb (x_classes x) (entries_of (lex ++ [c_name c]) (c_classes c)))
        (od_update s_name Pos.eqb (x_syms x) (c_syms c))
        (x_eqs x ++ c_eqs c) (x_menv x ++ menv)).
Proof.
  intros F K. cbn [flatten_extends]. rewrite (fold_bases root f c lex _ _ _ F). cbn [bind].
  assert (forall bs x, x_kind (fold_left merge_base bs x) = x_kind x) as KK
    by (induction bs as [|b bs IH]; intros x; [reflexivity | cbn [fold_left]; rewrite IH; reflexivity]).
  cbn [x_kind]. rewrite KK. cbn [x_kind].
  destruct (Pos.eqb_spec (c_kind c) kBuiltin); [contradiction | reflexivity].
Qed.

(* ---- one extends level with clause modifiers: the environment *)
(* one extends level WITH clause modifiers: every base is extends-free *)
Definition simple_base_m (root : list cdef) (c : cdef) (lex : path) (e : path * list marg) (b : cdef * path) : Prop :=
  find_base root c lex (fst e) = Ok b /\ c_exts (fst b) = [] /\ c_kind (fst b) <> kBuiltin /\
  path_eqb (snd b ++ [c_name (fst b)]) (lex ++ [c_name c]) = false.

Definition merge_base_m (x : ext_class) (bm : (cdef * path) * list marg) : ext_class :=
  mkExt (x_kind x)
        (od_update e_key Pos.eqb (x_classes x)
           (od_update e_key Pos.eqb [] (entries_of (snd (fst bm) ++ [c_name (fst (fst bm))]) (c_classes (fst (fst bm))))))
        (od_update s_name Pos.eqb (x_syms x) (od_update s_name Pos.eqb [] (c_syms (fst (fst bm)))))
        (x_eqs x ++ c_eqs (fst (fst bm)))
        (x_menv x ++ snd bm).

Lemma fold_bases_m root f c lex : forall exts bases x,
  Forall2 (simple_base_m root c lex) exts bases ->
  fold_left (fun (acc : res ext_class) (e : path * list marg) =>
     x <- acc ;;
     b <- find_base root c lex (fst e) ;;
     let (bc, blex) := b in
     if path_eqb (blex ++ [c_name bc]) (lex ++ [c_name c]) then Err OtherExc else
     if Pos.eqb (c_kind bc) kBuiltin && (1 <? length (c_exts c))%nat then Err OtherExc else
     let kind' := if Pos.eqb (c_kind bc) kBuiltin then kBuiltin else x_kind x in
     r <- flatten_extends root (S f) bc blex (snd e) ;;
     Ok (mkExt kind'
           (od_update e_key Pos.eqb (x_classes x) (x_classes r))
           (od_update s_name Pos.eqb (x_syms x) (x_syms r))
           (x_eqs x ++ x_eqs r)
           (x_menv x ++ x_menv r))) exts (Ok x)
  = Ok (fold_left merge_base_m (combine bases (map snd exts)) x).
Proof.
  intros exts bases x F. revert x.
  induction F as [|e [bc blex] exts bases [Hf [He [Hk Hp]]] F IH]; intros x; [reflexivity|].
  cbn [fold_left bind map combine]. rewrite Hf. cbn [bind fst snd] in *. rewrite Hp.
  destruct (Pos.eqb_spec (c_kind bc) kBuiltin) as [E|_]; [contradiction|]. cbn [andb].
  rewrite (flatten_extends_no_extends root f bc blex (snd e) He Hk). cbn [bind x_classes x_syms x_eqs x_menv].
  apply IH.
Qed.

Lemma fold_m_env {R : path * list marg -> cdef * path -> Prop} : forall exts bases x0,
  Forall2 R exts bases ->
  x_kind (fold_left merge_base_m (combine bases (map snd exts)) x0) = x_kind x0 /\
  x_menv (fold_left merge_base_m (combine bases (map snd exts)) x0) = x_menv x0 ++ flat_map snd exts.
Proof.
  intros exts bases x0 F. revert x0. induction F as [|e b exts bases _ F IH]; intros x0.
  - cbn. rewrite app_nil_r. split; reflexivity.
  - cbn [map combine fold_left flat_map]. destruct (IH (merge_base_m x0 (b, snd e))) as [G1 G2].
    rewrite G1, G2. cbn [merge_base_m x_kind x_menv snd]. rewrite app_assoc. split; reflexivity.
Qed.

(* the modification environment after the extends clauses: the clause modifiers in clause order, then the
   incoming environment (of the enclosing component / the deriving extends clause) *)
Lemma flatten_extends_clause_env root f c lex menv bases :
  Forall2 (simple_base_m root c lex) (c_exts c) bases -> c_kind c <> kBuiltin ->
  exists x, flatten_extends root (S (S f)) c lex menv = Ok x /\
            x_menv x = flat_map snd (c_exts c) ++ menv.
Proof.
  intros F K. cbn [flatten_extends]. rewrite (fold_bases_m root f c lex _ _ _ F). cbn [bind].
  destruct (fold_m_env (c_exts c) bases (mkExt (c_kind c) [] [] [] []) F) as [KK KM].
  cbn [x_kind x_menv app] in KK, KM. cbn [x_kind]. rewrite KK.
  destruct (Pos.eqb_spec (c_kind c) kBuiltin); [contradiction|].
  eexists. split; [reflexivity|]. cbn [x_menv]. rewrite KM. reflexivity.
Qed.
