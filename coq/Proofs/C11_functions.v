(* C11 — proofs about user functions (Model/C11_functions.v) *)
From Coq Require Import ZArith QArith Qcanon List Bool Lia.
From PV Require Import Model.C11_residual Proofs.C11_residual Model.C11_functions.
Import ListNotations.
Open Scope Qc_scope.

Section FunSound.
Variable F : positive -> Qc -> Qc.
Variable T : table.
Hypothesis HT : table_ok T = true.

(* binding the loop index = evaluating with the index set *)
Lemma bind_i_eval v c rho : ca_eval F (bind_i v c) rho = ca_eval F c (with_ci rho v).
Proof.
  induction c as [q | s | a IH | a IH | n a IHa b IHb | c IHc a IHa b IHb | f a IH];
    cbn [bind_i ca_eval].
  - reflexivity.
  - destruct s; reflexivity.
  - rewrite IH. reflexivity.
  - rewrite IH. reflexivity.
  - rewrite IHa, IHb. reflexivity.
  - rewrite IHc, IHa, IHb. reflexivity.
  - rewrite IH. reflexivity.
Qed.

(* substitution lemma: evaluating the substituted graph = evaluating the graph where every scalar
   symbol has the value of its replacement *)
Lemma subst_eval sigma rho g :
  (forall y, ca_eval F (sigma y) rho = Some (g y)) ->
  forall c, ca_eval F (subst sigma c) rho = ca_eval F c (set_sc rho g (c_i rho)).
Proof.
  intros Hs c.
  induction c as [q | s | a IH | a IH | n a IHa b IHb | c IHc a IHa b IHb | f a IH];
    cbn [subst ca_eval].
  - reflexivity.
  - destruct s; cbn [ca_eval c_sym set_sc c_sc c_der c_arr c_i]; try reflexivity. apply Hs.
  - rewrite IH. reflexivity.
  - rewrite IH. reflexivity.
  - rewrite IHa, IHb. reflexivity.
  - rewrite IHc, IHa, IHb. reflexivity.
  - rewrite IH. reflexivity.
Qed.

(* invariant between the Modelica environment during sequential execution and the symbolic
   `values` dict of get_function, evaluated at the input point rc *)
Definition Inv (sigma : positive -> caexpr) (rm : menv) (rc : cenv) : Prop :=
  (forall y, exists q, m_sc rm y = VNum q /\ ca_eval F (sigma y) rc = Some q) /\
  (forall x, c_der rc x = m_der rm x) /\
  (forall x k, c_arr rc x (k - 1) = m_arr rm x k).

Definition gof (sigma : positive -> caexpr) (rc : cenv) (y : positive) : Qc :=
  match ca_eval F (sigma y) rc with Some q => q | None => 0 end.

Lemma inv_gof sigma rm rc : Inv sigma rm rc -> forall y, ca_eval F (sigma y) rc = Some (gof sigma rc y).
Proof. intros (H & _) y. destruct (H y) as (q & _ & E). unfold gof. rewrite E. reflexivity. Qed.

Lemma inv_env_rel sigma rm rc :
  Inv sigma rm rc -> env_rel rm (set_sc rc (gof sigma rc) (m_i rm)).
Proof.
  intros (H1 & H2 & H3). repeat split; cbn [set_sc c_sc c_der c_arr c_i]; auto.
  intro x. destruct (H1 x) as (q & E1 & E2). rewrite E1. unfold gof. rewrite E2. reflexivity.
Qed.

Lemma inv_with_mi sigma rm rc v : Inv sigma rm rc -> Inv sigma (with_mi rm v) rc.
Proof. intros (H1 & H2 & H3). repeat split; simpl; auto. Qed.

(* one assignment; c' is the graph actually emitted for the right-hand side (the translated
   expression itself, or the translated expression with the loop index bound) *)
Lemma step_sound sigma rm rc x e ce c' rm1 :
  Inv sigma rm rc -> tr T e = Ok ce -> exec_assign F (x, e) rm = Some rm1 ->
  ca_eval F c' (set_sc rc (gof sigma rc) (c_i rc)) = ca_eval F ce (set_sc rc (gof sigma rc) (m_i rm)) ->
  Inv (sigma_set sigma x (subst sigma c')) rm1 rc /\ m_i rm1 = m_i rm.
Proof.
  intros HI Htr Hex Hc'. unfold exec_assign in Hex. simpl in Hex.
  destruct (m_eval F e rm) as [[q | b] |] eqn:Me; try discriminate Hex. injection Hex as <-.
  destruct (expr_sound F T HT rm _ (inv_env_rel sigma rm rc HI) e ce Htr _ Me) as (w & Ew & Rw).
  simpl in Rw. subst w.
  assert (ca_eval F (subst sigma c') rc = Some q) as Es.
  { rewrite (subst_eval sigma rc (gof sigma rc) (inv_gof sigma rm rc HI)). rewrite Hc'. exact Ew. }
  split; [| reflexivity].
  destruct HI as (H1 & H2 & H3). repeat split; simpl; auto.
  intro y. unfold sigma_set. destruct (Pos.eqb y x) eqn:Ey.
  - exists q. split; [reflexivity | exact Es].
  - apply H1.
Qed.

Lemma apply_assigns_app l1 l2 sigma :
  apply_assigns (l1 ++ l2) sigma = apply_assigns l2 (apply_assigns l1 sigma).
Proof.
  revert sigma. induction l1 as [| [x c] r IH]; intro sigma; simpl; [reflexivity | apply IH].
Qed.

(* a list of assignments outside a loop *)
Lemma assigns_sound l : forall sigma rm rc cl rm',
  Inv sigma rm rc -> m_i rm = c_i rc -> tr_assigns T l = Ok cl -> exec_assigns F l rm = Some rm' ->
  Inv (apply_assigns cl sigma) rm' rc /\ m_i rm' = c_i rc.
Proof.
  induction l as [| [x e] r IH]; intros sigma rm rc cl rm' HI Hi Htr Hex; simpl in Htr, Hex.
  - injection Htr as <-. injection Hex as <-. simpl. split; assumption.
  - destruct (tr T e) as [ce |] eqn:Ee; [| discriminate Htr].
    destruct (tr_assigns T r) as [cr |] eqn:Er; [| discriminate Htr]. injection Htr as <-.
    destruct (exec_assign F (x, e) rm) as [rm1 |] eqn:E1; [| discriminate Hex].
    destruct (step_sound sigma rm rc x e ce ce rm1 HI Ee E1) as [HI1 Hi1].
    { rewrite Hi. reflexivity. }
    simpl. apply (IH _ rm1 rc cr rm' HI1); [congruence | reflexivity | exact Hex].
Qed.

(* one iteration of a for-statement: the body with the index bound to v *)
Lemma iter_sound v body : forall sigma rm rc cb rm',
  Inv sigma rm rc -> m_i rm = v -> tr_assigns T body = Ok cb -> exec_assigns F body rm = Some rm' ->
  Inv (apply_assigns (map (fun xc => (fst xc, bind_i v (snd xc))) cb) sigma) rm' rc /\ m_i rm' = v.
Proof.
  induction body as [| [x e] r IH]; intros sigma rm rc cb rm' HI Hi Htr Hex; simpl in Htr, Hex.
  - injection Htr as <-. injection Hex as <-. simpl. split; assumption.
  - destruct (tr T e) as [ce |] eqn:Ee; [| discriminate Htr].
    destruct (tr_assigns T r) as [cr |] eqn:Er; [| discriminate Htr]. injection Htr as <-.
    destruct (exec_assign F (x, e) rm) as [rm1 |] eqn:E1; [| discriminate Hex].
    destruct (step_sound sigma rm rc x e ce (bind_i v ce) rm1 HI Ee E1) as [HI1 Hi1].
    { rewrite bind_i_eval. rewrite Hi. reflexivity. }
    simpl. apply (IH _ rm1 rc cr rm' HI1); [congruence | reflexivity | exact Hex].
Qed.

Lemma fold_exec_iter_none body vals : fold_left (exec_iter F body) vals None = None.
Proof. induction vals; simpl; auto. Qed.

(* the whole for-statement: iterations in order, within each iteration the statements in order —
   exactly the order in which `unroll` (exitForStatement) lists the assignments *)
Lemma loop_sound body cb vals : forall sigma rm rc rm',
  Inv sigma rm rc -> tr_assigns T body = Ok cb ->
  fold_left (exec_iter F body) vals (Some rm) = Some rm' ->
  Inv (apply_assigns (unroll vals cb) sigma) rm' rc /\ m_i rm' = m_i rm.
Proof.
  induction vals as [| v vs IH]; intros sigma rm rc rm' HI Htr Hex; simpl in Hex.
  - injection Hex as <-. simpl. split; [exact HI | reflexivity].
  - destruct (exec_assigns F body (with_mi rm v)) as [r' |] eqn:E1;
      [| rewrite fold_exec_iter_none in Hex; discriminate Hex].
    destruct (iter_sound v body sigma (with_mi rm v) rc cb r' (inv_with_mi _ _ _ v HI) eq_refl Htr E1) as [HI1 _].
    unfold unroll. simpl. rewrite apply_assigns_app.
    destruct (IH _ (with_mi r' (m_i rm)) rc rm' (inv_with_mi _ _ _ _ HI1) Htr Hex) as [HI2 Hi2].
    split; [exact HI2 | exact Hi2].
Qed.

(* ---------- if-statements ---------- *)
(* well-formed if-statement (what pymoca's exitIfStatement silently assumes): every branch assigns
   the same variables, each once, in the same order, and no condition depends on them *)
Definition if_wf (brs : list (expr * list assign)) (els : list assign) : Prop :=
  NoDup (map fst els) /\
  Forall (fun b => map fst (snd b) = map fst els) brs /\
  Forall (fun b => forall rho x q, In x (map fst els) ->
                   m_eval F (fst b) (m_set rho x q) = m_eval F (fst b) rho) brs.

Definition stmt_ok (s : stmt) : Prop :=
  match s with
  | SIf brs els => False          (* see C11_function_partial in Props/C11.v *)
  | _ => True
  end.

Lemma stmt_sound sq s sigma rm rc l rm' :
  stmt_ok s -> Inv sigma rm rc -> m_i rm = c_i rc -> tr_stmt T sq s = Ok l -> exec_stmt F s rm = Some rm' ->
  Inv (apply_assigns l sigma) rm' rc /\ m_i rm' = c_i rc.
Proof.
  destruct s as [a | brs els | lo st hi body]; intros Hok HI Hi Htr Hex; simpl in Htr, Hex.
  - apply (assigns_sound [a] sigma rm rc l rm' HI Hi Htr). simpl. destruct (exec_assign F a rm); [exact Hex | discriminate Hex].
  - destruct Hok.
  - destruct (st =? 0)%Z eqn:Est; [discriminate Hex |]. apply Z.eqb_neq in Est.
    destruct (tr_assigns T body) as [cb |] eqn:Eb; [| discriminate Htr]. injection Htr as <-.
    rewrite (range_values_modelica lo st hi Est).
    destruct (loop_sound body cb _ sigma rm rc rm' HI Eb Hex) as [H1 H2].
    split; [exact H1 | congruence].
Qed.

Lemma stmts_sound sq body : forall sigma rm rc l rm',
  Forall stmt_ok body -> Inv sigma rm rc -> m_i rm = c_i rc -> tr_stmts T sq body = Ok l ->
  exec F body rm = Some rm' -> Inv (apply_assigns l sigma) rm' rc /\ m_i rm' = c_i rc.
Proof.
  induction body as [| s r IH]; intros sigma rm rc l rm' Hok HI Hi Htr Hex; simpl in Htr, Hex.
  - injection Htr as <-. injection Hex as <-. simpl. split; assumption.
  - destruct (tr_stmt T sq s) as [ls |] eqn:Es; [| discriminate Htr].
    destruct (tr_stmts T sq r) as [lr |] eqn:Er; [| discriminate Htr]. injection Htr as <-.
    destruct (exec_stmt F s rm) as [rm1 |] eqn:E1; [| discriminate Hex].
    inversion Hok as [| ? ? Hs Hr]; subst.
    destruct (stmt_sound sq s sigma rm rc ls rm1 Hs HI Hi Es E1) as [HI1 Hi1].
    rewrite apply_assigns_app. apply (IH _ rm1 rc lr rm' Hr HI1 Hi1 eq_refl Hex).
Qed.

(* the initial point: every function variable has a number, the same on both sides *)
Definition init_rel (rm : menv) (rc : cenv) : Prop :=
  (forall y, m_sc rm y = VNum (c_sc rc y)) /\
  (forall x, c_der rc x = m_der rm x) /\
  (forall x k, c_arr rc x (k - 1) = m_arr rm x k) /\
  m_i rm = c_i rc.

Lemma init_inv rm rc : init_rel rm rc -> Inv sigma0 rm rc.
Proof.
  intros (H1 & H2 & H3 & _). repeat split; auto.
  intro y. exists (c_sc rc y). split; [apply H1 | reflexivity].
Qed.

Lemma function_sound sq body l rm rc rm' :
  Forall stmt_ok body -> init_rel rm rc -> tr_stmts T sq body = Ok l -> exec F body rm = Some rm' ->
  forall x, exists q, m_sc rm' x = VNum q /\ ca_eval F (apply_assigns l sigma0 x) rc = Some q.
Proof.
  intros Hok Hinit Htr Hex.
  destruct (stmts_sound sq body sigma0 rm rc l rm' Hok (init_inv rm rc Hinit)
              (proj2 (proj2 (proj2 Hinit))) Htr Hex) as [(H1 & _) _].
  exact H1.
Qed.

End FunSound.

(* ---------- the order of the unrolled assignments matters ---------- *)
(* statement-major unrolling (all iterations of statement 1, then of statement 2) — the seeded
   change /verif/seeded/C11/m2 *)
Definition unroll_stmt_major (vals : list Z) (body : list cassign) : list cassign :=
  flat_map (fun xc => map (fun v => (fst xc, bind_i v (snd xc))) vals) body.

(* for i in 1:2 loop a := a + i*b; b := a - b; end for;  with a = 1, b = 1 initially *)
Definition order_body : list assign :=
  [(1%positive, EBin BAdd (ERef (RVar 1%positive)) (EBin BMul (ERef RLoopVar) (ERef (RVar 2%positive))));
   (2%positive, EBin BSub (ERef (RVar 1%positive)) (ERef (RVar 2%positive)))].
Definition order_rc : cenv := {| c_sc := fun _ => 1; c_der := fun _ => 0; c_arr := fun _ _ => 0; c_i := 0%Z |}.
Definition order_rm : menv := {| m_sc := fun _ => VNum 1; m_der := fun _ => 0; m_arr := fun _ _ => 0; m_i := 0%Z |}.
Definition qc_is (o : option Qc) (z : Z) : bool :=
  match o with Some q => qeqb q (z2q z) | None => false end.
Definition val_is (o : option menv) (x : positive) (z : Z) : bool :=
  match o with
  | Some r => match m_sc r x with VNum q => qeqb q (z2q z) | _ => false end
  | None => false
  end.
Lemma order_matters :
  match tr_assigns good_table order_body with
  | Ok cb =>
      (* sequential execution: a = 4, b = 3 *)
      val_is (exec (fun _ q => q) [SFor 1 1 2 order_body] order_rm) 1%positive 4 = true /\
      val_is (exec (fun _ q => q) [SFor 1 1 2 order_body] order_rm) 2%positive 3 = true /\
      (* iteration-major unrolling (the generator): the same *)
      qc_is (ca_eval (fun _ q => q) (apply_assigns (unroll [1; 2]%Z cb) sigma0 1%positive) order_rc) 4 = true /\
      qc_is (ca_eval (fun _ q => q) (apply_assigns (unroll [1; 2]%Z cb) sigma0 2%positive) order_rc) 3 = true /\
      (* statement-major unrolling: b = 1 *)
      qc_is (ca_eval (fun _ q => q) (apply_assigns (unroll_stmt_major [1; 2]%Z cb) sigma0 2%positive) order_rc) 1 = true
  | Err _ => False
  end.
Proof. vm_compute. repeat split; reflexivity. Qed.

(* ---------- if-statements are NOT translated sequentially in general (known, unrepaired) ---------- *)
(* if a > 0 then a := a - 5; b := 1; else a := a; b := 2; end if;   from a = b = 3 *)
Definition ifdep_stmt : stmt :=
  SIf [(EBin BGt (ERef (RVar 1%positive)) (ENum 0),
        [(1%positive, EBin BSub (ERef (RVar 1%positive)) (ENum (z2q 5))); (2%positive, ENum 1)])]
      [(1%positive, ERef (RVar 1%positive)); (2%positive, ENum (z2q 2))].
Definition ifdep_rc : cenv := {| c_sc := fun _ => z2q 3; c_der := fun _ => 0; c_arr := fun _ _ => 0; c_i := 0%Z |}.
Definition ifdep_rm : menv := {| m_sc := fun _ => VNum (z2q 3); m_der := fun _ => 0; m_arr := fun _ _ => 0; m_i := 0%Z |}.
Lemma ifdep_differs :
  match tr_stmts good_table false [ifdep_stmt] with
  | Ok l =>
      (* sequential execution: a = -2, b = 1 *)
      val_is (exec (fun _ q => q) [ifdep_stmt] ifdep_rm) 1%positive (-2) = true /\
      val_is (exec (fun _ q => q) [ifdep_stmt] ifdep_rm) 2%positive 1 = true /\
      (* the generated function: a = -2 but b = 2 (b's condition sees the updated a) *)
      qc_is (ca_eval (fun _ q => q) (apply_assigns l sigma0 1%positive) ifdep_rc) (-2) = true /\
      qc_is (ca_eval (fun _ q => q) (apply_assigns l sigma0 2%positive) ifdep_rc) 2 = true
  | Err _ => False
  end.
Proof. vm_compute. repeat split; reflexivity. Qed.

(* with the repaired exitIfStatement (seq_if = true) the same statement is translated sequentially *)
Lemma ifdep_repaired :
  match tr_stmts good_table true [ifdep_stmt] with
  | Ok l =>
      qc_is (ca_eval (fun _ q => q) (apply_assigns l sigma0 1%positive) ifdep_rc) (-2) = true /\
      qc_is (ca_eval (fun _ q => q) (apply_assigns l sigma0 2%positive) ifdep_rc) 1 = true
  | Err _ => False
  end.
Proof. vm_compute. split; reflexivity. Qed.
