(* C11 — proofs about user functions (Model/C11_functions.v) *)
From Coq Require Import ZArith QArith Qcanon List Bool Lia.
From PV Require Import Model.C11_residual Proofs.C11_residual Model.C11_functions.
Import ListNotations.
Open Scope Qc_scope.

(* program variables are the positives below 1000; the temporaries of the repaired
   exitIfStatement (tmp_of x = x + 1000) lie above *)
Definition small (y : positive) : Prop := (y < 1000)%positive.
Lemma tmp_not_small x : ~ small (tmp_of x).
Proof. unfold small, tmp_of. lia. Qed.
Lemma small_neq_tmp y x : small y -> Pos.eqb y (tmp_of x) = false.
Proof. intro H. apply Pos.eqb_neq. intro E. subst y. exact (tmp_not_small x H). Qed.

(* expressions that read only program variables *)
Fixpoint wfe (e : expr) : Prop :=
  match e with
  | ENum _ | EBool _ => True
  | ERef (RVar x) => small x
  | ERef _ => True
  | EUn _ a => wfe a
  | EBin _ a b => wfe a /\ wfe b
  | EIf brs els =>
      (fix go (l : list (expr * expr)) : Prop :=
         match l with
         | [] => wfe els
         | (c, a) :: r => wfe c /\ wfe a /\ go r
         end) brs
  | EFun _ a => wfe a
  end.
Definition wfa (a : assign) : Prop := small (fst a) /\ wfe (snd a).

Definition agree (r1 r2 : menv) : Prop :=
  (forall y, small y -> m_sc r1 y = m_sc r2 y) /\
  (forall x, m_der r1 x = m_der r2 x) /\
  (forall x k, m_arr r1 x k = m_arr r2 x k) /\
  m_i r1 = m_i r2.

Section FunSound.
Variable F : positive -> Qc -> Qc.
Variable T : table.
Hypothesis HT : table_ok T = true.

(* coincidence: the Modelica meaning depends only on the program variables *)
Lemma m_eval_agree r1 r2 : agree r1 r2 -> forall e, wfe e -> m_eval F e r1 = m_eval F e r2.
Proof.
  intros (A1 & A2 & A3 & A4) e.
  induction e using expr_ind'; cbn [wfe m_eval]; intro W.
  - reflexivity.
  - reflexivity.
  - destruct r; cbn [m_ref]; try rewrite A4; try rewrite A3; try rewrite A2; try reflexivity.
    rewrite (A1 x W). reflexivity.
  - rewrite (IHe W). reflexivity.
  - destruct W as [W1 W2]. rewrite (IHe1 W1), (IHe2 W2). reflexivity.
  - induction H as [| [c a] r [Hc Ha] _ IHr].
    + apply IHe. exact W.
    + destruct W as (Wc & Wa & Wr). simpl in Hc, Ha. rewrite (Hc Wc), (Ha Wa), (IHr Wr). reflexivity.
  - rewrite (IHe W). reflexivity.
Qed.

(* binding the loop index = evaluating with the index set *)
Lemma bind_i_eval v c rho : ca_eval F (bind_i v c) rho = ca_eval F c (with_ci rho v).
Proof.
  induction c as [q | s | a IH | a IH | n a IHa b IHb | c IHc a IHa b IHb | f a IH];
    cbn [bind_i ca_eval].
  - reflexivity.
  - destruct s; reflexivity.
  - rewrite IH. reflexivity.
  - rewrite IH. reflexivity.
  - rewrite IHa, IHb. reflexivity.
  - rewrite IHc, IHa, IHb. reflexivity.
  - rewrite IH. reflexivity.
Qed.

(* substitution lemma: evaluating the substituted graph = evaluating the graph where every scalar
   symbol has the value of its replacement *)
Lemma subst_eval sigma rho g :
  (forall y, ca_eval F (sigma y) rho = Some (g y)) ->
  forall c, ca_eval F (subst sigma c) rho = ca_eval F c (set_sc rho g (c_i rho)).
Proof.
  intros Hs c.
  induction c as [q | s | a IH | a IH | n a IHa b IHb | c IHc a IHa b IHb | f a IH];
    cbn [subst ca_eval].
  - reflexivity.
  - destruct s; cbn [ca_eval c_sym set_sc c_sc c_der c_arr c_i]; try reflexivity. apply Hs.
  - rewrite IH. reflexivity.
  - rewrite IH. reflexivity.
  - rewrite IHa, IHb. reflexivity.
  - rewrite IHc, IHa, IHb. reflexivity.
  - rewrite IH. reflexivity.
Qed.

(* invariant between the Modelica environment during sequential execution and the symbolic
   `values` dict of get_function, evaluated at the input point rc: every PROGRAM variable has
   the same number on both sides; every symbolic value (temporaries included) is defined *)
Definition Inv (sigma : positive -> caexpr) (rm : menv) (rc : cenv) : Prop :=
  (forall y, small y -> exists q, m_sc rm y = VNum q /\ ca_eval F (sigma y) rc = Some q) /\
  (forall y, exists q, ca_eval F (sigma y) rc = Some q) /\
  (forall x, c_der rc x = m_der rm x) /\
  (forall x k, c_arr rc x (k - 1) = m_arr rm x k).

Definition gof (sigma : positive -> caexpr) (rc : cenv) (y : positive) : Qc :=
  match ca_eval F (sigma y) rc with Some q => q | None => 0 end.

Lemma inv_gof sigma rm rc : Inv sigma rm rc -> forall y, ca_eval F (sigma y) rc = Some (gof sigma rc y).
Proof. intros (_ & H & _) y. destruct (H y) as (q & E). unfold gof. rewrite E. reflexivity. Qed.

(* the shadow Modelica environment in which EVERY scalar has its CasADi value *)
Definition shadow (sigma : positive -> caexpr) (rm : menv) (rc : cenv) : menv :=
  {| m_sc := fun y => VNum (gof sigma rc y); m_der := m_der rm; m_arr := m_arr rm; m_i := m_i rm |}.

Lemma shadow_agree sigma rm rc : Inv sigma rm rc -> agree rm (shadow sigma rm rc).
Proof.
  intros (H1 & _). repeat split; simpl; auto.
  intros y Hy. destruct (H1 y Hy) as (q & E1 & E2). rewrite E1. unfold gof. rewrite E2. reflexivity.
Qed.
Lemma shadow_env_rel sigma rm rc :
  Inv sigma rm rc -> env_rel (shadow sigma rm rc) (set_sc rc (gof sigma rc) (m_i rm)).
Proof. intros (_ & _ & H2 & H3). repeat split; simpl; auto. Qed.

Lemma inv_with_mi sigma rm rc v : Inv sigma rm rc -> Inv sigma (with_mi rm v) rc.
Proof. intros (H1 & H2 & H3 & H4). repeat split; simpl; auto. Qed.

(* expressions under the invariant *)
Lemma exprI_sound sigma rm rc e ce v :
  Inv sigma rm rc -> wfe e -> tr T e = Ok ce -> m_eval F e rm = Some v ->
  exists w, ca_eval F ce (set_sc rc (gof sigma rc) (m_i rm)) = Some w /\ enc_rel v w.
Proof.
  intros HI W Htr Me.
  rewrite (m_eval_agree _ _ (shadow_agree sigma rm rc HI) e W) in Me.
  exact (expr_sound F T HT _ _ (shadow_env_rel sigma rm rc HI) e ce Htr v Me).
Qed.

(* one assignment; c' is the graph actually emitted for the right-hand side (the translated
   expression itself, or the translated expression with the loop index bound) *)
Lemma step_sound sigma rm rc x e ce c' rm1 :
  Inv sigma rm rc -> wfa (x, e) -> tr T e = Ok ce -> exec_assign F (x, e) rm = Some rm1 ->
  ca_eval F c' (set_sc rc (gof sigma rc) (c_i rc)) = ca_eval F ce (set_sc rc (gof sigma rc) (m_i rm)) ->
  Inv (sigma_set sigma x (subst sigma c')) rm1 rc /\ m_i rm1 = m_i rm.
Proof.
  intros HI [Wx We] Htr Hex Hc'. unfold exec_assign in Hex. simpl in Hex, Wx, We.
  destruct (m_eval F e rm) as [[q | b] |] eqn:Me; try discriminate Hex. injection Hex as <-.
  destruct (exprI_sound sigma rm rc e ce _ HI We Htr Me) as (w & Ew & Rw).
  simpl in Rw. subst w.
  assert (ca_eval F (subst sigma c') rc = Some q) as Es.
  { rewrite (subst_eval sigma rc (gof sigma rc) (inv_gof sigma rm rc HI)). rewrite Hc'. exact Ew. }
  split; [| reflexivity].
  destruct HI as (H1 & H2 & H3 & H4). repeat split; simpl; auto.
  - intros y Hy. unfold sigma_set. destruct (Pos.eqb y x) eqn:Ey.
    + exists q. split; [reflexivity | exact Es].
    + apply H1. exact Hy.
  - intro y. unfold sigma_set. destruct (Pos.eqb y x); [exists q; exact Es | apply H2].
Qed.

Lemma apply_assigns_app l1 l2 sigma :
  apply_assigns (l1 ++ l2) sigma = apply_assigns l2 (apply_assigns l1 sigma).
Proof.
  revert sigma. induction l1 as [| [x c] r IH]; intro sigma; simpl; [reflexivity | apply IH].
Qed.

(* a list of assignments outside a loop *)
Lemma assigns_sound l : forall sigma rm rc cl rm',
  Forall wfa l -> Inv sigma rm rc -> m_i rm = c_i rc -> tr_assigns T l = Ok cl ->
  exec_assigns F l rm = Some rm' ->
  Inv (apply_assigns cl sigma) rm' rc /\ m_i rm' = c_i rc.
Proof.
  induction l as [| [x e] r IH]; intros sigma rm rc cl rm' W HI Hi Htr Hex; simpl in Htr, Hex.
  - injection Htr as <-. injection Hex as <-. simpl. split; assumption.
  - destruct (tr T e) as [ce |] eqn:Ee; [| discriminate Htr].
    destruct (tr_assigns T r) as [cr |] eqn:Er; [| discriminate Htr]. injection Htr as <-.
    destruct (exec_assign F (x, e) rm) as [rm1 |] eqn:E1; [| discriminate Hex].
    pose proof (Forall_inv W) as W1. pose proof (Forall_inv_tail W) as Wr.
    destruct (step_sound sigma rm rc x e ce ce rm1 HI W1 Ee E1) as [HI1 Hi1].
    { rewrite Hi. reflexivity. }
    simpl. apply (IH _ rm1 rc cr rm' Wr HI1); [congruence | reflexivity | exact Hex].
Qed.

(* one iteration of a for-statement: the body with the index bound to v *)
Lemma iter_sound v body : forall sigma rm rc cb rm',
  Forall wfa body -> Inv sigma rm rc -> m_i rm = v -> tr_assigns T body = Ok cb ->
  exec_assigns F body rm = Some rm' ->
  Inv (apply_assigns (map (fun xc => (fst xc, bind_i v (snd xc))) cb) sigma) rm' rc /\ m_i rm' = v.
Proof.
  induction body as [| [x e] r IH]; intros sigma rm rc cb rm' W HI Hi Htr Hex; simpl in Htr, Hex.
  - injection Htr as <-. injection Hex as <-. simpl. split; assumption.
  - destruct (tr T e) as [ce |] eqn:Ee; [| discriminate Htr].
    destruct (tr_assigns T r) as [cr |] eqn:Er; [| discriminate Htr]. injection Htr as <-.
    destruct (exec_assign F (x, e) rm) as [rm1 |] eqn:E1; [| discriminate Hex].
    pose proof (Forall_inv W) as W1. pose proof (Forall_inv_tail W) as Wr.
    destruct (step_sound sigma rm rc x e ce (bind_i v ce) rm1 HI W1 Ee E1) as [HI1 Hi1].
    { rewrite bind_i_eval. rewrite Hi. reflexivity. }
    simpl. apply (IH _ rm1 rc cr rm' Wr HI1); [congruence | reflexivity | exact Hex].
Qed.

Lemma fold_exec_iter_none body vals : fold_left (exec_iter F body) vals None = None.
Proof. induction vals; simpl; auto. Qed.

(* the whole for-statement: iterations in order, within each iteration the statements in order —
   exactly the order in which `unroll` (exitForStatement) lists the assignments *)
Lemma loop_sound body cb vals : forall sigma rm rc rm',
  Forall wfa body -> Inv sigma rm rc -> tr_assigns T body = Ok cb ->
  fold_left (exec_iter F body) vals (Some rm) = Some rm' ->
  Inv (apply_assigns (unroll vals cb) sigma) rm' rc /\ m_i rm' = m_i rm.
Proof.
  induction vals as [| v vs IH]; intros sigma rm rc rm' W HI Htr Hex; simpl in Hex.
  - injection Hex as <-. simpl. split; [exact HI | reflexivity].
  - destruct (exec_assigns F body (with_mi rm v)) as [r' |] eqn:E1;
      [| rewrite fold_exec_iter_none in Hex; discriminate Hex].
    destruct (iter_sound v body sigma (with_mi rm v) rc cb r' W (inv_with_mi _ _ _ v HI) eq_refl Htr E1) as [HI1 _].
    unfold unroll. simpl. rewrite apply_assigns_app.
    destruct (IH _ (with_mi r' (m_i rm)) rc rm' W (inv_with_mi _ _ _ _ HI1) Htr Hex) as [HI2 Hi2].
    split; [exact HI2 | exact Hi2].
Qed.

(* ---------- if-statements, repaired translation (seq_if = true) ---------- *)
Fixpoint nested (cvs : list (caexpr * caexpr)) (e : caexpr) : caexpr :=
  match cvs with [] => e | (c, v) :: r => CIfElse c v (nested r e) end.

Lemma combine_app_single {A B} (l1 : list A) (l2 : list B) a b :
  length l1 = length l2 -> combine (l1 ++ [a]) (l2 ++ [b]) = combine l1 l2 ++ [(a, b)].
Proof.
  revert l2. induction l1 as [| x r IH]; intros [| y s] H; simpl in H; try discriminate H; simpl.
  - reflexivity.
  - f_equal. apply IH. congruence.
Qed.
Lemma combine_rev {A B} (l1 : list A) (l2 : list B) :
  length l1 = length l2 -> combine (rev l1) (rev l2) = rev (combine l1 l2).
Proof.
  revert l2. induction l1 as [| x r IH]; intros [| y s] H; simpl in H; try discriminate H; simpl.
  - reflexivity.
  - rewrite combine_app_single by (rewrite !rev_length; congruence). rewrite IH by congruence. reflexivity.
Qed.
Lemma fold_nested (L : list (caexpr * caexpr)) e :
  fold_left (fun src cr => CIfElse (fst cr) (snd cr) src) (rev L) e = nested L e.
Proof.
  induction L as [| [c v] r IH]; simpl; [reflexivity |].
  rewrite fold_left_app. simpl. rewrite IH. reflexivity.
Qed.
(* the loop of exitIfStatement builds the nested if_else, first condition outermost *)
Lemma merge_nested conds vals e :
  length conds = length vals -> merge conds (vals ++ [e]) = nested (combine conds vals) e.
Proof.
  intro H. unfold merge. rewrite rev_unit. rewrite combine_rev by exact H. apply fold_nested.
Qed.

Lemma tr_assigns_fst l : forall cl, tr_assigns T l = Ok cl -> map fst cl = map fst l.
Proof.
  induction l as [| [x e] r IH]; intros cl H; simpl in H.
  - injection H as <-. reflexivity.
  - destruct (tr T e); [| discriminate H]. destruct (tr_assigns T r) as [cr |]; [| discriminate H].
    injection H as <-. simpl. f_equal. apply IH. reflexivity.
Qed.
Lemma tr_blocks_app l b : forall blocks,
  tr_blocks T (l ++ [b]) = Ok blocks ->
  exists cl cb, tr_blocks T l = Ok cl /\ tr_assigns T b = Ok cb /\ blocks = cl ++ [cb].
Proof.
  induction l as [| a r IH]; intros blocks H; simpl in H.
  - destruct (tr_assigns T b) as [cb |]; [| discriminate H]. injection H as <-.
    exists [], cb. repeat split.
  - destruct (tr_assigns T a) as [ca |] eqn:Ea; [| discriminate H].
    destruct (tr_blocks T (r ++ [b])) as [cr |] eqn:Er; [| discriminate H]. injection H as <-.
    destruct (IH cr eq_refl) as (cl & cb & E1 & E2 & E3). subst cr.
    exists (ca :: cl), cb. simpl. rewrite Ea, E1. repeat split. exact E2.
Qed.

Lemma set_sc_self E : set_sc E (gof sigma0 E) (c_i E) = E.
Proof. destruct E. reflexivity. Qed.

(* the values of sigma, seen as a CasADi point for graphs over the original symbols *)
Lemma inv_at sigma rm rc :
  Inv sigma rm rc -> Inv sigma0 rm (set_sc rc (gof sigma rc) (c_i rc)).
Proof.
  intros (H1 & H2 & H3 & H4). repeat split; cbn [set_sc c_sc c_der c_arr c_i]; auto.
  - intros y Hy. destruct (H1 y Hy) as (q & E1 & E2). exists q. split; [exact E1 |].
    simpl. unfold gof. rewrite E2. reflexivity.
  - intro y. eexists. reflexivity.
Qed.

(* frame: a block of assignments changes only its own left-hand sides *)
Lemma exec_assigns_frame l : forall rm rm', exec_assigns F l rm = Some rm' ->
  (forall y, ~ In y (map fst l) -> m_sc rm' y = m_sc rm y) /\
  (forall x, m_der rm' x = m_der rm x) /\ (forall x k, m_arr rm' x k = m_arr rm x k) /\ m_i rm' = m_i rm.
Proof.
  induction l as [| [x e] r IH]; intros rm rm' H; simpl in H.
  - injection H as <-. repeat split; reflexivity.
  - unfold exec_assign in H. simpl in H.
    destruct (m_eval F e rm) as [[q | b] |]; try discriminate H.
    destruct (IH _ _ H) as (A1 & A2 & A3 & A4). repeat split.
    + intros y Hy. simpl in Hy. rewrite A1 by tauto. simpl.
      destruct (Pos.eqb y x) eqn:E; [| reflexivity]. apply Pos.eqb_eq in E. subst y. tauto.
    + intro z. rewrite A2. reflexivity.
    + intros z k. rewrite A3. reflexivity.
    + rewrite A4. reflexivity.
Qed.

(* branch selection: at a point E holding the pre-if values, the merged graph of x evaluates to
   the value x has after the sequential execution of the if-statement *)
Lemma select_sound x (Hx : small x) els cels : forall brs conds cl E rm rm',
  Inv sigma0 rm E -> m_i rm = c_i E ->
  Forall (fun b => wfe (fst b) /\ Forall wfa (snd b)) brs -> Forall wfa els ->
  tr_conds T (map fst brs) = Ok conds -> tr_blocks T (map snd brs) = Ok cl -> tr_assigns T els = Ok cels ->
  exec_stmt F (SIf brs els) rm = Some rm' ->
  exists q, m_sc rm' x = VNum q /\
    ca_eval F (nested (combine conds (map (fun cb => apply_assigns cb sigma0 x) cl)) (apply_assigns cels sigma0 x)) E
    = Some q.
Proof.
  induction brs as [| [c blk] r IH]; intros conds cl E rm rm' HI Hi Wb We Hc Hb Hels Hex;
    simpl in Hc, Hb, Hex.
  - injection Hc as <-. injection Hb as <-. simpl.
    destruct (assigns_sound els sigma0 rm E cels rm' We HI Hi Hels Hex) as [(H1 & _) _].
    exact (H1 x Hx).
  - destruct (tr T c) as [cc |] eqn:Ec; [| discriminate Hc].
    destruct (tr_conds T (map fst r)) as [cr |] eqn:Ecr; [| discriminate Hc]. injection Hc as <-.
    destruct (tr_assigns T blk) as [cb |] eqn:Eb; [| discriminate Hb].
    destruct (tr_blocks T (map snd r)) as [clr |] eqn:Ebr; [| discriminate Hb]. injection Hb as <-.
    pose proof (Forall_inv Wb) as [Wc Wblk]. pose proof (Forall_inv_tail Wb) as Wr. simpl in Wc, Wblk.
    destruct (m_eval F c rm) as [[qv | b] |] eqn:Mc; try discriminate Hex.
    destruct (exprI_sound sigma0 rm E c cc _ HI Wc Ec Mc) as (w & Ew & [Hw Hb']).
    rewrite Hi, set_sc_self in Ew.
    simpl. rewrite Ew. destruct b.
    + assert (w <> 0) as N by (apply Hb'; reflexivity). apply qeqb_false in N. rewrite N.
      destruct (assigns_sound blk sigma0 rm E cb rm' Wblk HI Hi Eb Hex) as [(H1 & _) _].
      exact (H1 x Hx).
    + assert (w = 0) as Z.
      { destruct (Qc_eq_dec w 0) as [E0 | N]; [exact E0 |]. apply Hb' in N. discriminate N. }
      apply qeqb_true in Z. rewrite Z.
      apply (IH cr clr E rm rm' HI Hi Wr We eq_refl eq_refl Hels Hex).
Qed.

Lemma tmp_inj x y : tmp_of x = tmp_of y -> x = y.
Proof. unfold tmp_of. intro H. lia. Qed.

(* phase 1: the merged values go to the fresh temporaries; program variables are untouched *)
Lemma tmp_phase (merged : positive -> caexpr) rm rm' rc
      (Hval : forall s x, small x -> Inv s rm rc ->
                          exists q, m_sc rm' x = VNum q /\ ca_eval F (subst s (merged x)) rc = Some q) :
  forall xs sigma (P : positive -> Prop),
  Inv sigma rm rc -> (forall x, In x xs -> small x) ->
  (forall x, P x -> exists q, m_sc rm' x = VNum q /\ ca_eval F (sigma (tmp_of x)) rc = Some q) ->
  let st := apply_assigns (map (fun x => (tmp_of x, merged x)) xs) sigma in
  Inv st rm rc /\ (forall y, small y -> st y = sigma y) /\
  (forall x, P x \/ In x xs -> exists q, m_sc rm' x = VNum q /\ ca_eval F (st (tmp_of x)) rc = Some q).
Proof.
  induction xs as [| x0 r IH]; intros sigma P HI Hs HP; simpl.
  - split; [exact HI | split; [reflexivity |]]. intros x [Hx | []]. apply HP. exact Hx.
  - assert (small x0) as Hx0 by (apply Hs; left; reflexivity).
    destruct (Hval sigma x0 Hx0 HI) as (q0 & M0 & E0).
    set (s1 := sigma_set sigma (tmp_of x0) (subst sigma (merged x0))).
    assert (Inv s1 rm rc) as HI1.
    { destruct HI as (H1 & H2 & H3 & H4). repeat split; auto.
      - intros y Hy. unfold s1, sigma_set. rewrite (small_neq_tmp y x0 Hy). apply H1. exact Hy.
      - intro y. unfold s1, sigma_set. destruct (Pos.eqb y (tmp_of x0)); [exists q0; exact E0 | apply H2]. }
    destruct (IH s1 (fun x => P x \/ x = x0) HI1 (fun x Hx => Hs x (or_intror Hx))) as (A1 & A2 & A3).
    { intros x [Hp | ->].
      - destruct (HP x Hp) as (q & Mq & Eq). exists q. split; [exact Mq |].
        unfold s1, sigma_set. destruct (Pos.eqb (tmp_of x) (tmp_of x0)) eqn:E.
        + apply Pos.eqb_eq in E. apply tmp_inj in E. subst x. rewrite M0 in Mq. injection Mq as <-. exact E0.
        + exact Eq.
      - exists q0. split; [exact M0 |]. unfold s1, sigma_set. rewrite Pos.eqb_refl. exact E0. }
    split; [exact A1 | split].
    + intros y Hy. rewrite (A2 y Hy). unfold s1, sigma_set. rewrite (small_neq_tmp y x0 Hy). reflexivity.
    + intros x [Hp | [-> | Hr]]; apply A3; tauto.
Qed.

(* phase 2: the variables take the values of their temporaries *)
Lemma var_phase : forall xs sigma,
  (forall x, In x xs -> small x) ->
  let sv := apply_assigns (map (fun x => (x, CSym (SVar (tmp_of x)))) xs) sigma in
  (forall x, In x xs -> sv x = sigma (tmp_of x)) /\ (forall y, ~ In y xs -> sv y = sigma y).
Proof.
  induction xs as [| x0 r IH]; intros sigma Hs; simpl.
  - split; [intros x [] | reflexivity].
  - set (s1 := sigma_set sigma x0 (sigma (tmp_of x0))).
    assert (small x0) as Hx0 by (apply Hs; left; reflexivity).
    destruct (IH s1 (fun x Hx => Hs x (or_intror Hx))) as [B1 B2].
    assert (forall x, s1 (tmp_of x) = sigma (tmp_of x)) as Ht.
    { intro x. unfold s1, sigma_set. destruct (Pos.eqb (tmp_of x) x0) eqn:E; [| reflexivity].
      apply Pos.eqb_eq in E. exfalso. apply (tmp_not_small x). rewrite E. exact Hx0. }
    split.
    + intros x Hx. destruct (in_dec Pos.eq_dec x r) as [Hr | Hr].
      * rewrite (B1 x Hr). apply Ht.
      * destruct Hx as [-> | Hx]; [| contradiction]. rewrite (B2 x Hr). unfold s1, sigma_set.
        rewrite Pos.eqb_refl. reflexivity.
    + intros y Hy. rewrite B2 by tauto. unfold s1, sigma_set.
      destruct (Pos.eqb y x0) eqn:E; [| reflexivity]. apply Pos.eqb_eq in E. subst y. tauto.
Qed.

(* well-formed if-statement: program variables only, and every branch assigns (a subset of) the
   variables of the first branch — the generator checks the other inclusion *)
Definition blocks_of (brs : list (expr * list assign)) (els : list assign) : list (list assign) :=
  map snd brs ++ [els].
Definition if_ok (brs : list (expr * list assign)) (els : list assign) : Prop :=
  Forall (fun b => wfe (fst b) /\ Forall wfa (snd b)) brs /\ Forall wfa els /\
  Forall (fun blk => forall x, In x (map fst blk) -> In x (map fst (hd [] (blocks_of brs els))))
         (blocks_of brs els).

Lemma exec_if_frame brs els rm rm' :
  exec_stmt F (SIf brs els) rm = Some rm' ->
  exists blk, In blk (blocks_of brs els) /\ exec_assigns F blk rm = Some rm'.
Proof.
  unfold blocks_of. induction brs as [| [c b] r IH]; simpl; intro H.
  - exists els. split; [left; reflexivity | exact H].
  - destruct (m_eval F c rm) as [[q | [|]] |]; try discriminate H.
    + exists b. split; [left; reflexivity | exact H].
    + destruct (IH H) as (blk & Hin & He). exists blk. split; [right; exact Hin | exact He].
Qed.

Lemma if_sound brs els sigma rm rc l rm' :
  if_ok brs els -> Inv sigma rm rc -> m_i rm = c_i rc ->
  tr_stmt T true (SIf brs els) = Ok l -> exec_stmt F (SIf brs els) rm = Some rm' ->
  Inv (apply_assigns l sigma) rm' rc /\ m_i rm' = c_i rc.
Proof.
  intros (Wb & We & Wsub) HI Hi Htr Hex. cbn [tr_stmt] in Htr.
  destruct (forallb _ brs); [| discriminate Htr].
  destruct (tr_conds T (map fst brs)) as [conds |] eqn:Ec; [| discriminate Htr].
  destruct (tr_blocks T (map snd brs ++ [els])) as [blocks |] eqn:Eb; [| discriminate Htr].
  match type of Htr with (if ?b then _ else _) = _ => destruct b; [| discriminate Htr] end. injection Htr as <-.
  destruct (tr_blocks_app (map snd brs) els blocks Eb) as (cl & cels & Ecl & Eels & ->).
  set (xs := map fst (hd [] (cl ++ [cels]))).
  set (merged := fun x => merge conds (map (fun f : positive -> caexpr => f x)
                                           (map (fun cb => apply_assigns cb sigma0) (cl ++ [cels])))).
  (* lengths *)
  assert (length conds = length cl) as Hlen.
  { clear - Ec Ecl. revert conds cl Ec Ecl. induction brs as [| [c b] r IH]; intros conds cl Ec Ecl; simpl in Ec, Ecl.
    - injection Ec as <-. injection Ecl as <-. reflexivity.
    - destruct (tr T c); [| discriminate Ec]. destruct (tr_conds T (map fst r)) as [cr |]; [| discriminate Ec].
      destruct (tr_assigns T b); [| discriminate Ecl]. destruct (tr_blocks T (map snd r)) as [clr |]; [| discriminate Ecl].
      injection Ec as <-. injection Ecl as <-. simpl. f_equal. apply IH; reflexivity. }
  assert (forall x, merged x =
                    nested (combine conds (map (fun cb => apply_assigns cb sigma0 x) cl)) (apply_assigns cels sigma0 x)) as Hm.
  { intro x. unfold merged. rewrite map_map, map_app. simpl. apply merge_nested. rewrite map_length. exact Hlen. }
  (* the variables of the first block are those of the first Modelica block *)
  assert (xs = map fst (hd [] (blocks_of brs els))) as Hxs.
  { unfold xs, blocks_of. destruct brs as [| [c b] r]; simpl in *.
    - injection Ecl as <-. simpl. apply (tr_assigns_fst els cels Eels).
    - destruct (tr_assigns T b) as [cb |] eqn:E1; [| discriminate Ecl].
      destruct (tr_blocks T (map snd r)); [| discriminate Ecl]. injection Ecl as <-. simpl.
      apply (tr_assigns_fst b cb E1). }
  assert (forall x, In x xs -> small x) as Hsm.
  { intros x Hx. rewrite Hxs in Hx. unfold blocks_of in Hx.
    assert (Forall wfa (hd [] (map snd brs ++ [els]))) as Wh.
    { destruct brs as [| [c b] r]; simpl; [exact We | exact (proj2 (Forall_inv Wb))]. }
    rewrite Forall_forall in Wh. apply in_map_iff in Hx. destruct Hx as (a & <- & Ha). exact (proj1 (Wh a Ha)). }
  (* value of the merged graph under any sigma satisfying the invariant *)
  assert (forall s x, small x -> Inv s rm rc ->
                      exists q, m_sc rm' x = VNum q /\ ca_eval F (subst s (merged x)) rc = Some q) as Hval.
  { intros s x Hx Hs. rewrite (subst_eval s rc (gof s rc) (inv_gof s rm rc Hs)). rewrite Hm.
    apply (select_sound x Hx els cels brs conds cl _ rm rm' (inv_at s rm rc Hs)); try assumption. }
  rewrite apply_assigns_app.
  destruct (tmp_phase merged rm rm' rc Hval xs sigma (fun _ => False) HI Hsm) as (A1 & A2 & A3).
  { intros x []. }
  set (st := apply_assigns (map (fun x => (tmp_of x, merged x)) xs) sigma) in *.
  destruct (var_phase xs st Hsm) as [B1 B2].
  set (sv := apply_assigns (map (fun x => (x, CSym (SVar (tmp_of x)))) xs) st) in *.
  change (Inv sv rm' rc /\ m_i rm' = c_i rc).
  destruct (exec_if_frame brs els rm rm' Hex) as (blk & Hin & Hblk).
  destruct (exec_assigns_frame blk rm rm' Hblk) as (F1 & F2 & F3 & F4).
  assert (forall y, ~ In y xs -> m_sc rm' y = m_sc rm y) as Hframe.
  { intros y Hy. apply F1. intro Hyb. apply Hy. rewrite Hxs.
    rewrite Forall_forall in Wsub. exact (Wsub blk Hin y Hyb). }
  split; [| congruence].
  destruct A1 as (I1 & I2 & I3 & I4). repeat split.
  - intros y Hy. destruct (in_dec Pos.eq_dec y xs) as [Hi' | Hn].
    + rewrite (B1 y Hi'). apply A3. right. exact Hi'.
    + rewrite (B2 y Hn). rewrite (Hframe y Hn). apply I1. exact Hy.
  - intro y. destruct (in_dec Pos.eq_dec y xs) as [Hi' | Hn].
    + rewrite (B1 y Hi'). destruct (A3 y (or_intror Hi')) as (q & _ & E). exists q. exact E.
    + rewrite (B2 y Hn). apply I2.
  - intro z. rewrite F2. apply I3.
  - intros z k. rewrite F3. apply I4.
Qed.

(* ---------- statements ---------- *)
(* sq = which exitIfStatement (Model/C11_functions.v tr_stmt); if-statements are covered for the
   repaired translation only *)
Definition stmt_ok (sq : bool) (s : stmt) : Prop :=
  match s with
  | SAssign a => wfa a
  | SIf brs els => sq = true /\ if_ok brs els
  | SFor _ _ _ body => Forall wfa body
  end.

Lemma stmt_sound sq s sigma rm rc l rm' :
  stmt_ok sq s -> Inv sigma rm rc -> m_i rm = c_i rc -> tr_stmt T sq s = Ok l -> exec_stmt F s rm = Some rm' ->
  Inv (apply_assigns l sigma) rm' rc /\ m_i rm' = c_i rc.
Proof.
  destruct s as [a | brs els | lo st hi body]; intros Hok HI Hi Htr Hex;
    [simpl in Htr, Hex, Hok | | simpl in Htr, Hex, Hok].
  - apply (assigns_sound [a] sigma rm rc l rm' (Forall_cons a Hok (Forall_nil _)) HI Hi Htr).
    simpl. destruct (exec_assign F a rm); [exact Hex | discriminate Hex].
  - destruct Hok as [-> Hok]. exact (if_sound brs els sigma rm rc l rm' Hok HI Hi Htr Hex).
  - destruct (st =? 0)%Z eqn:Est; [discriminate Hex |]. apply Z.eqb_neq in Est.
    destruct (tr_assigns T body) as [cb |] eqn:Eb; [| discriminate Htr]. injection Htr as <-.
    rewrite (range_values_modelica lo st hi Est).
    destruct (loop_sound body cb _ sigma rm rc rm' Hok HI Eb Hex) as [H1 H2].
    split; [exact H1 | congruence].
Qed.

Lemma stmts_sound sq body : forall sigma rm rc l rm',
  Forall (stmt_ok sq) body -> Inv sigma rm rc -> m_i rm = c_i rc -> tr_stmts T sq body = Ok l ->
  exec F body rm = Some rm' -> Inv (apply_assigns l sigma) rm' rc /\ m_i rm' = c_i rc.
Proof.
  induction body as [| s r IH]; intros sigma rm rc l rm' Hok HI Hi Htr Hex; simpl in Htr, Hex.
  - injection Htr as <-. injection Hex as <-. simpl. split; assumption.
  - destruct (tr_stmt T sq s) as [ls |] eqn:Es; [| discriminate Htr].
    destruct (tr_stmts T sq r) as [lr |] eqn:Er; [| discriminate Htr]. injection Htr as <-.
    destruct (exec_stmt F s rm) as [rm1 |] eqn:E1; [| discriminate Hex].
    inversion Hok as [| ? ? Hs Hr]; subst.
    destruct (stmt_sound sq s sigma rm rc ls rm1 Hs HI Hi Es E1) as [HI1 Hi1].
    rewrite apply_assigns_app. apply (IH _ rm1 rc lr rm' Hr HI1 Hi1 eq_refl Hex).
Qed.

(* the initial point: every function variable has a number, the same on both sides *)
Definition init_rel (rm : menv) (rc : cenv) : Prop :=
  (forall y, m_sc rm y = VNum (c_sc rc y)) /\
  (forall x, c_der rc x = m_der rm x) /\
  (forall x k, c_arr rc x (k - 1) = m_arr rm x k) /\
  m_i rm = c_i rc.

Lemma init_inv rm rc : init_rel rm rc -> Inv sigma0 rm rc.
Proof.
  intros (H1 & H2 & H3 & _). repeat split; auto.
  - intros y _. exists (c_sc rc y). split; [apply H1 | reflexivity].
  - intro y. exists (c_sc rc y). reflexivity.
Qed.

Lemma function_sound sq body l rm rc rm' :
  Forall (stmt_ok sq) body -> init_rel rm rc -> tr_stmts T sq body = Ok l -> exec F body rm = Some rm' ->
  forall x, small x -> exists q, m_sc rm' x = VNum q /\ ca_eval F (apply_assigns l sigma0 x) rc = Some q.
Proof.
  intros Hok Hinit Htr Hex.
  destruct (stmts_sound sq body sigma0 rm rc l rm' Hok (init_inv rm rc Hinit)
              (proj2 (proj2 (proj2 Hinit))) Htr Hex) as [(H1 & _) _].
  exact H1.
Qed.

(* ---------- the call site ---------- *)
Lemma args_sound rm rc (HE : env_rel rm rc) args : forall cargs vs,
  tr_exprs T args = Ok cargs ->
  all_some (map (fun a => match m_eval F a rm with Some (VNum v) => Some v | _ => None end) args) = Some vs ->
  all_some (map (fun c => ca_eval F c rc) cargs) = Some vs.
Proof.
  unfold tr_exprs. induction args as [| a r IH]; intros cargs vs Htr Hm; simpl in Htr, Hm.
  - injection Htr as <-. exact Hm.
  - destruct (tr T a) as [ca |] eqn:Ea; [| discriminate Htr].
    destruct (tr_conds T r) as [cr |] eqn:Er; [| discriminate Htr]. injection Htr as <-.
    destruct (m_eval F a rm) as [[v | b] |] eqn:Ma; try discriminate Hm.
    destruct (all_some (map _ r)) as [vr |] eqn:Mr; [| discriminate Hm]. injection Hm as <-.
    destruct (expr_sound F T HT rm rc HE a ca Ea _ Ma) as (w & Ew & Rw). simpl in Rw. subst w.
    simpl. rewrite Ew. rewrite (IH cr vr eq_refl eq_refl). reflexivity.
Qed.

Definition func_ok (sq : bool) (f : func) : Prop :=
  Forall (stmt_ok sq) (f_body f) /\ Forall small (f_out f).

Lemma call_sound sq rm rc (HE : env_rel rm rc) lhs f args r ms :
  func_ok sq f ->
  ca_call_res F T sq (lhs, f, args) rc = Ok r -> m_call_res F (lhs, f, args) rm = Some ms ->
  exists cs, r = Some cs /\ Forall2 agrees ms cs.
Proof.
  intros [Wb Wo] Hc Hm. unfold ca_call_res in Hc. unfold m_call_res in Hm.
  unfold tr_func in Hc.
  destruct (tr_stmts T sq (f_body f)) as [l |] eqn:El; [| discriminate Hc].
  destruct (tr_exprs T args) as [cargs |] eqn:Ea; [| discriminate Hc].
  destruct (all_some (map _ args)) as [vs |] eqn:Mv; [| discriminate Hm].
  rewrite (args_sound rm rc HE args cargs vs Ea Mv) in Hc. injection Hc as <-.
  destruct (exec F (f_body f) (m_fun_env f vs rm)) as [rout |] eqn:Ex; [| discriminate Hm].
  injection Hm as <-.
  set (rin := set_sc rc (bind_args (f_in f) vs (c_sc rc)) (c_i rc)).
  assert (init_rel (m_fun_env f vs rm) rin) as Hinit.
  { destruct HE as (H1 & H2 & H3 & H4). repeat split; simpl; auto.
    intro y. f_equal. clear - H1. revert vs.
    assert (forall g1 g2 : positive -> Qc, (forall z, g1 z = g2 z) ->
            forall xs vs, bind_args xs vs g1 y = bind_args xs vs g2 y) as Hb.
    { intros g1 g2 Hg xs. revert g1 g2 Hg. induction xs as [| x xr IH]; intros g1 g2 Hg [| v vr]; simpl; auto.
      apply IH. intro z. destruct (Pos.eqb z x); auto. }
    intro vs. apply Hb. intro z. specialize (H1 z). destruct (m_sc rm z); simpl; auto. }
  pose proof (function_sound sq (f_body f) l (m_fun_env f vs rm) rin rout Wb Hinit El Ex) as Hf.
  eexists. split; [reflexivity |].
  clear - Hf Wo HE. revert lhs. induction (f_out f) as [| o outs IH]; intros [| y lhs]; simpl; try constructor.
  - pose proof (Forall_inv Wo) as So. destruct (Hf o So) as (q & Mq & Eq). rewrite Eq.
    intros d Hd. destruct HE as (H1 & _). specialize (H1 y). destruct (m_sc rm y) as [lq | b]; [| discriminate Hd].
    rewrite Mq in Hd. injection Hd as <-. rewrite H1. reflexivity.
  - apply IH. exact (Forall_inv_tail Wo).
Qed.

End FunSound.

(* ---------- the order of the unrolled assignments matters ---------- *)
(* statement-major unrolling (all iterations of statement 1, then of statement 2) — the seeded
   change /verif/seeded/C11/m2 *)
Definition unroll_stmt_major (vals : list Z) (body : list cassign) : list cassign :=
  flat_map (fun xc => map (fun v => (fst xc, bind_i v (snd xc))) vals) body.

(* for i in 1:2 loop a := a + i*b; b := a - b; end for;  with a = 1, b = 1 initially *)
Definition order_body : list assign :=
  [(1%positive, EBin BAdd (ERef (RVar 1%positive)) (EBin BMul (ERef RLoopVar) (ERef (RVar 2%positive))));
   (2%positive, EBin BSub (ERef (RVar 1%positive)) (ERef (RVar 2%positive)))].
Definition order_rc : cenv := {| c_sc := fun _ => 1; c_der := fun _ => 0; c_arr := fun _ _ => 0; c_i := 0%Z |}.
Definition order_rm : menv := {| m_sc := fun _ => VNum 1; m_der := fun _ => 0; m_arr := fun _ _ => 0; m_i := 0%Z |}.
Definition qc_is (o : option Qc) (z : Z) : bool :=
  match o with Some q => qeqb q (z2q z) | None => false end.
Definition val_is (o : option menv) (x : positive) (z : Z) : bool :=
  match o with
  | Some r => match m_sc r x with VNum q => qeqb q (z2q z) | _ => false end
  | None => false
  end.
Lemma order_matters :
  match tr_assigns good_table order_body with
  | Ok cb =>
      (* sequential execution: a = 4, b = 3 *)
      val_is (exec (fun _ q => q) [SFor 1 1 2 order_body] order_rm) 1%positive 4 = true /\
      val_is (exec (fun _ q => q) [SFor 1 1 2 order_body] order_rm) 2%positive 3 = true /\
      (* iteration-major unrolling (the generator): the same *)
      qc_is (ca_eval (fun _ q => q) (apply_assigns (unroll [1; 2]%Z cb) sigma0 1%positive) order_rc) 4 = true /\
      qc_is (ca_eval (fun _ q => q) (apply_assigns (unroll [1; 2]%Z cb) sigma0 2%positive) order_rc) 3 = true /\
      (* statement-major unrolling: b = 1 *)
      qc_is (ca_eval (fun _ q => q) (apply_assigns (unroll_stmt_major [1; 2]%Z cb) sigma0 2%positive) order_rc) 1 = true
  | Err _ => False
  end.
Proof. vm_compute. repeat split; reflexivity. Qed.

(* ---------- if-statements are NOT translated sequentially in general (known, unrepaired) ---------- *)
(* if a > 0 then a := a - 5; b := 1; else a := a; b := 2; end if;   from a = b = 3 *)
Definition ifdep_stmt : stmt :=
  SIf [(EBin BGt (ERef (RVar 1%positive)) (ENum 0),
        [(1%positive, EBin BSub (ERef (RVar 1%positive)) (ENum (z2q 5))); (2%positive, ENum 1)])]
      [(1%positive, ERef (RVar 1%positive)); (2%positive, ENum (z2q 2))].
Definition ifdep_rc : cenv := {| c_sc := fun _ => z2q 3; c_der := fun _ => 0; c_arr := fun _ _ => 0; c_i := 0%Z |}.
Definition ifdep_rm : menv := {| m_sc := fun _ => VNum (z2q 3); m_der := fun _ => 0; m_arr := fun _ _ => 0; m_i := 0%Z |}.
Lemma ifdep_differs :
  match tr_stmts good_table false [ifdep_stmt] with
  | Ok l =>
      (* sequential execution: a = -2, b = 1 *)
      val_is (exec (fun _ q => q) [ifdep_stmt] ifdep_rm) 1%positive (-2) = true /\
      val_is (exec (fun _ q => q) [ifdep_stmt] ifdep_rm) 2%positive 1 = true /\
      (* the generated function: a = -2 but b = 2 (b's condition sees the updated a) *)
      qc_is (ca_eval (fun _ q => q) (apply_assigns l sigma0 1%positive) ifdep_rc) (-2) = true /\
      qc_is (ca_eval (fun _ q => q) (apply_assigns l sigma0 2%positive) ifdep_rc) 2 = true
  | Err _ => False
  end.
Proof. vm_compute. repeat split; reflexivity. Qed.

(* with the repaired exitIfStatement (seq_if = true) the same statement is translated sequentially *)
Lemma ifdep_repaired :
  match tr_stmts good_table true [ifdep_stmt] with
  | Ok l =>
      qc_is (ca_eval (fun _ q => q) (apply_assigns l sigma0 1%positive) ifdep_rc) (-2) = true /\
      qc_is (ca_eval (fun _ q => q) (apply_assigns l sigma0 2%positive) ifdep_rc) 1 = true
  | Err _ => False
  end.
Proof. vm_compute. split; reflexivity. Qed.

(* non-vacuity of the if-statement hypothesis: the witness statement is well-formed *)
Lemma ifdep_ok : stmt_ok true ifdep_stmt.
Proof.
  split; [reflexivity |]. unfold if_ok, blocks_of. simpl. repeat split.
  - repeat constructor; simpl; repeat split; try reflexivity; exact I.
  - repeat constructor; simpl; repeat split; try reflexivity; exact I.
  - apply Forall_cons; [simpl; intros x H; exact H | apply Forall_cons; [simpl; intros x H; exact H | apply Forall_nil]].
Qed.
