(* C09 — string level of the flattened names.
   pymoca names a flattened symbol by joining the instance path with CLASS_SEPARATOR = "." and
   compares names as plain strings (dict keys).  Here: the dot-joined instance of the model's
   Naming class, the proof that (for identifiers that are non-empty and contain no '.') the
   string-level run has exactly the solutions of the connection semantics over STRUCTURED names,
   and the three candidate string tests for "this zero-default entry belongs to that connector". *)
From stdpp Require Import gmap strings.
From Coq Require Import QArith Qcanon Ascii String.
From PV Require Import Lib.Closure Lib.DotJoin Model.C09_connect Proofs.C09_connect.
Close Scope Qc_scope.
Close Scope Q_scope.
Close Scope string_scope.

(* ------------------------------------------------------------------ *)
(* 1. equivalence closure under a renaming that is injective on a domain *)
(* ------------------------------------------------------------------ *)
Section EqvMap.
  Context {K1 K2 : Type} `{Countable K1} `{Countable K2}.
  Variable g : K1 → K2.
  Variable E : K1 → Prop.
  Hypothesis g_inj : ∀ a b, E a → E b → g a = g b → a = b.

  Definition gg (p : K1 * K1) : K2 * K2 := (g p.1, g p.2).
  Definition supp_ok (P : list (K1 * K1)) : Prop := ∀ p, p ∈ P → E p.1 ∧ E p.2.

  Lemma eqv_map_fwd P a b : eqv P a b → eqv (map gg P) (g a) (g b).
  Proof.
    induction 1 as [x y Hxy|x|x y _ IH|x y z _ IH1 _ IH2].
    - apply eqv_pair. apply elem_of_list_fmap. by exists (x, y).
    - apply eqv_refl.
    - by apply eqv_sym.
    - by eapply eqv_trans.
  Qed.

  Lemma eqv_map_bwd P x y :
    supp_ok P → eqv (map gg P) x y →
    x = y ∨ ∃ a b, x = g a ∧ y = g b ∧ E a ∧ E b ∧ eqv P a b.
  Proof.
    intros Hs. induction 1 as [x y Hxy|x|x y _ IH|x y z _ IH1 _ IH2].
    - right. apply elem_of_list_fmap in Hxy as ([a b] & Heq & Hab).
      injection Heq as -> ->. destruct (Hs _ Hab) as [Ea Eb]. exists a, b.
      repeat split; try done. by apply eqv_pair.
    - by left.
    - destruct IH as [->|(a & b & -> & -> & Ea & Eb & Hab)]; [by left|right].
      exists b, a. repeat split; try done. by apply eqv_sym.
    - destruct IH1 as [->|(a & b & -> & -> & Ea & Eb & Hab)]; [done|].
      destruct IH2 as [<-|(b' & c & Hbb & -> & Eb' & Ec & Hbc)].
      + right. exists a, b. done.
      + right. apply g_inj in Hbb; try done. subst b'. exists a, c.
        repeat split; try done. by eapply eqv_trans.
  Qed.

  Lemma eqv_map_iff P a b :
    supp_ok P → E a → E b → eqv (map gg P) (g a) (g b) ↔ eqv P a b.
  Proof.
    intros Hs Ea Eb. split; [|apply eqv_map_fwd].
    intros [Heq|(a' & b' & Ha & Hb & Ea' & Eb' & Hab)]%eqv_map_bwd; [| |done].
    - apply g_inj in Heq; try done. subst. apply eqv_refl.
    - apply g_inj in Ha, Hb; try done. by subst.
  Qed.

  Lemma eqv_in_supp P a b : supp_ok P → eqv P a b → a = b ∨ (E a ∧ E b).
  Proof.
    intros Hs. induction 1 as [x y Hxy|x|x y _ IH|x y z _ IH1 _ IH2].
    - right. apply (Hs _ Hxy).
    - by left.
    - destruct IH as [->|[? ?]]; [by left|by right].
    - destruct IH1 as [->|[? ?]]; [done|]. destruct IH2 as [<-|[? ?]]; by right.
  Qed.
End EqvMap.

(* ------------------------------------------------------------------ *)
(* 2. the specifications are invariant under such a renaming of names  *)
(* ------------------------------------------------------------------ *)
Section Transfer.
  Context {N1 N2 : Type} `{Countable N1} `{Countable N2}.
  Variable f : N1 → N2.
  Variable D : N1 → Prop.
  Hypothesis f_inj : ∀ a b, D a → D b → f a = f b → a = b.

  Definition fk (k : N1 * bool) : N2 * bool := (f k.1, k.2).
  Definition Dk (k : N1 * bool) : Prop := D k.1.

  Lemma fk_inj a b : Dk a → Dk b → fk a = fk b → a = b.
  Proof.
    destruct a as [a1 a2], b as [b1 b2]. unfold Dk, fk. simpl. intros Da Db [= E ->].
    f_equal. by apply f_inj.
  Qed.

  Lemma pot_spec_transfer (Q : list (N1 * N1)) (ρ : N2 → Qc) :
    supp_ok D Q → pot_spec (map (gg f) Q) ρ ↔ pot_spec Q (ρ ∘ f).
  Proof.
    intros HQ. unfold pot_spec. split.
    - intros Hs a b Hab. simpl. apply Hs. by apply eqv_map_fwd.
    - intros Hs x y Hxy. eapply (eqv_map_bwd f D f_inj) in Hxy as [->|(a & b & -> & -> & _ & _ & Hab)];
        [done| |done]. by apply Hs.
  Qed.

  Lemma ssum_map (ρ : N2 → Qc) (l : list (N1 * bool)) : ssum ρ (map fk l) = ssum (ρ ∘ f) l.
  Proof. induction l as [|k l IH]; simpl; [done|]. by rewrite IH. Qed.

  Lemma mentioned_map_fwd (P : list ((N1 * bool) * (N1 * bool))) k :
    mentioned P k → mentioned (map (gg fk) P) (fk k).
  Proof.
    intros (p & Hp & Hk). exists (gg fk p). split; [apply elem_of_list_fmap; eauto|].
    destruct Hk as [->| ->]; [by left|by right].
  Qed.

  Lemma mentioned_map_bwd (P : list ((N1 * bool) * (N1 * bool))) k' :
    mentioned (map (gg fk) P) k' → ∃ k, k' = fk k ∧ mentioned P k.
  Proof.
    intros (p' & Hp' & Hk). apply elem_of_list_fmap in Hp' as (p & -> & Hp).
    destruct Hk as [->| ->]; [exists p.1|exists p.2]; (split; [done|]); exists p;
      (split; [done|]); [by left|by right].
  Qed.

  Lemma mentioned_Dk (P : list ((N1 * bool) * (N1 * bool))) k : supp_ok Dk P → mentioned P k → Dk k.
  Proof. intros Hs (p & Hp & [->| ->]); apply (Hs _ Hp). Qed.

  Lemma enum_map (P : list ((N1 * bool) * (N1 * bool))) k l :
    supp_ok Dk P → mentioned P k → enumerates P k l →
    enumerates (map (gg fk) P) (fk k) (map fk l).
  Proof.
    intros Hs Hk [Hnd Hl].
    assert (HDk : Dk k) by by eapply mentioned_Dk.
    assert (HDl : ∀ v, v ∈ l → Dk v).
    { intros v Hv%Hl. destruct (eqv_in_supp Dk P k v Hs Hv) as [<-|[_ ?]]; done. }
    split.
    - apply NoDup_fmap_2_strong; [|done]. intros x y Hx Hy. apply fk_inj; by apply HDl.
    - intros v'. rewrite elem_of_list_fmap. split.
      + intros (v & -> & Hv%Hl). by apply eqv_map_fwd.
      + intros Hv'. eapply (eqv_map_bwd fk Dk fk_inj) in Hv' as [<-|(a & b & Ha & -> & Da & Db & Hab)];
          [| |done].
        * exists k. split; [done|]. apply Hl, eqv_refl.
        * apply fk_inj in Ha; try done. subst a. exists b. split; [done|]. by apply Hl.
  Qed.

  Lemma flow_spec_transfer (flows : list N1) (P : list ((N1 * bool) * (N1 * bool))) (ρ : N2 → Qc) :
    supp_ok Dk P → Forall D flows →
    flow_spec (map f flows) (map (gg fk) P) ρ ↔ flow_spec flows P (ρ ∘ f).
  Proof.
    intros Hs Hfl. unfold flow_spec. split; intros [H1 H2]; split.
    - intros k l Hk Hl. rewrite <- ssum_map. apply (H1 (fk k)); [by apply mentioned_map_fwd|].
      by apply enum_map.
    - intros n Hn Hun. simpl. apply H2; [apply elem_of_list_fmap; eauto|].
      intros k' (k & -> & Hk)%mentioned_map_bwd Heq. simpl in Heq. apply (Hun k Hk).
      apply f_inj; [by eapply mentioned_Dk| |done]. rewrite Forall_forall in Hfl. by apply Hfl.
    - intros k' l' (k & -> & Hk)%mentioned_map_bwd Hl'.
      destruct (mentioned_has_set P k Hk) as (S & _ & _ & HS).
      assert (Hen : enumerates P k (elements S)).
      { split; [apply NoDup_elements|]. intros v. by rewrite elem_of_elements. }
      pose proof (enum_map P k _ Hs Hk Hen) as [Hnd' Hmem'].
      rewrite (ssum_perm ρ l' (map fk (elements S))).
      + rewrite ssum_map. by apply (H1 k).
      + destruct Hl' as [Hnd Hmem]. apply NoDup_Permutation; [done|done|].
        intros x. by rewrite Hmem, Hmem'.
    - intros n' (n & -> & Hn)%elem_of_list_fmap Hun. apply (H2 n Hn).
      intros k Hk <-. apply (Hun (fk k)); [by apply mentioned_map_fwd|done].
  Qed.
End Transfer.

(* ------------------------------------------------------------------ *)
(* 3. the dot-joined string instance                                   *)
(* ------------------------------------------------------------------ *)
Notation seg := (list ascii).           (* identifier *)
Notation str := (list ascii).           (* flattened name as pymoca holds it *)
Definition dot : ascii := "."%char.     (* tree.py:18 CLASS_SEPARATOR *)
Definition sjoin : list seg → str := join dot.

Global Instance str_naming : Naming seg str :=
  {| nm := sjoin; ext := fun s x => s ++ dot :: x |}.

Notation fclauseP := ((list seg * bool) * (list seg * bool) * list (seg * kind))%type.
Notation fclauseS := ((str * bool) * (str * bool) * list (seg * kind))%type.

Definition name_ok (p : list seg) : Prop := p ≠ [] ∧ path_ok dot p.

Lemma sjoin_inj a b : name_ok a → name_ok b → sjoin a = sjoin b → a = b.
Proof. intros [_ Ha] [_ Hb]. by apply join_inj. Qed.

Lemma name_ok_snoc p x : name_ok p → seg_ok dot x → name_ok (p ++ [x]).
Proof.
  intros [Hne Hp] Hx. split; [by destruct p|]. apply Forall_app. split; [done|by constructor].
Qed.

Lemma sjoin_snoc p x : name_ok p → sjoin (p ++ [x]) = sjoin p ++ dot :: x.
Proof. intros [Hne _]. by apply join_snoc. Qed.

Definition clause_ok (c : fclauseP) : Prop :=
  name_ok c.1.1.1 ∧ name_ok c.1.2.1 ∧ Forall (fun v : seg * kind => seg_ok dot v.1) c.2.

(* the clause as the string-level code sees it *)
Definition renC (c : fclauseP) : fclauseS :=
  ((sjoin c.1.1.1, c.1.1.2), (sjoin c.1.2.1, c.1.2.2), c.2).

Definition keyS (k : list seg * bool) : str * bool := fk sjoin k.

Lemma fpv_cons {Sg N : Type} `{Countable N} `{!Naming Sg N} (L R : N * bool) x k (vars : list (Sg * kind)) :
  flow_pairs_vars L R ((x, k) :: vars) =
  match k with KFlow => [((ext L.1 x, L.2), (ext R.1 x, R.2))] | _ => [] end ++ flow_pairs_vars L R vars.
Proof. reflexivity. Qed.

Lemma ppv_cons {Sg N : Type} `{Countable N} `{!Naming Sg N} (L R : N * bool) x k (vars : list (Sg * kind)) :
  pot_pairs_vars L R ((x, k) :: vars) =
  match k with KPot => [(ext L.1 x, ext R.1 x)] | _ => [] end ++ pot_pairs_vars L R vars.
Proof. reflexivity. Qed.

Lemma flow_pairs_vars_ren (L R : list seg * bool) (vars : list (seg * kind)) :
  name_ok L.1 → name_ok R.1 →
  flow_pairs_vars (sjoin L.1, L.2) (sjoin R.1, R.2) vars
  = map (gg keyS) (flow_pairs_vars L R vars).
Proof.
  intros HL HR. induction vars as [|[x k] vars IH]; [done|].
  rewrite !fpv_cons, IH, fmap_app. f_equal.
  destruct k; [done| |done]. unfold gg, keyS, fk. simpl.
  by rewrite !sjoin_snoc.
Qed.

Lemma pot_pairs_vars_ren (L R : list seg * bool) (vars : list (seg * kind)) :
  name_ok L.1 → name_ok R.1 →
  pot_pairs_vars (sjoin L.1, L.2) (sjoin R.1, R.2) vars
  = map (gg sjoin) (pot_pairs_vars L R vars).
Proof.
  intros HL HR. induction vars as [|[x k] vars IH]; [done|].
  rewrite !ppv_cons, IH, fmap_app. f_equal.
  destruct k; [|done|done]. unfold gg. simpl.
  by rewrite !sjoin_snoc.
Qed.

Lemma fp_cons {Sg N : Type} `{Countable N} `{!Naming Sg N}
      (c : (N * bool) * (N * bool) * list (Sg * kind)) cs :
  flow_pairs (c :: cs) = flow_pairs_vars c.1.1 c.1.2 c.2 ++ flow_pairs cs.
Proof. reflexivity. Qed.
Lemma pp_cons {Sg N : Type} `{Countable N} `{!Naming Sg N}
      (c : (N * bool) * (N * bool) * list (Sg * kind)) cs :
  pot_pairs (c :: cs) = pot_pairs_vars c.1.1 c.1.2 c.2 ++ pot_pairs cs.
Proof. reflexivity. Qed.

Lemma flow_pairs_ren (cs : list fclauseP) :
  Forall clause_ok cs → flow_pairs (map renC cs) = map (gg keyS) (flow_pairs cs).
Proof.
  induction 1 as [|[[L R] vars] cs (HL & HR & _) _ IH]; [done|].
  change (map renC (((L, R), vars) :: cs)) with (renC ((L, R), vars) :: map renC cs).
  rewrite !fp_cons, IH, map_app. f_equal.
  by apply flow_pairs_vars_ren.
Qed.

Lemma pot_pairs_ren (cs : list fclauseP) :
  Forall clause_ok cs → pot_pairs (map renC cs) = map (gg sjoin) (pot_pairs cs).
Proof.
  induction 1 as [|[[L R] vars] cs (HL & HR & _) _ IH]; [done|].
  change (map renC (((L, R), vars) :: cs)) with (renC ((L, R), vars) :: map renC cs).
  rewrite !pp_cons, IH, map_app. f_equal.
  by apply pot_pairs_vars_ren.
Qed.

Lemma flow_pairs_supp (cs : list fclauseP) :
  Forall clause_ok cs → supp_ok (Dk name_ok) (flow_pairs cs).
Proof.
  intros Hcs p Hp. unfold flow_pairs in Hp. apply elem_of_list_In, in_flat_map in Hp as ([[L R] vars] & Hc & Hp).
  rewrite Forall_forall in Hcs. apply elem_of_list_In in Hc. destruct (Hcs _ Hc) as (HL & HR & Hv).
  simpl in *. unfold flow_pairs_vars in Hp. apply in_flat_map in Hp as ([x k] & Hx & Hp).
  rewrite Forall_forall in Hv. apply elem_of_list_In in Hx. specialize (Hv _ Hx). simpl in *.
  destruct k; simpl in Hp; try done. destruct Hp as [<-|[]]. unfold Dk. simpl.
  split; by apply name_ok_snoc.
Qed.

Lemma pot_pairs_supp (cs : list fclauseP) :
  Forall clause_ok cs → supp_ok name_ok (pot_pairs cs).
Proof.
  intros Hcs p Hp. unfold pot_pairs in Hp. apply elem_of_list_In, in_flat_map in Hp as ([[L R] vars] & Hc & Hp).
  rewrite Forall_forall in Hcs. apply elem_of_list_In in Hc. destruct (Hcs _ Hc) as (HL & HR & Hv).
  simpl in *. unfold pot_pairs_vars in Hp. apply in_flat_map in Hp as ([x k] & Hx & Hp).
  rewrite Forall_forall in Hv. apply elem_of_list_In in Hx. specialize (Hv _ Hx). simpl in *.
  destruct k; simpl in Hp; try done. destruct Hp as [<-|[]]. simpl.
  split; by apply name_ok_snoc.
Qed.

(* the string-level run (names joined with '.', compared as strings) has exactly the solutions of
   the connection semantics over the STRUCTURED names *)
Theorem string_level_correct (flows : list (list seg)) (cs : list fclauseP) (ρ : str → Qc) :
  Forall clause_ok cs → Forall name_ok flows →
  sat ρ (expand (map sjoin flows) (map renC cs)) ↔
  pot_spec (pot_pairs cs) (ρ ∘ sjoin) ∧ flow_spec flows (flow_pairs cs) (ρ ∘ sjoin).
Proof.
  intros Hcs Hfl. rewrite expand_correct, pot_pairs_ren, flow_pairs_ren by done.
  rewrite (pot_spec_transfer sjoin name_ok sjoin_inj) by by apply pot_pairs_supp.
  unfold keyS.
  rewrite (flow_spec_transfer sjoin name_ok sjoin_inj) by (by apply flow_pairs_supp || done).
  done.
Qed.

(* two string keys share a flow set iff the structured keys are related by the closure *)
Theorem string_level_partition (flows : list str) (cs : list fclauseP) (a b : list seg * bool) :
  Forall clause_ok cs → mentioned (flow_pairs cs) a → name_ok b.1 →
  (∃ S, S ∈ sets_of (fc (run_clauses flows (map renC cs))) ∧ keyS a ∈ S ∧ keyS b ∈ S) ↔
  eqv (flow_pairs cs) a b.
Proof.
  intros Hcs Ha Hb.
  destruct (partition_correct flows (map renC cs)) as (_ & _ & _ & _ & Hshare).
  rewrite flow_pairs_ren in Hshare by done.
  rewrite Hshare by by apply mentioned_map_fwd.
  unfold keyS. apply (eqv_map_iff (fk sjoin) (Dk name_ok) (fk_inj sjoin name_ok sjoin_inj)).
  - by apply flow_pairs_supp.
  - eapply mentioned_Dk; [by apply flow_pairs_supp|done].
  - done.
Qed.

(* ------------------------------------------------------------------ *)
(* 4. which string test decides that a zero-default entry belongs to a connected connector *)
(* ------------------------------------------------------------------ *)
Inductive name_test :=
  | TExact        (* d.pop(conn.name + SEP + var)        — tree.py:1118-1119 *)
  | TPrefixSep    (* entry.startswith(conn.name + SEP)   *)
  | TPrefixBare.  (* entry.startswith(conn.name)         *)

Definition hits (t : name_test) (conn : list seg) (fv : seg) (entry : str) : bool :=
  match t with
  | TExact => bool_decide (entry = sjoin conn ++ dot :: fv)
  | TPrefixSep => bool_decide ((sjoin conn ++ [dot]) `prefix_of` entry)
  | TPrefixBare => bool_decide (sjoin conn `prefix_of` entry)
  end.

Theorem exact_test_sound conn fv q :
  name_ok conn → seg_ok dot fv → name_ok q →
  hits TExact conn fv (sjoin q) = true ↔ q = conn ++ [fv].
Proof.
  intros Hc Hf Hq. unfold hits. rewrite bool_decide_eq_true, <- sjoin_snoc by done. split.
  - apply sjoin_inj; [done|by apply name_ok_snoc].
  - by intros ->.
Qed.

Theorem sep_test_sound conn fv q :
  name_ok conn → name_ok q →
  hits TPrefixSep conn fv (sjoin q) = true ↔ ∃ r, r ≠ [] ∧ q = conn ++ r.
Proof.
  intros [Hne Hc] [_ Hq]. unfold hits. rewrite bool_decide_eq_true. by apply prefix_sep_iff.
Qed.

Definition lit (s : string) : list ascii := list_ascii_of_string s.

(* startswith without the trailing separator is wrong: port1 / port10 *)
Theorem bare_test_refuted :
  ∃ conn fv q, name_ok conn ∧ seg_ok dot fv ∧ name_ok q ∧
    hits TPrefixBare conn fv (sjoin q) = true ∧ ¬ conn `prefix_of` q.
Proof.
  exists [lit "port1"], (lit "i"), [lit "port10"; lit "i"].
  assert (Hs : ∀ s : list ascii, s ≠ [] → bool_decide (dot ∈ s) = false → seg_ok dot s).
  { intros s ? Hd. split; [done|]. by apply bool_decide_eq_false in Hd. }
  split; [split; [done|repeat constructor; by apply Hs]|].
  split; [by apply Hs|].
  split; [split; [done|repeat constructor; by apply Hs]|].
  split; [by vm_compute|].
  intros [k E]. simpl in E. injection E as E _. vm_compute in E. discriminate E.
Qed.

(* what the tie accepts: the exact-key form the model mirrors, with the separator the theorems use *)
Definition accepted (t : name_test) (sep : ascii) : bool :=
  match t with TExact => bool_decide (sep = dot) | _ => false end.
Definition tie_ok (sites : list name_test) (sep : ascii) : bool :=
  negb (bool_decide (sites = [])) && forallb (fun t => accepted t sep) sites.

Theorem accepted_sound t sep :
  accepted t sep = true →
  sep = dot ∧ ∀ conn fv q, name_ok conn → seg_ok dot fv → name_ok q →
    hits t conn fv (sjoin q) = true ↔ q = conn ++ [fv].
Proof.
  destruct t; simpl; try done. intros ->%bool_decide_eq_true. split; [done|].
  intros. by apply exact_test_sound.
Qed.

(* ------------------------------------------------------------------ *)
(* 5. the hierarchical input: flattening to strings = joining the flattened paths *)
(* ------------------------------------------------------------------ *)
Section InstInd.
  Context {Sg : Type} (P : inst Sg → Prop).
  Hypothesis Hstep : ∀ decl subs cl,
      Forall (fun ns : Sg * inst Sg => P ns.2) subs → P (Inst decl subs cl).
  Fixpoint inst_ind' (i : inst Sg) : P i :=
    match i with
    | Inst decl subs cl =>
        Hstep decl subs cl
          ((fix go (l : list (Sg * inst Sg)) : Forall (fun ns : Sg * inst Sg => P ns.2) l :=
              match l with
              | [] => @List.Forall_nil _ _
              | (n, s) :: l' => @List.Forall_cons _ (fun ns : Sg * inst Sg => P ns.2) (n, s) l' (inst_ind' s) (go l')
              end) subs)
    end.
End InstInd.

Ltac base := simpl; repeat split; (done || constructor).

Definition vars_ok (vs : list (seg * kind)) : Prop := Forall (fun v : seg * kind => seg_ok dot v.1) vs.
Definition cref_ok (r : cref seg) : Prop :=
  match r with CRef None x => seg_ok dot x | CRef (Some c) x => seg_ok dot c ∧ seg_ok dot x end.

(* every identifier of the instance tree is non-empty and contains no '.' *)
Fixpoint inst_ok (i : inst seg) : Prop :=
  match i with
  | Inst decl subs cl =>
      Forall (fun d : seg * list (seg * kind) => seg_ok dot d.1 ∧ vars_ok d.2) decl ∧
      Forall (fun c : clause seg => cref_ok (c_l c) ∧ cref_ok (c_r c) ∧ vars_ok (c_vars c)) cl ∧
      (fix go (l : list (seg * inst seg)) : Prop :=
         match l with [] => True | (n, s) :: l' => seg_ok dot n ∧ inst_ok s ∧ go l' end) subs
  end.

Definition fcS (pre : list seg) (i : inst seg) : list fclauseS := flat_clauses pre i.
Definition fcP (pre : list seg) (i : inst seg) : list fclauseP := flat_clauses pre i.
Definition ffS (pre : list seg) (i : inst seg) : list str := flat_flows pre i.
Definition ffP (pre : list seg) (i : inst seg) : list (list seg) := flat_flows pre i.
Definition rowsS (i : inst seg) : list (list (str * Z)) := model_rows i.

Lemma fcS_unfold pre d subs cl :
  fcS pre (Inst d subs cl) =
  flat_map (fun ns : seg * inst seg => fcS (pre ++ [ns.1]) ns.2) subs ++ map (flat_clause pre) cl.
Proof.
  unfold fcS. simpl. f_equal. induction subs as [|[n s] subs IH]; [done|]. simpl. by rewrite IH.
Qed.
Lemma fcP_unfold pre d subs cl :
  fcP pre (Inst d subs cl) =
  flat_map (fun ns : seg * inst seg => fcP (pre ++ [ns.1]) ns.2) subs ++ map (flat_clause pre) cl.
Proof.
  unfold fcP. simpl. f_equal. induction subs as [|[n s] subs IH]; [done|]. simpl. by rewrite IH.
Qed.
Lemma ffS_unfold pre d subs cl :
  ffS pre (Inst d subs cl) =
  flat_map (flows_of pre) d ++ flat_map (fun ns : seg * inst seg => ffS (pre ++ [ns.1]) ns.2) subs.
Proof.
  unfold ffS. simpl. f_equal. induction subs as [|[n s] subs IH]; [done|]. simpl. by rewrite IH.
Qed.
Lemma ffP_unfold pre d subs cl :
  ffP pre (Inst d subs cl) =
  flat_map (flows_of pre) d ++ flat_map (fun ns : seg * inst seg => ffP (pre ++ [ns.1]) ns.2) subs.
Proof.
  unfold ffP. simpl. f_equal. induction subs as [|[n s] subs IH]; [done|]. simpl. by rewrite IH.
Qed.

Lemma name_ok_snoc' pre x : path_ok dot pre → seg_ok dot x → name_ok (pre ++ [x]).
Proof.
  intros Hp Hx. split; [by destruct pre|]. apply Forall_app. split; [done|by constructor].
Qed.

Lemma flat_ref_ren pre (r : cref seg) :
  path_ok dot pre → cref_ok r →
  (flat_ref pre r : str * bool) = keyS (flat_ref pre r) ∧ name_ok (flat_ref pre r : list seg * bool).1.
Proof.
  intros Hp Hr. destruct r as [[c|] x]; simpl in *.
  - destruct Hr as [Hc Hx]. split; [done|].
    replace (pre ++ [c; x]) with ((pre ++ [c]) ++ [x]) by by rewrite <- app_assoc.
    apply name_ok_snoc; [by apply name_ok_snoc'|done].
  - split; [done|]. by apply name_ok_snoc'.
Qed.

Lemma flat_clause_ren pre (c : clause seg) :
  path_ok dot pre → cref_ok (c_l c) → cref_ok (c_r c) → vars_ok (c_vars c) →
  (flat_clause pre c : fclauseS) = renC (flat_clause pre c) ∧ clause_ok (flat_clause pre c).
Proof.
  intros Hp Hl Hr Hv.
  destruct (flat_ref_ren pre (c_l c) Hp Hl) as [El Hl'].
  destruct (flat_ref_ren pre (c_r c) Hp Hr) as [Er Hr'].
  split.
  - unfold flat_clause, renC. simpl. rewrite El, Er. done.
  - unfold clause_ok, flat_clause. simpl. done.
Qed.

Lemma omap_cons' {A B : Type} (f : A → option B) x l :
  omap f (x :: l) = match f x with Some y => y :: omap f l | None => omap f l end.
Proof. reflexivity. Qed.

Lemma omap_ren {A B C : Type} (fS : A → option C) (fP : A → option B) (g : B → C) (l : list A) :
  Forall (fun v => fS v = g <$> fP v) l → omap fS l = map g (omap fP l).
Proof.
  induction 1 as [|x l Hx _ IH]; [done|]. rewrite !omap_cons', Hx. destruct (fP x) as [b|].
  - change (g <$> Some b) with (Some (g b)). rewrite IH. reflexivity.
  - change (g <$> None) with (@None C). exact IH.
Qed.

Lemma omap_Forall {A B : Type} (Q : B → Prop) (fP : A → option B) (l : list A) :
  Forall (fun v => ∀ y, fP v = Some y → Q y) l → Forall Q (omap fP l).
Proof.
  induction 1 as [|x l Hx _ IH]; [constructor|]. rewrite omap_cons'. destruct (fP x) eqn:E; [|done].
  constructor; [by apply Hx|done].
Qed.

Lemma flows_of_ren pre (d : seg * list (seg * kind)) :
  path_ok dot pre → seg_ok dot d.1 → vars_ok d.2 →
  (flows_of pre d : list str) = map sjoin (flows_of pre d) ∧ Forall name_ok (flows_of pre d : list (list seg)).
Proof.
  intros Hp Hd Hv. destruct d as [n vs]. unfold flows_of.
  assert (Hn : name_ok (pre ++ [n])) by by apply name_ok_snoc'.
  split.
  - apply omap_ren. eapply Forall_impl; [exact Hv|]. intros [x k] Hx. simpl in *.
    destruct (decide (k = KFlow)); [|done].
    change (Some (sjoin (pre ++ [n]) ++ dot :: x) = Some (sjoin ((pre ++ [n]) ++ [x]))).
    f_equal. symmetry. by apply sjoin_snoc.
  - apply omap_Forall. eapply Forall_impl; [exact Hv|]. intros [x k] Hx y. simpl in *.
    destruct (decide (k = KFlow)); [|done]. intros [= <-]. by apply name_ok_snoc.
Qed.

Definition flat_commutes_stmt (i : inst seg) : Prop :=
  ∀ pre, path_ok dot pre → inst_ok i →
    fcS pre i = map renC (fcP pre i) ∧ Forall clause_ok (fcP pre i) ∧
    ffS pre i = map sjoin (ffP pre i) ∧ Forall name_ok (ffP pre i).

Lemma flat_commutes i : flat_commutes_stmt i.
Proof.
  induction i as [decl subs cl IHs] using inst_ind'.
  intros pre Hpre (Hd & Hc & Hs).
  rewrite fcS_unfold, fcP_unfold, ffS_unfold, ffP_unfold.
  (* sub-components *)
  assert (Hsub :
    flat_map (fun ns : seg * inst seg => fcS (pre ++ [ns.1]) ns.2) subs
      = map renC (flat_map (fun ns : seg * inst seg => fcP (pre ++ [ns.1]) ns.2) subs) ∧
    Forall clause_ok (flat_map (fun ns : seg * inst seg => fcP (pre ++ [ns.1]) ns.2) subs) ∧
    flat_map (fun ns : seg * inst seg => ffS (pre ++ [ns.1]) ns.2) subs
      = map sjoin (flat_map (fun ns : seg * inst seg => ffP (pre ++ [ns.1]) ns.2) subs) ∧
    Forall name_ok (flat_map (fun ns : seg * inst seg => ffP (pre ++ [ns.1]) ns.2) subs)).
  { clear Hd Hc. induction IHs as [|[n s] subs IHn _ IH]; [base|].
    destruct Hs as (Hn & Hsok & Hs). simpl in *.
    destruct (IHn (pre ++ [n])) as (E1 & F1 & E2 & F2); [|done|].
    { apply Forall_app. split; [done|by constructor]. }
    destruct (IH Hs) as (E1' & F1' & E2' & F2').
    rewrite E1, E1', E2, E2', !map_app. repeat split; try done; by apply Forall_app. }
  destruct Hsub as (E1 & F1 & E2 & F2).
  (* own clauses *)
  assert (Hown : map (flat_clause pre) cl = (map renC (map (flat_clause pre) cl) : list fclauseS) ∧
                 Forall clause_ok (map (flat_clause pre) cl : list fclauseP)).
  { clear -Hc Hpre. induction Hc as [|c cl (Hl & Hr & Hv) _ [IH1 IH2]]; [base|]. simpl.
    destruct (flat_clause_ren pre c Hpre Hl Hr Hv) as [E F]. rewrite E, IH1. split; [done|by constructor]. }
  destruct Hown as [E3 F3].
  (* own connectors *)
  assert (Hdecl : flat_map (flows_of pre) decl = (map sjoin (flat_map (flows_of pre) decl) : list str) ∧
                  Forall name_ok (flat_map (flows_of pre) decl : list (list seg))).
  { clear -Hd Hpre. induction Hd as [|d decl [Hn Hv] _ [IH1 IH2]]; [base|]. simpl.
    destruct (flows_of_ren pre d Hpre Hn Hv) as [E F]. rewrite E, IH1, map_app. split; [done|].
    by apply Forall_app. }
  destruct Hdecl as [E4 F4].
  rewrite E1, E3, E2, E4, !map_app. repeat split; try done; by apply Forall_app.
Qed.

(* end to end at string level: for an instance tree whose identifiers are non-empty and dot free,
   the rows produced when names are dot-joined strings compared as strings have exactly the
   solutions of the connection semantics over the structured names *)
Theorem string_model_rows_correct (i : inst seg) (ρ : str → Qc) :
  inst_ok i →
  sat ρ (rowsS i) ↔
  pot_spec (pot_pairs (fcP [] i)) (ρ ∘ sjoin) ∧ flow_spec (ffP [] i) (flow_pairs (fcP [] i)) (ρ ∘ sjoin).
Proof.
  intros Hi. destruct (flat_commutes i [] ltac:(constructor) Hi) as (E1 & F1 & E2 & F2).
  unfold rowsS, model_rows. fold (fcS [] i). fold (ffS [] i). rewrite E1, E2.
  by apply string_level_correct.
Qed.

(* boolean form of seg_ok, for concrete examples and for the harness *)
Definition seg_okb (s : list ascii) : bool :=
  negb (bool_decide (s = [])) && negb (bool_decide (dot ∈ s)).
Lemma seg_okb_ok s : seg_okb s = true → seg_ok dot s.
Proof.
  unfold seg_okb. intros [H1 H2]%andb_true_iff. apply negb_true_iff in H1, H2.
  apply bool_decide_eq_false in H1, H2. done.
Qed.
