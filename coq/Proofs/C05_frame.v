(* C05 — proofs about Model/C05_frame.v. *)
From Coq Require Import List Arith Bool Lia.
From PV Require Import Lib.ObjGraph Model.C06_deepcopy Proofs.C06_deepcopy Model.C05_frame.
Import ListNotations.

Lemma nth_set_nth_same {A} (x : A) : forall l i, i < length l -> nth_error (set_nth i x l) i = Some x.
Proof.
  induction l as [|y l IH]; intros [|i] H; simpl in *; try lia; auto. apply IH. lia.
Qed.

Section Frame.
  Variable R : Type.
  (* what flattening class p yields (flat class in string form, or the exception class), as a
     function of the parsed tree *)
  Variable res : tree -> path -> R.
  (* the exact writes that reach the parsed tree even with copy-on-lookup *)
  Variable neutral : tree -> tree -> Prop.
  Hypothesis neutral_trans : forall a b c, neutral a b -> neutral b c -> neutral a c.
  (* PREMISE (validated by the sequence oracle, not proved): those writes do not change any result *)
  Hypothesis res_neutral : forall t t' p, neutral t t' -> res t' p = res t p.

  (* one request: the result is a function of the parsed tree as it is NOW; afterwards the
     world has changed within the footprint of the looked-up class, plus neutral writes to tree 0 *)
  Definition fstep (cp : bool) (w : world) (p : path) (w' : world) (r : R) : Prop :=
    exists t0, nth_error w 0 = Some t0 /\ r = res t0 p /\
      match lookup cp w p with
      | None => w' = w
      | Some (w1, a) => exists w2 t2 t0',
          footprint w1 a w2 /\ nth_error w2 0 = Some t2 /\ neutral t2 t0' /\ w' = set_nth 0 t0' w2
      end.

  Inductive fseq (cp : bool) : world -> list path -> world -> list R -> Prop :=
  | fseq_nil w : fseq cp w [] w []
  | fseq_cons w p w1 r ps w2 rs :
      fstep cp w p w1 r -> fseq cp w1 ps w2 rs -> fseq cp w (p :: ps) w2 (r :: rs).

  Lemma lookup_true_shape w p w1 a :
    lookup true w p = Some (w1, a) -> (exists c, w1 = w ++ [c]) /\ a = (length w, []).
  Proof.
    unfold lookup. destruct (get w (0, p)); [|discriminate].
    destruct (deepcopy fixed_flags w (0, p)) as [w'|] eqn:E; [|discriminate].
    intros H. injection H as <- <-. split; auto. eapply deepcopy_frame; eauto.
  Qed.

  (* frame: with copy-on-lookup a request leaves the parsed tree as it was, up to neutral writes *)
  Lemma frame w p w' r t0 :
    nth_error w 0 = Some t0 -> neutral t0 t0 -> fstep true w p w' r ->
    r = res t0 p /\ exists t0', nth_error w' 0 = Some t0' /\ neutral t0 t0'.
  Proof.
    intros Ht Hrefl (t & Ht' & Hr & H). rewrite Ht in Ht'. injection Ht' as <-.
    split; auto.
    destruct (lookup true w p) as [[w1 a]|] eqn:L.
    - destruct (lookup_true_shape _ _ _ _ L) as ((c & ->) & ->).
      destruct H as (w2 & t2 & t0' & (Hlen & Hfp) & Ht2 & Hn & ->).
      assert (Hl : 0 < length w) by (apply nth_error_Some; congruence).
      assert (H0 : nth_error (w ++ [c]) 0 = Some t0) by (rewrite nth_error_app1; auto).
      destruct (Hfp _ _ H0) as (t2' & Ht2' & Hsame & _).
      rewrite Ht2 in Ht2'. injection Ht2' as <-.
      cbn [fst] in Hsame. rewrite Hsame in Hn by lia.
      exists t0'. split; auto. apply nth_set_nth_same.
      rewrite app_length in Hlen. cbn in Hlen. lia.
    - subst w'. exists t0. auto.
  Qed.

  (* sequences: every request of any sequence gives what it gives on the initial parsed tree *)
  Lemma sequences_gen : forall ps w w' rs, fseq true w ps w' rs ->
    forall t0 t, (forall x, neutral x x) -> nth_error w 0 = Some t -> neutral t0 t -> rs = map (res t0) ps.
  Proof.
    induction 1 as [w|w p w1 r ps w2 rs Hstep Hseq IH]; intros t0 t Hrefl Ht Hn; [reflexivity|].
    destruct (frame _ _ _ _ _ Ht (Hrefl t) Hstep) as (-> & t' & Ht' & Hn').
    cbn [map]. f_equal.
    - apply res_neutral. exact Hn.
    - eapply IH; eauto.
  Qed.
End Frame.

(* ---- without copy-on-lookup (tree.py before bc8343b) the property fails --------------------- *)
Definition ex5_tree : tree :=
  [ ([], Info (CD [] 0) None None); ([1], Info (CD [4] 1) (Some (0, [])) None) ].
Definition ex5_tree' : tree :=
  [ ([], Info (CD [] 0) None None); ([1], Info (CD [] 1) (Some (0, [])) None) ].
Definition ex5_res (t : tree) (p : path) : option cdata := option_map dat (assoc p t).

Lemma ex5_footprint : footprint [ex5_tree] (0, [1]) [ex5_tree'].
Proof.
  split; [cbn; lia|]. intros [|ti] t1 H; [|destruct ti; discriminate H].
  injection H as <-. exists ex5_tree'. split; [reflexivity|]. split; [intros N; exfalso; apply N; reflexivity|].
  intros q Hq. cbn [snd] in Hq. unfold ex5_tree, ex5_tree'. cbn [assoc].
  match goal with |- context [path_dec ?a ?b] => destruct (path_dec a b) as [E0|E0] end; [reflexivity|].
  match goal with |- context [path_dec ?a ?b] => destruct (path_dec a b) as [E1|E1] end; [|reflexivity].
  rewrite E1 in Hq. discriminate Hq.
Qed.

Lemma refuted_no_copy :
  exists w w1 w2 p r1 r2,
    fseq (option cdata) ex5_res eq false w [p; p] w2 [r1; r2] /\
    fstep (option cdata) ex5_res eq false w p w1 r1 /\ r1 <> r2.
Proof.
  exists [ex5_tree], [ex5_tree'], [ex5_tree'], [1], (Some (CD [4] 1)), (Some (CD [] 1)).
  assert (S1 : fstep (option cdata) ex5_res eq false [ex5_tree] [1] [ex5_tree'] (Some (CD [4] 1))).
  { exists ex5_tree. split; [reflexivity|]. split; [reflexivity|].
    change (lookup false [ex5_tree] [1]) with (Some ([ex5_tree], (0, [1]))).
    exists [ex5_tree'], ex5_tree', ex5_tree'. split; [apply ex5_footprint|repeat split; reflexivity]. }
  assert (S2 : fstep (option cdata) ex5_res eq false [ex5_tree'] [1] [ex5_tree'] (Some (CD [] 1))).
  { exists ex5_tree'. split; [reflexivity|]. split; [reflexivity|].
    change (lookup false [ex5_tree'] [1]) with (Some ([ex5_tree'], (0, [1]))).
    exists [ex5_tree'], ex5_tree', ex5_tree'. split; [|repeat split; reflexivity].
    split; [apply le_n|]. intros ti t1 H. exists t1. repeat split; auto. }
  split; [|split; [exact S1|intros H; discriminate H]].
  eapply fseq_cons; [exact S1|]. eapply fseq_cons; [exact S2|]. apply fseq_nil.
Qed.

(* a request on a real class with copy-on-lookup: the copy exists and is the detached subtree *)
Lemma lookup_copy_shape w p i0 rest :
  wf_at w (0, p) i0 rest -> get w (0, p) <> None ->
  lookup true w p = Some (w ++ [spec_copy (length w) i0 rest], (length w, [])).
Proof.
  intros H G. unfold lookup. destruct (get w (0, p)); [|congruence].
  rewrite (deepcopy_spec _ _ _ _ H). reflexivity.
Qed.
