(* C05 — proofs about Model/C05_frame.v. *)
From Coq Require Import List Arith Bool Lia.
From PV Require Import Lib.ObjGraph Model.C06_deepcopy Proofs.C06_deepcopy Proofs.C06_reach Model.C05_frame.
Import ListNotations.

(* ---------- the three exact writes change no observation ---------- *)
Definition memo_sound (t : tree) (xm : xmap) : Prop :=
  forall p k q, kassoc k (memo (xget xm p)) = Some q -> star_search t (stars (xget xm p)) k None = Some q.

Lemma star_search_exists t : forall pkgs k acc q,
  star_search t pkgs k acc = Some q -> acc = Some q \/ exists_cls t q = true.
Proof.
  induction pkgs as [|pk pkgs IH]; cbn [star_search]; intros k acc q H; [left; exact H|].
  apply IH in H. destruct H as [H|H]; [|right; exact H].
  destruct (exists_cls t (pk ++ [k])) eqn:E; [|left; exact H].
  injection H as <-. right. exact E.
Qed.

(* the search without any memo *)
Fixpoint find0 (sd : bool) (t : tree) (st : path -> list path) (rp : list key) (k : key) (ks : list key) : option path :=
  let p := rev rp in
  if exists_cls t (p ++ k :: ks) then Some (p ++ k :: ks)
  else
    let up := match rp with [] => None | _ :: rp' => find0 sd t st rp' k ks end in
    match star_search t (st p) k None with
    | Some q => if sd then (if exists_cls t (q ++ ks) then Some (q ++ ks) else up) else Some q
    | None => up
    end.

(* the memo only caches what the un-memoised search returns (induction on the climb): for every name
   when the unqualified-import stage descends (sd = true), and for simple names in any case *)
Lemma find_memo_eq sd t xm ks : memo_sound t xm -> sd = true \/ ks = [] ->
  forall rp k, find sd t xm rp k ks = find0 sd t (fun p => stars (xget xm p)) rp k ks.
Proof.
  intros Hs Hc.
  assert (Hstage : forall p k up, 
    match kassoc k (memo (xget xm p)) with
    | Some q => if exists_cls t (q ++ ks) then Some (q ++ ks) else up
    | None => match star_search t (stars (xget xm p)) k None with
              | Some q => if sd then (if exists_cls t (q ++ ks) then Some (q ++ ks) else up) else Some q
              | None => up end
    end =
    match star_search t (stars (xget xm p)) k None with
    | Some q => if sd then (if exists_cls t (q ++ ks) then Some (q ++ ks) else up) else Some q
    | None => up end).
  { intros p k up. destruct (kassoc k (memo (xget xm p))) as [q|] eqn:M; [|reflexivity].
    pose proof (Hs _ _ _ M) as S. rewrite S. destruct Hc as [->| ->]; [reflexivity|].
    destruct sd; [reflexivity|]. rewrite app_nil_r.
    destruct (star_search_exists _ _ _ _ _ S) as [E|E]; [discriminate|]. rewrite E. reflexivity. }
  induction rp as [|x rp IH]; intros k; cbn [find find0].
  - destruct (exists_cls t (rev [] ++ k :: ks)); [reflexivity|]. apply Hstage.
  - destruct (exists_cls t (rev (x :: rp) ++ k :: ks)); [reflexivity|]. rewrite IH. apply Hstage.
Qed.

Lemma find0_ext sd t st1 st2 : (forall p, st1 p = st2 p) -> forall rp k ks, find0 sd t st1 rp k ks = find0 sd t st2 rp k ks.
Proof.
  intros H. induction rp as [|x rp IH]; intros k ks; cbn [find0]; rewrite H; [reflexivity|].
  rewrite IH. reflexivity.
Qed.

Lemma xget_xset_same xm p e : xget (xset xm p e) p = e.
Proof. unfold xget, xset. cbn [assoc]. destruct (path_dec p p) as [_|N]; [reflexivity|exfalso; apply N; reflexivity]. Qed.

Lemma xget_xset_other xm p q e : q <> p -> xget (xset xm p e) q = xget xm q.
Proof. intros N. unfold xget, xset. cbn [assoc]. destruct (path_dec q p) as [E|_]; [exfalso; auto|reflexivity]. Qed.

Lemma nstep_obs t xm xm' : nstep t xm xm' -> memo_sound t xm ->
  memo_sound t xm' /\ (forall p, stars (xget xm' p) = stars (xget xm p)) /\
  (forall p s, const_eff xm' p s = const_eff xm p s).
Proof.
  intros H Hs. destruct H as [xm p k q S|xm p s c nm C|xm p].
  - split; [|split].
    + intros p' k' q' M. destruct (path_dec p' p) as [->|N].
      * rewrite xget_xset_same in *. cbn [memo stars kassoc] in *.
        destruct (Nat.eqb k' k) eqn:E; [apply Nat.eqb_eq in E; subst; injection M as <-; exact S|auto].
      * rewrite xget_xset_other in * by auto. auto.
    + intros p'. destruct (path_dec p' p) as [->|N]; [rewrite xget_xset_same|rewrite xget_xset_other by auto]; reflexivity.
    + intros p' s. unfold const_eff. destruct (path_dec p' p) as [->|N];
        [rewrite xget_xset_same|rewrite xget_xset_other by auto]; reflexivity.
  - split; [|split].
    + intros p' k' q' M. destruct (path_dec p' p) as [->|N].
      * rewrite xget_xset_same in *. cbn [memo stars] in *. auto.
      * rewrite xget_xset_other in * by auto. auto.
    + intros p'. destruct (path_dec p' p) as [->|N]; [rewrite xget_xset_same|rewrite xget_xset_other by auto]; reflexivity.
    + intros p' s'. unfold const_eff. destruct (path_dec p' p) as [->|N]; [|rewrite xget_xset_other by auto; reflexivity].
      rewrite xget_xset_same. cbn [consts kassoc].
      destruct (Nat.eqb s' s) eqn:E; [|reflexivity].
      apply Nat.eqb_eq in E. subst s'. rewrite C. reflexivity.
  - split; [|split].
    + intros p' k' q' M. destruct (path_dec p' p) as [->|N].
      * rewrite xget_xset_same in *. cbn [memo stars] in *. auto.
      * rewrite xget_xset_other in * by auto. auto.
    + intros p'. destruct (path_dec p' p) as [->|N]; [rewrite xget_xset_same|rewrite xget_xset_other by auto]; reflexivity.
    + intros p' s. unfold const_eff. destruct (path_dec p' p) as [->|N];
        [rewrite xget_xset_same|rewrite xget_xset_other by auto]; reflexivity.
Qed.

Lemma nstar_obs t xm xm' : nstar t xm xm' -> memo_sound t xm ->
  memo_sound t xm' /\ (forall p, stars (xget xm' p) = stars (xget xm p)) /\
  (forall p s, const_eff xm' p s = const_eff xm p s).
Proof.
  induction 1 as [xm|xm1 xm2 xm3 H1 H2 IH]; intros Hs; [auto|].
  destruct (nstep_obs _ _ _ H1 Hs) as (Hs2 & St2 & C2).
  destruct (IH Hs2) as (Hs3 & St3 & C3). split; [exact Hs3|]. split.
  - intros p. rewrite St3. apply St2.
  - intros p s. rewrite C3. apply C2.
Qed.

Lemma nstar_trans t a b c : nstar t a b -> nstar t b c -> nstar t a c.
Proof. induction 1; auto. intros. econstructor; eauto. Qed.

(* the programs covered: every lookup when sd = true; only simple-name lookups when sd = false *)
Inductive okprog {R} (sd : bool) : prog R -> Prop :=
| ok_ret r : okprog sd (Ret r)
| ok_find rp k ks c : sd = true \/ ks = [] -> (forall x, okprog sd (c x)) -> okprog sd (AskFind rp k ks c)
| ok_const p s c : (forall x, okprog sd (c x)) -> okprog sd (AskConst p s c)
| ok_data p c : (forall x, okprog sd (c x)) -> okprog sd (AskData p c).

Lemma okprog_true {R} : forall pr : prog R, okprog true pr.
Proof. induction pr; constructor; auto. Qed.

(* formerly the premise res_neutral: no request can tell the difference *)
Lemma exec_neutral {R} sd t xm xm' : memo_sound t xm -> nstar t xm xm' ->
  forall pr : prog R, okprog sd pr -> exec sd pr t xm' = exec sd pr t xm.
Proof.
  intros Hs Hn. destruct (nstar_obs _ _ _ Hn Hs) as (Hs' & St & Ce).
  induction 1 as [r|rp k ks c Hc Hk IH|p s c Hk IH|p c Hk IH]; cbn [exec]; auto.
  - rewrite IH. f_equal. f_equal.
    rewrite (find_memo_eq _ _ _ _ Hs' Hc), (find_memo_eq _ _ _ _ Hs Hc). apply find0_ext. exact St.
  - rewrite IH, Ce. reflexivity.
Qed.

(* with sd = false the memo IS visible to dotted lookups (the defect repaired by C05_import_dotted.diff) *)
Definition exd_tree : tree :=
  [ ([], Info (CD [] 0) None None); ([1], Info (CD [] 0) (Some (0, [])) None);
    ([1; 2], Info (CD [] 0) (Some (0, [1])) None); ([1; 2; 3], Info (CD [] 0) (Some (0, [1; 2])) None);
    ([5], Info (CD [] 0) (Some (0, [])) None) ].
Definition exd_xm0 : xmap := [ ([5], Ext [[1]] [] [] false) ].
Definition exd_xm1 : xmap := xset exd_xm0 [5] (Ext [[1]] [(2, [1; 2])] [] false).
Lemma dotted_refuted :
  memo_sound exd_tree exd_xm0 /\ nstar exd_tree exd_xm0 exd_xm1 /\
  find false exd_tree exd_xm0 [5] 2 [3] = Some [1; 2] /\
  find false exd_tree exd_xm1 [5] 2 [3] = Some [1; 2; 3] /\
  find true exd_tree exd_xm0 [5] 2 [3] = Some [1; 2; 3] /\
  find true exd_tree exd_xm1 [5] 2 [3] = Some [1; 2; 3].
Proof.
  split.
  { intros p k q M. unfold xget, exd_xm0 in M. cbn [assoc] in M.
    destruct (path_dec p [5]); discriminate M. }
  split.
  { eapply nstar_step; [exact (NS_memo exd_tree exd_xm0 [5] 2 [1; 2] eq_refl)|apply nstar_refl]. }
  repeat split; vm_compute; reflexivity.
Qed.

Section Frame.
  Variable R : Type.
  (* the program flatten/generate runs for class p: ARBITRARY (no hypothesis) *)
  Variable prog_of : path -> prog R.
  (* the unqualified-import stage as coded (read from ast.py on every run) *)
  Variable sd : bool.
  Hypothesis prog_ok : forall p, okprog sd (prog_of p).   (* vacuous when sd = true: okprog_true *)

  Definition state : Type := world * xmap.

  (* one request on the state (live trees, neutral fields of the parsed tree) *)
  Definition fstep (cp : bool) (st : state) (p : path) (st' : state) (r : R) : Prop :=
    exists t0, nth_error (fst st) 0 = Some t0 /\ r = exec sd (prog_of p) t0 (snd st) /\
      nstar t0 (snd st) (snd st') /\
      match lookup cp (fst st) p with
      | None => fst st' = fst st
      | Some (w1, a) => footprint w1 a (fst st')
      end.

  Inductive fseq (cp : bool) : state -> list path -> state -> list R -> Prop :=
  | fseq_nil st : fseq cp st [] st []
  | fseq_cons st p st1 r ps st2 rs :
      fstep cp st p st1 r -> fseq cp st1 ps st2 rs -> fseq cp st (p :: ps) st2 (r :: rs).

  Lemma lookup_true_shape w p w1 a :
    lookup true w p = Some (w1, a) -> (exists c, w1 = w ++ [c]) /\ a = (length w, []).
  Proof.
    unfold lookup. destruct (get w (0, p)); [|discriminate].
    destruct (deepcopy fixed_flags w (0, p)) as [w'|] eqn:E; [|discriminate].
    intros H. injection H as <- <-. split; auto. eapply deepcopy_frame; eauto.
  Qed.

  (* frame: with copy-on-lookup a request leaves the parsed tree EXACTLY as it was; only the
     neutral fields move, by the three exact writes *)
  Lemma frame st p st' r t0 :
    nth_error (fst st) 0 = Some t0 -> fstep true st p st' r ->
    r = exec sd (prog_of p) t0 (snd st) /\ nth_error (fst st') 0 = Some t0 /\ nstar t0 (snd st) (snd st').
  Proof.
    destruct st as [w xm], st' as [w' xm']. unfold fstep. cbn [fst snd].
    intros Ht (t & Ht' & Hr & Hn & H). pose proof (eq_trans (eq_sym Ht') Ht) as Et. injection Et as ->.
    split; auto. split; auto.
    destruct (lookup true w p) as [[w1 a]|] eqn:L.
    - destruct (lookup_true_shape _ _ _ _ L) as ((c & ->) & ->).
      unfold footprint in H. destruct H as (Hlen & Hfp).
      assert (Hl : 0 < length w) by (apply nth_error_Some; congruence).
      assert (H0 : nth_error (w ++ [c]) 0 = Some t0) by (rewrite nth_error_app1; auto).
      destruct (Hfp _ _ H0) as (t2' & Ht2' & Hsame & _).
      cbn [fst] in Hsame. rewrite Hsame in Ht2' by lia. exact Ht2'.
    - rewrite H. exact Ht.
  Qed.

  (* sequences: every request of any sequence gives what it gives on the initial state *)
  Lemma sequences_gen : forall ps st st' rs, fseq true st ps st' rs ->
    forall t0 xm0, nth_error (fst st) 0 = Some t0 -> memo_sound t0 xm0 -> nstar t0 xm0 (snd st) ->
    rs = map (fun p => exec sd (prog_of p) t0 xm0) ps.
  Proof.
    induction 1 as [st|st p st1 r ps st2 rs Hstep Hseq IH]; intros t0 xm0 Ht Hs Hn; [reflexivity|].
    destruct (frame _ _ _ _ _ Ht Hstep) as (-> & Ht' & Hn').
    cbn [map]. f_equal.
    - apply exec_neutral; auto.
    - eapply IH; eauto. eapply nstar_trans; eauto.
  Qed.
End Frame.

(* ---- without copy-on-lookup (tree.py before bc8343b) the property fails --------------------- *)
Definition ex5_tree : tree :=
  [ ([], Info (CD [] 0) None None); ([1], Info (CD [4] 1) (Some (0, [])) None) ].
Definition ex5_tree' : tree :=
  [ ([], Info (CD [] 0) None None); ([1], Info (CD [] 1) (Some (0, [])) None) ].
Definition ex5_prog (p : path) : prog (option cdata) := AskData p Ret.

Lemma ex5_footprint : footprint [ex5_tree] (0, [1]) [ex5_tree'].
Proof.
  split; [cbn; lia|]. intros [|ti] t1 H; [|destruct ti; discriminate H].
  injection H as <-. exists ex5_tree'. split; [reflexivity|]. split; [intros N; exfalso; apply N; reflexivity|].
  intros q Hq. cbn [snd] in Hq. unfold ex5_tree, ex5_tree'. cbn [assoc].
  match goal with |- context [path_dec ?a ?b] => destruct (path_dec a b) as [E0|E0] end; [reflexivity|].
  match goal with |- context [path_dec ?a ?b] => destruct (path_dec a b) as [E1|E1] end; [|reflexivity].
  rewrite E1 in Hq. discriminate Hq.
Qed.

Lemma refuted_no_copy :
  exists st st1 st2 p r1 r2,
    fseq (option cdata) ex5_prog true false st [p; p] st2 [r1; r2] /\
    fstep (option cdata) ex5_prog true false st p st1 r1 /\ r1 <> r2.
Proof.
  exists ([ex5_tree], []), ([ex5_tree'], []), ([ex5_tree'], []), [1], (Some (CD [4] 1)), (Some (CD [] 1)).
  assert (S1 : fstep (option cdata) ex5_prog true false ([ex5_tree], []) [1] ([ex5_tree'], []) (Some (CD [4] 1))).
  { exists ex5_tree. split; [reflexivity|]. split; [reflexivity|]. split; [apply nstar_refl|].
    change (lookup false (fst ([ex5_tree], @nil (path * ext))) [1]) with (Some ([ex5_tree], (0, [1]))).
    apply ex5_footprint. }
  assert (S2 : fstep (option cdata) ex5_prog true false ([ex5_tree'], []) [1] ([ex5_tree'], []) (Some (CD [] 1))).
  { exists ex5_tree'. split; [reflexivity|]. split; [reflexivity|]. split; [apply nstar_refl|].
    change (lookup false (fst ([ex5_tree'], @nil (path * ext))) [1]) with (Some ([ex5_tree'], (0, [1]))).
    split; [apply le_n|]. intros ti t1 H. exists t1. repeat split; auto. }
  split; [|split; [exact S1|intros H; discriminate H]].
  eapply fseq_cons; [exact S1|]. eapply fseq_cons; [exact S2|]. apply fseq_nil.
Qed.

(* a request on a real class with copy-on-lookup: the copy exists and is the detached subtree *)
Lemma lookup_copy_shape w p i0 rest :
  wf_at w (0, p) i0 rest -> get w (0, p) <> None ->
  lookup true w p = Some (w ++ [spec_copy (length w) i0 rest], (length w, [])).
Proof.
  intros H G. unfold lookup. destruct (get w (0, p)); [|congruence].
  rewrite (deepcopy_spec _ _ _ _ H). reflexivity.
Qed.

(* a fresh parse has empty memos *)
Lemma fresh_sound t xm : (forall p, memo (xget xm p) = []) -> memo_sound t xm.
Proof. intros H p k q M. rewrite H in M. discriminate M. Qed.
