(* C03 — the table-driven ANTLR-style parser (Model/C03_prec.v) reads back what the specification
   printer (Lib/C03_spec.v) prints, up to the `resign` normal form (theorems `roundtrip`,
   `roundtrip_fuel`; calls, if/elseif, the standard listener table; no side condition besides `wf`). *)
From Coq Require Import List Arith Lia Bool.
From PV Require Import Model.C03_prec Lib.C03_spec.
Import ListNotations.
Local Open Scope nat_scope.

Definition blabel (s : sym) : label :=
  match s with
  | SMul | SDiv | SEMul | SEDiv => LMul
  | SPlus | SMinus | SEPlus | SEMinus => LAdd
  | SLt | SLe | SGt | SGe | SEq | SNe => LRel
  | SAnd => LAnd | SOr => LOr
  | _ => LPrimary
  end.
Definition pbin_spec (s : sym) : option (nat * label) :=
  if is_binop s && negb (is_pow s) then Some (blev s, blabel s) else None.
Definition ppre_spec (s : sym) : option (nat * label) :=
  match s with SNot => Some (4, LNot) | SPlus | SMinus => Some (9, LSigned) | _ => None end.
Definition ppow_spec (s : sym) : option label := if is_pow s then Some LExp else None.

Lemma pbin_g4 s : pbin g4 s = pbin_spec s.
Proof. destruct s; reflexivity. Qed.
Lemma ppre_g4 s : ppre g4 s = ppre_spec s.
Proof. destruct s; reflexivity. Qed.
Lemma ppow_g4 s : ppow g4 s = ppow_spec s.
Proof. destruct s; reflexivity. Qed.

Lemma label_eqb_eq a b : label_eqb a b = true -> a = b.
Proof. destruct a, b; cbn; try discriminate; reflexivity. Qed.
Lemma opt_nl_eqb_eq a b : opt_nl_eqb a b = true -> a = b.
Proof.
  destruct a as [[x l]|], b as [[y m]|]; cbn; try discriminate; auto.
  intros H. apply andb_true_iff in H. destruct H as [H1 H2].
  apply Nat.eqb_eq in H1. apply label_eqb_eq in H2. congruence.
Qed.
Lemma opt_l_eqb_eq a b : opt_l_eqb a b = true -> a = b.
Proof.
  destruct a as [l|], b as [m|]; cbn; try discriminate; auto.
  intros H. apply label_eqb_eq in H. congruence.
Qed.

(* the standard listener table builds the plain nodes *)
Lemma rev_std l : rev_of std_lt l = false.
Proof. destruct l; reflexivity. Qed.
Lemma build_bin_std l s a b : op_of std_lt l s = s -> build_bin std_lt l s a b = Bin s a b.
Proof. intros H. unfold build_bin. rewrite rev_std, H. reflexivity. Qed.
Lemma build_un_std l s e : op_of std_lt l s = s -> build_un std_lt l s e = Un s e.
Proof. intros H. unfold build_un. rewrite H. reflexivity. Qed.

Definition ext (f g : mode -> list tok -> R) : Prop :=
  forall m ts r, f m ts = Some r -> g m ts = Some r.

Section Proof.
  Variable t : table.
  Hypothesis Htab : tab_ok t = true.

  (* ---- STEP 0: table facts ---- *)
  Lemma tab_facts s : ppre t s = ppre g4 s /\ pbin t s = pbin g4 s /\ ppow t s = ppow g4 s.
  Proof.
    pose proof Htab as H. unfold tab_ok in H. rewrite forallb_forall in H.
    assert (I0 : In s all_syms) by (destruct s; cbn; tauto).
    apply H in I0. rewrite !andb_true_iff in I0. destruct I0 as [[A B] C].
    apply opt_nl_eqb_eq in A. apply opt_nl_eqb_eq in B. apply opt_l_eqb_eq in C. auto.
  Qed.
  Lemma pbin_t s : pbin t s = pbin_spec s.
  Proof. rewrite <- pbin_g4. apply tab_facts. Qed.
  Lemma ppre_t s : ppre t s = ppre_spec s.
  Proof. rewrite <- ppre_g4. apply tab_facts. Qed.
  Lemma ppow_t s : ppow t s = ppow_spec s.
  Proof. rewrite <- ppow_g4. apply tab_facts. Qed.
  Lemma pbin_le7 s p l : pbin t s = Some (p, l) -> p <= 7.
  Proof. rewrite pbin_t. destruct s; intros H; cbv in H; inversion H; lia. Qed.
  Lemma pbin_op s p l : pbin t s = Some (p, l) -> op_of std_lt l s = s.
  Proof. rewrite pbin_t. destruct s; intros H; cbv in H; inversion H; reflexivity. Qed.
  Lemma ppre_op s p l : ppre t s = Some (p, l) -> op_of std_lt l s = s.
  Proof. rewrite ppre_t. destruct s; intros H; cbv in H; inversion H; reflexivity. Qed.

  (* ---- STEP 1: fuel monotonicity ---- *)
  Ltac mono_tac f H :=
    repeat (cbv beta iota in *;
      match goal with
      | Hs : None = Some _ |- _ => discriminate Hs
      | Hs : f ?m ?ts = Some ?r |- _ => exact (H _ _ _ Hs)
      | Hs : ?x = _ |- ?x = _ => exact Hs
      | Hs : context[match f ?m ?ts with _ => _ end] |- _ =>
          let E := fresh "E" in
          destruct (f m ts) as [[[?|?] ?]|] eqn:E;
          [rewrite (H _ _ _ E) | rewrite (H _ _ _ E) | ]
      | Hs : context[match ?x with _ => _ end] |- _ => is_var x; destruct x
      | Hs : context[match ?x with _ => _ end] |- _ => destruct x
      end).

  Lemma step_mono f g : ext f g -> ext (step t std_lt f) (step t std_lt g).
  Proof.
    intros H m ts r Hs. destruct m; unfold step in *; mono_tac f H.
  Qed.

  Lemma run_ext f : ext (run t std_lt f) (run t std_lt (S f)).
  Proof.
    induction f as [|f IH].
    - intros m ts r H. discriminate H.
    - change (ext (step t std_lt (run t std_lt f)) (step t std_lt (run t std_lt (S f)))). apply step_mono, IH.
  Qed.
  Lemma run_mono f g : f <= g -> ext (run t std_lt f) (run t std_lt g).
  Proof.
    induction 1 as [|g Hle IH].
    - intros m ts r H; exact H.
    - intros m ts r H. apply run_ext, IH, H.
  Qed.

  Definition Run (m : mode) (ts : list tok) (res : res * list tok) : Prop :=
    exists f, run t std_lt f m ts = Some res.

  Lemma Run2 m1 ts1 r1 m2 ts2 r2 : Run m1 ts1 r1 -> Run m2 ts2 r2 ->
    exists f, run t std_lt f m1 ts1 = Some r1 /\ run t std_lt f m2 ts2 = Some r2.
  Proof.
    intros [f1 A] [f2 B]. exists (max f1 f2). split.
    - apply (run_mono f1); [lia|exact A].
    - apply (run_mono f2); [lia|exact B].
  Qed.
  Lemma Run3 m1 ts1 r1 m2 ts2 r2 m3 ts3 r3 : Run m1 ts1 r1 -> Run m2 ts2 r2 -> Run m3 ts3 r3 ->
    exists f, run t std_lt f m1 ts1 = Some r1 /\ run t std_lt f m2 ts2 = Some r2 /\ run t std_lt f m3 ts3 = Some r3.
  Proof.
    intros A [f2 B] [f3 C]. destruct (Run2 _ _ _ _ _ _ A (ex_intro _ f2 B)) as [f [A' B']].
    exists (max f f3). repeat split.
    - apply (run_mono f); [lia|exact A'].
    - apply (run_mono f); [lia|exact B'].
    - apply (run_mono f3); [lia|exact C].
  Qed.

  Ltac unf f := exists (S f); change (run t std_lt (S f)) with (step t std_lt (run t std_lt f)); unfold step; cbv beta iota.

  Lemma Run_primary_atom a rest :
    match rest with TLp :: _ => False | _ => True end ->
    Run MPrimary (atok a :: rest) (RE (aexpr a), rest).
  Proof.
    intros H. exists 1. destruct a as [x|n|[|]|s]; try reflexivity.
    destruct rest as [|[] rest]; try reflexivity. contradiction.
  Qed.

  Lemma Run_primary_paren r e r' :
    Run MExpression r (RE e, TRp :: r') -> Run MPrimary (TLp :: r) (RE e, r').
  Proof. intros [f H]. unf f. rewrite H. reflexivity. Qed.

  Lemma no_if_expr f lvl r res : run t std_lt f (MExpr lvl) (TIf :: r) = Some res -> False.
  Proof.
    destruct f as [|[|f]]; discriminate.
  Qed.

  Lemma Run_expression ts res : Run (MExpr 0) ts res -> Run MExpression ts res.
  Proof.
    intros [f H]. destruct ts as [|k r]; [unf f; exact H|].
    destruct k; try (unf f; exact H).
    exfalso. eapply no_if_expr, H.
  Qed.

  Lemma Run_expr_prefix s p l lvl r res :
    ppre t s = Some (p, l) ->
    (exists x0 rem, Run (MExpr p) r (RE x0, rem) /\ Run (MLoop lvl (Un s x0)) rem res) ->
    Run (MExpr lvl) (TSym s :: r) res.
  Proof.
    intros Hp (x0 & rem & A & B). destruct (Run2 _ _ _ _ _ _ A B) as [f [A' B']].
    unf f. rewrite Hp, A'. rewrite (build_un_std _ _ _ (ppre_op _ _ _ Hp)). exact B'.
  Qed.

  Definition nopow (r : list tok) : Prop :=
    match r with TSym s :: _ => is_pow s = false | _ => True end.

  Lemma prim_not_sym f s r res : run t std_lt f MPrimary (TSym s :: r) = Some res -> False.
  Proof. destruct f; discriminate. Qed.

  Lemma Run_expr_prim lvl ts a r res :
    Run MPrimary ts (RE a, r) -> nopow r -> Run (MLoop lvl a) r res -> Run (MExpr lvl) ts res.
  Proof.
    intros A Hn B. destruct (Run2 _ _ _ _ _ _ A B) as [f [A' B']].
    assert (G : match run t std_lt f MPrimary ts with
                | Some (RE a, TSym s :: r) =>
                    match ppow t s with
                    | Some l =>
                      match run t std_lt f MPrimary r with
                      | Some (RE b, r') => run t std_lt f (MLoop lvl (build_bin std_lt l s a b)) r'
                      | _ => None
                      end
                    | None => run t std_lt f (MLoop lvl a) (TSym s :: r)
                    end
                | Some (RE a, r) => run t std_lt f (MLoop lvl a) r
                | _ => None
                end = Some res).
    { rewrite A'. destruct r as [|[] r0]; try exact B'.
      cbn in Hn. rewrite ppow_t. unfold ppow_spec. rewrite Hn. exact B'. }
    destruct ts as [|k ts']; [unf f; exact G|].
    destruct k; try (unf f; exact G).
    exfalso. eapply prim_not_sym, A'.
  Qed.

  Lemma Run_expr_pow lvl ts a s r b r' res :
    Run MPrimary ts (RE a, TSym s :: r) -> is_pow s = true -> Run MPrimary r (RE b, r') ->
    Run (MLoop lvl (Bin s a b)) r' res -> Run (MExpr lvl) ts res.
  Proof.
    intros A Hp B C. destruct (Run3 _ _ _ _ _ _ _ _ _ A B C) as [f (A' & B' & C')].
    assert (G : match run t std_lt f MPrimary ts with
                | Some (RE a, TSym s :: r) =>
                    match ppow t s with
                    | Some l =>
                      match run t std_lt f MPrimary r with
                      | Some (RE b, r') => run t std_lt f (MLoop lvl (build_bin std_lt l s a b)) r'
                      | _ => None
                      end
                    | None => run t std_lt f (MLoop lvl a) (TSym s :: r)
                    end
                | Some (RE a, r) => run t std_lt f (MLoop lvl a) r
                | _ => None
                end = Some res).
    { rewrite A', ppow_t. unfold ppow_spec. rewrite Hp, B'. exact C'. }
    destruct ts as [|k ts']; [unf f; exact G|].
    destruct k; try (unf f; exact G).
    exfalso. eapply prim_not_sym, A'.
  Qed.

  Lemma Loop_step lvl acc s p l r e2 r' res :
    pbin t s = Some (p, l) -> lvl <= p -> Run (MExpr (S p)) r (RE e2, r') ->
    Run (MLoop lvl (Bin s acc e2)) r' res -> Run (MLoop lvl acc) (TSym s :: r) res.
  Proof.
    intros Hp Hl A B. destruct (Run2 _ _ _ _ _ _ A B) as [f [A' B']].
    unf f. rewrite Hp. destruct (Nat.leb_spec lvl p); [|lia]. rewrite A'.
    rewrite (build_bin_std _ _ _ _ (pbin_op _ _ _ Hp)). exact B'.
  Qed.

  Definition head_le (p : nat) (rest : list tok) : Prop :=
    match rest with
    | TSym s :: _ => match pbin t s with Some (p', _) => p' <= p | None => True end
    | _ => True
    end.

  Lemma Loop_stop_le p lvl acc rest : head_le p rest -> p < lvl -> Run (MLoop lvl acc) rest (RE acc, rest).
  Proof.
    intros H Hl. exists 1. change (run t std_lt 1) with (step t std_lt (run t std_lt 0)). unfold step. cbv beta iota.
    destruct rest as [|[] r]; try reflexivity.
    cbn in H. destruct (pbin t s) as [[n l]|]; [|reflexivity].
    destruct (Nat.leb_spec lvl n); [lia|reflexivity].
  Qed.
  Lemma Loop_stop_rp lvl acc rest : Run (MLoop lvl acc) (TRp :: rest) (RE acc, TRp :: rest).
  Proof. exists 1. reflexivity. Qed.
  Lemma Loop_stop_nil lvl acc : Run (MLoop lvl acc) [] (RE acc, []).
  Proof. exists 1. reflexivity. Qed.
  Lemma head_le_7 rest : head_le 7 rest.
  Proof.
    destruct rest as [|[] r]; cbn; auto. destruct (pbin t s) as [[n l]|] eqn:E; auto. eapply pbin_le7; eauto.
  Qed.
  Lemma head_le_mono p p' rest : p <= p' -> head_le p rest -> head_le p' rest.
  Proof. destruct rest as [|[] r]; cbn; auto. destruct (pbin t s) as [[n l]|]; auto. lia. Qed.
  Lemma Loop_stop_hi lvl acc rest : 8 <= lvl -> Run (MLoop lvl acc) rest (RE acc, rest).
  Proof. intros. apply (Loop_stop_le 7); [apply head_le_7|lia]. Qed.


  (* ---- STEP 2: the invariants ---- *)
  Definition nolp (rest : list tok) : Prop := match rest with TLp :: _ => False | _ => True end.
  Definition rest_ok (rest : list tok) : Prop :=
    match rest with TSym s :: _ => is_pow s = false | TLp :: _ => False | _ => True end.
  Definition top_ok (q : nat) (e : sexpr) (rest : list tok) : Prop :=
    match e with
    | SBin o _ _ => if is_pow o then True else q <= blev o -> head_le (blev o) rest
    | SUn o _ => if is_sign o then True else q <= ulev o -> head_le 3 rest
    | _ => True
    end.
  Definition eff (q : nat) (e : sexpr) : nat :=
    match e with
    | SBin o _ _ => if is_pow o then 9 else if q <=? blev o then blev o else 9
    | SUn o _ => if q <=? ulev o then ulev o else 9
    | _ => 9
    end.
  Definition primlike (q : nat) (e : sexpr) : bool :=
    match e with
    | SAtom _ | SPar _ => true
    | SUn o _ => negb (q <=? ulev o)
    | SBin o _ _ => negb (q <=? blev o)
    | SIf _ _ _ _ => negb (q <=? 1)
    | SCall _ _ => true
    end.

  (* an if-expression is printed bare only in `expression` positions (q <= 1) *)
  Definition ifok (q : nat) (e : sexpr) : Prop :=
    match e with SIf _ _ _ _ => 2 <= q | _ => True end.
  (* what may follow an `expression`: anything but an operator or '(' *)
  Definition closing (rest : list tok) : Prop :=
    match rest with TSym _ :: _ => False | TLp :: _ => False | _ => True end.
  Lemma ifok_ge2 q e : 2 <= q -> ifok q e.
  Proof. destruct e; cbn; auto. Qed.
  Lemma closing_rest_ok rest : closing rest -> rest_ok rest.
  Proof. destruct rest as [|[] r]; cbn; auto; contradiction. Qed.
  Lemma closing_head_le p rest : closing rest -> head_le p rest.
  Proof. destruct rest as [|[] r]; cbn; auto; contradiction. Qed.
  Lemma Loop_stop_closing lvl acc rest : closing rest -> Run (MLoop lvl acc) rest (RE acc, rest).
  Proof. intros H. exists 1. destruct rest as [|[] r]; try reflexivity; contradiction. Qed.

  Lemma rest_ok_nolp rest : rest_ok rest -> nolp rest.
  Proof. destruct rest as [|[] r]; cbn; auto. Qed.
  Lemma rest_ok_nopow rest : rest_ok rest -> nopow rest.
  Proof. destruct rest as [|[] r]; cbn; auto. Qed.
  Lemma eff_ge q e : q <= 9 -> q <= eff q e.
  Proof.
    intros. destruct e; cbn [eff]; try lia.
    - destruct (Nat.leb_spec q (ulev o)); lia.
    - destruct (is_pow o); [lia|]. destruct (Nat.leb_spec q (blev o)); lia.
  Qed.
  Lemma primlike9 e : primlike 9 e = true.
  Proof. destruct e; try reflexivity; destruct o; reflexivity. Qed.
  Lemma top_ok_rp q e rest : top_ok q e (TRp :: rest).
  Proof.
    destruct e; cbn [top_ok head_le]; auto.
    - destruct (is_sign o); auto.
    - destruct (is_pow o); auto.
  Qed.
  Lemma top_ok_nil q e : top_ok q e [].
  Proof.
    destruct e; cbn [top_ok head_le]; auto.
    - destruct (is_sign o); auto.
    - destruct (is_pow o); auto.
  Qed.
  Lemma top_ok_of_head q e rest p : p < q -> head_le p rest -> top_ok q e rest.
  Proof.
    intros Hp Hh. destruct e; cbn [top_ok]; auto.
    - destruct (is_sign o) eqn:Hs; auto. intros Hq. eapply head_le_mono; [|exact Hh].
      destruct o; cbn [ulev is_sign] in *; try discriminate; lia.
    - destruct (is_pow o); auto. intros Hq. eapply head_le_mono; [|exact Hh]. lia.
  Qed.
  Lemma top_ok_sym q e o p l rest : pbin t o = Some (p, l) -> p <= q -> p <> 4 -> top_ok q e (TSym o :: rest).
  Proof.
    intros Hp Hq H4. destruct e; cbn [top_ok head_le]; auto.
    - destruct (is_sign o0) eqn:Hs; auto. intros Hu. rewrite Hp.
      destruct o0; cbn [ulev is_sign] in *; try discriminate; lia.
    - destruct (is_pow o0); auto. intros Hu. rewrite Hp. lia.
  Qed.

  Definition PrimP (e : sexpr) : Prop := forall q rest, primlike q e = true -> nolp rest ->
    Run MPrimary (pr q e ++ rest) (RE (rs None e), rest).
  Definition MainP (e : sexpr) : Prop := forall q lvl rest res,
    q <= 9 -> ifok q e -> lvl <= eff q e -> top_ok q e rest -> rest_ok rest ->
    Run (MLoop lvl (rs None e)) rest res -> Run (MExpr lvl) (pr q e ++ rest) res.
  Definition SignP (e : sexpr) : Prop := forall o lvl rest res,
    is_sign o = true -> lvl <= 7 -> rest_ok rest ->
    Run (MLoop lvl (rs (Some o) e)) rest res ->
    exists x0 rem, Run (MExpr 9) (pr 7 e ++ rest) (RE x0, rem) /\ Run (MLoop lvl (Un o x0)) rem res.
  Definition ExprP (e : sexpr) : Prop := forall rest, closing rest ->
    Run MExpression (pr 0 e ++ rest) (RE (rs None e), rest).
  Definition All (e : sexpr) : Prop := PrimP e /\ MainP e /\ SignP e /\ ExprP e.

  Lemma Prim_paren_E body x rest :
    Run MExpression (body ++ TRp :: rest) (RE x, TRp :: rest) -> Run MPrimary (paren body ++ rest) (RE x, rest).
  Proof.
    intros H. unfold paren. cbn [app]. rewrite <- app_assoc. cbn [app].
    apply Run_primary_paren, H.
  Qed.
  Lemma Prim_paren body x rest :
    Run (MExpr 0) (body ++ TRp :: rest) (RE x, TRp :: rest) -> Run MPrimary (paren body ++ rest) (RE x, rest).
  Proof. intros H. apply Prim_paren_E, Run_expression, H. Qed.

  Lemma top_ok_closing q e rest : closing rest -> top_ok q e rest.
  Proof.
    intros H. destruct e; cbn [top_ok]; auto.
    - destruct (is_sign o); auto. intros _. apply closing_head_le, H.
    - destruct (is_pow o); auto. intros _. apply closing_head_le, H.
  Qed.

  Lemma Expr_of_Main e : (forall q, ifok q e) -> MainP e -> ExprP e.
  Proof.
    intros Hi HM rest Hc. apply Run_expression.
    apply (HM 0 0); [lia | apply Hi | lia | apply top_ok_closing, Hc | apply closing_rest_ok, Hc
                    | apply Loop_stop_closing, Hc].
  Qed.

  Lemma Main_of_Prim e q lvl rest res :
    PrimP e -> primlike q e = true -> rest_ok rest ->
    Run (MLoop lvl (rs None e)) rest res -> Run (MExpr lvl) (pr q e ++ rest) res.
  Proof.
    intros HP Hp Hr HL.
    eapply Run_expr_prim; [apply HP; [exact Hp|apply rest_ok_nolp, Hr] | apply rest_ok_nopow, Hr | exact HL].
  Qed.

  Lemma Sign_of_Main e :
    MainP e -> (forall o, rs (Some o) e = Un o (rs None e)) -> eff 7 e = 9 ->
    (forall rest, top_ok 7 e rest) -> SignP e.
  Proof.
    intros HM Hrs He Ht o lvl rest res Hs Hl Hr HL.
    exists (rs None e), rest. split.
    - apply (HM 7 9); [lia | apply ifok_ge2; lia | rewrite He; lia | apply Ht | exact Hr
                      | apply Loop_stop_hi; lia].
    - rewrite <- Hrs. exact HL.
  Qed.

  Lemma wrapup e body lv lv' (tk : list tok -> Prop) :
    (forall q, pr q e = if q <=? lv then body else paren body) ->
    (forall q, primlike q e = negb (q <=? lv)) ->
    (forall lvl rest res, lvl <= lv' -> tk rest -> rest_ok rest ->
        Run (MLoop lvl (rs None e)) rest res -> Run (MExpr lvl) (body ++ rest) res) ->
    (forall rest, tk (TRp :: rest)) ->
    (forall q rest, q <= lv -> top_ok q e rest -> tk rest) ->
    (forall q, q <= lv -> eff q e <= lv') ->
    PrimP e /\ MainP e.
  Proof.
    intros Hpr Hpl NP Htk Htop Heff.
    assert (HP : PrimP e).
    { intros q rest Hp Hn. rewrite Hpr. rewrite Hpl in Hp. destruct (q <=? lv); [discriminate|].
      apply Prim_paren. apply NP; [lia | apply Htk | exact I | apply Loop_stop_rp]. }
    split; [exact HP|].
    intros q lvl rest res Hq _ Hl Ht Hr HL.
    destruct (Nat.leb_spec q lv) as [Hle|Hgt].
    - rewrite Hpr. rewrite (proj2 (Nat.leb_le q lv) Hle).
      apply NP; [specialize (Heff q Hle); lia | eapply Htop; eauto | exact Hr | exact HL].
    - apply Main_of_Prim; auto. rewrite Hpl. rewrite (proj2 (Nat.leb_gt q lv) Hgt). reflexivity.
  Qed.

  (* ---- the cases ---- *)
  Lemma case_atom a : All (SAtom a).
  Proof.
    assert (HP : PrimP (SAtom a)).
    { intros q rest _ Hn. cbn [pr app rs wrap]. apply Run_primary_atom, Hn. }
    assert (HM : MainP (SAtom a)).
    { intros q lvl rest res _ _ _ _ Hr HL. apply Main_of_Prim; auto. }
    split; [exact HP|]. split; [exact HM|]. split.
    - apply Sign_of_Main; [exact HM | intros; reflexivity | reflexivity | intros; exact I].
    - apply Expr_of_Main; [intros; exact I | exact HM].
  Qed.

  Lemma case_par e1 : All e1 -> All (SPar e1).
  Proof.
    intros (P1 & M1 & S1 & E1).
    assert (HP : PrimP (SPar e1)).
    { intros q rest _ Hn. cbn [pr rs wrap]. apply Prim_paren_E. apply E1. exact I. }
    assert (HM : MainP (SPar e1)).
    { intros q lvl rest res _ _ _ _ Hr HL. apply Main_of_Prim; auto. }
    split; [exact HP|]. split; [exact HM|]. split.
    - apply Sign_of_Main; [exact HM | intros; reflexivity | reflexivity | intros; exact I].
    - apply Expr_of_Main; [intros; exact I | exact HM].
  Qed.

  Lemma sign_facts o : is_sign o = true -> ulev o = 6 /\ uq o = 7 /\ ppre t o = Some (9, LSigned).
  Proof. rewrite ppre_t. destruct o; try discriminate; auto. Qed.

  Lemma Sign_un o e1 : MainP (SUn o e1) -> SignP (SUn o e1).
  Proof.
    intros HM. apply Sign_of_Main; [exact HM | intros; reflexivity | destruct o; reflexivity | ].
    intros rest; destruct o; cbn [top_ok is_sign ulev]; auto; intros; lia.
  Qed.

  Lemma case_sign o e1 : is_sign o = true -> All e1 -> All (SUn o e1).
  Proof.
    intros Hs (P1 & M1 & S1 & E1). destruct (sign_facts o Hs) as (Hu & Hq & Hp).
    assert (Hrs : rs None (SUn o e1) = rs (Some o) e1) by (cbn [rs wrap]; rewrite Hs; reflexivity).
    destruct (wrapup (SUn o e1) (TSym o :: pr 7 e1) 6 7 (fun _ => True)) as [HP HM].
    - intros q. cbn [pr]. rewrite Hu, Hq. reflexivity.
    - intros q. cbn [primlike]. rewrite Hu. reflexivity.
    - intros lvl rest res Hl _ Hr HL. cbn [app]. apply Run_expr_prefix with (p := 9) (l := LSigned); [exact Hp|].
      apply S1; auto. rewrite <- Hrs. exact HL.
    - auto.
    - auto.
    - intros q Hle. cbn [eff]. rewrite Hu. destruct (Nat.leb_spec q 6); lia.
    - split; [exact HP|]. split; [exact HM|]. split; [apply Sign_un, HM|].
      apply Expr_of_Main; [intros; exact I | exact HM].
  Qed.

  Lemma case_not e1 : All e1 -> All (SUn SNot e1).
  Proof.
    intros (P1 & M1 & S1 & E1).
    destruct (wrapup (SUn SNot e1) (TSym SNot :: pr 5 e1) 4 4 (head_le 3)) as [HP HM].
    - intros q. reflexivity.
    - intros q. reflexivity.
    - intros lvl rest res Hl Hh Hr HL. cbn [app].
      apply Run_expr_prefix with (p := 4) (l := LNot); [rewrite ppre_t; reflexivity|].
      exists (rs None e1), rest. split; [|exact HL].
      apply (M1 5 4); [lia | apply ifok_ge2; lia | pose proof (eff_ge 5 e1); lia
                      | apply (top_ok_of_head _ _ _ 3); [lia|exact Hh] | exact Hr
                      | apply (Loop_stop_le 3); [exact Hh|lia]].
    - intros; exact I.
    - intros q rest Hq Ht. cbn [top_ok is_sign ulev] in Ht. apply Ht. exact Hq.
    - intros q Hq. cbn [eff ulev]. destruct (Nat.leb_spec q 4); lia.
    - split; [exact HP|]. split; [exact HM|]. split; [apply Sign_un, HM|].
      apply Expr_of_Main; [intros; exact I | exact HM].
  Qed.

  Lemma rs_none_bin o l r : rs None (SBin o l r) = Bin o (rs None l) (rs None r).
  Proof. cbn [rs wrap]. destruct (is_mul o); reflexivity. Qed.

  Lemma case_pow o l r : is_pow o = true -> All l -> All r -> All (SBin o l r).
  Proof.
    intros Hpw (PL & ML & SL & EL) (PR & MR & SR & ER).
    assert (Hb : blev o = 8 /\ lq o = 9 /\ rq o = 9 /\ is_mul o = false)
      by (destruct o; try discriminate; auto).
    destruct Hb as (Hb & Hlq & Hrq & Hm).
    destruct (wrapup (SBin o l r) (pr 9 l ++ TSym o :: pr 9 r) 8 9 (fun _ => True)) as [HP HM].
    - intros q. cbn [pr]. rewrite Hb, Hlq, Hrq. reflexivity.
    - intros q. cbn [primlike]. rewrite Hb. reflexivity.
    - intros lvl rest res _ _ Hr HL. rewrite <- app_assoc. cbn [app].
      rewrite rs_none_bin in HL.
      eapply Run_expr_pow; [apply PL; [apply primlike9|exact I] | exact Hpw
                           | apply PR; [apply primlike9|apply rest_ok_nolp, Hr] | exact HL].
    - auto.
    - auto.
    - intros q Hq. cbn [eff]. rewrite Hpw. lia.
    - split; [exact HP|]. split; [exact HM|]. split.
      + apply Sign_of_Main; [exact HM | intros s; cbn [rs]; rewrite Hm; reflexivity
                            | cbn [eff]; rewrite Hpw; reflexivity
                            | intros rest; cbn [top_ok]; rewrite Hpw; exact I].
      + apply Expr_of_Main; [intros; exact I | exact HM].
  Qed.

  Lemma bin_facts o : is_binop o = true -> is_pow o = false ->
    blev o <= lq o /\ lq o <= 9 /\ rq o = S (blev o) /\ pbin t o = Some (blev o, blabel o) /\ blev o <= 7 /\ blev o <> 4
    /\ 2 <= blev o.
  Proof.
    rewrite pbin_t. destruct o; cbn; try discriminate; intros _ _; repeat split; try lia; reflexivity.
  Qed.

  Lemma case_bin o l r : is_binop o = true -> is_pow o = false -> All l -> All r -> All (SBin o l r).
  Proof.
    intros Hbo Hpw (PL & ML & SL & EL) (PR & MR & SR & ER).
    destruct (bin_facts o Hbo Hpw) as (Hlq & Hlq9 & Hrq & Hpb & Hb7 & Hb4 & Hb2).
    destruct (wrapup (SBin o l r) (pr (lq o) l ++ TSym o :: pr (rq o) r) (blev o) (blev o)
                     (head_le (blev o))) as [HP HM].
    - intros q. reflexivity.
    - intros q. reflexivity.
    - intros lvl rest res Hl Hh Hr HL. rewrite <- app_assoc. cbn [app]. rewrite rs_none_bin in HL.
      apply (ML (lq o)).
      + exact Hlq9.
      + apply ifok_ge2; lia.
      + pose proof (eff_ge (lq o) l Hlq9). lia.
      + apply (top_ok_sym _ _ _ (blev o) (blabel o)); auto.
      + exact Hpw.
      + eapply Loop_step; [exact Hpb | exact Hl | | exact HL].
        rewrite Hrq. apply (MR (S (blev o))).
        * lia.
        * apply ifok_ge2; lia.
        * apply eff_ge. lia.
        * apply (top_ok_of_head _ _ _ (blev o)); [lia|exact Hh].
        * exact Hr.
        * apply (Loop_stop_le (blev o)); [exact Hh|lia].
    - intros; exact I.
    - intros q rest Hq Ht. cbn [top_ok] in Ht. rewrite Hpw in Ht. auto.
    - intros q Hq. cbn [eff]. rewrite Hpw. destruct (Nat.leb_spec q (blev o)); lia.
    - split; [exact HP|]. split; [exact HM|].
      split; [|apply Expr_of_Main; [intros; exact I | exact HM]].
      destruct (is_mul o) eqn:Hm.
      + (* a product: the pending sign goes to the left-most factor *)
        assert (Hb : blev o = 7 /\ lq o = 7) by (destruct o; try discriminate; auto).
        destruct Hb as [Hb Hl7].
        intros s lvl rest res Hs Hl Hr HL.
        assert (Hpr : pr 7 (SBin o l r) = pr 7 l ++ TSym o :: pr 8 r).
        { cbn [pr]. rewrite Hl7, Hrq, Hb. reflexivity. }
        rewrite Hpr. rewrite <- app_assoc. cbn [app].
        apply SL; [exact Hs | exact Hl | exact Hpw |].
        eapply Loop_step; [exact Hpb | lia | | ].
        * rewrite Hb. apply (MR 8 8); [lia | apply ifok_ge2; lia | apply eff_ge; lia
                                      | apply (top_ok_of_head _ _ _ 7); [lia|apply head_le_7]
                                      | exact Hr | apply Loop_stop_hi; lia].
        * cbn [rs] in HL. rewrite Hm in HL. exact HL.
      + apply Sign_of_Main; [exact HM | intros s; cbn [rs]; rewrite Hm; reflexivity | | ].
        * cbn [eff]. rewrite Hpw. destruct o; try discriminate; reflexivity.
        * intros rest. cbn [top_ok]. rewrite Hpw. intros H7.
          destruct o; cbn [blev] in H7; try discriminate; lia.
  Qed.

  (* ---- if-expressions with elseif branches ---- *)
  Lemma Run_mif_else acc ts c r1 b r2 e r3 :
    Run MExpression ts (RE c, TThen :: r1) -> Run MExpression r1 (RE b, TElse :: r2) ->
    Run MExpression r2 (RE e, r3) -> Run (MIf acc) ts (RL (acc ++ [c; b; e]), r3).
  Proof.
    intros A B C. destruct (Run3 _ _ _ _ _ _ _ _ _ A B C) as [f (A' & B' & C')].
    unf f. rewrite A', B', C'. reflexivity.
  Qed.
  Lemma Run_mif_elseif acc ts c r1 b r2 res :
    Run MExpression ts (RE c, TThen :: r1) -> Run MExpression r1 (RE b, TElseif :: r2) ->
    Run (MIf (acc ++ [c; b])) r2 res -> Run (MIf acc) ts res.
  Proof.
    intros A B C. destruct (Run3 _ _ _ _ _ _ _ _ _ A B C) as [f (A' & B' & C')].
    unf f. rewrite A', B'. exact C'.
  Qed.
  Lemma Run_if_top r all r' :
    Run (MIf []) r (RL all, r') -> Run MExpression (TIf :: r) (RE (mk_if all), r').
  Proof. intros [f H]. unf f. rewrite H. reflexivity. Qed.

  Definition elifs_toks (el : list (sexpr * sexpr)) : list tok :=
    concat (map (fun p => let '(c', b') := p in TElseif :: pr 0 c' ++ TThen :: pr 0 b') el).
  Definition if_body (c th : sexpr) (el : list (sexpr * sexpr)) (e : sexpr) : list tok :=
    TIf :: pr 0 c ++ TThen :: pr 0 th ++ elifs_toks el ++ TElse :: pr 0 e.
  Fixpoint flat (el : list (sexpr * sexpr)) : list expr :=
    match el with [] => [] | (c', b') :: r => rs None c' :: rs None b' :: flat r end.

  Lemma pr_if q c th el e :
    pr q (SIf c th el e) = if q <=? 1 then if_body c th el e else paren (if_body c th el e).
  Proof. reflexivity. Qed.
  Lemma rs_if pend c th el e :
    rs pend (SIf c th el e) =
    wrap pend (IfE (rs None c :: map (fun p => let '(c', _) := p in rs None c') el)
                   (rs None th :: map (fun p => let '(_, b') := p in rs None b') el ++ [rs None e])).
  Proof. reflexivity. Qed.
  Lemma elifs_cons c' b' el R :
    elifs_toks ((c', b') :: el) ++ R = TElseif :: pr 0 c' ++ TThen :: pr 0 b' ++ elifs_toks el ++ R.
  Proof.
    unfold elifs_toks. cbn [map concat]. rewrite <- app_assoc. cbn [app]. rewrite <- app_assoc.
    reflexivity.
  Qed.
  Lemma if_body_app c th el e rest :
    if_body c th el e ++ rest =
    TIf :: pr 0 c ++ TThen :: pr 0 th ++ elifs_toks el ++ TElse :: pr 0 e ++ rest.
  Proof.
    unfold if_body. cbn [app]. rewrite <- app_assoc. cbn [app]. rewrite <- app_assoc.
    rewrite <- app_assoc. reflexivity.
  Qed.

  Lemma every2_cons2 {A} (a b : A) l : every2 (a :: b :: l) = a :: every2 l.
  Proof. reflexivity. Qed.
  Lemma every2_flat el : every2 (flat el) = map (fun p => let '(c', _) := p in rs None c') el.
  Proof.
    induction el as [|[c' b'] el IH]; [reflexivity|].
    cbn [flat map]. rewrite every2_cons2, IH. reflexivity.
  Qed.
  Lemma every2_odd el : forall x e,
    every2 (x :: flat el ++ [e]) = x :: map (fun p => let '(_, b') := p in rs None b') el.
  Proof.
    induction el as [|[c' b'] el IH]; intros x e; [reflexivity|].
    cbn [flat map app]. rewrite every2_cons2, IH. reflexivity.
  Qed.
  Lemma last1_last {A} (l : list A) e : last1 (l ++ [e]) = [e].
  Proof. unfold last1. rewrite rev_app_distr. reflexivity. Qed.
  Lemma mk_if_flat c th el e :
    mk_if (c :: th :: flat el ++ [e]) =
    IfE (c :: map (fun p => let '(c', _) := p in rs None c') el)
        (th :: map (fun p => let '(_, b') := p in rs None b') el ++ [e]).
  Proof.
    unfold mk_if.
    pose proof (removelast_last (c :: th :: flat el) e) as HR. cbn [app] in HR. rewrite HR.
    pose proof (last1_last (c :: th :: flat el) e) as HL. cbn [app] in HL. rewrite HL.
    cbn [tl]. rewrite every2_cons2, every2_flat, every2_odd. reflexivity.
  Qed.

  Lemma Run_mif_gen e rest : ExprP e -> closing rest ->
    forall el acc c b, ExprP c -> ExprP b -> Forall (fun p => ExprP (fst p) /\ ExprP (snd p)) el ->
    Run (MIf acc) (pr 0 c ++ TThen :: pr 0 b ++ elifs_toks el ++ TElse :: pr 0 e ++ rest)
        (RL (acc ++ rs None c :: rs None b :: flat el ++ [rs None e]), rest).
  Proof.
    intros EE Hc. induction el as [|[c' b'] el IH]; intros acc c b EC EB HF.
    - unfold elifs_toks. cbn [map concat flat app].
      eapply Run_mif_else; [apply EC; exact I | apply EB; exact I | apply EE; exact Hc].
    - inversion HF as [|p l0 [EC' EB'] HF']; subst. cbn [fst snd] in *.
      rewrite elifs_cons.
      eapply Run_mif_elseif; [apply EC; exact I | apply EB; exact I | ].
      cbn [flat app].
      replace (acc ++ rs None c :: rs None b :: rs None c' :: rs None b' :: flat el ++ [rs None e])
        with ((acc ++ [rs None c; rs None b]) ++ rs None c' :: rs None b' :: flat el ++ [rs None e])
        by (rewrite <- app_assoc; reflexivity).
      apply IH; auto.
  Qed.

  Lemma case_if c th el e :
    All c -> All th -> Forall (fun p => All (fst p) /\ All (snd p)) el -> All e -> All (SIf c th el e).
  Proof.
    intros (_ & _ & _ & EC) (_ & _ & _ & ET) HF (_ & _ & _ & EE).
    assert (HF' : Forall (fun p => ExprP (fst p) /\ ExprP (snd p)) el).
    { eapply Forall_impl; [|exact HF]. intros p [(_ & _ & _ & A) (_ & _ & _ & B)]. split; assumption. }
    assert (HB : forall rest, closing rest ->
                 Run MExpression (if_body c th el e ++ rest) (RE (rs None (SIf c th el e)), rest)).
    { intros rest Hc. rewrite if_body_app, rs_if. cbn [wrap]. rewrite <- mk_if_flat.
      apply Run_if_top. apply (Run_mif_gen e rest EE Hc el [] c th EC ET HF'). }
    assert (HE : ExprP (SIf c th el e)).
    { intros rest Hc. rewrite pr_if. cbn [Nat.leb]. apply HB, Hc. }
    assert (HP : PrimP (SIf c th el e)).
    { intros q rest Hp Hn. cbn [primlike] in Hp. rewrite pr_if. destruct (q <=? 1); [discriminate|].
      apply Prim_paren_E. apply HB. exact I. }
    assert (HM : MainP (SIf c th el e)).
    { intros q lvl rest res _ Hi _ _ Hr HL. apply Main_of_Prim; auto.
      cbn [ifok] in Hi. cbn [primlike]. destruct (Nat.leb_spec q 1); [lia|reflexivity]. }
    split; [exact HP|]. split; [exact HM|]. split; [|exact HE].
    apply Sign_of_Main; [exact HM | intros; reflexivity | reflexivity | intros; exact I].
  Qed.

  (* ---- function calls ---- *)
  Lemma Run_args_last acc ts e r :
    Run MExpression ts (RE e, TRp :: r) -> Run (MArgs acc) ts (RL (acc ++ [e]), r).
  Proof. intros [f H]. unf f. rewrite H. reflexivity. Qed.
  Lemma Run_args_comma acc ts e r res :
    Run MExpression ts (RE e, TComma :: r) -> Run (MArgs (acc ++ [e])) r res -> Run (MArgs acc) ts res.
  Proof.
    intros A B. destruct (Run2 _ _ _ _ _ _ A B) as [f [A' B']]. unf f. rewrite A'. exact B'.
  Qed.
  Lemma Run_primary_call f r a r' :
    Run (MArgs []) r (RL a, r') -> Run MPrimary (ftoks f ++ r) (RE (Call f a), r').
  Proof. intros [n H]. destruct f; cbn [ftoks app]; unf n; rewrite H; reflexivity. Qed.

  Lemma Run_args rest : forall args acc, args <> [] -> Forall ExprP args ->
    Run (MArgs acc) (join (map (pr 0) args) ++ TRp :: rest) (RL (acc ++ map (rs None) args), rest).
  Proof.
    induction args as [|a args IH]; intros acc Hne HF; [contradiction|].
    inversion HF as [|x l0 EA HF']; subst.
    destruct args as [|a2 args].
    - cbn [map join]. apply Run_args_last. apply EA. exact I.
    - change (join (map (pr 0) (a :: a2 :: args)))
        with (pr 0 a ++ TComma :: join (map (pr 0) (a2 :: args))).
      rewrite <- app_assoc. cbn [app].
      eapply Run_args_comma; [apply EA; exact I|].
      replace (acc ++ map (rs None) (a :: a2 :: args))
        with ((acc ++ [rs None a]) ++ map (rs None) (a2 :: args))
        by (rewrite <- app_assoc; reflexivity).
      apply IH; [discriminate|exact HF'].
  Qed.

  Lemma case_call f args : args <> [] -> Forall All args -> All (SCall f args).
  Proof.
    intros Hne HF.
    assert (HF' : Forall ExprP args).
    { eapply Forall_impl; [|exact HF]. intros a (_ & _ & _ & A). exact A. }
    assert (HP : PrimP (SCall f args)).
    { intros q rest _ Hn.
      change (pr q (SCall f args)) with (ftoks f ++ join (map (pr 0) args) ++ [TRp]).
      change (rs None (SCall f args)) with (Call f (map (rs None) args)).
      rewrite <- app_assoc. rewrite <- app_assoc. cbn [app].
      apply Run_primary_call. apply (Run_args rest args [] Hne HF'). }
    assert (HM : MainP (SCall f args)).
    { intros q lvl rest res _ _ _ _ Hr HL. apply Main_of_Prim; auto. }
    split; [exact HP|]. split; [exact HM|]. split.
    - apply Sign_of_Main; [exact HM | intros; reflexivity | reflexivity | intros; exact I].
    - apply Expr_of_Main; [intros; exact I | exact HM].
  Qed.

  Lemma all_ok : forall e, wf e = true -> All e.
  Proof.
    apply (sexpr_ind' (fun e => wf e = true -> All e)); cbv beta; cbn [wf].
    - intros a _. apply case_atom.
    - intros e1 IH1 Hw. apply case_par; auto.
    - intros o e1 IH1 Hw. apply andb_true_iff in Hw. destruct Hw as [Hu Hw].
      destruct (is_sign o) eqn:Hs.
      + apply case_sign; auto.
      + assert (o = SNot) by (destruct o; try discriminate; reflexivity). subst o.
        apply case_not; auto.
    - intros o l r IHl IHr Hw. rewrite !andb_true_iff in Hw. destruct Hw as [[Hb Hwl] Hwr].
      destruct (is_pow o) eqn:Hp; [apply case_pow | apply case_bin]; auto.
    - intros c th el e IHc IHt IHel IHe Hw. rewrite !andb_true_iff in Hw.
      destruct Hw as [[[Hwc Hwt] Hwel] Hwe].
      apply case_if; [auto | auto | | auto].
      rewrite Forall_forall in IHel. rewrite forallb_forall in Hwel.
      apply Forall_forall. intros [c' b'] Hin.
      specialize (Hwel _ Hin). cbn beta iota in Hwel. apply andb_true_iff in Hwel. destruct Hwel as [W1 W2].
      destruct (IHel _ Hin) as [A B]. cbn [fst snd] in *. split; [apply A | apply B]; assumption.
    - intros f args IH Hw. apply andb_true_iff in Hw. destruct Hw as [Hne Hall].
      apply case_call.
      + destruct args; [discriminate Hne | discriminate].
      + rewrite Forall_forall in IH. rewrite forallb_forall in Hall.
        apply Forall_forall. intros a Hin. apply IH; auto.
  Qed.

  (* ---- STEP 3 ---- *)
  Theorem roundtrip_run e : wf e = true -> Run MExpression (pr 0 e) (RE (resign e), []).
  Proof.
    intros Hw. destruct (all_ok e Hw) as (_ & _ & _ & HE).
    rewrite <- (app_nil_r (pr 0 e)). apply (HE []). exact I.
  Qed.
End Proof.

Lemma listener_ok_eq lt : listener_ok lt = true -> lt = std_lt.
Proof. unfold listener_ok. destruct (ltable_eq_dec lt std_lt); [auto|discriminate]. Qed.

Theorem roundtrip (t : table) (lt : ltable) (e : sexpr) :
  tab_ok t = true -> listener_ok lt = true -> wf e = true ->
  exists fuel, parse_antlr t lt fuel (pr 0 e) = Some (resign e).
Proof.
  intros Ht Hl Hw. apply listener_ok_eq in Hl. subst lt.
  destruct (roundtrip_run t Ht e Hw) as [f H].
  exists f. unfold parse_antlr. rewrite H. reflexivity.
Qed.

Theorem roundtrip_fuel (t : table) (lt : ltable) (e : sexpr) :
  tab_ok t = true -> listener_ok lt = true -> wf e = true ->
  exists fuel, forall F, fuel <= F -> parse_antlr t lt F (pr 0 e) = Some (resign e).
Proof.
  intros Ht Hl Hw. apply listener_ok_eq in Hl. subst lt.
  destruct (roundtrip_run t Ht e Hw) as [f H].
  exists f. intros F HF. unfold parse_antlr. rewrite (run_mono t f F HF _ _ _ H). reflexivity.
Qed.

Print Assumptions roundtrip.
Print Assumptions roundtrip_fuel.
